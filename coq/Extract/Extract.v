(* Extraction of the executable model to OCaml.  ExtrOcamlBasic only
   (bool/option/list/prod/unit/sumbool mapped to OCaml's); N, Z, positive and
   nat stay the extracted inductive datatypes.  No Extract Constant. *)
From Coq Require Extraction ExtrOcamlBasic.
From SyModel Require Import Adler Delta Filter Bisync Engine EngineFaults Wire Sparse Verify Links Temp Crash Caches Xattr.
Extraction Language OCaml.
Set Extraction AccessOpaque.
Extraction "model.ml"
  Adler.hash Adler.state_of Adler.digest Adler.roll Adler.roll_run Adler.windows
  Delta.block_size_for Delta.apply Delta.copy_in_range Delta.cks_id Delta.gen_mem_id Delta.gen_stream_id Delta.gen_stream_impl Delta.list_eqb
  Filter.should_include Filter.build_rules Filter.engine_select Filter.listing_ok
  Bisync.classify Bisync.resolve Bisync.bisync Bisync.run_step Bisync.drop_row Bisync.write_at Bisync.empty_world Bisync.actions_of Bisync.converged
  Engine.run Engine.exit_status EngineFaults.run_f
  Wire.should_compress_smart Wire.sniff_receive_file Wire.sniff_apply_delta Sparse.receive_sparse Sparse.detect Sparse.pack
  Verify.verify Verify.verify_exit
  Links.sync_link Links.wrote_through Links.link_event Links.dry_link_event Links.sync_any Xattr.xstep Xattr.xinit Xattr.observe_attrs
  Temp.temp_name Temp.temp_path Temp.with_extension Temp.pinned_temp_path Temp.run_tasks Temp.fpath_eqb
  Crash.crash_state Crash.program_ok Crash.replans Crash.uses_temp Crash.rerun Crash.holds_source
  Caches.db_lookup Caches.db_store Caches.dc_update Caches.dc_dir_mtime Caches.dc_empty Caches.plan_resume Engine.mtime_matches.
