(* Model of /repo/src/delta/rolling.rs (Adler32::{hash, update_block, roll, digest}).
   Every intermediate is reduced mod 2^32 exactly where Rust's u32 arithmetic
   wraps (release build; a debug build panics instead -- the harness runs the
   release profile and the theorems carry the no-wrap side condition).
   Bytes are Z in [0,256).  No proofs in this file. *)
From Coq Require Import ZArith List.
From SyGen Require Import SrcConstants.
Import ListNotations.
Open Scope Z_scope.

Definition W32 : Z := 2 ^ 32.
Definition w32 (x : Z) : Z := x mod W32.

(* state = (a, b) *)
Definition adler_init : Z * Z := (1, 0).

(* one iteration of the loop shared by hash and update_block:
     a = (a + byte as u32) % MOD_ADLER;  b = (b + a) % MOD_ADLER; *)
Definition step (s : Z * Z) (x : Z) : Z * Z :=
  let a' := (w32 (fst s + x)) mod MOD_ADLER in
  (a', (w32 (snd s + a')) mod MOD_ADLER).

(* update_block: resets to (1,0) then folds *)
Definition state_of (l : list Z) : Z * Z := fold_left step l adler_init.

(* digest: (b << 16) | a  in u32 *)
Definition digest (s : Z * Z) : Z :=
  Z.lor (w32 (Z.shiftl (snd s) DIGEST_SHIFT)) (fst s).

(* Adler32::hash: same loop, (b << 16) | a *)
Definition hash (l : list Z) : Z :=
  let s := state_of l in Z.lor (w32 (Z.shiftl (snd s) HASH_SHIFT)) (fst s).

(* roll(old, new) with n = block_size as u32 *)
Definition roll (bs : Z) (s : Z * Z) (o x : Z) : Z * Z :=
  let n := w32 bs in
  let a' := (w32 (w32 (w32 (fst s + w32 (MOD_ADLER * ROLL_A_GUARD)) - o) + x)) mod MOD_ADLER in
  let n_old := (w32 (n * o)) mod MOD_ADLER in
  let b' := (w32 (w32 (w32 (w32 (snd s + w32 (MOD_ADLER * ROLL_B_GUARD)) - n_old) + a') - 1)) mod MOD_ADLER in
  (a', b').

(* a window slid along [data]: initialise on the first bs bytes, then roll once
   per remaining byte; returns the digest after initialisation and after every
   roll (what the correspondence harness prints). *)
Fixpoint roll_trace (bs : Z) (s : Z * Z) (olds news : list Z) : list Z :=
  match olds, news with
  | o :: olds', x :: news' => let s' := roll bs s o x in digest s' :: roll_trace bs s' olds' news'
  | _, _ => []
  end.

Definition roll_run (bsn : nat) (data : list Z) : list Z :=
  let s0 := state_of (firstn bsn data) in
  digest s0 :: roll_trace (Z.of_nat bsn) s0 data (skipn bsn data).

(* the directly computed digests of every window, for comparison *)
Fixpoint windows (fuel : nat) (bsn : nat) (data : list Z) : list (list Z) :=
  match fuel with
  | O => []
  | S f => if Nat.leb bsn (length data)
           then firstn bsn data :: (match data with [] => [] | _ :: t => windows f bsn t end)
           else []
  end.
