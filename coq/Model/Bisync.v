(* Model of /repo/src/bisync/{classifier,resolver,engine,state}.rs, following the two repairs
   `fix: bisync compares the bytes of equally long files ...` and `fix: bisync records the synchronised state of
   both sides after every run`.
   A side maps a path (N) to a regular file {size; mtime; content}; content is an identity (equal iff the bytes
   are equal).  The state DB maps a path to (source row, dest row), each
   (mtime, size).  Directories are skipped by the classifier and not modelled.
   Conflict copies get the first unused of the names cname_k Source p k / cname_k Dest p k.
   fs::copy gives the target the copier's current time [now]; rename keeps mtime.
   No proofs in this file. *)
From Coq Require Import NArith ZArith List Bool.
Import ListNotations.

Record fent : Type := mk_fent { f_size : N; f_mtime : Z; f_content : N }.
Record srec : Type := mk_srec { s_mtime : Z; s_size : N }.

Inductive change : Type :=
| NewInSource | NewInDest | ModifiedInSource | ModifiedInDest | DeletedFromSource | DeletedFromDest
| ModifiedBoth | CreateCreateConflict | ModifyDeleteConflict.

Inductive strategy : Type := Newer | Larger | Smaller | PreferSource | PreferDest | RenameBoth.

Inductive act : Type := CopyToSource | CopyToDest | DeleteFromSource | DeleteFromDest | RenameConflict.

(* classifier.rs: is_modified, content_equal *)
(* a time stamp that moved backwards by more than a second counts as a modification too (`fix: bisync notices a file whose time stamp
   moved backwards`); times are in seconds here *)
Definition is_modified (e : fent) (r : srec) : bool :=
  negb (N.eqb (f_size e) (s_size r)) || Z.ltb (s_mtime r) (f_mtime e) || Z.ltb (f_mtime e + 1) (s_mtime r).
Definition content_equal (s d : fent) : bool := N.eqb (f_size s) (f_size d) && N.eqb (f_content s) (f_content d).

(* classify_single_path: the arms in source order, then the catch-all *)
Definition classify (s d : option fent) (ps pd : option srec) : option change :=
  match s, d, ps, pd with
  | Some s, Some d, None, None => if content_equal s d then None else Some CreateCreateConflict
  | Some _, None, None, None => Some NewInSource
  | None, Some _, None, None => Some NewInDest
  | Some s, Some d, Some ps, Some pd =>
      match is_modified s ps, is_modified d pd with
      | false, false => None
      | true, false => Some ModifiedInSource
      | false, true => Some ModifiedInDest
      | true, true => if content_equal s d then None else Some ModifiedBoth
      end
  | None, Some d, Some _, Some pd => if is_modified d pd then Some ModifyDeleteConflict else Some DeletedFromSource
  | Some s, None, Some ps, Some _ => if is_modified s ps then Some ModifyDeleteConflict else Some DeletedFromDest
  | None, None, Some _, Some _ => None
  | Some _, None, None, Some _ => Some DeletedFromDest
  | None, Some _, Some _, None => Some DeletedFromSource
  | Some s, Some d, Some ps, None =>
      if is_modified s ps && negb (content_equal s d) then Some CreateCreateConflict
      else if content_equal s d then None else Some NewInDest
  | Some s, Some d, None, Some pd =>
      if is_modified d pd && negb (content_equal s d) then Some CreateCreateConflict
      else if content_equal s d then None else Some NewInSource
  | None, None, _, _ => None
  (* catch-all: partial prior state *)
  | Some _, None, Some _, None => Some NewInSource
  | None, Some _, None, Some _ => Some NewInDest
  end.

(* resolver.rs *)
Definition by_mtime (s d : option fent) : act :=
  match s, d with
  | Some s, Some d => if Z.ltb (f_mtime d) (f_mtime s) then CopyToDest
                      else if Z.ltb (f_mtime s) (f_mtime d) then CopyToSource else RenameConflict
  | Some _, None => CopyToDest
  | None, Some _ => CopyToSource
  | None, None => DeleteFromSource
  end.

Definition by_size (smaller : bool) (s d : option fent) : act :=
  match s, d with
  | Some s, Some d =>
      let source_wins := if smaller then N.ltb (f_size s) (f_size d) else N.ltb (f_size d) (f_size s) in
      if source_wins then CopyToDest
      else if negb (N.eqb (f_size s) (f_size d)) then CopyToSource else RenameConflict
  | Some _, None => CopyToDest
  | None, Some _ => CopyToSource
  | None, None => DeleteFromSource
  end.

Definition resolve_conflict (st : strategy) (s d : option fent) : act :=
  match st with
  | Newer => by_mtime s d
  | Larger => by_size false s d
  | Smaller => by_size true s d
  | PreferSource => match s with Some _ => CopyToDest | None => DeleteFromDest end
  | PreferDest => match d with Some _ => CopyToSource | None => DeleteFromSource end
  | RenameBoth => match s, d with
                  | Some _, Some _ => RenameConflict
                  | Some _, None => CopyToDest
                  | _, _ => CopyToSource
                  end
  end.

Definition resolve (st : strategy) (c : change) (s d : option fent) : option act :=
  match c with
  | NewInSource | ModifiedInSource => match s with Some _ => Some CopyToDest | None => None end
  | NewInDest | ModifiedInDest => match d with Some _ => Some CopyToSource | None => None end
  | DeletedFromSource => Some DeleteFromDest
  | DeletedFromDest => Some DeleteFromSource
  | ModifiedBoth | CreateCreateConflict | ModifyDeleteConflict => Some (resolve_conflict st s d)
  end.

(* ---------- worlds ---------- *)
Definition fmap (A : Type) := N -> option A.
Definition upd {A : Type} (m : fmap A) (k : N) (v : option A) : fmap A :=
  fun k' => if N.eqb k' k then v else m k'.

Record world : Type := mk_world {
  w_src : fmap fent;
  w_dst : fmap fent;
  w_dbs : fmap srec;      (* rows with side = source *)
  w_dbd : fmap srec       (* rows with side = dest *)
}.

Inductive side : Type := Source | Dest.
(* conflict_filename + unused_conflict_path: <stem>.conflict-<ts>[-<n>]-<side>[.<ext>], the first name that is not taken
   (`fix: bisync never renames a conflicting file onto an existing conflict copy`); here an injective renaming into fresh
   paths: [cname_k sd p k] is the k-th conflict name of p on side sd *)
Definition side_num (sd : side) : N := match sd with Source => 1 | Dest => 2 end.
Definition cname_k (sd : side) (p k : N) : N := 16 * p + 4 * k + side_num sd.
Definition cname (sd : side) (p : N) : N := cname_k sd p 0.
Definition SLOTS : nat := 3.               (* names 0 .. 3 are tried; the code's search is unbounded *)
(* unused_conflict_path: a name is taken when EITHER side has a file of that name (a file of that name on the other side is copied
   across in the same run) *)
Fixpoint free_slot (m m' : N -> option fent) (sd : side) (p : N) (fuel : nat) (k : N) : N :=
  match fuel with
  | O => cname_k sd p k
  | S f => match m (cname_k sd p k), m' (cname_k sd p k) with
           | None, None => cname_k sd p k
           | _, _ => free_slot m m' sd p f (k + 1)
           end
  end.
Definition cslot (m m' : N -> option fent) (sd : side) (p : N) : N := free_slot m m' sd p SLOTS 0.

Definition action_of (st : strategy) (w : world) (p : N) : option act :=
  match classify (w_src w p) (w_dst w p) (w_dbs w p) (w_dbd w p) with
  | Some c => resolve st c (w_src w p) (w_dst w p)
  | None => None
  end.

Definition rec_of (e : fent) : srec := mk_srec (f_mtime e) (f_size e).

(* execute_single_action: the trees change, the state database does not (it is rewritten after all actions) *)
Definition exec (now : Z) (w : world) (p : N) (a : act) : world :=
  match a with
  | CopyToDest =>
      match w_src w p with
      | Some s => mk_world (w_src w) (upd (w_dst w) p (Some (mk_fent (f_size s) now (f_content s)))) (w_dbs w) (w_dbd w)
      | None => w
      end
  | CopyToSource =>
      match w_dst w p with
      | Some d => mk_world (upd (w_src w) p (Some (mk_fent (f_size d) now (f_content d)))) (w_dst w) (w_dbs w) (w_dbd w)
      | None => w
      end
  | DeleteFromSource => mk_world (upd (w_src w) p None) (w_dst w) (w_dbs w) (w_dbd w)
  | DeleteFromDest => mk_world (w_src w) (upd (w_dst w) p None) (w_dbs w) (w_dbd w)
  | RenameConflict =>
      match w_src w p, w_dst w p with
      | Some s, Some d =>
          mk_world (upd (upd (w_src w) p None) (cslot (w_src w) (w_dst w) Source p) (Some s))
                   (upd (upd (w_dst w) p None) (cslot (w_dst w) (w_src w) Dest p) (Some d))
                   (w_dbs w) (w_dbd w)
      | _, _ => w
      end
  end.

(* update_state: both trees are looked at again; a path in sync gets a row per side with that side's own size and
   mtime, a path gone from both sides loses its rows, every other path keeps the rows it had *)
Definition record_path (w : world) (p : N) : world :=
  match w_src w p, w_dst w p with
  | Some s, Some d => if content_equal s d
                      then mk_world (w_src w) (w_dst w) (upd (w_dbs w) p (Some (rec_of s))) (upd (w_dbd w) p (Some (rec_of d)))
                      else w
  | None, None => mk_world (w_src w) (w_dst w) (upd (w_dbs w) p None) (upd (w_dbd w) p None)
  | _, _ => w
  end.
Definition record (U : list N) (w : world) : world := fold_left record_path U w.

Definition is_deletion (c : change) : bool :=
  match c with DeletedFromSource | DeletedFromDest => true | _ => false end.

(* check_deletion_limit: counts over the list of changes (paths that changed) *)
Definition limit_exceeded (maxdel : N) (changes : list change) : bool :=
  if N.eqb maxdel 0 then false
  else match changes with
       | [] => false
       | _ => let total := N.of_nat (length changes) in
              let dels := N.of_nat (length (filter is_deletion changes)) in
              N.ltb (maxdel * total) (100 * dels)      (* exact; the code uses f64, equal away from ties *)
       end.

Fixpoint changes_of (w : world) (U : list N) : list change :=
  match U with
  | [] => []
  | p :: U' => match classify (w_src w p) (w_dst w p) (w_dbs w p) (w_dbd w p) with
               | Some c => c :: changes_of w U'
               | None => changes_of w U'
               end
  end.

(* one bidirectional sync over the path universe U; None = refused by the deletion limit *)
Definition sync_step (st : strategy) (now : Z) (w0 : world) (acc : world) (p : N) : world :=
  match action_of st w0 p with
  | Some a => exec now acc p a
  | None => acc
  end.

Definition bisync (U : list N) (st : strategy) (maxdel : N) (now : Z) (w : world) : option world :=
  if limit_exceeded maxdel (changes_of w U) then None
  else Some (record U (fold_left (sync_step st now w) U w)).

Definition actions_of (U : list N) (st : strategy) (w : world) : list (N * act) :=
  flat_map (fun p => match action_of st w p with Some a => [(p, a)] | None => [] end) U.

(* ---------- histories ---------- *)
Inductive edit : Type :=
| Create (size content : N)      (* create or overwrite with new content and size *)
| Delete
| Touch.                          (* new mtime, same content *)

Inductive step : Type :=
| Edit (sd : side) (p : N) (e : edit)
| Sync (st : strategy) (maxdel : N).

Definition empty_world : world := mk_world (fun _ => None) (fun _ => None) (fun _ => None) (fun _ => None).

Definition apply_edit (t : Z) (m : fmap fent) (p : N) (e : edit) : fmap fent :=
  match e with
  | Create sz c => upd m p (Some (mk_fent sz t c))
  | Delete => upd m p None
  | Touch => match m p with Some f => upd m p (Some (mk_fent (f_size f) t (f_content f))) | None => m end
  end.

(* logical clock: every edit and every sync gets a fresh, larger time *)
Definition run_step (U : list N) (cw : Z * world) (s : step) : Z * world :=
  let '(t, w) := cw in
  let t' := (t + 1)%Z in
  match s with
  | Edit Source p e => (t', mk_world (apply_edit t' (w_src w) p e) (w_dst w) (w_dbs w) (w_dbd w))
  | Edit Dest p e => (t', mk_world (w_src w) (apply_edit t' (w_dst w) p e) (w_dbs w) (w_dbd w))
  | Sync st m => match bisync U st m t' w with Some w' => (t', w') | None => (t', w) end
  end.

Definition run_history (U : list N) (h : list step) : Z * world := fold_left (run_step U) h (0%Z, empty_world).

(* histories in which the state database loses rows (a database written by an interrupted run or by an earlier version of
   sy, which recorded one side per action): the quantifier "all prior sync states" *)
Definition drop_row (sd : side) (p : N) (w : world) : world :=
  match sd with
  | Source => mk_world (w_src w) (w_dst w) (upd (w_dbs w) p None) (w_dbd w)
  | Dest => mk_world (w_src w) (w_dst w) (w_dbs w) (upd (w_dbd w) p None)
  end.
(* a file written with a time stamp of the writer's choosing (cp -p, rsync -t, an unpacked archive): equal mtimes on the
   two sides, or a time stamp older than the recorded one, become possible *)
Definition write_at (sd : side) (p : N) (f : fent) (w : world) : world :=
  match sd with
  | Source => mk_world (upd (w_src w) p (Some f)) (w_dst w) (w_dbs w) (w_dbd w)
  | Dest => mk_world (w_src w) (upd (w_dst w) p (Some f)) (w_dbs w) (w_dbd w)
  end.
Inductive xstep : Type :=
| XStep (s : step)
| XDrop (sd : side) (p : N)
| XWriteAt (sd : side) (p : N) (size content : N) (mtime : Z).
Definition run_xstep (U : list N) (cw : Z * world) (x : xstep) : Z * world :=
  match x with
  | XStep s => run_step U cw s
  | XDrop sd p => ((fst cw + 1)%Z, drop_row sd p (snd cw))
  | XWriteAt sd p sz c mt => ((fst cw + 1)%Z, write_at sd p (mk_fent sz mt c) (snd cw))
  end.
Definition run_xhistory (U : list N) (h : list xstep) : Z * world := fold_left (run_xstep U) h (0%Z, empty_world).

(* sides agree on a universe: same paths, same contents *)
Definition same_content (a b : option fent) : bool :=
  match a, b with
  | Some x, Some y => N.eqb (f_content x) (f_content y) && N.eqb (f_size x) (f_size y)
  | None, None => true
  | _, _ => false
  end.
Definition converged (U : list N) (w : world) : bool :=
  forallb (fun p => same_content (w_src w p) (w_dst w p)) U.

(* ---------- paths that an ignore rule hides on one side (`fix: bisync leaves a file alone that an ignore rule hides on one
   side`) ----------
   [hs p] / [hd p]: the scan of that side does not list p (.ignore, .gitignore) -- whether or not a file is there.  The classifier
   sees the scanned trees; a path that is hidden on a side where a file exists is left alone (no action), every other path is
   classified and executed as before. *)
Definition visible (h : N -> bool) (m : fmap fent) : fmap fent := fun p => if h p then None else m p.
Definition present (o : option fent) : bool := match o with Some _ => true | None => false end.
Definition hidden_somewhere (hs hd : N -> bool) (w : world) (p : N) : bool :=
  (hs p && present (w_src w p)) || (hd p && present (w_dst w p)).
Definition scanned (hs hd : N -> bool) (w : world) : world :=
  mk_world (visible hs (w_src w)) (visible hd (w_dst w)) (w_dbs w) (w_dbd w).

Definition sync_step_h (st : strategy) (now : Z) (hs hd : N -> bool) (w0 : world) (acc : world) (p : N) : world :=
  if hidden_somewhere hs hd w0 p then acc
  else match action_of st (scanned hs hd w0) p with
       | Some a => exec now acc p a
       | None => acc
       end.

Definition sync_files_h (U : list N) (st : strategy) (now : Z) (hs hd : N -> bool) (w : world) : world :=
  fold_left (sync_step_h st now hs hd w) U w.
