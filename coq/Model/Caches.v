(* Model/Caches.v -- the three persistent helpers of the one-way engine and how a run consults them.
   src/sync/checksumdb.rs (rows keyed by path; a lookup hits only on equal mtime AND size), sync/strategy.rs
   compute_checksums_local (database first, compute on a miss), sync/mod.rs (rows for every source file are stored
   after a run; directory cache consulted for the root "." only; resume state: completed paths are not planned),
   sync/dircache.rs, sync/resume.rs.  No proofs here. *)
From Coq Require Import NArith ZArith List Bool.
From SyModel Require Import Engine.
Import ListNotations.

(* ---------- checksum database ---------- *)
Record dbrow : Type := mk_row { r_path : path; r_mtime : Z; r_size : N; r_sum : N }.
Definition cdb := list dbrow.

Definition row_matches (p : path) (mt : Z) (sz : N) (r : dbrow) : bool :=
  peqb (r_path r) p && Z.eqb (r_mtime r) mt && N.eqb (r_size r) sz.

Definition db_lookup (d : cdb) (p : path) (mt : Z) (sz : N) : option N :=
  match find (row_matches p mt sz) d with Some r => Some (r_sum r) | None => None end.

(* INSERT OR REPLACE with the path as primary key *)
Definition db_store (d : cdb) (e : sentry) : cdb :=
  mk_row (se_path e) (se_mtime e) (se_size e) (se_content e) :: filter (fun r => negb (peqb (r_path r) (se_path e))) d.

Definition db_store_all (d : cdb) (src : list sentry) : cdb :=
  fold_left (fun d e => if se_is_dir e then d else db_store d e) src d.

(* the checksum the planner uses for a source file: the stored one on a hit, the computed one otherwise *)
Definition plan_sum (d : cdb) (e : sentry) : N :=
  match db_lookup d (se_path e) (se_mtime e) (se_size e) with Some h => h | None => se_content e end.

Definition with_content (e : sentry) (c : N) : sentry :=
  mk_sentry (se_path e) (se_is_dir e) (se_size e) (se_mtime e) c (se_sparse e).

(* planning with the database: only the comparison sees the stored checksum; the task still carries the real entry *)
Definition plan_entry_db (c : cfg) (ds : path -> N * Z) (dst : fs) (d : cdb) (e : sentry) : task :=
  mk_task (se_path e) (t_action (plan_entry c ds dst (with_content e (plan_sum d e)))) (Some e).

(* ---------- directory cache ---------- *)
Record dircache : Type := mk_dc { dc_dirs : list (path * Z); dc_files : list (path * list path) }.
Definition dc_empty : dircache := mk_dc [] [].          (* also what load() yields for a missing, corrupt or other-version file *)

Definition dc_dir_mtime (c : dircache) (p : path) : option Z :=
  match find (fun x => peqb (fst x) p) (dc_dirs c) with Some x => Some (snd x) | None => None end.

(* needs_rescan(".") = false: the root is in the cache and its mtime is within a second *)
Definition dc_hit (c : dircache) (root_mtime : Z) : bool :=
  match dc_dir_mtime c [] with Some m => mtime_matches m root_mtime | None => false end.

(* after a scan: every DIRECTORY entry of the listing is recorded with its mtime; files are grouped by parent *)
Definition dc_update (c : dircache) (listing : list sentry) : dircache :=
  mk_dc (fold_left (fun acc e => if se_is_dir e then (se_path e, se_mtime e) :: filter (fun x => negb (peqb (fst x) (se_path e))) acc else acc) listing (dc_dirs c))
        (dc_files c).

(* the listing a run plans from *)
Definition scan_with_cache (c : dircache) (root_mtime : Z) (cached real : list sentry) : list sentry :=
  if dc_hit c root_mtime then cached else real.

(* ---------- resume state ---------- *)
(* a completed record: path, size and checksum of the version the interrupted run transferred.  Since `fix: a path recorded as
   completed in the resume state is skipped only while the source file is unchanged` a listed path is left out of the plan
   only if the source entry still has that size and checksum *)
Record completed := mk_completed { cp_path : path; cp_size : N; cp_sum : N }.

Definition still_completed (comp : list completed) (e : sentry) : bool :=
  se_is_dir e && existsb (fun r => peqb (cp_path r) (se_path e)) comp ||
  existsb (fun r => peqb (cp_path r) (se_path e) && N.eqb (cp_size r) (se_size e) && N.eqb (cp_sum r) (se_content e)) comp.

(* ... and, since `fix: resume skips a completed path only while the destination still holds it`, only if the destination entry
   still is what that transfer left: a directory for a directory, a file of the source's size and time stamp (within the planner's
   one-second tolerance) for a file.  The state file says nothing about what happened to the destination after it was written. *)
Definition dest_holds (dst : fs) (e : sentry) : bool :=
  match dst (se_path e) with
  | Some Dir => se_is_dir e
  | Some (File _ dsz dmt) => negb (se_is_dir e) && N.eqb dsz (se_size e) && mtime_matches (se_mtime e) dmt
  | None => false
  end.

Definition plan_resume_d (comp : list completed) (dst : fs) (src : list sentry) : list sentry :=
  filter (fun e => negb (still_completed comp e && dest_holds dst e)) src.

(* the source-side half alone (what the driver evaluates on listings that are already restricted to held entries) *)
Definition plan_resume (comp : list completed) (src : list sentry) : list sentry :=
  filter (fun e => negb (still_completed comp e)) src.
