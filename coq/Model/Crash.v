(* Model/Crash.v -- what one destination file and its working file look like at every boundary between the
   file-system mutating calls of a transfer, and what the next run's planner does with such a state.
   src/transport/local.rs: copy_file (fs::copy in place, then utimensat), sync_file_with_delta (working file
   rebuilt -- block-delta, sparse copy or full-copy fallback -- then rename over the destination, then utimensat);
   src/sync/strategy.rs needs_update (reused from Model/Engine.v).  No proofs here.

   Transfers of different files have disjoint footprints (Model/Temp.v, C05), so a crash state of a whole run is a
   crash state of each file's own program; this model is per file. *)
From Coq Require Import NArith ZArith List Bool.
From SyModel Require Import Engine.
Import ListNotations.

Inductive cnode :=
| CAbsent
| CFile (content : N) (complete : bool) (size : N) (mtime : Z).   (* complete = false: a torn image of that content *)

Record cstate := mk_cstate { cs_dest : cnode; cs_temp : cnode }.

Inductive cstep :=
| SOpen (tmp : bool)              (* open(O_CREAT|O_TRUNC): empty file, mtime = now *)
| SRemove (tmp : bool)            (* unlink (copy_sparse_file removes an existing target first) *)
| SSetLen (tmp : bool)            (* ftruncate to the source's size *)
| SWrite (tmp : bool) (n : N)     (* data written so far reaches n bytes, n < source size: torn *)
| SWriteLast (tmp : bool)         (* the call that completes the data *)
| SMeta (tmp : bool)              (* fchmod, xattr stripping, a second open for writing: nothing modelled changes *)
| SRename                         (* working file over destination *)
| SUtime                          (* destination mtime := source mtime *)
| SUtimeT.                        (* working file mtime := source mtime (a destination with further hard links is replaced by a
                                     complete copy made beside it: the time is set before the rename) *)

Definition target (tmp : bool) (s : cstate) : cnode := if tmp then cs_temp s else cs_dest s.
Definition set_target (tmp : bool) (s : cstate) (v : cnode) : cstate :=
  if tmp then mk_cstate (cs_dest s) v else mk_cstate v (cs_temp s).

Definition cstep_apply (e : sentry) (now : Z) (s : cstate) (st : cstep) : cstate :=
  match st with
  | SOpen t => set_target t s (CFile (se_content e) (N.eqb (se_size e) 0) 0 now)
  | SRemove t => set_target t s CAbsent
  | SSetLen t => match target t s with
                 | CFile c k sz _ => set_target t s (CFile c (k && N.eqb sz (se_size e)) (se_size e) now)
                 | CAbsent => s
                 end
  | SWrite t n => match target t s with
                  | CFile c _ sz _ => set_target t s (CFile c false (N.max sz n) now)
                  | CAbsent => s
                  end
  | SWriteLast t => match target t s with
                    | CFile c _ _ _ => set_target t s (CFile c true (se_size e) now)
                    | CAbsent => s
                    end
  | SMeta _ => s
  | SRename => match cs_temp s with
               | CAbsent => s
               | v => mk_cstate v CAbsent
               end
  | SUtime => match cs_dest s with
              | CFile c k sz _ => mk_cstate (CFile c k sz (se_mtime e)) (cs_temp s)
              | CAbsent => s
              end
  | SUtimeT => match cs_temp s with
               | CFile c k sz _ => mk_cstate (cs_dest s) (CFile c k sz (se_mtime e))
               | CAbsent => s
               end
  end.

Definition crun (e : sentry) (now : Z) (p : list cstep) (s : cstate) : cstate := fold_left (cstep_apply e now) p s.

(* the process is killed just before its (k+1)-th mutating call *)
Definition crash_state (e : sentry) (now : Z) (p : list cstep) (k : nat) (s : cstate) : cstate := crun e now (firstn k p) s.

(* ---- the two classes of programs (executable recognisers: the check feeds them the call sequences observed
        on the real binary) ---- *)

(* in place (destination absent or below the gate; fs::copy): open/truncate, then metadata calls and data writes of
   growing length below the source size, the completing write, metadata, and finally utimensat *)
Fixpoint inplace_tail (e : sentry) (seen : bool) (l : list cstep) : bool :=
  match l with
  | SUtime :: [] => seen
  | SWriteLast false :: tl => inplace_tail e true tl
  | SWrite false n :: tl => negb seen && N.ltb n (se_size e) && inplace_tail e false tl
  | SMeta false :: tl => inplace_tail e seen tl
  | _ => false
  end.

Definition inplace_class (e : sentry) (p : list cstep) : bool :=
  match p with
  | SOpen false :: tl => inplace_tail e (N.eqb (se_size e) 0) tl
  | _ => false
  end.

(* through the working file (existing destination at or above the gate): the working file is created afresh (an
   existing one is removed or truncated), every further call up to the rename is on the working file and the last
   data-affecting one completes it; then rename over the destination; then utimensat *)
Fixpoint temp_tail (seen : bool) (l : list cstep) : bool :=
  match l with
  | SRename :: SUtime :: [] => seen
  | SUtimeT :: SRename :: [] => seen
  | SWriteLast true :: tl => temp_tail true tl
  | SWrite true _ :: tl => temp_tail false tl
  | SSetLen true :: tl => temp_tail seen tl
  | SMeta true :: tl => temp_tail seen tl
  | _ => false
  end.

Definition temp_class (e : sentry) (p : list cstep) : bool :=
  match p with
  | SRemove true :: SOpen true :: tl => temp_tail (N.eqb (se_size e) 0) tl
  | SOpen true :: tl => temp_tail (N.eqb (se_size e) 0) tl
  | _ => false
  end.

(* which class the transfer uses: decided by the destination as the run finds it *)
Definition uses_temp (c : cfg) (d : cnode) : bool :=
  match d with
  | CFile _ _ sz _ => negb (N.ltb sz (c_big c)) && negb (N.ltb sz 4096)
  | CAbsent => false
  end.

Definition program_ok (c : cfg) (e : sentry) (d : cnode) (p : list cstep) : bool :=
  if uses_temp c d then temp_class e p else inplace_class e p.

(* ---- the planner on a (possibly interrupted) state: does the next run transfer the file again? ---- *)
Definition replans (c : cfg) (e : sentry) (d : cnode) : bool :=
  match d with
  | CAbsent => true
  | CFile dc k dsz dmt =>
      if c_checksum c then negb (N.eqb dc (se_content e) && k)         (* checksums of a torn image differ *)
      else needs_update c e dsz dmt
  end.

Definition final_state (e : sentry) : cstate :=
  mk_cstate (CFile (se_content e) true (se_size e) (se_mtime e)) CAbsent.

(* the destination holds exactly the source's bytes *)
Definition holds_source (e : sentry) (d : cnode) : bool :=
  match d with CFile c true sz _ => N.eqb c (se_content e) && N.eqb sz (se_size e) | _ => false end.

(* one later, uninterrupted run of the same command on a crash state *)
Definition rerun (c : cfg) (e : sentry) (now' : Z) (p' : list cstep) (s : cstate) : cstate :=
  if replans c e (cs_dest s) then crun e now' p' s else s.
