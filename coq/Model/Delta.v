(* Model of /repo/src/delta/{checksum,generator,applier}.rs.
   compute_checksums, generate_delta (in memory), generate_delta_streaming (the
   window machine with refill) and apply_delta, over byte lists (Z in [0,256)).
   The strong hash (xxh3 in the code) is a section variable H with equality test
   Seq; the executable instance is the identity on blocks.
   Kernel hypothesis written into the model: read() on a regular file returns
   min(requested, remaining) bytes.   No proofs in this file. *)
From Coq Require Import ZArith List Bool.
From SyGen Require Import SrcConstants.
From SyModel Require Import Adler.
Import ListNotations.
Open Scope Z_scope.

Inductive op : Type :=
| Copy (off size : Z)
| Data (d : list Z).

Definition len (l : list Z) : Z := Z.of_nat (length l).

(* linear-time reverse (List.rev is quadratic); equal to rev, see Delta_proofs.frev_rev *)
Definition frev {A : Type} (l : list A) : list A := rev_append l [].

(* apply_delta: Copy = seek + read_exact (fails past the end), Data = literal *)
Fixpoint apply (old : list Z) (ops : list op) : option (list Z) :=
  match ops with
  | [] => Some []
  | Copy off sz :: t =>
      if (0 <=? off) && (0 <=? sz) && (off + sz <=? len old)
      then option_map (app (firstn (Z.to_nat sz) (skipn (Z.to_nat off) old))) (apply old t)
      else None
  | Data d :: t => option_map (app d) (apply old t)
  end.

Definition copy_in_range (old : list Z) (o : op) : bool :=
  match o with
  | Copy off sz => (0 <=? off) && (0 <=? sz) && (off + sz <=? len old)
  | Data _ => true
  end.

Section Gen.
  Variable SH : Type.
  Variable H : list Z -> SH.
  Variable Seq : SH -> SH -> bool.

  Record cksum : Type := mk_cksum { c_off : Z; c_size : Z; c_weak : Z; c_strong : SH }.

  (* compute_checksums: block i = old[i*bs .. min((i+1)*bs, len)) *)
  Fixpoint blocks (fuel : nat) (bsn : nat) (bs : Z) (off : Z) (l : list Z) : list cksum :=
    match fuel with
    | O => []
    | S f =>
        match l with
        | [] => []
        | _ => let b := firstn bsn l in
               mk_cksum off (len b) (hash b) (H b) :: blocks f bsn bs (off + bs) (skipn bsn l)
        end
    end.

  Definition compute_checksums (bs : Z) (old : list Z) : list cksum :=
    blocks (length old) (Z.to_nat bs) bs 0 old.

  Variable bs : Z.
  Variable cks : list cksum.
  Let bsn := Z.to_nat bs.

  (* literal_buffer flush *)
  Definition flush (ops : list op) (lit : list Z) : list op :=
    match lit with [] => ops | _ => Data (frev lit) :: ops end.

  (* checksum_map.get(&weak) then first candidate (in dest order) with equal strong *)
  Definition find_full (weak : Z) (rest : list Z) : option cksum :=
    if existsb (fun c => c_weak c =? weak) cks
    then let s := H (firstn bsn rest) in
         find (fun c => (c_weak c =? weak) && Seq (c_strong c) s) cks
    else None.

  Definition find_partial (weak : Z) (rest : list Z) (rem : Z) : option cksum :=
    if existsb (fun c => c_weak c =? weak) cks
    then let s := H rest in
         find (fun c => (c_weak c =? weak) && ((c_size c =? rem) && Seq (c_strong c) s)) cks
    else None.

  Definition try_match (r : Z * Z) (rest : list Z) (rem : Z) : option cksum :=
    if bs <=? rem then find_full (digest r) rest else find_partial (hash rest) rest rem.

  (* ---- generate_delta (whole file in memory) ----
     rest = data[pos..], rem = len rest, ahead = data[pos+bs..] *)
  Fixpoint mem_loop (fuel : nat) (rest : list Z) (rem : Z) (ahead : list Z)
           (ops : list op) (lit : list Z) (r : Z * Z) : option (list op) :=
    match fuel with
    | O => None
    | S f =>
        match rest with
        | [] => Some (frev (flush ops lit))
        | x :: rest' =>
            match try_match r rest rem with
            | Some c =>
                let ops' := Copy (c_off c) (c_size c) :: flush ops lit in
                if bs <=? rem then
                  let rem2 := rem - bs in
                  let r' := if bs <=? rem2 then state_of (firstn bsn ahead) else r in
                  mem_loop f ahead rem2 (skipn bsn ahead) ops' [] r'
                else mem_loop f [] 0 [] ops' [] r
            | None =>
                let r' := if bs <? rem then
                            match ahead with y :: _ => roll bs r x y | [] => r end
                          else r in
                mem_loop f rest' (rem - 1) (tl ahead) ops (x :: lit) r'
            end
        end
    end.

  Definition gen_mem (new : list Z) : option (list op) :=
    match new with
    | [] => Some []
    | _ => let r0 := if bs <=? len new then state_of (firstn bsn new) else adler_init in
           mem_loop (S (length new)) new (len new) (skipn bsn new) [] [] r0
    end.

  (* ---- generate_delta_streaming ----
     wrest = window[window_pos..], wrem = its length, wpos = window_pos,
     ahead = window[window_pos+bs..], frest = bytes of the file not yet read,
     last = bytes_read of the latest read() *)
  Variable chunk : Z.
  Let chunkn := Z.to_nat chunk.

  Fixpoint str_loop (fuel : nat) (wrest : list Z) (wrem wpos : Z) (ahead : list Z)
           (frest : list Z) (last : Z)
           (ops : list op) (lit : list Z) (r : Z * Z) : option (list op) :=
    match fuel with
    | O => None
    | S f =>
        match wrest with
        | [] => Some (frev (flush ops lit))
        | x :: wrest' =>
            let '(wrest1, wrem1, wpos1, ahead1, ops1, lit1, r1) :=
              match try_match r wrest wrem with
              | Some c =>
                  let ops' := Copy (c_off c) (c_size c) :: flush ops lit in
                  if bs <=? wrem then
                    let wrem2 := wrem - bs in
                    let r' := if bs <=? wrem2 then state_of (firstn bsn ahead) else r in
                    (ahead, wrem2, wpos + bs, skipn bsn ahead, ops', @nil Z, r')
                  else (@nil Z, 0, wpos + wrem, @nil Z, ops', @nil Z, r)
              | None =>
                  let r' := if bs <? wrem then
                              match ahead with y :: _ => roll bs r x y | [] => r end
                            else r in
                  (wrest', wrem - 1, wpos + 1, tl ahead, ops, x :: lit, r')
              end in
            if (bs <=? wpos1) && (0 <? last) && (wrem1 <? bs) then
              (* window.drain(0..window_pos); read(&mut chunk_buf) *)
              let c := firstn chunkn frest in
              let n := len c in
              let wrest2 := wrest1 ++ c in
              let wrem2 := wrem1 + n in
              let r2 := if (0 <? n) && (bs <=? wrem2) then state_of (firstn bsn wrest2) else r1 in
              str_loop f wrest2 wrem2 0 (skipn bsn wrest2) (skipn chunkn frest) n ops1 lit1 r2
            else str_loop f wrest1 wrem1 wpos1 ahead1 frest last ops1 lit1 r1
        end
    end.

  Definition gen_stream (new : list Z) : option (list op) :=
    match new with
    | [] => Some []
    | _ => let w := firstn chunkn new in
           let n := len w in
           let r0 := if bs <=? n then state_of (firstn bsn w) else adler_init in
           str_loop (S (length new)) w n 0 (skipn bsn w) (skipn chunkn new) n [] [] r0
    end.
End Gen.

Arguments mk_cksum {SH}.
Arguments c_off {SH}. Arguments c_size {SH}. Arguments c_weak {SH}. Arguments c_strong {SH}.

(* ---- executable instance: strong hash = identity ---- *)
Fixpoint list_eqb (a b : list Z) : bool :=
  match a, b with
  | [], [] => true
  | x :: a', y :: b' => (x =? y) && list_eqb a' b'
  | _, _ => false
  end.

Definition id_hash (l : list Z) : list Z := l.
Definition cks_id (bs : Z) (old : list Z) : list (cksum (list Z)) := compute_checksums _ id_hash bs old.
Definition gen_mem_id (bs : Z) (old new : list Z) : option (list op) :=
  gen_mem _ id_hash list_eqb bs (cks_id bs old) new.
Definition gen_stream_id (chunk bs : Z) (old new : list Z) : option (list op) :=
  gen_stream _ id_hash list_eqb bs (cks_id bs old) chunk new.
(* the streaming generator with the chunk the source uses: CHUNK_SIZE, and at least one block (`fix: the streaming delta
   generator reads chunks of at least one block`: let chunk_size = CHUNK_SIZE.max(block_size)) *)
Definition stream_chunk (bs : Z) : Z := Z.max CHUNK_SIZE bs.
Definition gen_stream_impl (bs : Z) (old new : list Z) : option (list op) :=
  gen_stream_id (stream_chunk bs) bs old new.

(* delta/mod.rs calculate_block_size: `let size = (file_size as f64).sqrt() as usize; size.clamp(MIN, MAX)`.
   The binary64 square root is NOT modelled: `root` stands for whatever `usize` the cast yields (`as usize`
   saturates, so it is some integer >= 0 -- the theorems below need not even that); the clamp is the code's
   (anchor BLOCK_SIZE_IS_CLAMPED; transport/ssh.rs takes its block size from here: SSH_BLOCK_FROM_CLAMP). *)
Definition clamp (lo hi v : Z) : Z := if v <? lo then lo else if hi <? v then hi else v.
Definition calculate_block_size (root : Z) : Z := clamp MIN_BLOCK MAX_BLOCK root.
(* executable stand-in used by the correspondence check only: the integer square root in place of the binary64
   one (they agree wherever the clamp does not hide the difference: that is what the `B` cases compare with the
   real function over file sizes of every magnitude, perfect squares and their neighbours included) *)
Definition block_size_for (file_size : Z) : Z := calculate_block_size (Z.sqrt file_size).
