(* Model of the one-way engine for regular files and directories:
   /repo/src/sync/mod.rs (SyncEngine::sync: plan, deletion plan, mass-deletion guard, task execution,
   error budget), sync/strategy.rs (StrategyPlanner::{plan_file_async, needs_update, mtime_matches,
   plan_deletions}), sync/transfer.rs (Transferrer::{create, update, delete}) and transport/local.rs
   (copy_file, sync_file_with_delta, remove).  Tasks run in list order (what -j1 does; independence of
   the order is C05's subject).  Symbolic links are outside this model (see Links.v).
   File content is an identity (N); that every transfer path reproduces the source bytes is what
   Delta/Sparse prove at byte level.  Times are nanoseconds (Z); [now] is the time of the run.
   No proofs in this file. *)
From Coq Require Import NArith ZArith List Bool.
Import ListNotations.

Definition path := list N.

Fixpoint peqb (a b : path) : bool :=
  match a, b with
  | [], [] => true
  | x :: a', y :: b' => N.eqb x y && peqb a' b'
  | _, _ => false
  end.

Fixpoint pprefix (a b : path) : bool :=          (* a is a (non-strict) prefix of b *)
  match a, b with
  | [], _ => true
  | x :: a', y :: b' => N.eqb x y && pprefix a' b'
  | _ :: _, [] => false
  end.

Definition strict_prefix (a b : path) : bool := pprefix a b && negb (peqb a b).

Fixpoint proper_prefixes (p : path) : list path :=   (* non-empty proper prefixes, shortest first *)
  match p with
  | [] => []
  | c :: p' => match p' with [] => [] | _ => [c] :: map (cons c) (proper_prefixes p') end
  end.

Inductive node : Type :=
| File (content size : N) (mtime : Z)
| Dir.

Definition fs := path -> option node.
Definition fs_set (m : fs) (p : path) (v : option node) : fs := fun q => if peqb q p then v else m q.

(* ---------- source entries as the scanner + filter deliver them ---------- *)
Record sentry : Type := mk_sentry {
  se_path : path; se_is_dir : bool; se_size : N; se_mtime : Z; se_content : N; se_sparse : bool
}.

Record cfg : Type := mk_cfg {
  c_delete : bool; c_force_delete : bool; c_threshold : Z; c_dry_run : bool;
  c_ignore_times : bool; c_size_only : bool; c_checksum : bool;
  c_big : N;                 (* DELTA_THRESHOLD: destinations of at least this size take the block-delta paths *)
  c_max_errors : N
}.

(* ---------- planner ---------- *)
Definition NS : Z := 1000000000.
Definition mtime_matches (a b : Z) : bool := Z.leb (Z.quot (Z.abs (a - b)) NS) 1.   (* Duration::as_secs() <= 1 *)

Definition needs_update (c : cfg) (e : sentry) (dsize : N) (dmtime : Z) : bool :=
  if c_checksum c then true
  else if c_ignore_times c then true
  else if c_size_only c then negb (N.eqb (se_size e) dsize)
  else negb (N.eqb (se_size e) dsize) || negb (mtime_matches (se_mtime e) dmtime).

Inductive eaction : Type := ASkip | ACreate | AUpdate | ADelete.

Record task : Type := mk_task { t_path : path; t_action : eaction; t_src : option sentry }.

(* [ds p] = (st_size, mtime) that stat() reports for the DIRECTORY at p: the planner compares them with a
   source FILE of the same name exactly as if the directory were a file *)
Definition plan_entry (c : cfg) (ds : path -> N * Z) (dst : fs) (e : sentry) : task :=
  let a :=
    if se_is_dir e then match dst (se_path e) with
                        | Some Dir => ASkip
                        | Some (File _ _ _) => ACreate        (* a file in the directory's place: create_dir_all fails and is reported
                                                                 (`fix: an entry of the wrong kind in the destination is reported, not skipped`) *)
                        | None => ACreate
                        end
    else match dst (se_path e) with
         | None => ACreate
         | Some (File dc dsz dmt) =>
             if c_checksum c then (if N.eqb dc (se_content e) then ASkip else AUpdate)   (* both checksums computed and compared *)
             else if needs_update c e dsz dmt then AUpdate else ASkip
         | Some Dir => AUpdate                                  (* a directory in the file's place: the copy fails (EISDIR) and is reported;
                                                                   [ds], the directory's own stat, is no longer consulted *)
         end in
  mk_task (se_path e) a (Some e).

(* plan_deletions: destination entries (scan order) whose relative path is not in the list it is given -- since
   `fix: plan --delete against the whole source scan` that list is everything the scan found: the selected entries
   [src] and the entries [keep] that a filter or size bound kept out of this run *)
Definition plan_deletions (src : list sentry) (dst_listing : list path) : list task :=
  map (fun p => mk_task p ADelete None)
      (filter (fun p => negb (existsb (fun e => peqb (se_path e) p) src)) dst_listing).

(* ---------- execution ---------- *)
Inductive err : Type := E_NotDir | E_IsDir | E_NoEnt.

(* create_dir_all p: every proper prefix and p itself become directories; fails if one of them is a file *)
Fixpoint mkdirs (m : fs) (ps : list path) : fs + err :=
  match ps with
  | [] => inl m
  | p :: ps' => match m p with
                | Some (File _ _ _) => inr E_NotDir
                | Some Dir => mkdirs m ps'
                | None => mkdirs (fs_set m p (Some Dir)) ps'
                end
  end.

Definition mkdir_all (m : fs) (p : path) : fs + err := mkdirs m (proper_prefixes p ++ [p]).
Definition mkdir_parents (m : fs) (p : path) : fs + err := mkdirs m (proper_prefixes p).

(* LocalTransport::copy_file: parents, fs::copy (truncate + write), strip xattrs, set mtime to the source's *)
Definition copy_file (m : fs) (e : sentry) : fs + err :=
  match mkdir_parents m (se_path e) with
  | inr x => inr x
  | inl m1 => match m1 (se_path e) with
              | Some Dir => inr E_IsDir
              | _ => inl (fs_set m1 (se_path e) (Some (File (se_content e) (se_size e) (se_mtime e))))
              end
  end.

(* LocalTransport::sync_file_with_delta *)
Definition update_file (c : cfg) (now : Z) (m : fs) (e : sentry) : fs + err :=
  match m (se_path e) with
  | None => copy_file m e
  | Some Dir => inr E_IsDir
  | Some (File dc dsz dmt) =>
      if N.ltb dsz (c_big c) then copy_file m e
      else (* sparse copy, change-ratio fallback (fs::copy) and temp-file block rebuild + rename:
              all three write the source's bytes and then restore the source's mtime *)
        inl (fs_set m (se_path e) (Some (File (se_content e) (se_size e) (se_mtime e))))
  end.

(* Transferrer::delete -> LocalTransport::remove; is_dir is evaluated when the task runs *)
Definition remove (m : fs) (p : path) : fs + err :=
  match m p with
  | Some Dir => inl (fun q => if pprefix p q then None else m q)          (* remove_dir_all *)
  | Some (File _ _ _) => inl (fs_set m p None)
  | None => inr E_NoEnt
  end.

Definition exec_task (c : cfg) (now : Z) (m : fs) (t : task) : fs + err :=
  if c_dry_run c then inl m
  else match t_action t, t_src t with
       | ASkip, _ => inl m
       | ACreate, Some e => if se_is_dir e then mkdir_all m (se_path e) else copy_file m e
       | AUpdate, Some e => if se_is_dir e then inl m else update_file c now m e
       | ADelete, _ => match m (t_path t) with
                       | None => inl m          (* already gone with its parent directory: a completed deletion *)
                       | Some _ => remove m (t_path t)
                       end
       | _, None => inl m
       end.

Record report : Type := mk_report {
  r_fs : fs;
  r_errors : list (path * eaction * err);
  r_events : list (eaction * path);       (* successful create / update / skip / delete, in task order *)
  r_refused : bool
}.

Fixpoint exec_all (c : cfg) (now : Z) (m : fs) (ts : list task)
         (errs : list (path * eaction * err)) (evs : list (eaction * path)) : report :=
  match ts with
  | [] => mk_report m (rev errs) (rev evs) false
  | t :: ts' =>
      match exec_task c now m t with
      | inl m' => exec_all c now m' ts' errs ((t_action t, t_path t) :: evs)
      | inr x => exec_all c now m ts' ((t_path t, t_action t, x) :: errs) evs
      end
  end.

(* SyncEngine::sync.  [refuse d n t] is the mass-deletion test (Threshold.refuse false);
   dst_listing is the destination scan (parent-first).  *)
Definition run (refuse : Z -> Z -> Z -> bool) (ds : path -> N * Z) (c : cfg) (now : Z) (U : list path)
           (keep : list sentry) (src : list sentry) (dst : fs) : report :=
  let dst_listing := filter (fun p => match dst p with Some _ => true | None => false end) U in
  let tasks := map (plan_entry c ds dst) src in
  let dels := if c_delete c then plan_deletions (keep ++ src) dst_listing else [] in
  if c_delete c && negb (c_force_delete c) && negb (match dels with [] => true | _ => false end)
     && refuse (Z.of_nat (length dels)) (Z.of_nat (length dst_listing)) (c_threshold c)
  then mk_report dst [] [] true
  else exec_all c now dst (tasks ++ dels) [] [].

(* main.rs: exit status *)
Definition exit_status (c : cfg) (r : report) : Z :=
  if r_refused r then 1%Z
  else if negb (N.eqb (c_max_errors c) 0) && N.leb (c_max_errors c) (N.of_nat (length (r_errors r))) then 1%Z
  else match r_errors r with [] => 0%Z | _ :: _ => 1%Z end.      (* main.rs: errors (or verification failures) => exit 1 *)
