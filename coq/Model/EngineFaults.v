(* Model/EngineFaults.v -- the engine of Model/Engine.v with INJECTED faults: besides the failures that follow from the shape of the
   destination (a file where a directory is needed ...), the transfer of any source entry may fail for a reason outside the
   model (EIO, ENOSPC, EACCES ... at some system call).  Such a task records an error; what it leaves behind at its own path is
   arbitrary for a file ([junk]: the old file, a truncated or partial one, nothing) and nothing new for a directory.  A DELETION may
   fail in the same way (unlink / rmdir / remove_dir_all returning EIO, EACCES ...): the entry itself stays; of what is below a
   directory whose removal failed half-way an arbitrary part is gone ([junk q = None] for the entries below it that went away).
   No proofs here. *)
From Coq Require Import NArith ZArith List Bool.
From SyModel Require Import Engine.
Import ListNotations.

Definition estate : Type := (fs * list (path * eaction * err) * list (eaction * path))%type.

Definition fault_effect (junk : path -> option node) (m : fs) (t : task) : fs :=
  match t_src t with
  | Some e => if se_is_dir e then m else fs_set m (t_path t) (junk (t_path t))
  | None => fun q => if strict_prefix (t_path t) q then (match junk q with Some _ => m q | None => None end) else m q
  end.

Definition step_f (flt : path -> option err) (junk : path -> option node) (c : cfg) (now : Z) (s : estate) (t : task) : estate :=
  let '(m, errs, evs) := s in
  match (if c_dry_run c then None else flt (t_path t)) with
  | Some x => (fault_effect junk m t, (t_path t, t_action t, x) :: errs, evs)
  | None => match exec_task c now m t with
            | inl m' => (m', errs, (t_action t, t_path t) :: evs)
            | inr x => (m, (t_path t, t_action t, x) :: errs, evs)
            end
  end.

Definition finish (s : estate) : report := let '(m, errs, evs) := s in mk_report m (rev errs) (rev evs) false.

Definition exec_all_f flt junk (c : cfg) (now : Z) (m : fs) (ts : list task) : report :=
  finish (fold_left (step_f flt junk c now) ts (m, [], [])).

Definition run_f (flt : path -> option err) (junk : path -> option node)
           (refuse : Z -> Z -> Z -> bool) (ds : path -> N * Z) (c : cfg) (now : Z) (U : list path)
           (keep : list sentry) (src : list sentry) (dst : fs) : report :=
  let dst_listing := filter (fun p => match dst p with Some _ => true | None => false end) U in
  let tasks := map (plan_entry c ds dst) src in
  let dels := if c_delete c then plan_deletions (keep ++ src) dst_listing else [] in
  if c_delete c && negb (c_force_delete c) && negb (match dels with [] => true | _ => false end)
     && refuse (Z.of_nat (length dels)) (Z.of_nat (length dst_listing)) (c_threshold c)
  then mk_report dst [] [] true
  else exec_all_f flt junk c now dst (tasks ++ dels).
