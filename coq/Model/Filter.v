(* Model of /repo/src/filter.rs (FilterRule::{new,matches}, FilterEngine::{add_rule,
   add_include,add_exclude,should_include}), of the rule order built in main.rs
   (--filter rules, then --include, then --exclude) and of the selection fold
   in sync/mod.rs (excluded directories prune their subtree; size bounds apply to
   non-directories).  The glob crate's matcher is re-implemented for the token
   grammar  literal | ? | single *  (default MatchOptions: * and ? also match '/').
   Characters are code points (N); a path is a non-empty list of components.
   No proofs in this file. *)
From Coq Require Import NArith List Bool.
Import ListNotations.
Open Scope N_scope.

Definition str := list N.

Definition SLASH : N := 47.  Definition STAR : N := 42.  Definition QM : N := 63.
Definition LBRACK : N := 91. Definition PLUS : N := 43.  Definition MINUS : N := 45.
Definition SPACE : N := 32.  Definition HASH : N := 35.

Fixpoint str_eqb (a b : str) : bool :=
  match a, b with
  | [], [] => true
  | x :: a', y :: b' => (x =? y) && str_eqb a' b'
  | _, _ => false
  end.

(* ---------- glob ---------- *)
Inductive tok : Type := Lit (c : N) | Any1 | Star.

(* glob::Pattern::new on the grammar: `**` (and longer runs) and `[` are outside it -> None *)
Fixpoint parse_glob (s : str) : option (list tok) :=
  match s with
  | [] => Some []
  | c :: s' =>
      if c =? LBRACK then None
      else if c =? STAR then
        match s' with
        | d :: _ => if d =? STAR then None else option_map (cons Star) (parse_glob s')
        | [] => Some [Star]
        end
      else if c =? QM then option_map (cons Any1) (parse_glob s')
      else option_map (cons (Lit c)) (parse_glob s')
  end.

Fixpoint glob_match (p : list tok) : str -> bool :=
  match p with
  | [] => fun s => match s with [] => true | _ => false end
  | Lit c :: p' => fun s => match s with x :: s' => (x =? c) && glob_match p' s' | [] => false end
  | Any1 :: p' => fun s => match s with _ :: s' => glob_match p' s' | [] => false end
  | Star :: p' =>
      fix star (s : str) : bool :=
        glob_match p' s || match s with _ :: s' => star s' | [] => false end
  end.

(* ---------- paths ---------- *)
Definition path := list str.     (* components, outermost first; never empty for a real entry *)

Fixpoint join (p : path) : str :=
  match p with
  | [] => []
  | [c] => c
  | c :: p' => c ++ SLASH :: join p'
  end.

Definition basename (p : path) : option str :=
  match rev p with c :: _ => Some c | [] => None end.

(* proper ancestors, nearest first: Path::ancestors().skip(1) without the empty root *)
Fixpoint prefixes (p : path) : list path :=    (* all non-empty proper prefixes, shortest first *)
  match p with
  | [] => []
  | c :: p' => match p' with [] => [] | _ => [c] :: map (cons c) (prefixes p') end
  end.

Definition ancestors (p : path) : list path := rev (prefixes p).

Fixpoint is_prefix (a b : path) : bool :=      (* Path::starts_with: component-wise, equality included *)
  match a, b with
  | [], _ => true
  | x :: a', y :: b' => str_eqb x y && is_prefix a' b'
  | _ :: _, [] => false
  end.

(* ---------- rules ---------- *)
Inductive action : Type := Include | Exclude.

Record rule : Type := mk_rule {
  r_action : action;
  r_toks : list tok;          (* compiled pattern_for_glob *)
  r_has_slash : bool;
  r_dir_only : bool;
  r_star_only : bool          (* pattern_for_glob == "*" *)
}.

Fixpoint ends_with_slash (s : str) : bool :=
  match s with [] => false | [c] => c =? SLASH | _ :: s' => ends_with_slash s' end.

(* trim_end_matches('/') *)
Definition trim_end_slashes (s : str) : str :=
  rev ((fix drop (l : str) : str := match l with c :: l' => if c =? SLASH then drop l' else l | [] => [] end) (rev s)).

Definition contains_slash (s : str) : bool := existsb (fun c => c =? SLASH) s.

(* FilterRule::new *)
Definition rule_new (a : action) (pat : str) : option rule :=
  let d := ends_with_slash pat in
  let g := if d then trim_end_slashes pat else pat in
  match parse_glob g with
  | Some ts => Some (mk_rule a ts (contains_slash g) d (str_eqb g [STAR]))
  | None => None
  end.

(* FilterRule::matches *)
Definition rule_matches (r : rule) (p : path) (is_dir : bool) : bool :=
  let m := glob_match (r_toks r) in
  if r_dir_only r then
    if r_has_slash r then
      (is_dir && m (join p)) || existsb (fun a => m (join a)) (ancestors p)
    else if r_star_only r then
      is_dir && match basename p with Some b => m b | None => false end
    else
      (is_dir && match basename p with Some b => m b | None => false end)
      || existsb (fun a => match basename a with Some b => m b | None => false end) (ancestors p)
  else if r_has_slash r then m (join p)
  else match basename p with Some b => m b | None => false end.

(* FilterEngine::should_include: first match wins, default include *)
Fixpoint should_include (rules : list rule) (p : path) (is_dir : bool) : bool :=
  match rules with
  | [] => true
  | r :: rs => if rule_matches r p is_dir
               then match r_action r with Include => true | Exclude => false end
               else should_include rs p is_dir
  end.

(* ---------- add_rule: rsync-style text ---------- *)
Fixpoint trim_start (s : str) : str :=
  match s with c :: s' => if (c =? SPACE) || (c =? 9) then trim_start s' else s | [] => [] end.
Definition trim (s : str) : str := rev (trim_start (rev (trim_start s))).

Inductive parsed : Type := P_skip | P_err | P_rule (r : rule).

Definition add_rule (text : str) : parsed :=
  let t := trim text in
  match t with
  | [] => P_skip
  | c :: rest =>
      if c =? HASH then P_skip
      else
        let '(a, pat) :=
          if c =? PLUS then (Include, trim rest)
          else if c =? MINUS then (Exclude, trim rest)
          else (Exclude, t) in
        match pat with
        | [] => P_err
        | _ => match rule_new a pat with Some r => P_rule r | None => P_err end
        end
  end.

(* main.rs: --filter rules in order, then --include patterns, then --exclude patterns.
   kind: 0 = --filter text, 1 = --include pattern, 2 = --exclude pattern *)
Definition cli_rule (kind : N) (text : str) : parsed :=
  if kind =? 0 then add_rule text
  else match rule_new (if kind =? 1 then Include else Exclude) text with
       | Some r => P_rule r
       | None => P_err
       end.

Fixpoint build_rules (l : list (N * str)) : option (list rule) :=
  match l with
  | [] => Some []
  | (k, t) :: l' =>
      match cli_rule k t with
      | P_err => None
      | P_skip => build_rules l'
      | P_rule r => option_map (cons r) (build_rules l')
      end
  end.

(* ---------- engine selection (sync/mod.rs) ---------- *)
Record entry : Type := mk_entry { e_path : path; e_is_dir : bool; e_size : N }.

Definition size_filtered (min max : option N) (sz : N) : bool :=
  (match min with Some m => sz <? m | None => false end) ||
  (match max with Some m => m <? sz | None => false end).

Fixpoint select_loop (rules : list rule) (min max : option N)
         (excl : list path) (l : list entry) : list entry :=
  match l with
  | [] => []
  | e :: l' =>
      if existsb (fun d => is_prefix d (e_path e)) excl then select_loop rules min max excl l'
      else if negb (should_include rules (e_path e) (e_is_dir e)) then
        select_loop rules min max (if e_is_dir e then excl ++ [e_path e] else excl) l'
      else if e_is_dir e then e :: select_loop rules min max excl l'
      else if size_filtered min max (e_size e) then select_loop rules min max excl l'
      else e :: select_loop rules min max excl l'
  end.

Definition engine_select (rules : list rule) (min max : option N) (l : list entry) : list entry :=
  select_loop rules min max [] l.

(* executable check of the hypothesis under which the selection theorem holds:
   each path once, never empty, every proper ancestor listed earlier as a directory *)
Fixpoint path_eqb (a b : path) : bool :=
  match a, b with
  | [], [] => true
  | x :: a', y :: b' => str_eqb x y && path_eqb a' b'
  | _, _ => false
  end.

Fixpoint listing_ok_aux (seen : list entry) (l : list entry) : bool :=
  match l with
  | [] => true
  | e :: l' =>
      negb (match e_path e with [] => true | _ => false end)
      && negb (existsb (fun x => path_eqb (e_path x) (e_path e)) seen)
      && forallb (fun a => existsb (fun x => path_eqb (e_path x) a && e_is_dir x) seen) (prefixes (e_path e))
      && listing_ok_aux (e :: seen) l'
  end.

Definition listing_ok (l : list entry) : bool := listing_ok_aux [] l.
