(* Model of the hard-link coordination in /repo/src/sync/transfer.rs (Transferrer::create), following the two repairs
   `fix: hard-link waiters register for the completion notice before re-checking the inode state` and
   `fix: a failed first copy of a hard-link group releases the inode instead of leaving it in progress`:
   the workers of ONE link group share map[inode] in {absent, InProgress(notify), Completed(path)}.
   tokio::sync::Notify is modelled by an epoch counter: notify_waiters() increments it; a Notified future
   records the epoch at its creation and is ready once the epoch is larger (tokio's documented semantics:
   notify_waiters wakes exactly the futures created before the call, stores no permit).
   A schedule is a list of (worker, fails) choices: one atomic step of that worker per choice.
   [fused = true] makes "read the map" and "create the Notified future" one atomic step (no preemption
   between them, as on a single-threaded executor); [fused = false] allows the gap (multi-thread runtime).
   No proofs in this file. *)
From Coq Require Import List Bool Arith.
Import ListNotations.

Inductive mstate : Type := MAbsent | MInProgress | MCompleted (owner : nat).

Inductive pc : Type :=
| PRead                       (* about to lock the map and read the inode's state *)
| PGap                        (* saw InProgress, has not yet created the Notified future *)
| PEnabled (e : nat)          (* created and enabled its Notified future at epoch e; about to look at the map again *)
| PWait (e : nat)             (* awaiting notified(), created at epoch e *)
| PClaim                      (* saw absent; about to lock, double-check and insert InProgress *)
| PCopy                       (* owner: copy_file / write_xattrs / write_acls (each may fail) *)
| PRelease                    (* owner whose copy failed: remove the inode from the map *)
| PReleaseNotify              (* ... then notify_waiters() and return the error *)
| PDone                       (* owner: insert Completed *)
| PNotify                     (* owner: notify_waiters() *)
| PLink (owner : nat)         (* create_hardlink(first_path, dest) (may fail with `?`) *)
| POkOwner                    (* returned Ok after copying the file itself *)
| POkLinked (owner : nat)     (* returned Ok after hard-linking to the owner's destination *)
| PErr.                       (* returned Err *)

Record st : Type := mk_st { s_map : mstate; s_epoch : nat; s_pcs : list pc }.

Definition init (n : nat) : st := mk_st MAbsent 0 (repeat PRead n).

Fixpoint set_nth (l : list pc) (i : nat) (v : pc) : list pc :=
  match l, i with
  | [], _ => []
  | _ :: t, O => v :: t
  | x :: t, S i' => x :: set_nth t i' v
  end.

Definition terminal (p : pc) : bool := match p with POkOwner | POkLinked _ | PErr => true | _ => false end.

(* one step of worker i; [fails] = the fallible operation at this point returns an error;
   None = the worker cannot move (terminal, or its Notified future is not ready) *)
Definition step (fused : bool) (s : st) (i : nat) (fails : bool) : option st :=
  match nth_error (s_pcs s) i with
  | None => None
  | Some p =>
      let upd p' := Some (mk_st (s_map s) (s_epoch s) (set_nth (s_pcs s) i p')) in
      match p with
      | PRead => match s_map s with
                 | MCompleted o => upd (PLink o)
                 | MInProgress => if fused then upd (PEnabled (s_epoch s)) else upd PGap
                 | MAbsent => upd PClaim
                 end
      | PGap => upd (PEnabled (s_epoch s))
      | PEnabled e => match s_map s with
                      | MInProgress => upd (PWait e)        (* still in progress: await the (already registered) future *)
                      | _ => upd PRead                      (* finished or released meanwhile: look again *)
                      end
      | PWait e => if Nat.ltb e (s_epoch s) then upd PRead else None
      | PClaim => match s_map s with
                  | MAbsent => Some (mk_st MInProgress (s_epoch s) (set_nth (s_pcs s) i PCopy))
                  | _ => upd PRead
                  end
      | PCopy => if fails then upd PRelease else upd PDone
      | PRelease => Some (mk_st MAbsent (s_epoch s) (set_nth (s_pcs s) i PReleaseNotify))
      | PReleaseNotify => Some (mk_st (s_map s) (S (s_epoch s)) (set_nth (s_pcs s) i PErr))
      | PDone => Some (mk_st (MCompleted i) (s_epoch s) (set_nth (s_pcs s) i PNotify))
      | PNotify => Some (mk_st (s_map s) (S (s_epoch s)) (set_nth (s_pcs s) i POkOwner))
      | PLink o => if fails then upd PErr else upd (POkLinked o)
      | POkOwner | POkLinked _ | PErr => None
      end
  end.

Fixpoint run_sched (fused : bool) (s : st) (sched : list (nat * bool)) : st :=
  match sched with
  | [] => s
  | (i, f) :: t => match step fused s i f with Some s' => run_sched fused s' t | None => run_sched fused s t end
  end.

Definition all_terminal (s : st) : bool := forallb terminal (s_pcs s).

(* no worker can move although some have not returned: the run hangs forever *)
Definition deadlocked (fused : bool) (s : st) : bool :=
  negb (all_terminal s) &&
  forallb (fun i => match step fused s i false with None => true | Some _ => false end) (seq 0 (length (s_pcs s))).

(* ---------- exhaustive exploration (finite: the epoch grows at most once per owner) ---------- *)
Fixpoint pc_eqb (a b : pc) : bool :=
  match a, b with
  | PRead, PRead | PGap, PGap | PClaim, PClaim | PCopy, PCopy | PDone, PDone | PNotify, PNotify | POkOwner, POkOwner | PErr, PErr
  | PRelease, PRelease | PReleaseNotify, PReleaseNotify => true
  | PEnabled x, PEnabled y => Nat.eqb x y
  | POkLinked x, POkLinked y => Nat.eqb x y
  | PWait x, PWait y => Nat.eqb x y
  | PLink x, PLink y => Nat.eqb x y
  | _, _ => false
  end.
Fixpoint pcs_eqb (a b : list pc) : bool :=
  match a, b with [], [] => true | x :: a', y :: b' => pc_eqb x y && pcs_eqb a' b' | _, _ => false end.
Definition m_eqb (a b : mstate) : bool :=
  match a, b with MAbsent, MAbsent | MInProgress, MInProgress => true | MCompleted x, MCompleted y => Nat.eqb x y | _, _ => false end.
Definition st_eqb (a b : st) : bool := m_eqb (s_map a) (s_map b) && Nat.eqb (s_epoch a) (s_epoch b) && pcs_eqb (s_pcs a) (s_pcs b).

Definition succs (fused : bool) (faults : bool) (s : st) : list st :=
  flat_map (fun i =>
    (match step fused s i false with Some s' => [s'] | None => [] end) ++
    (if faults then match step fused s i true with Some s' => [s'] | None => [] end else []))
    (seq 0 (length (s_pcs s))).

Fixpoint explore (fuel : nat) (fused faults : bool) (seen frontier : list st) : list st * bool :=
  match fuel with
  | O => (seen, false)                         (* out of fuel: exploration incomplete *)
  | S f =>
      match frontier with
      | [] => (seen, true)
      | s :: rest =>
          if existsb (st_eqb s) seen then explore f fused faults seen rest
          else explore f fused faults (s :: seen) (succs fused faults s ++ rest)
      end
  end.

(* every reachable state of n workers is free of deadlock; the bool also says the exploration completed *)
Definition deadlock_free (fuel n : nat) (fused faults : bool) : bool :=
  let '(seen, complete) := explore fuel fused faults [] [init n] in
  complete && negb (existsb (deadlocked fused) seen).

(* the link structure of a finished run: every worker that returned Ok either is THE owner recorded in the map (it copied
   the file) or hard-linked to that owner's destination; workers that returned an error created nothing; when no owner
   completed, nobody returned Ok *)
Definition structure_ok (s : st) : bool :=
  negb (all_terminal s) ||
  match s_map s with
  | MCompleted o =>
      forallb (fun ip => match snd ip with
                         | POkOwner => Nat.eqb (fst ip) o
                         | POkLinked o' => Nat.eqb o' o && negb (Nat.eqb (fst ip) o)
                         | PErr => negb (Nat.eqb (fst ip) o)
                         | _ => false
                         end) (combine (seq 0 (length (s_pcs s))) (s_pcs s)) &&
      match nth_error (s_pcs s) o with Some POkOwner => true | _ => false end
  | _ => forallb (fun p => match p with PErr => true | _ => false end) (s_pcs s)
  end.

(* closure of a finite set of states under every step, checked by computation *)
Definition closed (fused faults : bool) (seen : list st) : bool :=
  forallb (fun s => forallb (fun s' => existsb (st_eqb s') seen) (succs fused faults s)) seen.
