(* Model of the hard-link coordination in /repo/src/sync/transfer.rs (Transferrer::create), following the repairs
   `fix: hard-link waiters register for the completion notice before re-checking the inode state`,
   `fix: a failed first copy of a hard-link group releases the inode instead of leaving it in progress` and
   `fix: a hard-link waiter only waits on the notice of the copy that is in progress now`:
   the workers of ONE link group share map[inode] in {absent, InProgress(notify), Completed(path)}.

   Every claim creates its OWN tokio::sync::Notify; a worker claims at most once, so a notice is identified by the index
   of the worker that created it.  The owner calls notify_waiters() on its notice exactly once -- after recording the
   completion, or after giving the inode up when its copy failed -- and then returns: notice o has FIRED iff worker o has
   returned as an owner (POkOwner / PErrOwner).  A Notified future is woken by the notify_waiters() calls made after its
   creation (tokio's documented semantics: no permit is stored): a future created after its notice has fired -- [late] --
   is never woken.

   A schedule is a list of (worker, fails) choices: one atomic step of that worker per choice.
   [fused = true] makes "read the map" and "create the Notified future" one atomic step (single-threaded executor);
   [fused = false] allows preemption between them (multi-thread runtime).
   [strict = true] is the code as it is: after registering, a waiter awaits only if the map still holds the SAME notice it
   registered with; [strict = false] is the code before the third repair (any InProgress entry counted).
   No proofs in this file. *)
From Coq Require Import List Bool Arith.
Import ListNotations.

Inductive mstate : Type := MAbsent | MInProgress (owner : nat) | MCompleted (owner : nat).

Inductive pc : Type :=
| PRead                             (* about to lock the map and read the inode's state *)
| PGap (o : nat)                    (* saw InProgress(notice o), has not yet created the Notified future *)
| PEnabled (o : nat) (late : bool)  (* created and enabled its Notified future on notice o; about to look at the map again *)
| PWait (o : nat) (late : bool)     (* awaiting that future *)
| PClaim                            (* saw absent; about to lock, double-check and insert InProgress with a new notice *)
| PCopy                             (* owner: copy_file / write_xattrs / write_acls (each may fail) *)
| PRelease                          (* owner whose copy failed: remove the inode from the map *)
| PReleaseNotify                    (* ... then notify_waiters() and return the error *)
| PDone                             (* owner: insert Completed *)
| PNotify                           (* owner: notify_waiters() *)
| PLink (owner : nat)               (* create_hardlink(first_path, dest) (may fail with `?`) *)
| POkOwner                          (* returned Ok after copying the file itself *)
| POkLinked (owner : nat)           (* returned Ok after hard-linking to the owner's destination *)
| PErr                              (* returned Err without ever owning the inode *)
| PErrOwner.                        (* returned Err after giving the inode up and notifying *)

Record st : Type := mk_st { s_map : mstate; s_pcs : list pc }.

Definition init (n : nat) : st := mk_st MAbsent (repeat PRead n).

Fixpoint set_nth (l : list pc) (i : nat) (v : pc) : list pc :=
  match l, i with
  | [], _ => []
  | _ :: t, O => v :: t
  | x :: t, S i' => x :: set_nth t i' v
  end.

Definition terminal (p : pc) : bool := match p with POkOwner | POkLinked _ | PErr | PErrOwner => true | _ => false end.

(* notice o has fired: its owner has called notify_waiters() *)
Definition fired_in (pcs : list pc) (o : nat) : bool :=
  match nth_error pcs o with Some POkOwner | Some PErrOwner => true | _ => false end.
Definition fired (s : st) (o : nat) : bool := fired_in (s_pcs s) o.

(* one step of worker i; [fails] = the fallible operation at this point returns an error;
   None = the worker cannot move (it has returned, or its Notified future is not ready) *)
Definition step (fused strict : bool) (s : st) (i : nat) (fails : bool) : option st :=
  match nth_error (s_pcs s) i with
  | None => None
  | Some p =>
      let upd p' := Some (mk_st (s_map s) (set_nth (s_pcs s) i p')) in
      match p with
      | PRead => match s_map s with
                 | MCompleted o => upd (PLink o)
                 | MInProgress o => if fused then upd (PEnabled o (fired s o)) else upd (PGap o)
                 | MAbsent => upd PClaim
                 end
      | PGap o => upd (PEnabled o (fired s o))
      | PEnabled o late =>
          match s_map s with
          | MInProgress o' => if strict && negb (Nat.eqb o' o) then upd PRead        (* another copy is in progress now: look again *)
                              else upd (PWait o late)                                (* await the (already registered) future *)
          | _ => upd PRead                                                           (* finished or released meanwhile: look again *)
          end
      | PWait o late => if negb late && fired s o then upd PRead else None
      | PClaim => match s_map s with
                  | MAbsent => Some (mk_st (MInProgress i) (set_nth (s_pcs s) i PCopy))
                  | _ => upd PRead
                  end
      | PCopy => if fails then upd PRelease else upd PDone
      | PRelease => Some (mk_st MAbsent (set_nth (s_pcs s) i PReleaseNotify))
      | PReleaseNotify => upd PErrOwner
      | PDone => Some (mk_st (MCompleted i) (set_nth (s_pcs s) i PNotify))
      | PNotify => upd POkOwner
      | PLink o => if fails then upd PErr else upd (POkLinked o)
      | POkOwner | POkLinked _ | PErr | PErrOwner => None
      end
  end.

Fixpoint run_sched (fused strict : bool) (s : st) (sched : list (nat * bool)) : st :=
  match sched with
  | [] => s
  | (i, f) :: t => match step fused strict s i f with Some s' => run_sched fused strict s' t | None => run_sched fused strict s t end
  end.

Definition all_terminal (s : st) : bool := forallb terminal (s_pcs s).

(* no worker can move although some have not returned: the run hangs forever *)
Definition deadlocked (fused strict : bool) (s : st) : bool :=
  negb (all_terminal s) &&
  forallb (fun i => match step fused strict s i false with None => true | Some _ => false end) (seq 0 (length (s_pcs s))).

(* ---------- exhaustive exploration of small groups (a cross-check of the general proofs) ---------- *)
Definition pc_eqb (a b : pc) : bool :=
  match a, b with
  | PRead, PRead | PClaim, PClaim | PCopy, PCopy | PDone, PDone | PNotify, PNotify | POkOwner, POkOwner | PErr, PErr
  | PRelease, PRelease | PReleaseNotify, PReleaseNotify | PErrOwner, PErrOwner => true
  | PGap x, PGap y => Nat.eqb x y
  | PEnabled x l, PEnabled y k => Nat.eqb x y && Bool.eqb l k
  | PWait x l, PWait y k => Nat.eqb x y && Bool.eqb l k
  | POkLinked x, POkLinked y => Nat.eqb x y
  | PLink x, PLink y => Nat.eqb x y
  | _, _ => false
  end.
Fixpoint pcs_eqb (a b : list pc) : bool :=
  match a, b with [], [] => true | x :: a', y :: b' => pc_eqb x y && pcs_eqb a' b' | _, _ => false end.
Definition m_eqb (a b : mstate) : bool :=
  match a, b with MAbsent, MAbsent => true | MInProgress x, MInProgress y => Nat.eqb x y | MCompleted x, MCompleted y => Nat.eqb x y | _, _ => false end.
Definition st_eqb (a b : st) : bool := m_eqb (s_map a) (s_map b) && pcs_eqb (s_pcs a) (s_pcs b).

Definition succs (fused strict : bool) (faults : bool) (s : st) : list st :=
  flat_map (fun i =>
    (match step fused strict s i false with Some s' => [s'] | None => [] end) ++
    (if faults then match step fused strict s i true with Some s' => [s'] | None => [] end else []))
    (seq 0 (length (s_pcs s))).

Fixpoint explore (fuel : nat) (fused strict faults : bool) (seen frontier : list st) : list st * bool :=
  match fuel with
  | O => (seen, false)                         (* out of fuel: exploration incomplete *)
  | S f =>
      match frontier with
      | [] => (seen, true)
      | s :: rest =>
          if existsb (st_eqb s) seen then explore f fused strict faults seen rest
          else explore f fused strict faults (s :: seen) (succs fused strict faults s ++ rest)
      end
  end.

(* the link structure of a finished run: every worker that returned Ok either is THE owner recorded in the map (it copied
   the file) or hard-linked to that owner's destination; workers that returned an error created nothing; when no owner
   completed, nobody returned Ok *)
Definition failed (p : pc) : bool := match p with PErr | PErrOwner => true | _ => false end.
Definition structure_ok (s : st) : bool :=
  negb (all_terminal s) ||
  match s_map s with
  | MCompleted o =>
      forallb (fun ip => match snd ip with
                         | POkOwner => Nat.eqb (fst ip) o
                         | POkLinked o' => Nat.eqb o' o && negb (Nat.eqb (fst ip) o)
                         | PErr | PErrOwner => negb (Nat.eqb (fst ip) o)
                         | _ => false
                         end) (combine (seq 0 (length (s_pcs s))) (s_pcs s)) &&
      match nth_error (s_pcs s) o with Some POkOwner => true | _ => false end
  | _ => forallb failed (s_pcs s)
  end.

(* closure of a finite set of states under every step, checked by computation *)
Definition closed (fused strict faults : bool) (seen : list st) : bool :=
  forallb (fun s => forallb (fun s' => existsb (st_eqb s') seen) (succs fused strict faults s)) seen.
