(* Model/Inodes.v -- names and inodes of regular files in the destination: what an UPDATE of one name does to the other names
   (src/sync/transfer.rs Transferrer::update, src/transport/local.rs copy_file / sync_file_with_delta, following
   `fix: a destination file that has further hard links is replaced, not rewritten in place`).  No proofs here.

   A destination is a map from names to inode numbers plus a map from inodes to contents.  fs::copy onto an existing file
   rewrites its inode: every name of that inode sees the new content.  A working file + rename gives the name a NEW inode. *)
From Coq Require Import NArith List Bool.
Import ListNotations.

Record dstate : Type := mk_dstate { d_names : N -> option N; d_store : N -> N; d_next : N }.   (* d_next: the first unused inode number *)

Definition content_of (s : dstate) (p : N) : option N := option_map (d_store s) (d_names s p).

(* the number of names (among the universe U of names) that share p's inode *)
Definition nlink (U : list N) (s : dstate) (p : N) : nat :=
  match d_names s p with
  | Some i => length (filter (fun q => match d_names s q with Some j => N.eqb j i | None => false end) U)
  | None => 0
  end.

Definition in_place (s : dstate) (p c : N) : dstate :=
  match d_names s p with
  | Some i => mk_dstate (d_names s) (fun j => if N.eqb j i then c else d_store s j) (d_next s)
  | None => s
  end.

Definition replace (s : dstate) (p c : N) : dstate :=
  let i := d_next s in
  mk_dstate (fun q => if N.eqb q p then Some i else d_names s q) (fun j => if N.eqb j i then c else d_store s j) (N.succ i).

(* the code as it is: a file with further links is replaced, any other file is rewritten in place ([guard = false]: always in place) *)
Definition update (guard : bool) (U : list N) (s : dstate) (pc : N * N) : dstate :=
  let (p, c) := pc in
  match d_names s p with
  | None => replace s p c                                            (* the file does not exist yet: a new inode *)
  | Some _ => if guard && Nat.ltb 1 (nlink U s p) then replace s p c else in_place s p c
  end.

Definition updates (guard : bool) (U : list N) (s : dstate) (l : list (N * N)) : dstate := fold_left (update guard U) l s.

(* every inode in use is below d_next *)
Definition wf (U : list N) (s : dstate) : Prop := forall p i, d_names s p = Some i -> (i < d_next s)%N /\ In p U.

(* ---------- relink_hard_link_groups (src/sync/mod.rs), following `fix: -H brings names that already exist in the destination
   onto their group's inode` ----------
   After the transfers the destination names of one multiply-linked source file are visited in plan order.  [kept] holds one inode
   per distinct file found so far ("the same file" is what the planner compares, size and time stamp; in the model: the content).
   A name whose file is the same as a kept one is pointed at the kept inode (hard link under the working name + rename: the name
   changes inode, no inode changes content); any other name is kept as it is and becomes a representative. *)
Definition link_to (s : dstate) (q i : N) : dstate :=
  mk_dstate (fun r => if N.eqb r q then Some i else d_names s r) (d_store s) (d_next s).

Fixpoint relink_group (s : dstate) (kept : list N) (names : list N) : dstate :=
  match names with
  | [] => s
  | q :: rest =>
      match d_names s q with
      | None => relink_group s kept rest
      | Some j =>
          match find (fun i => N.eqb (d_store s i) (d_store s j)) kept with
          | Some i => relink_group (link_to s q i) kept rest
          | None => relink_group s (j :: kept) rest
          end
      end
  end.

(* all groups, one after the other *)
Definition relink (s : dstate) (groups : list (list N)) : dstate := fold_left (fun s g => relink_group s [] g) groups s.

(* ---------- one re-link of that pass as the system calls that make it (C09: killed between two calls) ----------
   The code: hard link the kept name's inode under the working name, then rename the working name over q (anchor HL_RELINK_SHAPE).
   The variant of seed C09-4: unlink q, then hard link the kept inode under q. *)
Inductive rstep : Type := RLinkTmp (i : N) | RRename (q : N) | RUnlink (q : N) | RLink (q i : N).
Record rstate : Type := mk_rstate { r_names : N -> option N; r_tmp : option N }.

Definition rstep_apply (s : rstate) (st : rstep) : rstate :=
  match st with
  | RLinkTmp i => mk_rstate (r_names s) (Some i)
  | RRename q => match r_tmp s with
                 | Some i => mk_rstate (fun r => if N.eqb r q then Some i else r_names s r) None
                 | None => s
                 end
  | RUnlink q => mk_rstate (fun r => if N.eqb r q then None else r_names s r) (r_tmp s)
  | RLink q i => mk_rstate (fun r => if N.eqb r q then Some i else r_names s r) (r_tmp s)
  end.

Definition relink_prog (q i : N) : list rstep := [RLinkTmp i; RRename q].
Definition relink_prog_unlink_first (q i : N) : list rstep := [RUnlink q; RLink q i].
(* the state after the first k calls: a kill just before call k+1 *)
Definition rprefix (k : nat) (prog : list rstep) (s : rstate) : rstate := fold_left rstep_apply (firstn k prog) s.

(* ---------- separate_foreign_links (src/sync/mod.rs), following `fix: -H separates destination names whose source files are no
   longer hard links of each other` ----------
   A destination name that shares its inode with names of another source group gets a copy of its own: the same content on a
   fresh inode (made under the working name, renamed into place). *)
Definition separate (s : dstate) (q : N) : dstate :=
  match content_of s q with
  | Some c => replace s q c
  | None => s
  end.
