(* Model of the handling of symbolic-link entries on a local destination, following the repaired code
   (`fix: compare and replace symlink entries as links ...`):
   sync/strategy.rs plan_file_async (symlink branch), sync/transfer.rs Transferrer::{create, update,
   handle_symlink}, transport/local.rs create_symlink.
   A source link has its raw target text (an identity N) and, for follow mode, what the raw target
   resolves to FROM THE PROCESS'S WORKING DIRECTORY (the code calls target.exists() / is_dir() on the raw
   target).  The destination entry at the link's path is one of: absent, a link with some target text,
   a regular file, a directory.  [wrote_through] records whether anything was written through a link.
   No proofs in this file. *)
From Coq Require Import NArith List Bool.
Import ListNotations.

Inductive lmode : Type := LPreserve | LFollow | LSkip.
Inductive dentry : Type := DAbsent | DLink (target : N) | DFile (content : N) | DDir.
Inductive cwdres : Type := RMissing | RDir | RFile (content : N).     (* what the link resolves to, a relative target taken from the directory that holds the link (as the kernel resolves it) *)

Record slink : Type := mk_slink { l_target : N; l_cwd : cwdres }.

Inductive laction : Type := LkSkip | LkCreate | LkUpdate.

(* planner: compare the links themselves (symlink_metadata + read_link), never stat through;
   in follow mode an identical link in the destination is not up to date (it has to become a copy) *)
Definition plan_link (m : lmode) (s : slink) (d : dentry) : laction :=
  match d with
  | DAbsent => LkCreate
  | DLink t => match m with
               | LFollow => LkUpdate
               | _ => if N.eqb t (l_target s) then LkSkip else LkUpdate
               end
  | DFile c => match m, l_cwd s with
               | LFollow, RFile c' => if N.eqb c c' then LkSkip else LkUpdate      (* the copy of the link's referent is current
                                                                                     (`fix: follow mode does not copy an up-to-date entry again`) *)
               | _, _ => LkUpdate
               end
  | DDir => LkUpdate
  end.

Inductive lerr : Type := LE_Exists.

(* handle_symlink on whatever is at the path now; the boolean says whether the step wrote THROUGH a link
   that was in the destination (fs::copy follows a destination symlink) *)
Definition handle_symlink (m : lmode) (s : slink) (d : dentry) : (dentry * bool) + lerr :=
  match m with
  | LSkip => inl (d, false)
  | LPreserve => match d with DAbsent => inl (DLink (l_target s), false) | _ => inr LE_Exists end      (* symlink(2): EEXIST *)
  | LFollow => match l_cwd s with
               | RFile c => match d with
                            | DDir => inr LE_Exists
                            | DLink t => inl (DLink t, true)          (* copy_file(target, dest) lands in the link's referent *)
                            | _ => inl (DFile c, false)
                            end
               | RMissing | RDir => inl (d, false)                                           (* logged, nothing done *)
               end
  end.

(* Transferrer::update for a symlink entry: skip mode does nothing; otherwise a destination LINK is always
   removed first (so nothing is written through it), a regular file only in preserve mode *)
Definition update_link (m : lmode) (s : slink) (d : dentry) : (dentry * bool) + lerr :=
  match m with
  | LSkip => inl (d, false)
  | _ =>
      let d1 := match d with
                | DLink _ => DAbsent
                | DFile _ => match m with LPreserve => DAbsent | _ => d end
                | _ => d
                end in
      handle_symlink m s d1
  end.

Definition exec_link (m : lmode) (s : slink) (d : dentry) : (dentry * bool) + lerr :=
  match plan_link m s d with
  | LkSkip => inl (d, false)
  | LkCreate => handle_symlink m s d
  | LkUpdate => update_link m s d
  end.

(* one sync of one link entry; on error the destination entry is left as it was *)
Definition sync_link (m : lmode) (s : slink) (d : dentry) : dentry :=
  match exec_link m s d with inl (d', _) => d' | inr _ => d end.

Definition wrote_through (m : lmode) (s : slink) (d : dentry) : bool :=
  match exec_link m s d with inl (_, b) => b | inr _ => false end.

Fixpoint resync (m : lmode) (hist : list slink) (d : dentry) : dentry :=
  match hist with [] => d | s :: h => resync m h (sync_link m s d) end.

(* ---------- what the run reports for the entry (sync/mod.rs: the Create and Update arms, following the repair
   `fix: a symlink entry that is not copied is reported as skipped, not as created`) ---------- *)
Inductive levent : Type := EvSkip | EvCreate | EvUpdate | EvError.

(* handle_symlink returned Some(transfer result): only follow mode with a target that is a regular file *)
Definition produced (m : lmode) (s : slink) : bool :=
  match m with LFollow => match l_cwd s with RFile _ => true | _ => false end | _ => false end.

Definition link_event (m : lmode) (s : slink) (d : dentry) : levent :=
  match plan_link m s d with
  | LkSkip => EvSkip
  | LkCreate => match handle_symlink m s d with
                | inr _ => EvError
                | inl _ => if produced m s then EvCreate else match m with LPreserve => EvCreate | _ => EvSkip end
                end
  | LkUpdate => match update_link m s d with
                | inr _ => EvError
                | inl _ => if produced m s then EvUpdate
                           else match m, d with
                                | LSkip, _ => EvSkip
                                | LFollow, DLink _ => EvUpdate          (* the destination link was removed before the run found out *)
                                | LFollow, _ => EvSkip                  (* nothing resolves, nothing was touched *)
                                | LPreserve, _ => EvUpdate
                                end
                end
  end.

(* ---------- the source entry at the path may change its KIND between runs: a link becomes a regular file or a real directory
   (`fix: a file or directory is never created through a symlink that sits in its place`) ---------- *)
Inductive sany : Type :=
| SALink (s : slink)
| SAFile (c : N)            (* a regular file with content c *)
| SADir.                    (* a directory (its children are separate entries written below the path) *)

(* [guard = true] is the code as it is: a symlink in the place of a file or directory entry is removed first;
   [guard = false] is the code before that repair: the planner stats THROUGH the link and fs::copy / the children's creation
   land in the link's referent.  Result: the entry afterwards, and whether the step wrote through a destination link. *)
Definition sync_any (guard : bool) (m : lmode) (e : sany) (d : dentry) : dentry * bool :=
  match e with
  | SALink s => (sync_link m s d, wrote_through m s d)
  | SAFile c => match d with
                | DLink t => if guard then (DFile c, false) else (DLink t, true)
                | DDir => (DDir, false)                               (* EISDIR: reported, nothing written *)
                | _ => (DFile c, false)
                end
  | SADir => match d with
             | DLink t => if guard then (DDir, false) else (DLink t, true)     (* children would be created through the link *)
             | DFile c => (DFile c, false)                            (* a file in the way: reported (finding C10-KF1) *)
             | _ => (DDir, false)
             end
  end.

Fixpoint resync_any (guard : bool) (m : lmode) (hist : list sany) (d : dentry) : dentry * bool :=
  match hist with
  | [] => (d, false)
  | e :: h => let (d1, w1) := sync_any guard m e d in let (d2, w2) := resync_any guard m h d1 in (d2, w1 || w2)
  end.

(* ---------- what a DRY run reports for the entry (`fix: a dry run reports a followed symbolic link as it would be copied`) ----------
   In a dry run every transfer returns nothing; the report arms ask [left_out] -- Transferrer::symlink_is_left_out: skip mode, or follow
   mode with a target that does not resolve to a file -- instead of reading "nothing returned" as "nothing copied". *)
Definition left_out (m : lmode) (s : slink) : bool :=
  match m with LSkip => true | LPreserve => false | LFollow => negb (produced m s) end.

Definition dry_link_event (m : lmode) (s : slink) (d : dentry) : levent :=
  let dest_was_link := match d with DLink _ => true | _ => false end in
  match plan_link m s d with
  | LkSkip => EvSkip
  | LkCreate => if left_out m s then EvSkip else EvCreate
  | LkUpdate => if left_out m s && (match m with LSkip => true | _ => false end || negb dest_was_link) then EvSkip else EvUpdate
  end.
