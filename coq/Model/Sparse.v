(* Model of sparse transfers: sparse.rs detect_data_regions (over the kernel's extent map),
   ssh.rs region packing, sy-remote receive-sparse-file.  A file is a byte list; its extent map is a
   list of runs (is_data, length); hole runs read as zeros (kernel hypothesis, stated in the theorems).
   No proofs in this file. *)
From Coq Require Import ZArith List Bool.
Import ListNotations.

Definition run := (bool * nat)%type.           (* (is_data, length) *)

Fixpoint total (ext : list run) : nat :=
  match ext with [] => 0 | (_, n) :: t => n + total t end.

(* data regions as (offset, length): the data runs of the extent map in order.  The map is what
   SEEK_DATA/SEEK_HOLE report, i.e. runs alternate; empty runs are ignored *)
Fixpoint regions_from (off : nat) (ext : list run) : list (nat * nat) :=
  match ext with
  | [] => []
  | (true, n) :: t => match n with O => regions_from off t | _ => (off, n) :: regions_from (off + n) t end
  | (false, n) :: t => regions_from (off + n) t
  end.

Definition detect (ext : list run) : list (nat * nat) := regions_from 0 ext.

Definition slice (f : list Z) (o l : nat) : list Z := firstn l (skipn o f).

(* ssh.rs: read every region and concatenate *)
Definition pack (f : list Z) (rs : list (nat * nat)) : list Z :=
  flat_map (fun r => slice f (fst r) (snd r)) rs.

(* write [d] at offset [o] into [f], extending with zeros if needed *)
Definition write_at (f : list Z) (o : nat) (d : list Z) : list Z :=
  let f' := f ++ repeat 0%Z (o + length d - length f) in
  firstn o f' ++ d ++ skipn (o + length d) f'.

(* sy-remote receive-sparse-file: set_len(total) then, per region, seek + read_exact from stdin + write *)
Fixpoint receive_loop (f : list Z) (rs : list (nat * nat)) (stream : list Z) : option (list Z) :=
  match rs with
  | [] => Some f
  | (o, l) :: t =>
      if Nat.ltb (length stream) l then None                       (* read_exact fails: short stream *)
      else receive_loop (write_at f o (firstn l stream)) t (skipn l stream)
  end.

Definition receive_sparse (total_size : nat) (rs : list (nat * nat)) (stream : list Z) : option (list Z) :=
  receive_loop (repeat 0%Z total_size) rs stream.
