(* Model/Temp.v -- working files of the block-delta update path (src/temp_file.rs temp_path_for,
   src/transport/local.rs sync_file_with_delta) and concurrent transfers (src/sync/mod.rs: one tokio
   task per planned action).  No proofs here.

   A destination directory is a map from paths to contents.  Each transfer task is a short program of
   path-level operations; a run with N workers executes an arbitrary interleaving of the programs. *)
From Coq Require Import NArith List Bool.
From SyGen Require Import SrcConstants.
Import ListNotations.

Definition fname := list N.                    (* the bytes of one file name *)
Definition fpath := (N * fname)%type.          (* directory id, file name *)

Definition DOT : N := 46%N.

(* temp_path_for: the complete file name with the suffix appended, same directory *)
Definition temp_name (n : fname) : fname := n ++ TEMP_SUFFIX.
Definition temp_path (p : fpath) : fpath := (fst p, temp_name (snd p)).

(* Rust's Path::with_extension, the naming of the pinned code (kept for the refutation theorem and
   validated against std by the harness): file_stem ++ "." ++ ext, where the stem is the part before
   the last dot unless that dot is the first byte *)
Fixpoint split_last_dot (n : fname) : option (fname * fname) :=
  match n with
  | [] => None
  | c :: r =>
      match split_last_dot r with
      | Some (a, b) => Some (c :: a, b)
      | None => if N.eqb c DOT then Some ([], r) else None
      end
  end.

Definition file_stem (n : fname) : fname :=
  match split_last_dot n with
  | Some ([], _) => n
  | Some (a, _) => a
  | None => n
  end.

Definition with_extension (n ext : fname) : fname := file_stem n ++ DOT :: ext.
Definition pinned_temp_name (n : fname) : fname := with_extension n (tl TEMP_SUFFIX).
Definition pinned_temp_path (p : fpath) : fpath := (fst p, pinned_temp_name (snd p)).

Definition fname_eqb (a b : fname) : bool :=
  (fix go (a b : fname) : bool :=
     match a, b with
     | [], [] => true
     | x :: a', y :: b' => N.eqb x y && go a' b'
     | _, _ => false
     end) a b.
Definition fpath_eqb (a b : fpath) : bool := N.eqb (fst a) (fst b) && fname_eqb (snd a) (snd b).

Inductive tcontent :=
| TOld (id : N)          (* whatever was there before the run (a destination's old data, a user's file) *)
| TTorn (t : N)          (* a prefix of task t's data *)
| TNew (t : N).          (* exactly task t's source data *)

Definition tfs := fpath -> option tcontent.
Definition tupd (s : tfs) (p : fpath) (v : option tcontent) : tfs := fun q => if fpath_eqb q p then v else s q.

Inductive top :=
| OCreate (p : fpath) (t : N)      (* open(p, O_CREAT|O_TRUNC) and first writes by task t *)
| OFinish (p : fpath) (t : N)      (* last write and close: p holds exactly t's data (nothing if p was unlinked meanwhile) *)
| ORename (a b : fpath)            (* rename a over b; fails (no effect) when a does not exist *)
| ORemove (p : fpath).             (* --delete: remove p; already gone counts as done *)

Definition tapply (o : top) (s : tfs) : tfs :=
  match o with
  | OCreate p t => tupd s p (Some (TTorn t))
  | OFinish p t => match s p with Some _ => tupd s p (Some (TNew t)) | None => s end
  | ORename a b => match s a with Some c => tupd (tupd s b (Some c)) a None | None => s end
  | ORemove p => tupd s p None
  end.

Definition touches (o : top) : list fpath :=
  match o with
  | OCreate p _ => [p]
  | OFinish p _ => [p]
  | ORename a b => [a; b]
  | ORemove p => [p]
  end.

Inductive tkind := KDelta | KDirect | KDelete.   (* update through a working file + rename | fs::copy straight onto the destination | --delete of a stale entry *)
Record ttask := { tk_id : N; tk_dest : fpath; tk_kind : tkind }.

Definition prog (tn : fpath -> fpath) (t : ttask) : list top :=
  match tk_kind t with
  | KDirect => [OCreate (tk_dest t) (tk_id t); OFinish (tk_dest t) (tk_id t)]
  | KDelta => [OCreate (tn (tk_dest t)) (tk_id t); OFinish (tn (tk_dest t)) (tk_id t); ORename (tn (tk_dest t)) (tk_dest t)]
  | KDelete => [ORemove (tk_dest t)]
  end.

(* an execution: operations tagged with the index of the task that issues them *)
Definition texec (l : list (nat * top)) (s : tfs) : tfs := fold_left (fun s x => tapply (snd x) s) l s.
Definition proj (i : nat) (l : list (nat * top)) : list top := map snd (filter (fun x => Nat.eqb (fst x) i) l).

(* one task after the other *)
Fixpoint sequential_from (i : nat) (ps : list (list top)) : list (nat * top) :=
  match ps with
  | [] => []
  | p :: r => map (fun o => (i, o)) p ++ sequential_from (S i) r
  end.
Definition sequential (ps : list (list top)) : list (nat * top) := sequential_from 0 ps.

(* a schedule picks, step by step, which task advances; out-of-range or finished picks are skipped; whatever is
   left when the schedule ends is run in task order (so every schedule yields a complete interleaving) *)
Fixpoint take_nth (i : nat) (ps : list (list top)) : option (top * list (list top)) :=
  match ps, i with
  | [], _ => None
  | [] :: _, O => None
  | (o :: p) :: r, O => Some (o, p :: r)
  | p :: r, S j => match take_nth j r with Some (o, r') => Some (o, p :: r') | None => None end
  end.
Fixpoint run_schedule (sched : list nat) (ps : list (list top)) : list (nat * top) :=
  match sched with
  | [] => sequential ps
  | i :: rest =>
      match take_nth i ps with
      | Some (o, ps') => (i, o) :: run_schedule rest ps'
      | None => run_schedule rest ps
      end
  end.

(* observable result on a finite universe of paths *)
Definition observe (s : tfs) (universe : list fpath) : list (option tcontent) := map s universe.
Definition run_tasks (tn : fpath -> fpath) (tasks : list ttask) (sched : list nat) (s : tfs) : tfs :=
  texec (run_schedule sched (map (prog tn) tasks)) s.
