(* Model of the mass-deletion guard of /repo/src/sync/mod.rs (sync(), "Apply deletion safety checks"):
     let delete_percentage = (deletions.len() as f64 / dest_file_count as f64) * 100.0;
     if delete_percentage > self.delete_threshold as f64 { refuse }
   evaluated in IEEE binary64 with Coq's primitive floats (kernel-evaluated), and its exact counterpart.
   No proofs in this file. *)
From Coq Require Import ZArith Floats Uint63 Bool.
From SyGen Require Import SrcConstants.
Open Scope Z_scope.

Definition f_of_Z (z : Z) : float := PrimFloat.of_uint63 (Uint63.of_Z z).     (* `as f64`, exact below 2^53 *)

Definition pct (d n : Z) : float := PrimFloat.mul (PrimFloat.div (f_of_Z d) (f_of_Z n)) (f_of_Z 100).

(* the guard as coded: only consulted when deletions is non-empty, force_delete is off and the destination scan is non-empty *)
Definition refuse (force : bool) (d n t : Z) : bool :=
  negb force && (0 <? d) && (0 <? n) && PrimFloat.ltb (f_of_Z t) (pct d n).

(* what the statement says: the planned deletions exceed t percent of the destination's entries *)
Definition exceeds (d n t : Z) : bool := t * n <? 100 * d.

(* cli.rs validate(): delete_threshold > 100 is rejected; the default *)
Definition threshold_valid (t : Z) : bool := (0 <=? t) && (t <=? THRESHOLD_MAX).

(* finite sweep used by the bounded theorem: every n <= N, d <= n, t <= 100 *)
Fixpoint upto (k : nat) : list Z := match k with O => (0 :: nil)%list | S k' => (Z.of_nat k :: upto k')%list end.
Definition sound_on (nmax : nat) : bool :=
  List.forallb (fun n => List.forallb (fun d => List.forallb (fun t =>
     implb (exceeds d n t && (d <=? n) && (0 <? n)) (refuse false d n t)) (upto 100)) (upto (Z.to_nat n))) (upto nmax).
