(* Model of SyncEngine::verify (/repo/src/sync/mod.rs) and the exit mapping of main.rs (--verify-only).
   Trees are listings of regular files and directories (relative path, kind, size, content identity).
   No proofs in this file. *)
From Coq Require Import NArith ZArith List Bool.
From SyModel Require Import Engine.
Import ListNotations.

Record ventry : Type := mk_ventry { v_path : path; v_is_dir : bool; v_size : N; v_content : N }.

Inductive ckmode : Type := CkNone | CkContent.       (* --mode fast / the hashing modes: since `fix: --verify-only compares file contents in every
                                                         verification mode` all of them read and compare the bytes *)

Definition lookup (l : list ventry) (p : path) : option ventry := find (fun e => peqb (v_path e) p) l.

Definition size_filtered (mn mx : option N) (sz : N) : bool :=
  (match mn with Some m => N.ltb sz m | None => false end) || (match mx with Some m => N.ltb m sz | None => false end).

Inductive cmp : Type := CmpMatch | CmpMismatch | CmpError.

(* a directory where the source has a file is a mismatch (`fix: --verify-only reports a file/directory type conflict`);
   otherwise both files are read and compared, whatever the mode.  CmpError (a file that cannot be read) does not arise
   for the trees of this model *)
Definition compare (m : ckmode) (s d : ventry) : cmp :=
  if v_is_dir d then CmpMismatch
  else if N.eqb (v_content s) (v_content d) && N.eqb (v_size s) (v_size d) then CmpMatch else CmpMismatch.

Record vresult : Type := mk_vresult {
  vr_matched : nat; vr_mismatched : list path; vr_only_src : list path; vr_only_dst : list path; vr_errors : list path
}.

Definition src_files (mn mx : option N) (src : list ventry) : list ventry :=
  filter (fun e => negb (v_is_dir e) && negb (size_filtered mn mx (v_size e))) src.

Definition verify (m : ckmode) (mn mx : option N) (src dst : list ventry) : vresult :=
  let sf := src_files mn mx src in
  let cls e := match lookup dst (v_path e) with Some d => Some (compare m e d) | None => None end in
  mk_vresult
    (length (filter (fun e => match cls e with Some CmpMatch => true | _ => false end) sf))
    (map v_path (filter (fun e => match cls e with Some CmpMismatch => true | _ => false end) sf))
    (map v_path (filter (fun e => match cls e with None => true | _ => false end) sf))
    (map v_path (filter (fun d => negb (v_is_dir d) && negb (existsb (fun e => peqb (v_path e) (v_path d) && negb (v_is_dir e)) src)) dst))   (* a source DIRECTORY of that name is no counterpart *)
    (map v_path (filter (fun e => match cls e with Some CmpError => true | _ => false end) sf)).

Definition verify_exit (r : vresult) : Z :=
  match vr_errors r with
  | _ :: _ => 2%Z
  | [] => match vr_mismatched r, vr_only_src r, vr_only_dst r with
          | [], [], [] => 0%Z
          | _, _, _ => 1%Z
          end
  end.
