(* Model/Watch.v -- the event loop of --watch (src/sync/watch.rs WatchMode::watch).
   The notify watcher puts one entry into an unbounded channel per file-system event; each loop iteration sleeps a
   tick, then receives with a timeout: an event is filtered (should_sync_event) and remembered; a timeout with
   remembered events and an elapsed debounce runs a full sync (scan of the whole source) and forgets them.
   Time is counted in loop iterations; a sync is atomic here: a change made while a sync is running is, for the
   result, either before its scan (a Change before the Iter) or after it (a Change after the Iter) -- both
   interleavings are in the quantifier.  No proofs here. *)
From Coq Require Import Arith List Bool.
Import ListNotations.

Record wstate : Type := mk_w {
  w_queue : list bool;      (* events waiting in the channel, oldest first; true = a kind that triggers a sync *)
  w_pending : bool;         (* pending_changes is non-empty *)
  w_last_sync : nat;
  w_now : nat;
  w_src : nat;              (* version of the source tree *)
  w_dst : nat               (* source version the destination reflects *)
}.

Inductive waction :=
| Change        (* the source changes while watched: at least one triggering event is queued *)
| Noise         (* an event of an ignored kind (access, other) *)
| Unwatched     (* the source changes while NO watcher is registered: nothing is queued *)
| Iter.         (* one loop iteration *)

Definition sync_now (s : wstate) : wstate :=
  mk_w (w_queue s) false (w_now s) (w_now s) (w_src s) (w_src s).

Definition iter (debounce : nat) (s : wstate) : wstate :=
  let now := S (w_now s) in
  match w_queue s with
  | ev :: q => mk_w q (w_pending s || ev) (w_last_sync s) now (w_src s) (w_dst s)
  | [] => if w_pending s && (debounce <=? now - w_last_sync s)
          then sync_now (mk_w [] (w_pending s) (w_last_sync s) now (w_src s) (w_dst s))
          else mk_w [] (w_pending s) (w_last_sync s) now (w_src s) (w_dst s)
  end.

Definition wstep (debounce : nat) (s : wstate) (a : waction) : wstate :=
  match a with
  | Change => mk_w (w_queue s ++ [true]) (w_pending s) (w_last_sync s) (w_now s) (S (w_src s)) (w_dst s)
  | Noise => mk_w (w_queue s ++ [false]) (w_pending s) (w_last_sync s) (w_now s) (w_src s) (w_dst s)
  | Unwatched => mk_w (w_queue s) (w_pending s) (w_last_sync s) (w_now s) (S (w_src s)) (w_dst s)
  | Iter => iter debounce s
  end.

Definition wrun (debounce : nat) (acts : list waction) (s : wstate) : wstate := fold_left (wstep debounce) acts s.

(* start-up.  Repaired order: the watcher is registered, then the initial sync runs; what happens during that sync is a
   Change (queued).  Pinned order: initial sync, then registration; what happens during that sync is Unwatched. *)
Definition start (src0 : nat) : wstate := mk_w [] false 0 0 src0 src0.      (* just after the initial sync's scan *)
Definition watched (a : waction) : bool := match a with Unwatched => false | _ => true end.
