(* Model of the remote helper's payload handling (/repo/src/bin/sy-remote.rs,
   apply-delta and receive-file) and of the sender side in transport/ssh.rs.
   zstd and serde_json are section variables (oracles); the sniffers use the
   magic bytes extracted from the source.  No proofs in this file. *)
From Coq Require Import ZArith List Bool.
From SyGen Require Import SrcConstants.
From SyModel Require Import Delta.
Import ListNotations.
Open Scope Z_scope.

(* `stdin_data.len() >= 4 && stdin_data[0] == 0x28 && ...` of apply-delta *)
Definition sniff_apply_delta (p : list Z) : bool :=
  (AD_MAGIC_MINLEN <=? len p) &&
  match p with
  | a :: b :: c :: d :: _ => (a =? AD_MAGIC_0) && (b =? AD_MAGIC_1) && (c =? AD_MAGIC_2) && (d =? AD_MAGIC_3)
  | _ => false
  end.

(* ... and of receive-file *)
Definition sniff_receive_file (p : list Z) : bool :=
  (RF_MAGIC_MINLEN <=? len p) &&
  match p with
  | a :: b :: c :: d :: _ => (a =? ZSTD_MAGIC_0) && (b =? ZSTD_MAGIC_1) && (c =? ZSTD_MAGIC_2) && (d =? ZSTD_MAGIC_3)
  | _ => false
  end.

Section Wire.
  Variable zc : list Z -> list Z.              (* compress(_, Zstd) *)
  Variable zd : list Z -> option (list Z).     (* decompress(_, Zstd) *)
  Variable ser : list op -> list Z.            (* serde_json::to_string(&Delta) as bytes *)
  Variable de : list Z -> option (list op).    (* serde_json::from_str *)

  (* ssh.rs: serialise, compress, send on stdin *)
  Definition sender_payload (compress : bool) (ops : list op) : list Z :=
    if compress then zc (ser ops) else ser ops.

  (* sy-remote apply-delta: sniff, maybe decompress, parse, apply *)
  Definition helper_apply_delta (old payload : list Z) : option (list Z) :=
    let json := if sniff_apply_delta payload then zd payload else Some payload in
    match json with
    | Some j => match de j with Some ops => apply old ops | None => None end
    | None => None
    end.

  (* sy-remote receive-file: sniff, maybe decompress, write *)
  Definition helper_receive_file (payload : list Z) : option (list Z) :=
    if sniff_receive_file payload then zd payload else Some payload.
End Wire.

(* ---------- the sender's compression decision (compress/mod.rs should_compress_smart) ---------- *)
Inductive compression : Type := CNone | CLz4 | CZstd.
Inductive detection : Type := DAuto | DExtension | DAlways | DNever.
(* outcome of the 64 KiB LZ4 content sample: compressible (ratio < 0.9), incompressible, read error, or no path given *)
Inductive sample : Type := SCompressible | SIncompressible | SError | SNoPath.

Definition should_compress_smart (is_local : bool) (mode : detection) (size : Z) (ext_compressed : bool) (s : sample) : compression :=
  if is_local then CNone
  else match mode with
       | DAlways => CZstd
       | DNever => CNone
       | _ =>
           if size <? SMALL_FILE_LIMIT then CNone
           else if ext_compressed then CNone
           else match mode with
                | DExtension => CZstd
                | _ => match s with SIncompressible => CNone | _ => CZstd end
                end
       end.

Section Pipeline.
  Variable zc lc : list Z -> list Z.
  Variable zd : list Z -> option (list Z).

  (* ssh.rs copy_file: no compression -> SFTP writes the bytes; otherwise compress(data, mode) piped to `sy-remote receive-file` *)
  Inductive sent : Type := Sftp (x : list Z) | Helper (payload : list Z).
  Definition send (d : compression) (x : list Z) : sent :=
    match d with CNone => Sftp x | CZstd => Helper (zc x) | CLz4 => Helper (lc x) end.
  Definition deliver (s : sent) : option (list Z) :=
    match s with Sftp x => Some x | Helper p => helper_receive_file zd p end.
End Pipeline.
