(* Model/Xattr.v -- user extended attributes of one regular file across runs with and without -X
   (src/sync/scanner.rs read_xattrs, src/transport/local.rs copy_file / sync_file_with_delta, src/sync/transfer.rs
   write_xattrs and refresh_xattrs, the Skip arm of src/sync/mod.rs).  No proofs here.

   Attribute names and values are numbers; an attribute map is a function to [option].  The planner transfers the
   file when the destination is missing, its content differs (every content change of the histories changes size
   and mtime) or the source's time stamp moved although the bytes did not ([xs_touched]: a touch, a checkout, a restore --
   the planner says Update, the data path copies the same bytes again: in place for a small destination, through a
   working file + rename for a large one, whose fresh inode carries no attribute); otherwise the file is skipped. *)
From Coq Require Import NArith List Bool.
Import ListNotations.

Definition amap := N -> option N.
Definition aempty : amap := fun _ => None.
Definition aset (m : amap) (k v : N) : amap := fun k' => if N.eqb k' k then Some v else m k'.
Definition adel (m : amap) (k : N) : amap := fun k' => if N.eqb k' k then None else m k'.

(* copy_file, clone path of sync_file_with_delta: "Strip all xattrs so that Transferrer can selectively re-add them" *)
Definition strip (m : amap) : amap := aempty.
(* write_xattrs: xattr::set for every attribute the scan found on the source; nothing is removed *)
Definition write_all (src dst : amap) : amap := fun k => match src k with Some v => Some v | None => dst k end.
(* refresh_xattrs (skipped file, -X): remove what the source does not have, then set the source's *)
Definition remove_absent (src dst : amap) : amap := fun k => match src k with Some _ => dst k | None => None end.
Definition refresh (src dst : amap) : amap := write_all src (remove_absent src dst).

Record xfile : Type := mk_xfile { xf_content : N; xf_attrs : amap }.
Record xstate : Type := mk_xstate { xs_src : xfile; xs_dst : option xfile; xs_touched : bool }.

Inductive xop : Type :=
| SrcSet (k v : N) | SrcDel (k : N) | SrcWrite (c : N) | SrcTouch
| DstSet (k v : N) | DstDel (k : N)          (* somebody changes attributes of the destination file between runs *)
| XSync (x : bool) (big : bool).             (* x: -X given; big: the destination is at least the delta threshold (working file + rename) *)

(* attributes of the destination after a transfer: [carried] is what the file holds when the data has been written --
   the old inode's attributes when fs::copy rewrote the file in place, none for a new file or a renamed working file *)
Definition transfer_attrs (x : bool) (src carried : amap) : amap :=
  if x then write_all src (strip carried) else strip carried.

Definition sync_file (refresh_on_skip : bool) (x big : bool) (st : xstate) : xstate :=
  let s := xs_src st in
  match xs_dst st with
  | None => mk_xstate s (Some (mk_xfile (xf_content s) (transfer_attrs x (xf_attrs s) aempty))) false
  | Some d =>
      if N.eqb (xf_content d) (xf_content s) && negb (xs_touched st)
      then mk_xstate s (Some (mk_xfile (xf_content d) (if x && refresh_on_skip then refresh (xf_attrs s) (xf_attrs d) else xf_attrs d))) false
      else mk_xstate s (Some (mk_xfile (xf_content s) (transfer_attrs x (xf_attrs s) (if big then aempty else xf_attrs d)))) false
  end.

Definition xstep (ros : bool) (st : xstate) (o : xop) : xstate :=
  let s := xs_src st in
  let t := xs_touched st in
  match o with
  | SrcSet k v => mk_xstate (mk_xfile (xf_content s) (aset (xf_attrs s) k v)) (xs_dst st) t
  | SrcDel k => mk_xstate (mk_xfile (xf_content s) (adel (xf_attrs s) k)) (xs_dst st) t
  | SrcWrite c => mk_xstate (mk_xfile c (xf_attrs s)) (xs_dst st) t
  | SrcTouch => mk_xstate s (xs_dst st) true
  | DstSet k v => match xs_dst st with Some d => mk_xstate s (Some (mk_xfile (xf_content d) (aset (xf_attrs d) k v))) t | None => st end
  | DstDel k => match xs_dst st with Some d => mk_xstate s (Some (mk_xfile (xf_content d) (adel (xf_attrs d) k))) t | None => st end
  | XSync x big => sync_file ros x big st
  end.

(* the code as it is: a skipped file has its attributes refreshed under -X *)
Definition xrun (ops : list xop) (st : xstate) : xstate := fold_left (xstep true) ops st.
(* the pinned code: a skipped file is not touched at all *)
Definition xrun_pinned (ops : list xop) (st : xstate) : xstate := fold_left (xstep false) ops st.

Definition xinit (c : N) : xstate := mk_xstate (mk_xfile c aempty) None false.
Definition observe_attrs (names : list N) (m : amap) : list (option N) := map m names.
