(* Proofs about Model/Adler.v: the u32 rolling checksum equals the directly
   computed checksum of the current window after any sequence of roll steps. *)
From Coq Require Import ZArith List Lia Zdiv Setoid Morphisms Bool.
From SyGen Require Import SrcConstants.
From SyModel Require Import Adler.
From SyProofs Require Import ListAux.
Import ListNotations.
Open Scope Z_scope.

Local Notation M := MOD_ADLER.

Definition byte (x : Z) : Prop := 0 <= x < 256.
Definition bytes (l : list Z) : Prop := Forall byte l.
Definition st_ok (s : Z * Z) : Prop := 0 <= fst s < M /\ 0 <= snd s < M.

(* ---- side conditions on the generated constants (re-checked on every run) ---- *)
Lemma M_pos : 0 < M.                       Proof. reflexivity. Qed.
Lemma M_u16 : M <= 2 ^ 16.                 Proof. unfold M. lia. Qed.
Lemma W32_val : W32 = 4294967296.          Proof. reflexivity. Qed.
Lemma guards_ok : 255 <= M * ROLL_A_GUARD /\ M <= M * ROLL_B_GUARD /\
                  2 * M + M * ROLL_A_GUARD + 256 < W32 /\ 3 * M + M * ROLL_B_GUARD < W32.
Proof. unfold M, ROLL_A_GUARD, ROLL_B_GUARD, W32. lia. Qed.
Lemma shifts_agree : HASH_SHIFT = DIGEST_SHIFT. Proof. reflexivity. Qed.

(* ---- mathematical (unbounded) version ---- *)
Definition stepZ (s : Z * Z) (x : Z) : Z * Z :=
  let a' := (fst s + x) mod M in (a', (snd s + a') mod M).
Definition stZ (l : list Z) : Z * Z := fold_left stepZ l (1, 0).
Definition rollZ (n : Z) (s : Z * Z) (o x : Z) : Z * Z :=
  let a' := (fst s - o + x) mod M in (a', (snd s - n * o + a' - 1) mod M).

Fixpoint sumz (l : list Z) : Z := match l with [] => 0 | x :: t => x + sumz t end.
Fixpoint wsum (l : list Z) : Z :=
  match l with [] => 0 | x :: t => Z.of_nat (length l) * x + wsum t end.

(* congruence modulo M usable with setoid rewriting *)
Definition eqM (x y : Z) : Prop := x mod M = y mod M.
Global Instance eqM_equiv : Equivalence eqM.
Proof. unfold eqM; split; congruence. Qed.
Global Instance eqM_add : Proper (eqM ==> eqM ==> eqM) Z.add.
Proof. unfold eqM; intros a b H c d H'. rewrite (Z.add_mod a), (Z.add_mod b) by (unfold M; lia). congruence. Qed.
Global Instance eqM_sub : Proper (eqM ==> eqM ==> eqM) Z.sub.
Proof. unfold eqM; intros a b H c d H'. rewrite (Zminus_mod a), (Zminus_mod b). congruence. Qed.
Global Instance eqM_mul : Proper (eqM ==> eqM ==> eqM) Z.mul.
Proof. unfold eqM; intros a b H c d H'. rewrite (Z.mul_mod a), (Z.mul_mod b) by (unfold M; lia). congruence. Qed.
Lemma eqM_mod a : eqM (a mod M) a.
Proof. unfold eqM. apply Z.mod_mod. unfold M; lia. Qed.
Lemma eqM_intro a b : eqM a b -> a mod M = b mod M. Proof. exact (fun H => H). Qed.
Global Opaque eqM.
Ltac modM := apply eqM_intro; rewrite ?eqM_mod;
             match goal with |- eqM ?p ?q => replace p with q by (cbn [length]; first [lia | ring]); reflexivity end.

Lemma stZ_gen l : forall a b,
  fold_left stepZ l (a mod M, b mod M) =
  ((a + sumz l) mod M, (b + Z.of_nat (length l) * a + wsum l) mod M).
Proof.
  induction l as [|x t IH]; intros a b.
  - cbn [fold_left sumz wsum length]. f_equal; f_equal; lia.
  - cbn [fold_left]. unfold stepZ at 2. cbn [fst snd].
    rewrite IH. cbn [sumz wsum]. f_equal.
    + modM.
    + replace (Z.of_nat (length (x :: t))) with (Z.of_nat (length t) + 1) by (cbn [length]; lia).
      modM.
Qed.

Lemma stZ_closed l : stZ l = ((1 + sumz l) mod M, (Z.of_nat (length l) + wsum l) mod M).
Proof.
  unfold stZ. change (1, 0) with (1 mod M, 0 mod M). rewrite stZ_gen. f_equal. f_equal. lia.
Qed.

Lemma sumz_app l x : sumz (l ++ [x]) = sumz l + x.
Proof. induction l; cbn [app sumz]; lia. Qed.
Lemma wsum_app l x : wsum (l ++ [x]) = wsum l + sumz l + x.
Proof.
  induction l as [|y t IH]; cbn [app sumz wsum length]; [lia|].
  rewrite IH. rewrite !app_length. cbn [length].
  replace (Z.of_nat (S (length t + 1))) with (Z.of_nat (S (length t)) + 1) by lia. ring.
Qed.

Theorem rollZ_correct w o x :
  rollZ (Z.of_nat (length (o :: w))) (stZ (o :: w)) o x = stZ (w ++ [x]).
Proof.
  rewrite !stZ_closed. unfold rollZ. cbn [fst snd].
  rewrite app_length, sumz_app, wsum_app. cbn [sumz wsum length].
  f_equal.
  - modM.
  - replace (Z.of_nat (S (length w))) with (Z.of_nat (length w) + 1) by lia.
    replace (Z.of_nat (length w + 1)) with (Z.of_nat (length w) + 1) by lia. modM.
Qed.

(* ---- the u32 code equals the mathematical version when nothing wraps ---- *)
Lemma stepZ_ok s x : st_ok (stepZ s x).
Proof. unfold st_ok, stepZ; cbn [fst snd]. split; apply Z.mod_pos_bound; apply M_pos. Qed.

Lemma step_eq s x : st_ok s -> byte x -> step s x = stepZ s x.
Proof.
  intros [Ha Hb] Hx. unfold step, stepZ, w32, byte in *. rewrite W32_val. unfold M in *.
  rewrite (Z.mod_small (fst s + x)) by lia.
  set (a' := (fst s + x) mod 65521).
  assert (0 <= a' < 65521) by (apply Z.mod_pos_bound; lia).
  rewrite (Z.mod_small (snd s + a')) by lia. reflexivity.
Qed.

Lemma fold_step_eq l : forall s, st_ok s -> bytes l -> fold_left step l s = fold_left stepZ l s.
Proof.
  induction l as [|x t IH]; intros s Hs Hl; [reflexivity|].
  inversion Hl as [|? ? Hx Ht]; subst. cbn [fold_left].
  rewrite step_eq by assumption. apply IH; [apply stepZ_ok | assumption].
Qed.

Lemma init_ok : st_ok adler_init.
Proof. unfold st_ok, adler_init, M; cbn [fst snd]. lia. Qed.

Lemma state_of_eq l : bytes l -> state_of l = stZ l.
Proof. intro Hl. unfold state_of, stZ. apply fold_step_eq; [apply init_ok | assumption]. Qed.

Lemma fold_stepZ_ok l : forall s, st_ok s -> st_ok (fold_left stepZ l s).
Proof. induction l as [|x t IH]; intros s Hs; [assumption|]. cbn [fold_left]. apply IH, stepZ_ok. Qed.

Lemma state_of_ok l : bytes l -> st_ok (state_of l).
Proof. intro Hl. rewrite state_of_eq by assumption. apply fold_stepZ_ok, init_ok. Qed.

Theorem roll32_eq n s o x :
  st_ok s -> byte o -> byte x -> 0 <= n -> n * 255 < W32 ->
  roll n s o x = rollZ n s o x.
Proof.
  intros [Ha Hb] Ho Hx Hn Hw. unfold roll, rollZ, w32, byte in *. cbn [fst snd].
  rewrite W32_val in *. unfold M, ROLL_A_GUARD, ROLL_B_GUARD in *.
  assert (Hno : 0 <= n * o < 4294967296) by nia.
  rewrite (Z.mod_small n) by nia.
  rewrite (Z.mod_small (65521 * 2)) by lia. rewrite (Z.mod_small (65521 * 3)) by lia.
  rewrite (Z.mod_small (n * o)) by lia.
  rewrite (Z.mod_small (fst s + _)) by lia.
  rewrite (Z.mod_small (fst s + _ - o)) by lia.
  rewrite (Z.mod_small (fst s + _ - o + x)) by lia.
  set (a' := (fst s + 65521 * 2 - o + x) mod 65521).
  assert (Ha' : 0 <= a' < 65521) by (apply Z.mod_pos_bound; lia).
  set (no := (n * o) mod 65521).
  assert (Hno' : 0 <= no < 65521) by (apply Z.mod_pos_bound; lia).
  rewrite (Z.mod_small (snd s + _)) by lia.
  rewrite (Z.mod_small (snd s + _ - no)) by lia.
  rewrite (Z.mod_small (snd s + _ - no + a')) by lia.
  rewrite (Z.mod_small (snd s + _ - no + a' - 1)) by lia.
  assert (Ea : a' = (fst s - o + x) mod 65521).
  { subst a'. replace (fst s + 65521 * 2 - o + x) with (fst s - o + x + 2 * 65521) by lia. apply Z_mod_plus_full. }
  rewrite <- Ea. f_equal.
  subst no. change 65521 with M.
  replace (snd s + M * 3 - (n * o) mod M + a' - 1) with (snd s - (n * o) mod M + a' - 1 + 3 * M) by lia.
  rewrite Z_mod_plus_full. modM.
Qed.

(* one roll step: the state of window o::w becomes the state of w ++ [x] *)
Theorem roll_correct w o x :
  bytes (o :: w) -> byte x -> Z.of_nat (length (o :: w)) * 255 < W32 ->
  roll (Z.of_nat (length (o :: w))) (state_of (o :: w)) o x = state_of (w ++ [x]).
Proof.
  intros Hw Hx Hn.
  assert (Hw' : bytes (w ++ [x])).
  { inversion Hw; subst. apply Forall_app; split; [assumption | constructor; [assumption | constructor]]. }
  rewrite roll32_eq; [| apply state_of_ok; assumption | inversion Hw; assumption | assumption | lia | assumption].
  rewrite !state_of_eq by assumption. apply rollZ_correct.
Qed.

(* any sequence of roll steps: sliding a window of width bs over data, k times *)
Fixpoint rolls (bs : Z) (s : Z * Z) (olds news : list Z) (k : nat) : Z * Z :=
  match k, olds, news with
  | S k', o :: olds', x :: news' => rolls bs (roll bs s o x) olds' news' k'
  | _, _, _ => s
  end.

Lemma skipn_cons_shift (A : Type) : forall (n : nat) (l : list A) x news,
  skipn n l = x :: news -> firstn n l ++ [x] = firstn (S n) l /\ skipn (S n) l = news.
Proof.
  induction n as [|n IH]; intros l x news E.
  - cbn in E. subst l. split; reflexivity.
  - destruct l as [|y l]; [cbn in E; discriminate|]. cbn [skipn] in E.
    destruct (IH l x news E) as [E1 E2]. split.
    + cbn [firstn app]. f_equal. exact E1.
    + exact E2.
Qed.

Theorem rolls_correct : forall (k : nat) (bsn : nat) (data : list Z),
  bytes data -> (0 < bsn)%nat -> Z.of_nat bsn * 255 < W32 ->
  (bsn + k <= length data)%nat ->
  rolls (Z.of_nat bsn) (state_of (firstn bsn data)) data (skipn bsn data) k =
  state_of (firstn bsn (skipn k data)).
Proof.
  induction k as [|k IH]; intros bsn data Hb Hpos Hn Hlen.
  - destruct data, (skipn bsn _); reflexivity.
  - destruct bsn as [|n]; [lia|].
    destruct data as [|o data]; [cbn in Hlen; lia|].
    assert (Hb' : bytes data) by (inversion Hb; assumption).
    assert (Hbo : byte o) by (inversion Hb; assumption).
    cbn [length] in Hlen.
    destruct (skipn n data) as [|x news] eqn:Esk.
    { apply (f_equal (@length Z)) in Esk. rewrite skipn_length in Esk. cbn [length] in Esk. lia. }
    destruct (skipn_cons_shift _ _ _ _ _ Esk) as [Ew Esk'].
    assert (Hbx : byte x).
    { eapply Forall_forall; [exact Hb'|]. rewrite <- (firstn_skipn n data), Esk. apply in_or_app. right. left. reflexivity. }
    assert (Hbw : bytes (o :: firstn n data)).
    { constructor; [assumption|]. apply Forall_forall. intros y Hy. eapply Forall_forall; [exact Hb'|]. eapply In_firstn; exact Hy. }
    assert (Hfl : length (o :: firstn n data) = S n).
    { cbn [length]. rewrite firstn_length. lia. }
    pose proof (roll_correct (firstn n data) o x Hbw Hbx) as R. rewrite Hfl in R. specialize (R Hn).
    cbn [firstn skipn rolls]. rewrite Esk. cbn [rolls]. rewrite R, Ew.
    specialize (IH (S n) data Hb' Hpos Hn ltac:(lia)). rewrite Esk' in IH. exact IH.
Qed.

(* digest = b * 2^16 + a on well-formed states, hence < 2^32 and injective *)
Lemma land_shiftl_low a b n : 0 <= a < 2 ^ n -> 0 <= n -> Z.land (Z.shiftl b n) a = 0.
Proof.
  intros Ha Hn. apply Z.bits_inj'. intros k Hk. rewrite Z.land_spec, Z.bits_0.
  destruct (Z.ltb_spec k n).
  - rewrite Z.shiftl_spec_low by lia. reflexivity.
  - destruct (Z.eq_dec a 0) as [->|Hne]; [rewrite Z.bits_0; apply andb_false_r|].
    rewrite (Z.bits_above_log2 a k); [apply andb_false_r | lia |].
    apply Z.log2_lt_pow2; [lia|]. eapply Z.lt_le_trans; [apply Ha|]. apply Z.pow_le_mono_r; lia.
Qed.

Lemma digest_val s : st_ok s -> digest s = snd s * 65536 + fst s.
Proof.
  intros [Ha Hb]. unfold digest, w32, DIGEST_SHIFT. rewrite W32_val. unfold M in *.
  rewrite Z.shiftl_mul_pow2 by lia. change (2 ^ 16) with 65536.
  rewrite (Z.mod_small (snd s * 65536)) by lia.
  replace (snd s * 65536) with (Z.shiftl (snd s) 16) by (rewrite Z.shiftl_mul_pow2 by lia; reflexivity).
  rewrite <- Z.lxor_lor by (apply land_shiftl_low; lia).
  rewrite <- Z.add_nocarry_lxor by (apply land_shiftl_low; lia). reflexivity.
Qed.

Lemma digest_lt_2_32 s : st_ok s -> 0 <= digest s < W32.
Proof. intros Hs. rewrite digest_val by assumption. destruct Hs as [Ha Hb]. rewrite W32_val. unfold M in *. lia. Qed.

Lemma digest_inj s t : st_ok s -> st_ok t -> digest s = digest t -> s = t.
Proof.
  intros Hs Ht. rewrite !digest_val by assumption. destruct Hs as [Ha Hb], Ht as [Hc Hd]. unfold M in *.
  intro E. destruct s, t; cbn [fst snd] in *. f_equal; lia.
Qed.

Lemma hash_digest l : hash l = digest (state_of l).
Proof. reflexivity. Qed.
