(* Proofs about Model/Bisync.v *)
From Coq Require Import NArith ZArith List Bool Lia.
From SyModel Require Import Bisync.
Import ListNotations.

Definition at_ (w : world) (q : N) := (w_src w q, w_dst w q, w_dbs w q, w_dbd w q).

Lemma upd_same {A} (m : fmap A) k v : upd m k v k = v.
Proof. unfold upd. rewrite N.eqb_refl. reflexivity. Qed.
Lemma upd_other {A} (m : fmap A) k v q : q <> k -> upd m k v q = m q.
Proof. intro H. unfold upd. destruct (N.eqb_spec q k); [contradiction | reflexivity]. Qed.

Lemma cname_inj sd1 sd2 p q : cname sd1 p = cname sd2 q -> sd1 = sd2 /\ p = q.
Proof. destruct sd1, sd2; unfold cname; intro E; try (split; [reflexivity | lia]); lia. Qed.
Lemma cname_neq p sd : cname sd p <> p \/ p = 0%N.
Proof. destruct sd; unfold cname; lia. Qed.
Lemma cname_sd p : cname Source p <> cname Dest p.
Proof. unfold cname; lia. Qed.
Global Opaque cname.

(* ---------- frame: an action at p writes p, and the conflict names of p only when it is a rename ---------- *)
Definition touches (a : act) (p q : N) : Prop :=
  q = p \/ (a = RenameConflict /\ (q = cname Source p \/ q = cname Dest p)).

Lemma exec_frame now w p a q : ~ touches a p q -> at_ (exec now w p a) q = at_ w q.
Proof.
  intro Hn. assert (Hq : q <> p) by (intro; apply Hn; left; assumption).
  unfold at_. destruct a; cbn [exec].
  - destruct (w_dst w p); cbn; rewrite ?upd_other by assumption; reflexivity.
  - destruct (w_src w p); cbn; rewrite ?upd_other by assumption; reflexivity.
  - cbn. rewrite ?upd_other by assumption. reflexivity.
  - cbn. rewrite ?upd_other by assumption. reflexivity.
  - assert (q <> cname Source p) by (intro; apply Hn; right; split; [reflexivity | left; assumption]).
    assert (q <> cname Dest p) by (intro; apply Hn; right; split; [reflexivity | right; assumption]).
    destruct (w_src w p), (w_dst w p); cbn; rewrite ?upd_other by assumption; reflexivity.
Qed.

Definition untouched_by (st : strategy) (w0 : world) (U : list N) (q : N) : Prop :=
  forall p a, In p U -> action_of st w0 p = Some a -> ~ touches a p q.

Lemma fold_frame st now w0 : forall U acc q,
  untouched_by st w0 U q -> at_ (fold_left (sync_step st now w0) U acc) q = at_ acc q.
Proof.
  induction U as [|p U IH]; intros acc q Hu; [reflexivity|].
  cbn [fold_left]. rewrite IH.
  - unfold sync_step. destruct (action_of st w0 p) as [a|] eqn:Ea; [|reflexivity].
    apply exec_frame. apply (Hu p a); [left; reflexivity | exact Ea].
  - intros p' a' Hin. apply Hu. right. exact Hin.
Qed.

(* the effect at p itself depends only on the accumulator's values at p *)
Lemma exec_local now w1 w2 p a : at_ w1 p = at_ w2 p -> at_ (exec now w1 p a) p = at_ (exec now w2 p a) p.
Proof.
  unfold at_. intro E. inversion E as [[E1 E2 E3 E4]].
  destruct a; cbn [exec]; rewrite ?E1, ?E2.
  - destruct (w_dst w2 p) eqn:Ed; cbn; rewrite ?upd_same, ?E1, ?E2, ?E3, ?E4, ?Ed; reflexivity.
  - destruct (w_src w2 p) eqn:Es; cbn; rewrite ?upd_same, ?E1, ?E2, ?E3, ?E4, ?Es; reflexivity.
  - cbn. rewrite ?upd_same, ?E2. reflexivity.
  - cbn. rewrite ?upd_same, ?E1. reflexivity.
  - destruct (w_src w2 p) eqn:Es, (w_dst w2 p) eqn:Ed; cbn; rewrite ?E1, ?E2, ?E3, ?E4, ?Es, ?Ed; try reflexivity.
    unfold upd. rewrite ?N.eqb_refl.
    destruct (N.eqb p (cname Source p)), (N.eqb p (cname Dest p)); rewrite ?N.eqb_refl; reflexivity.
Qed.

Lemma fold_at st now w0 : forall U acc p,
  NoDup U -> In p U ->
  (forall p' a', In p' U -> p' <> p -> action_of st w0 p' = Some a' -> ~ touches a' p' p) ->
  at_ (fold_left (sync_step st now w0) U acc) p = at_ (sync_step st now w0 acc p) p.
Proof.
  induction U as [|p0 U IH]; intros acc p Hnd Hin Hother; [destruct Hin|].
  inversion Hnd as [|? ? Hnotin Hnd']; subst. cbn [fold_left]. destruct Hin as [->|Hin].
  - apply fold_frame. intros p' a' Hin' Ea'. apply Hother; [right; exact Hin' | intro; subst; contradiction | exact Ea'].
  - assert (Hne : p0 <> p) by (intro; subst; contradiction).
    rewrite IH; [| assumption | assumption | intros p' a' Hin' Hne' Ea'; apply Hother; [right; assumption | assumption | assumption]].
    unfold sync_step at 1 3. destruct (action_of st w0 p) as [a|] eqn:Ea.
    + apply exec_local. unfold sync_step. destruct (action_of st w0 p0) as [a0|] eqn:Ea0; [|reflexivity].
      apply exec_frame. apply (Hother p0 a0); [left; reflexivity | assumption | assumption].
    + unfold sync_step. destruct (action_of st w0 p0) as [a0|] eqn:Ea0; [|reflexivity].
      apply exec_frame. apply (Hother p0 a0); [left; reflexivity | assumption | assumption].
Qed.

(* generalisation: the effect at any q depends on the accumulator at p and at q *)
Lemma exec_local2 now w1 w2 p a q :
  at_ w1 p = at_ w2 p -> at_ w1 q = at_ w2 q -> at_ (exec now w1 p a) q = at_ (exec now w2 p a) q.
Proof.
  unfold at_. intros E F. inversion E as [[E1 E2 E3 E4]]. inversion F as [[F1 F2 F3 F4]].
  destruct a; cbn [exec]; rewrite ?E1, ?E2.
  - destruct (w_dst w2 p) eqn:Ed; cbn; unfold upd; destruct (N.eqb q p); rewrite ?F1, ?F2, ?F3, ?F4; reflexivity.
  - destruct (w_src w2 p) eqn:Es; cbn; unfold upd; destruct (N.eqb q p); rewrite ?F1, ?F2, ?F3, ?F4; reflexivity.
  - cbn. unfold upd. destruct (N.eqb q p); rewrite ?F1, ?F2, ?F3, ?F4; reflexivity.
  - cbn. unfold upd. destruct (N.eqb q p); rewrite ?F1, ?F2, ?F3, ?F4; reflexivity.
  - destruct (w_src w2 p) eqn:Es, (w_dst w2 p) eqn:Ed; cbn; rewrite ?F1, ?F2, ?F3, ?F4; try reflexivity.
    unfold upd. destruct (N.eqb q p), (N.eqb q (cname Source p)), (N.eqb q (cname Dest p)); rewrite ?F1, ?F2, ?F3, ?F4; reflexivity.
Qed.

Lemma fold_at2 st now w0 : forall U acc p q,
  NoDup U -> In p U ->
  (forall p' a', In p' U -> p' <> p -> action_of st w0 p' = Some a' -> ~ touches a' p' p /\ ~ touches a' p' q) ->
  at_ (fold_left (sync_step st now w0) U acc) q = at_ (sync_step st now w0 acc p) q.
Proof.
  induction U as [|p0 U IH]; intros acc p q Hnd Hin Hother; [destruct Hin|].
  inversion Hnd as [|? ? Hnotin Hnd']; subst. cbn [fold_left]. destruct Hin as [->|Hin].
  - apply fold_frame. intros p' a' Hin' Ea'. apply (Hother p' a'); [right; exact Hin' | intro; subst; contradiction | exact Ea'].
  - assert (Hne : p0 <> p) by (intro; subst; contradiction).
    rewrite (IH _ p); [| assumption | assumption | intros p' a' Hin' Hne' Ea'; apply Hother; [right; assumption | assumption | assumption]].
    assert (Hp : at_ (sync_step st now w0 acc p0) p = at_ acc p /\ at_ (sync_step st now w0 acc p0) q = at_ acc q).
    { unfold sync_step. destruct (action_of st w0 p0) as [a0|] eqn:Ea0; [|split; reflexivity].
      destruct (Hother p0 a0 (or_introl eq_refl) Hne Ea0) as [H1 H2]. split; apply exec_frame; assumption. }
    destruct Hp as [Hp Hq].
    unfold sync_step at 1 3. destruct (action_of st w0 p) as [a|] eqn:Ea.
    + apply exec_local2; assumption.
    + exact Hq.
Qed.

(* ---------- one path, no prior state: the first sync ---------- *)
Definition no_rows (w : world) (p : N) : Prop := w_dbs w p = None /\ w_dbd w p = None.

(* the hypothesis that excludes the known finding C11-KF1 at p: equal sizes imply equal content *)
Definition sizes_tell (w : world) (p : N) : Prop :=
  forall s d, w_src w p = Some s -> w_dst w p = Some d -> f_size s = f_size d -> f_content s = f_content d.

Lemma first_sync_path st now w p :
  no_rows w p -> sizes_tell w p ->
  let w' := sync_step st now w w p in
  same_content (w_src w' p) (w_dst w' p) = true.
Proof.
  intros [Hs Hd] Hst. unfold sync_step, action_of. rewrite Hs, Hd.
  destruct (w_src w p) as [s|] eqn:Es, (w_dst w p) as [d|] eqn:Ed; cbn [classify].
  - unfold content_equal. destruct (N.eqb_spec (f_size s) (f_size d)) as [E|E].
    + cbn. rewrite Es, Ed. cbn. rewrite (Hst s d Es Ed E), E, !N.eqb_refl. reflexivity.
    + cbn [resolve]. destruct st; cbn [resolve_conflict by_mtime by_size];
        repeat match goal with
               | |- context [if ?c then _ else _] => destruct c eqn:?
               end; cbn [exec]; rewrite ?Es, ?Ed; cbn; rewrite ?upd_same, ?Es, ?Ed; cbn; rewrite ?N.eqb_refl; try reflexivity.
      all: try (destruct (cname_neq p Source) as [Hn|Hz], (cname_neq p Dest) as [Hn'|Hz']; subst; unfold upd; cbn;
                repeat match goal with |- context [N.eqb ?a ?b] => destruct (N.eqb_spec a b); try congruence; try lia end; reflexivity).
  - cbn. rewrite Es. cbn. rewrite upd_same, Es. cbn. rewrite !N.eqb_refl. reflexivity.
  - cbn. rewrite Ed. cbn. rewrite upd_same, Ed. cbn. rewrite !N.eqb_refl. reflexivity.
  - cbn. rewrite Es, Ed. reflexivity.
Qed.

(* the first sync never drops a version unless the path is a conflict settled by a non-rename strategy *)
Definition holds (w : world) (c : N) (p : N) : Prop :=
  (exists f, w_src w p = Some f /\ f_content f = c) \/ (exists f, w_dst w p = Some f /\ f_content f = c).

Lemma first_sync_no_loss st now w p c :
  p <> 0%N -> no_rows w p -> holds w c p ->
  let w' := sync_step st now w w p in
  holds w' c p \/ holds w' c (cname Source p) \/ holds w' c (cname Dest p) \/
  (exists s d, w_src w p = Some s /\ w_dst w p = Some d /\ f_size s <> f_size d /\ st <> RenameBoth).
Proof.
  intros Hp0 [Hs Hd] Hh. unfold sync_step, action_of. rewrite Hs, Hd.
  assert (Hcs : cname Source p <> p) by (destruct (cname_neq p Source); congruence).
  assert (Hcd : cname Dest p <> p) by (destruct (cname_neq p Dest); congruence).
  destruct (w_src w p) as [s|] eqn:Es, (w_dst w p) as [d|] eqn:Ed; cbn [classify].
  - unfold content_equal. destruct (N.eqb_spec (f_size s) (f_size d)) as [E|E].
    + left. cbn. unfold holds. rewrite Es, Ed. unfold holds in Hh. rewrite Es, Ed in Hh. exact Hh.
    + destruct st; try (right; right; right; exists s, d; repeat split; try assumption; discriminate).
      cbn [resolve resolve_conflict exec]. rewrite Es, Ed.
      unfold holds in *. rewrite Es, Ed in Hh. cbn. destruct Hh as [(f & Ef & Ec)|(f & Ef & Ec)]; inversion Ef; subst.
      * right. left. left. exists f. rewrite upd_same. split; reflexivity.
      * right. right. left. right. exists f. rewrite upd_same. split; reflexivity.
  - left. cbn. rewrite Es. unfold holds in *. cbn. rewrite Es, Ed in Hh. rewrite Es, upd_same.
    destruct Hh as [(f & Ef & Ec)|(f & Ef & Ec)]; [|discriminate]. left. exists f. split; assumption.
  - left. cbn. rewrite Ed. unfold holds in *. cbn. rewrite Es, Ed in Hh. rewrite Ed, upd_same.
    destruct Hh as [(f & Ef & Ec)|(f & Ef & Ec)]; [discriminate|]. right. exists f. split; assumption.
  - unfold holds in Hh. rewrite Es, Ed in Hh. destruct Hh as [(f & Ef & _)|(f & Ef & _)]; discriminate.
Qed.

(* ---------- the sync after a first sync performs no action (idle sync is a no-op) ---------- *)
Definition times_below (w : world) (p : N) (now : Z) : Prop :=
  (forall f, w_src w p = Some f -> (f_mtime f < now)%Z) /\ (forall f, w_dst w p = Some f -> (f_mtime f < now)%Z).

Lemma idle_after_first_sync_path st st2 now w p :
  no_rows w p ->
  action_of st w p <> Some RenameConflict ->
  let w' := sync_step st now w w p in
  action_of st2 w' p = None.
Proof.
  intros [Hs Hd] Hnr. unfold sync_step. unfold action_of in *. rewrite Hs, Hd in *.
  destruct (w_src w p) as [s|] eqn:Es, (w_dst w p) as [d|] eqn:Ed; cbn [classify] in *.
  - unfold content_equal in *. destruct (N.eqb_spec (f_size s) (f_size d)) as [E|E].
    + cbn. rewrite Es, Ed, Hs, Hd. cbn. unfold content_equal. rewrite E, N.eqb_refl. reflexivity.
    + cbn [resolve] in *.
      destruct (resolve_conflict st (Some s) (Some d)) eqn:Er; try congruence; cbn [exec]; rewrite ?Es, ?Ed; cbn;
        rewrite ?upd_same, ?Es, ?Ed, ?Hs, ?Hd; cbn; unfold is_modified, content_equal, rec_of; cbn;
        rewrite ?N.eqb_refl; cbn; try reflexivity.
      * rewrite andb_false_r. reflexivity.
      * rewrite andb_false_r. reflexivity.
      * destruct st; cbn in Er; repeat match type of Er with context [if ?c then _ else _] => destruct c end; discriminate.
      * destruct st; cbn in Er; repeat match type of Er with context [if ?c then _ else _] => destruct c end; discriminate.
  - cbn. rewrite Es. cbn. rewrite !upd_same, ?Es, ?Hs, ?Hd. cbn. unfold is_modified, content_equal, rec_of. cbn.
    rewrite ?N.eqb_refl. cbn. rewrite ?andb_false_r. reflexivity.
  - cbn. rewrite Ed. cbn. rewrite !upd_same, ?Ed, ?Hs, ?Hd. cbn. unfold is_modified, content_equal, rec_of. cbn.
    rewrite ?N.eqb_refl. cbn. rewrite ?andb_false_r. reflexivity.
  - cbn. rewrite Es, Ed, Hs, Hd. reflexivity.
Qed.
