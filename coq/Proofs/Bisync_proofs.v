(* Proofs about Model/Bisync.v (the repaired bidirectional sync) *)
From Coq Require Import NArith ZArith List Bool Lia.
From SyModel Require Import Bisync.
Import ListNotations.

Definition at_ (w : world) (q : N) := (w_src w q, w_dst w q, w_dbs w q, w_dbd w q).

Lemma upd_same {A} (m : fmap A) k v : upd m k v k = v.
Proof. unfold upd. rewrite N.eqb_refl. reflexivity. Qed.
Lemma upd_other {A} (m : fmap A) k v q : q <> k -> upd m k v q = m q.
Proof. intro H. unfold upd. destruct (N.eqb_spec q k); [contradiction | reflexivity]. Qed.

Lemma cname_k_ne sd p k : cname_k sd p k <> p.
Proof. destruct sd; unfold cname_k, side_num; lia. Qed.
Lemma cname_k_inj sd1 sd2 p q k1 k2 : (k1 < 4)%N -> (k2 < 4)%N -> cname_k sd1 p k1 = cname_k sd2 q k2 -> sd1 = sd2 /\ p = q /\ k1 = k2.
Proof. destruct sd1, sd2; unfold cname_k, side_num; intros H1 H2 E; repeat split; try reflexivity; lia. Qed.
Lemma free_slot_is m m' sd p : forall fuel k, exists k', free_slot m m' sd p fuel k = cname_k sd p k'.
Proof. induction fuel as [|f IH]; intro k; cbn [free_slot]; [eexists; reflexivity|]. destruct (m (cname_k sd p k)), (m' (cname_k sd p k)); try apply IH. eexists; reflexivity. Qed.
Lemma cslot_is m m' sd p : exists k, cslot m m' sd p = cname_k sd p k.
Proof. apply free_slot_is. Qed.
Lemma cslot_ne m m' sd p : cslot m m' sd p <> p.
Proof. destruct (cslot_is m m' sd p) as [k ->]. apply cname_k_ne. Qed.
(* the chosen name is unused ON BOTH SIDES whenever one of the names tried is *)
Lemma free_slot_unused m m' sd p : forall fuel k, (exists j, (j <= N.of_nat fuel)%N /\ m (cname_k sd p (k + j)) = None /\ m' (cname_k sd p (k + j)) = None) ->
  m (free_slot m m' sd p fuel k) = None /\ m' (free_slot m m' sd p fuel k) = None.
Proof.
  induction fuel as [|f IH]; intros k (j & Hj & Hm & Hm'); cbn [free_slot].
  - assert (j = 0%N) by lia. subst. rewrite N.add_0_r in Hm, Hm'. split; assumption.
  - destruct (m (cname_k sd p k)) eqn:E, (m' (cname_k sd p k)) eqn:E'; try (split; assumption);
      (apply IH; destruct (N.eq_dec j 0) as [->|Hne]; [rewrite N.add_0_r in Hm, Hm'; congruence|];
       exists (j - 1)%N; split; [lia|]; replace (k + 1 + (j - 1))%N with (k + j)%N by lia; split; assumption).
Qed.
Lemma cslot_unused m m' sd p : (exists j, (j <= 3)%N /\ m (cname_k sd p j) = None /\ m' (cname_k sd p j) = None) ->
  m (cslot m m' sd p) = None /\ m' (cslot m m' sd p) = None.
Proof. intros (j & Hj & Hm). unfold cslot. apply free_slot_unused. exists j. split; [exact Hj | exact Hm]. Qed.
Global Opaque cname_k cslot.

(* ---------- frame: an action at p writes p, and a conflict name of p only when it is a rename ---------- *)
Definition is_cname (p q : N) : Prop := exists sd k, q = cname_k sd p k.
Definition touches (a : act) (p q : N) : Prop :=
  q = p \/ (a = RenameConflict /\ is_cname p q).

Lemma cslot_is_cname m m' sd p : is_cname p (cslot m m' sd p).
Proof. destruct (cslot_is m m' sd p) as [k E]. exists sd, k. exact E. Qed.

Lemma exec_frame now w p a q : ~ touches a p q -> at_ (exec now w p a) q = at_ w q.
Proof.
  intro Hn. assert (Hq : q <> p) by (intro; apply Hn; left; assumption).
  unfold at_. destruct a; cbn [exec].
  - destruct (w_dst w p); cbn; rewrite ?upd_other by assumption; reflexivity.
  - destruct (w_src w p); cbn; rewrite ?upd_other by assumption; reflexivity.
  - cbn. rewrite ?upd_other by assumption. reflexivity.
  - cbn. rewrite ?upd_other by assumption. reflexivity.
  - assert (q <> cslot (w_src w) (w_dst w) Source p) by (intro X; apply Hn; right; split; [reflexivity | rewrite X; apply cslot_is_cname]).
    assert (q <> cslot (w_dst w) (w_src w) Dest p) by (intro X; apply Hn; right; split; [reflexivity | rewrite X; apply cslot_is_cname]).
    destruct (w_src w p), (w_dst w p); cbn; rewrite ?upd_other by assumption; reflexivity.
Qed.

(* actions never write the state database *)
Lemma exec_db now w p a : w_dbs (exec now w p a) = w_dbs w /\ w_dbd (exec now w p a) = w_dbd w.
Proof. destruct a; cbn [exec]; try (split; reflexivity); destruct (w_src w p), (w_dst w p); split; reflexivity. Qed.

Definition untouched_by (st : strategy) (w0 : world) (U : list N) (q : N) : Prop :=
  forall p a, In p U -> action_of st w0 p = Some a -> ~ touches a p q.

Lemma fold_frame st now w0 : forall U acc q,
  untouched_by st w0 U q -> at_ (fold_left (sync_step st now w0) U acc) q = at_ acc q.
Proof.
  induction U as [|p U IH]; intros acc q Hu; [reflexivity|].
  cbn [fold_left]. rewrite IH.
  - unfold sync_step. destruct (action_of st w0 p) as [a|] eqn:Ea; [|reflexivity].
    apply exec_frame. apply (Hu p a); [left; reflexivity | exact Ea].
  - intros p' a' Hin. apply Hu. right. exact Hin.
Qed.

(* the effect at p itself depends only on the accumulator's values at p *)
Lemma exec_local now w1 w2 p a : at_ w1 p = at_ w2 p -> at_ (exec now w1 p a) p = at_ (exec now w2 p a) p.
Proof.
  unfold at_. intro E. inversion E as [[E1 E2 E3 E4]].
  destruct a; cbn [exec]; rewrite ?E1, ?E2.
  - destruct (w_dst w2 p) eqn:Ed; cbn; rewrite ?upd_same, ?E1, ?E2, ?E3, ?E4, ?Ed; reflexivity.
  - destruct (w_src w2 p) eqn:Es; cbn; rewrite ?upd_same, ?E1, ?E2, ?E3, ?E4, ?Es; reflexivity.
  - cbn. rewrite ?upd_same, ?E2, ?E3, ?E4. reflexivity.
  - cbn. rewrite ?upd_same, ?E1, ?E3, ?E4. reflexivity.
  - destruct (w_src w2 p) eqn:Es, (w_dst w2 p) eqn:Ed; cbn; rewrite ?E1, ?E2, ?E3, ?E4, ?Es, ?Ed; try reflexivity.
    rewrite !(upd_other _ (cslot _ _ _ p)) by (apply not_eq_sym; apply cslot_ne). rewrite !upd_same. reflexivity.
Qed.

Lemma fold_at st now w0 : forall U acc p,
  NoDup U -> In p U ->
  (forall p' a', In p' U -> p' <> p -> action_of st w0 p' = Some a' -> ~ touches a' p' p) ->
  at_ (fold_left (sync_step st now w0) U acc) p = at_ (sync_step st now w0 acc p) p.
Proof.
  induction U as [|p0 U IH]; intros acc p Hnd Hin Hother; [destruct Hin|].
  inversion Hnd as [|? ? Hnotin Hnd']; subst. cbn [fold_left]. destruct Hin as [->|Hin].
  - apply fold_frame. intros p' a' Hin' Ea'. apply Hother; [right; exact Hin' | intro; subst; contradiction | exact Ea'].
  - assert (Hne : p0 <> p) by (intro; subst; contradiction).
    rewrite IH; [| assumption | assumption | intros p' a' Hin' Hne' Ea'; apply Hother; [right; assumption | assumption | assumption]].
    unfold sync_step at 1 3. destruct (action_of st w0 p) as [a|] eqn:Ea.
    + apply exec_local. unfold sync_step. destruct (action_of st w0 p0) as [a0|] eqn:Ea0; [|reflexivity].
      apply exec_frame. apply (Hother p0 a0); [left; reflexivity | assumption | assumption].
    + unfold sync_step. destruct (action_of st w0 p0) as [a0|] eqn:Ea0; [|reflexivity].
      apply exec_frame. apply (Hother p0 a0); [left; reflexivity | assumption | assumption].
Qed.

(* ---------- recording ---------- *)
Lemma record_path_frame w p q : q <> p -> at_ (record_path w p) q = at_ w q.
Proof.
  intro H. unfold record_path, at_. destruct (w_src w p), (w_dst w p); try reflexivity.
  - destruct (content_equal f f0); [cbn; rewrite !upd_other by exact H|]; reflexivity.
  - cbn. rewrite !upd_other by exact H. reflexivity.
Qed.

Lemma record_path_local w1 w2 p : at_ w1 p = at_ w2 p -> at_ (record_path w1 p) p = at_ (record_path w2 p) p.
Proof.
  unfold at_, record_path. intro E. inversion E as [[E1 E2 E3 E4]]. rewrite E1, E2.
  destruct (w_src w2 p) eqn:S2, (w_dst w2 p) eqn:D2; cbn; rewrite ?E1, ?E2, ?E3, ?E4, ?S2, ?D2; try reflexivity.
  - destruct (content_equal f f0); cbn; rewrite ?upd_same, ?E1, ?E2, ?E3, ?E4, ?S2, ?D2; reflexivity.
  - rewrite !upd_same. reflexivity.
Qed.

Lemma record_frame : forall U w q, ~ In q U -> at_ (record U w) q = at_ w q.
Proof.
  unfold record. induction U as [|p U IH]; intros w q Hn; [reflexivity|]. cbn [fold_left].
  rewrite IH by (intro X; apply Hn; right; exact X). apply record_path_frame. intro; subst; apply Hn; left; reflexivity.
Qed.

Lemma record_at : forall U w p, NoDup U -> In p U -> at_ (record U w) p = at_ (record_path w p) p.
Proof.
  induction U as [|q U IH]; intros w p Hnd Hin; [destruct Hin|].
  inversion Hnd as [|? ? Hnotin Hnd']; subst. unfold record. cbn [fold_left]. fold (record U (record_path w q)). destruct Hin as [->|Hin].
  - apply record_frame. exact Hnotin.
  - rewrite (IH _ p Hnd' Hin). apply record_path_local. apply record_path_frame. intro; subst; contradiction.
Qed.

(* ---------- one path through one sync ---------- *)
(* conflict copies of the paths under consideration land outside the universe (no clash with an existing path) *)
Definition conflict_names_outside (U : list N) : Prop :=
  forall p q, In p U -> is_cname p q -> ~ In q U.

Lemma others_dont_touch U st w p q :
  conflict_names_outside U -> In p U -> In q U -> q <> p ->
  forall a, action_of st w q = Some a -> ~ touches a q p.
Proof.
  intros Hc Hp Hq Hne a _ [E|[_ E]]; [congruence|]. exact (Hc q p Hq E Hp).
Qed.

Definition path_sync (st : strategy) (now : Z) (w : world) (p : N) : world := record_path (sync_step st now w w p) p.

Theorem bisync_at U st maxdel now w w' p :
  NoDup U -> conflict_names_outside U -> In p U -> bisync U st maxdel now w = Some w' ->
  at_ w' p = at_ (path_sync st now w p) p.
Proof.
  intros Hnd Hc Hp Hb. unfold bisync in Hb. destruct (limit_exceeded maxdel (changes_of w U)); [discriminate|].
  inversion Hb; subst. rewrite (record_at U _ p Hnd Hp). unfold path_sync. apply record_path_local.
  apply fold_at; [exact Hnd | exact Hp|]. intros q a Hq Hne Ea. apply (others_dont_touch U st w p q Hc Hp Hq Hne a Ea).
Qed.

(* ---------- the state database describes the last common version ---------- *)
(* rows come in pairs; a side that is NOT modified with respect to its row still holds the recorded common version [b] *)
Definition rows_ok (w : world) (p : N) : Prop :=
  match w_dbs w p, w_dbd w p with
  | None, None => True
  | Some rs, Some rd =>
      exists bc bs : N,
        (forall s, w_src w p = Some s -> is_modified s rs = false -> f_content s = bc /\ f_size s = bs) /\
        (forall d, w_dst w p = Some d -> is_modified d rd = false -> f_content d = bc /\ f_size d = bs)
  | _, _ => True      (* a row on one side only (a database damaged, or written by an interrupted run): the classifier's partial-prior arms *)
  end.

Definition in_sync (w : world) (p : N) : Prop := same_content (w_src w p) (w_dst w p) = true.

Lemma content_equal_spec s d : content_equal s d = true <-> f_size s = f_size d /\ f_content s = f_content d.
Proof.
  unfold content_equal. split.
  - intro H. apply andb_prop in H. destruct H as [A B]. apply N.eqb_eq in A, B. auto.
  - intros [A B]. rewrite A, B, !N.eqb_refl. reflexivity.
Qed.

Lemma same_content_some s d : same_content (Some s) (Some d) = true <-> f_content s = f_content d /\ f_size s = f_size d.
Proof.
  cbn. split.
  - intro H. apply andb_prop in H. destruct H as [A B]. apply N.eqb_eq in A, B. auto.
  - intros [A B]. rewrite A, B, !N.eqb_refl. reflexivity.
Qed.

(* ---- every action the resolver emits is applicable, and applying it (then recording) leaves the sides agreeing at p ---- *)
Definition action_ok (w : world) (p : N) (a : act) : Prop :=
  match a with
  | CopyToDest => w_src w p <> None
  | CopyToSource => w_dst w p <> None
  | DeleteFromSource => w_dst w p = None
  | DeleteFromDest => w_src w p = None
  | RenameConflict => w_src w p <> None /\ w_dst w p <> None
  end.

Lemma resolve_conflict_ok st w p :
  (w_src w p <> None \/ w_dst w p <> None) -> action_ok w p (resolve_conflict st (w_src w p) (w_dst w p)).
Proof.
  intro Hne. destruct (w_src w p) as [s|] eqn:Es, (w_dst w p) as [d|] eqn:Ed; destruct st; cbn;
    repeat match goal with |- context [if ?c then _ else _] => destruct c end; cbn; rewrite ?Es, ?Ed;
    try discriminate; try reflexivity; try (split; discriminate); destruct Hne; congruence.
Qed.

Lemma action_of_ok st w p a : action_of st w p = Some a -> action_ok w p a.
Proof.
  unfold action_of. destruct (classify (w_src w p) (w_dst w p) (w_dbs w p) (w_dbd w p)) as [c|] eqn:Ec; [|discriminate].
  intro H.
  assert (Hne : c = ModifiedBoth \/ c = CreateCreateConflict \/ c = ModifyDeleteConflict -> w_src w p <> None \/ w_dst w p <> None).
  { intros _. destruct (w_src w p), (w_dst w p); try (left; discriminate); try (right; discriminate).
    exfalso. cbn in Ec. destruct (w_dbs w p), (w_dbd w p); discriminate. }
  destruct c; cbn [resolve] in H;
    try (inversion H; subst; apply resolve_conflict_ok; apply Hne; auto; fail).
  - destruct (w_src w p) eqn:Es; inversion H; subst. cbn. rewrite Es. discriminate.
  - destruct (w_dst w p) eqn:Ed; inversion H; subst. cbn. rewrite Ed. discriminate.
  - destruct (w_src w p) eqn:Es; inversion H; subst. cbn. rewrite Es. discriminate.
  - destruct (w_dst w p) eqn:Ed; inversion H; subst. cbn. rewrite Ed. discriminate.
  - (* DeletedFromSource: the source side is absent *)
    inversion H; subst. cbn. destruct (w_src w p) eqn:Es; [|reflexivity]. exfalso.
    destruct (w_dst w p), (w_dbs w p), (w_dbd w p); cbn in Ec;
      repeat match type of Ec with context [if ?c then _ else _] => destruct c end; discriminate.
  - inversion H; subst. cbn. destruct (w_dst w p) eqn:Ed; [|reflexivity]. exfalso.
    destruct (w_src w p), (w_dbs w p), (w_dbd w p); cbn in Ec;
      repeat match type of Ec with context [if ?c then _ else _] => destruct c end; discriminate.
Qed.

Lemma exec_then_record_in_sync now w p a : action_ok w p a -> in_sync (record_path (exec now w p a) p) p.
Proof.
  unfold in_sync, action_ok. destruct a; cbn [exec].
  - destruct (w_dst w p) as [d|] eqn:Ed; [intros _|congruence].
    unfold record_path. cbn. rewrite upd_same. destruct (w_dst w p) eqn:E2; [|discriminate]. inversion Ed; subst.
    unfold content_equal. cbn. rewrite !N.eqb_refl. cbn. rewrite upd_same, E2. cbn. rewrite !N.eqb_refl. reflexivity.
  - destruct (w_src w p) as [s|] eqn:Es; [intros _|congruence].
    unfold record_path. cbn. rewrite upd_same. destruct (w_src w p) eqn:E2; [|discriminate]. inversion Es; subst.
    unfold content_equal. cbn. rewrite !N.eqb_refl. cbn. rewrite upd_same, E2. cbn. rewrite !N.eqb_refl. reflexivity.
  - intro Hd. unfold record_path. cbn. rewrite upd_same, Hd. cbn. rewrite upd_same, Hd. reflexivity.
  - intro Hs. unfold record_path. cbn. rewrite upd_same, Hs. cbn. rewrite upd_same, Hs. reflexivity.
  - intros [Hs Hd]. destruct (w_src w p) as [s|] eqn:Es; [|congruence]. destruct (w_dst w p) as [d|] eqn:Ed; [|congruence].
    unfold record_path. cbn. rewrite !(upd_other _ (cslot _ _ _ p)) by (apply not_eq_sym; apply cslot_ne). rewrite !upd_same. cbn.
    rewrite !(upd_other _ (cslot _ _ _ p)) by (apply not_eq_sym; apply cslot_ne). rewrite !upd_same. reflexivity.
Qed.

(* what the classifier and resolver decide at p, given truthful rows: afterwards the sides agree at p *)
Theorem path_sync_converges st now w p : rows_ok w p -> in_sync (path_sync st now w p) p.
Proof.
  intro Hr. unfold path_sync, sync_step. destruct (action_of st w p) as [a|] eqn:Ea.
  - apply exec_then_record_in_sync. apply (action_of_ok st w p a Ea).
  - (* no action: the classifier saw nothing to do *)
    unfold action_of in Ea. destruct (classify (w_src w p) (w_dst w p) (w_dbs w p) (w_dbd w p)) as [c|] eqn:Ec.
    + exfalso. destruct c; cbn [resolve] in Ea; try discriminate;
        destruct (w_src w p), (w_dst w p), (w_dbs w p), (w_dbd w p); cbn in Ec;
        repeat match type of Ec with context [if ?c then _ else _] => destruct c end; discriminate.
    + unfold in_sync, record_path, rows_ok in *.
      destruct (w_src w p) as [s|] eqn:Hsrc, (w_dst w p) as [d|] eqn:Hdst; cbn; rewrite ?Hsrc, ?Hdst; try reflexivity.
      * destruct (content_equal s d) eqn:E; cbn; rewrite ?Hsrc, ?Hdst.
        -- apply content_equal_spec in E. apply same_content_some. tauto.
        -- exfalso. destruct (w_dbs w p) as [rs|], (w_dbd w p) as [rd|]; cbn in Ec.
           ++ destruct Hr as (bc & bs & Hs & Hd).
              destruct (is_modified s rs) eqn:Ms, (is_modified d rd) eqn:Md; try discriminate.
              ** rewrite E in Ec. discriminate.
              ** destruct (Hs s eq_refl Ms) as [A1 A2]. destruct (Hd d eq_refl Md) as [B1 B2].
                 assert (content_equal s d = true) by (apply content_equal_spec; split; congruence). congruence.
           ++ rewrite E in Ec. destruct (is_modified s rs); discriminate.
           ++ rewrite E in Ec. destruct (is_modified d rd); discriminate.
           ++ rewrite E in Ec. discriminate.
      * exfalso. destruct (w_dbs w p), (w_dbd w p); cbn in Ec; try contradiction;
          repeat match type of Ec with context [if ?c then _ else _] => destruct c end; discriminate.
      * exfalso. destruct (w_dbs w p), (w_dbd w p); cbn in Ec; try contradiction;
          repeat match type of Ec with context [if ?c then _ else _] => destruct c end; discriminate.
Qed.

(* ---------- after a sync the database is truthful at p, and a further sync finds nothing to do there ---------- *)
Lemma record_path_files w p q : w_src (record_path w p) q = w_src w q /\ w_dst (record_path w p) q = w_dst w q.
Proof. unfold record_path. destruct (w_src w p), (w_dst w p); try (split; reflexivity). destruct (content_equal f f0); split; reflexivity. Qed.

Lemma is_modified_rec_of f : is_modified f (rec_of f) = false.
Proof. unfold is_modified, rec_of. cbn. rewrite N.eqb_refl. cbn. rewrite Z.ltb_irrefl. cbn. apply Z.ltb_ge. lia. Qed.

(* the rows after recording: none when the path is gone, the two sides' own metadata when they agree *)
Definition rows_fresh (w : world) (p : N) : Prop :=
  match w_src w p, w_dst w p with
  | Some s, Some d => w_dbs w p = Some (rec_of s) /\ w_dbd w p = Some (rec_of d)
  | None, None => w_dbs w p = None /\ w_dbd w p = None
  | _, _ => False
  end.

Lemma record_path_fresh w p : in_sync w p -> rows_fresh (record_path w p) p.
Proof.
  unfold in_sync, rows_fresh, record_path. destruct (w_src w p) as [s|] eqn:Es, (w_dst w p) as [d|] eqn:Ed; cbn; try discriminate.
  - intro H. apply same_content_some in H. destruct H as [A B].
    assert (Ec : content_equal s d = true) by (apply content_equal_spec; split; congruence). rewrite Ec. cbn. rewrite Es, Ed, !upd_same. split; reflexivity.
  - intros _. rewrite Es, Ed, !upd_same. split; reflexivity.
Qed.

Lemma in_sync_record w p : in_sync (record_path w p) p -> in_sync w p.
Proof. unfold in_sync. destruct (record_path_files w p p) as [A B]. rewrite A, B. exact (fun H => H). Qed.

Theorem path_sync_fresh st now w p : rows_ok w p -> rows_fresh (path_sync st now w p) p /\ in_sync (path_sync st now w p) p.
Proof.
  intro Hr. pose proof (path_sync_converges st now w p Hr) as Hs. split; [|exact Hs].
  unfold path_sync in *. apply record_path_fresh. apply in_sync_record. exact Hs.
Qed.

Lemma fresh_rows_ok w p : rows_fresh w p -> in_sync w p -> rows_ok w p.
Proof.
  unfold rows_fresh, rows_ok, in_sync. destruct (w_src w p) as [s|] eqn:Es, (w_dst w p) as [d|] eqn:Ed; try contradiction.
  - intros [A B] H. rewrite A, B. apply same_content_some in H. destruct H as [C D].
    exists (f_content s), (f_size s). split; intros x Hx _; inversion Hx; subst; split; congruence.
  - intros [A B] _. rewrite A, B. exact I.
Qed.

(* a path whose rows are fresh needs no action, whatever the strategy: an idle re-run is a no-op *)
Lemma fresh_no_action st w p : rows_fresh w p -> action_of st w p = None.
Proof.
  unfold rows_fresh, action_of. destruct (w_src w p) as [s|], (w_dst w p) as [d|]; try contradiction; intros [A B]; rewrite A, B; cbn.
  - rewrite !is_modified_rec_of. reflexivity.
  - reflexivity.
Qed.

(* ---------- a change made on exactly one side is propagated, whatever the strategy ---------- *)
(* the destination still holds the recorded version; the source was edited, touched, or deleted *)
Definition changed_on_source_only (w : world) (p : N) : Prop :=
  exists rs rd d, w_dbs w p = Some rs /\ w_dbd w p = Some rd /\ w_dst w p = Some d /\ is_modified d rd = false /\
                  match w_src w p with Some s => is_modified s rs = true | None => True end.

Definition changed_on_dest_only (w : world) (p : N) : Prop :=
  exists rs rd s, w_dbs w p = Some rs /\ w_dbd w p = Some rd /\ w_src w p = Some s /\ is_modified s rs = false /\
                  match w_dst w p with Some d => is_modified d rd = true | None => True end.

Theorem source_change_propagates st now w p : changed_on_source_only w p ->
  w_src (path_sync st now w p) p = w_src w p /\
  same_content (w_dst (path_sync st now w p) p) (w_src w p) = true.
Proof.
  intros (rs & rd & d & Es & Ed & Hd & Md & Hs). unfold path_sync, sync_step, action_of. rewrite Es, Ed, Hd.
  destruct (w_src w p) as [s|] eqn:Hsrc; cbn [classify].
  - rewrite Hs, Md. cbn [resolve exec]. rewrite Hsrc. destruct (record_path_files (mk_world (w_src w) (upd (w_dst w) p (Some (mk_fent (f_size s) now (f_content s)))) (w_dbs w) (w_dbd w)) p p) as [A B].
    rewrite A, B. cbn. rewrite upd_same, Hsrc. cbn. rewrite !N.eqb_refl. split; reflexivity.
  - rewrite Md. cbn [resolve exec]. destruct (record_path_files (mk_world (w_src w) (upd (w_dst w) p None) (w_dbs w) (w_dbd w)) p p) as [A B].
    rewrite A, B. cbn. rewrite upd_same, Hsrc. split; reflexivity.
Qed.

Theorem dest_change_propagates st now w p : changed_on_dest_only w p ->
  w_dst (path_sync st now w p) p = w_dst w p /\
  same_content (w_src (path_sync st now w p) p) (w_dst w p) = true.
Proof.
  intros (rs & rd & s & Es & Ed & Hs & Ms & Hd). unfold path_sync, sync_step, action_of. rewrite Es, Ed, Hs.
  destruct (w_dst w p) as [d|] eqn:Hdst; cbn [classify].
  - rewrite Ms, Hd. cbn [resolve exec]. rewrite Hdst. destruct (record_path_files (mk_world (upd (w_src w) p (Some (mk_fent (f_size d) now (f_content d)))) (w_dst w) (w_dbs w) (w_dbd w)) p p) as [A B].
    rewrite A, B. cbn. rewrite upd_same, Hdst. cbn. rewrite !N.eqb_refl. split; reflexivity.
  - rewrite Ms. cbn [resolve exec]. destruct (record_path_files (mk_world (upd (w_src w) p None) (w_dst w) (w_dbs w) (w_dbd w)) p p) as [A B].
    rewrite A, B. cbn. rewrite upd_same, Hdst. split; reflexivity.
Qed.

(* a file that exists on one side only and was never synchronised is copied to the other side *)
Theorem new_file_propagates st now w p s : w_dbs w p = None -> w_dbd w p = None -> w_src w p = Some s -> w_dst w p = None ->
  w_src (path_sync st now w p) p = Some s /\ same_content (w_dst (path_sync st now w p) p) (Some s) = true.
Proof.
  intros Es Ed Hs Hd. unfold path_sync, sync_step, action_of. rewrite Es, Ed, Hs, Hd. cbn [classify resolve exec]. rewrite Hs.
  destruct (record_path_files (mk_world (w_src w) (upd (w_dst w) p (Some (mk_fent (f_size s) now (f_content s)))) (w_dbs w) (w_dbd w)) p p) as [A B].
  rewrite A, B. cbn. rewrite upd_same, Hs. cbn. rewrite !N.eqb_refl. split; reflexivity.
Qed.

(* ---------- only paths changed on both sides are conflicts ---------- *)
Definition is_conflict (c : change) : bool :=
  match c with ModifiedBoth | CreateCreateConflict | ModifyDeleteConflict => true | _ => false end.

Theorem conflict_needs_both_sides s d rs rd c :
  classify s d (Some rs) (Some rd) = Some c -> is_conflict c = true ->
  (match s with Some x => is_modified x rs = true | None => True end) /\
  (match d with Some y => is_modified y rd = true | None => True end) /\ (s <> None \/ d <> None).
Proof.
  destruct s as [s|], d as [d|]; cbn; intros H Hc.
  - destruct (is_modified s rs) eqn:Ms, (is_modified d rd) eqn:Md.
    + split; [reflexivity|]. split; [reflexivity | left; discriminate].
    + inversion H; subst. discriminate Hc.
    + inversion H; subst. discriminate Hc.
    + discriminate H.
  - destruct (is_modified s rs) eqn:Ms; inversion H; subst; [|discriminate Hc]. split; [reflexivity|]. split; [exact I | left; discriminate].
  - destruct (is_modified d rd) eqn:Md; inversion H; subst; [|discriminate Hc]. split; [exact I|]. split; [reflexivity | right; discriminate].
  - discriminate H.
Qed.

(* ---------- no version is lost silently ---------- *)
(* the source's version at p survives at p or under its conflict name, unless it is replaced by the destination's:
   then either it was the previously synchronised version (unmodified with respect to its row) or the path was a conflict
   and the strategy chose the destination's version *)
Theorem source_version_accounted st now w p s :
  rows_ok w p -> w_src w p = Some s ->
  let w' := path_sync st now w p in
  w_src w' p = Some s \/ (exists k, w_src w' (cname_k Source p k) = Some s) \/
  (exists rs, w_dbs w p = Some rs /\ is_modified s rs = false) \/
  (exists c, classify (w_src w p) (w_dst w p) (w_dbs w p) (w_dbd w p) = Some c /\ is_conflict c = true /\ st <> RenameBoth) \/
  (w_dbs w p = None /\ (exists rd, w_dbd w p = Some rd) /\ w_dst w p = None).
Proof.
  intros Hr Hs w'. subst w'. unfold path_sync, sync_step.
  destruct (action_of st w p) as [a|] eqn:Ea.
  - unfold action_of in Ea. destruct (classify (w_src w p) (w_dst w p) (w_dbs w p) (w_dbd w p)) as [c|] eqn:Ec; [|discriminate].
    destruct a.
    + (* CopyToSource: replaced *)
      destruct (is_conflict c) eqn:Hc.
      * right. right. right. left. exists c. split; [reflexivity|]. split; [exact Hc|]. intro; subst.
        destruct c; try discriminate; cbn in Ea; rewrite Hs in Ea; destruct (w_dst w p); inversion Ea.
      * right. right. left. unfold rows_ok in Hr. rewrite Hs in Ec.
        destruct (w_dst w p) as [d|], (w_dbs w p) as [rs|], (w_dbd w p) as [rd|]; try contradiction; cbn in Ec;
          repeat match type of Ec with context [if ?x then _ else _] => destruct x eqn:? end; inversion Ec; subst; try discriminate;
          cbn in Ea; rewrite ?Hs in Ea; try discriminate; try (exists rs; split; [reflexivity | assumption]);
          try (exists rs; split; [reflexivity|];
               match goal with Hx : (is_modified s rs && negb false)%bool = false |- _ => cbn [negb] in Hx; rewrite andb_true_r in Hx; exact Hx end).
    + (* CopyToDest: the source side is not written *)
      left. destruct (record_path_files (exec now w p CopyToDest) p p) as [A _]. rewrite A. cbn. rewrite Hs. cbn. exact Hs.
    + (* DeleteFromSource *)
      destruct (is_conflict c) eqn:Hc.
      * right. right. right. left. exists c. split; [reflexivity|]. split; [exact Hc|]. intro; subst.
        destruct c; try discriminate; cbn in Ea; rewrite Hs in Ea; destruct (w_dst w p); inversion Ea.
      * unfold rows_ok in Hr. rewrite Hs in Ec.
        destruct (w_dst w p) as [d|], (w_dbs w p) as [rs|], (w_dbd w p) as [rd|]; try contradiction; cbn in Ec;
          repeat match type of Ec with context [if ?x then _ else _] => destruct x eqn:? end; inversion Ec; subst; try discriminate;
          cbn in Ea; rewrite ?Hs in Ea; try discriminate;
          first [ right; right; left; exists rs; split; [reflexivity | assumption]
                | right; right; right; right; split; [reflexivity | split; [eexists; reflexivity | reflexivity]] ].
    + left. destruct (record_path_files (exec now w p DeleteFromDest) p p) as [A _]. rewrite A. cbn. exact Hs.
    + (* RenameConflict: kept under the conflict name *)
      right. left. pose proof (action_of_ok st w p RenameConflict) as Hok. unfold action_of in Hok. rewrite Ec in Hok. specialize (Hok Ea).
      destruct Hok as [_ Hd]. destruct (w_dst w p) as [d|] eqn:Ed; [|congruence].
      destruct (cslot_is (w_src w) (w_dst w) Source p) as [k Ek]. exists k. destruct (record_path_files (exec now w p RenameConflict) p (cname_k Source p k)) as [A _]. rewrite A. cbn. rewrite Hs, Ed. cbn. rewrite Ek. apply upd_same.
  - left. destruct (record_path_files w p p) as [A _]. rewrite A. exact Hs.
Qed.

(* the same for the destination's version *)
Theorem dest_version_accounted st now w p d :
  rows_ok w p -> w_dst w p = Some d ->
  let w' := path_sync st now w p in
  w_dst w' p = Some d \/ (exists k, w_dst w' (cname_k Dest p k) = Some d) \/
  (exists rd, w_dbd w p = Some rd /\ is_modified d rd = false) \/
  (exists c, classify (w_src w p) (w_dst w p) (w_dbs w p) (w_dbd w p) = Some c /\ is_conflict c = true /\ st <> RenameBoth) \/
  (w_dbd w p = None /\ (exists rs, w_dbs w p = Some rs) /\ w_src w p = None).
Proof.
  intros Hr Hd w'. subst w'. unfold path_sync, sync_step.
  destruct (action_of st w p) as [a|] eqn:Ea.
  - unfold action_of in Ea. destruct (classify (w_src w p) (w_dst w p) (w_dbs w p) (w_dbd w p)) as [c|] eqn:Ec; [|discriminate].
    destruct a.
    + left. destruct (record_path_files (exec now w p CopyToSource) p p) as [_ B]. rewrite B. cbn. rewrite Hd. cbn. exact Hd.
    + (* CopyToDest: replaced *)
      destruct (is_conflict c) eqn:Hc.
      * right. right. right. left. exists c. split; [reflexivity|]. split; [exact Hc|]. intro; subst.
        destruct c; try discriminate; cbn in Ea; rewrite Hd in Ea; destruct (w_src w p); inversion Ea.
      * unfold rows_ok in Hr. rewrite Hd in Ec.
        destruct (w_src w p) as [s|], (w_dbs w p) as [rs|], (w_dbd w p) as [rd|]; try contradiction; cbn in Ec;
          repeat match type of Ec with context [if ?x then _ else _] => destruct x eqn:? end; inversion Ec; subst; try discriminate;
          cbn in Ea; rewrite ?Hd in Ea; try discriminate;
          first [ right; right; left; exists rd; split; [reflexivity | assumption]
                | right; right; left; exists rd; split; [reflexivity|];
                  match goal with Hx : (is_modified d rd && negb false)%bool = false |- _ => cbn [negb] in Hx; rewrite andb_true_r in Hx; exact Hx end ].
    + left. destruct (record_path_files (exec now w p DeleteFromSource) p p) as [_ B]. rewrite B. cbn. exact Hd.
    + (* DeleteFromDest *)
      destruct (is_conflict c) eqn:Hc.
      * right. right. right. left. exists c. split; [reflexivity|]. split; [exact Hc|]. intro; subst.
        destruct c; try discriminate; cbn in Ea; rewrite Hd in Ea; destruct (w_src w p); inversion Ea.
      * unfold rows_ok in Hr. rewrite Hd in Ec.
        destruct (w_src w p) as [s|], (w_dbs w p) as [rs|], (w_dbd w p) as [rd|]; try contradiction; cbn in Ec;
          repeat match type of Ec with context [if ?x then _ else _] => destruct x eqn:? end; inversion Ec; subst; try discriminate;
          cbn in Ea; rewrite ?Hd in Ea; try discriminate;
          first [ right; right; left; exists rd; split; [reflexivity | assumption]
                | right; right; right; right; split; [reflexivity | split; [eexists; reflexivity | reflexivity]] ].
    + (* RenameConflict: kept under the conflict name *)
      right. left. pose proof (action_of_ok st w p RenameConflict) as Hok. unfold action_of in Hok. rewrite Ec in Hok. specialize (Hok Ea).
      destruct Hok as [Hs _]. destruct (w_src w p) as [s|] eqn:Es; [|congruence].
      destruct (cslot_is (w_dst w) (w_src w) Dest p) as [k Ek]. exists k. destruct (record_path_files (exec now w p RenameConflict) p (cname_k Dest p k)) as [_ B]. rewrite B. cbn. rewrite Es, Hd. cbn. rewrite Ek. apply upd_same.
  - left. destruct (record_path_files w p p) as [_ B]. rewrite B. exact Hd.
Qed.

(* no action at p destroys a file at ANOTHER path -- in particular an earlier conflict copy: the rename takes a name that is
   not in use (as long as one of the names it tries is free) *)
Definition slot_free (m m' : fmap fent) (sd : side) (p : N) : Prop := exists j, (j <= 3)%N /\ m (cname_k sd p j) = None /\ m' (cname_k sd p j) = None.

Theorem exec_keeps_other_paths now w p a q :
  q <> p -> slot_free (w_src w) (w_dst w) Source p -> slot_free (w_dst w) (w_src w) Dest p ->
  (forall v, w_src w q = Some v -> w_src (exec now w p a) q = Some v) /\
  (forall v, w_dst w q = Some v -> w_dst (exec now w p a) q = Some v).
Proof.
  intros Hq Fs Fd. destruct a; cbn [exec].
  - destruct (w_dst w p); cbn; split; intros v Hv; rewrite ?upd_other by exact Hq; exact Hv.
  - destruct (w_src w p); cbn; split; intros v Hv; rewrite ?upd_other by exact Hq; exact Hv.
  - cbn. split; intros v Hv; rewrite ?upd_other by exact Hq; exact Hv.
  - cbn. split; intros v Hv; rewrite ?upd_other by exact Hq; exact Hv.
  - destruct (w_src w p) as [s|], (w_dst w p) as [d|]; cbn; try (split; intros v Hv; exact Hv).
    split; intros v Hv.
    + assert (q <> cslot (w_src w) (w_dst w) Source p) by (intro X; rewrite X in Hv; rewrite (proj1 (cslot_unused _ _ _ _ Fs)) in Hv; discriminate).
      rewrite !upd_other by assumption. exact Hv.
    + assert (q <> cslot (w_dst w) (w_src w) Dest p) by (intro X; rewrite X in Hv; rewrite (proj1 (cslot_unused _ _ _ _ Fd)) in Hv; discriminate).
      rewrite !upd_other by assumption. exact Hv.
Qed.

(* ---------- histories: the invariant that makes the database truthful ---------- *)
Definition times_ok (t : Z) (w : world) (p : N) : Prop :=
  (forall f, w_src w p = Some f -> (f_mtime f <= t)%Z) /\ (forall f, w_dst w p = Some f -> (f_mtime f <= t)%Z) /\
  (forall r, w_dbs w p = Some r -> (s_mtime r <= t)%Z) /\ (forall r, w_dbd w p = Some r -> (s_mtime r <= t)%Z).

Definition good (t : Z) (w : world) (p : N) : Prop := rows_ok w p /\ times_ok t w p.

Lemma rows_ok_at w1 w2 p : at_ w1 p = at_ w2 p -> rows_ok w1 p -> rows_ok w2 p.
Proof. unfold at_, rows_ok. intro E. inversion E as [[E1 E2 E3 E4]]. rewrite E1, E2, E3, E4. exact (fun H => H). Qed.
Lemma rows_fresh_at w1 w2 p : at_ w1 p = at_ w2 p -> rows_fresh w1 p -> rows_fresh w2 p.
Proof. unfold at_, rows_fresh. intro E. inversion E as [[E1 E2 E3 E4]]. rewrite E1, E2, E3, E4. exact (fun H => H). Qed.
Lemma in_sync_at w1 w2 p : at_ w1 p = at_ w2 p -> in_sync w1 p -> in_sync w2 p.
Proof. unfold at_, in_sync. intro E. inversion E as [[E1 E2 E3 E4]]. rewrite E1, E2. exact (fun H => H). Qed.
Lemma times_ok_at t w1 w2 p : at_ w1 p = at_ w2 p -> times_ok t w1 p -> times_ok t w2 p.
Proof. unfold at_, times_ok. intro E. inversion E as [[E1 E2 E3 E4]]. rewrite E1, E2, E3, E4. exact (fun H => H). Qed.
Lemma times_ok_mono t t' w p : (t <= t')%Z -> times_ok t w p -> times_ok t' w p.
Proof. intros Hl (A & B & C & D). repeat split; intros x Hx; [specialize (A x Hx)|specialize (B x Hx)|specialize (C x Hx)|specialize (D x Hx)]; lia. Qed.

(* an edit at a time later than everything recorded keeps the rows truthful: the edited side is seen as modified *)
Lemma edit_keeps_good t w sd p e q :
  good t w q ->
  good (t + 1) (match sd with
                | Source => mk_world (apply_edit (t + 1) (w_src w) p e) (w_dst w) (w_dbs w) (w_dbd w)
                | Dest => mk_world (w_src w) (apply_edit (t + 1) (w_dst w) p e) (w_dbs w) (w_dbd w)
                end) q.
Proof.
  intros [Hr Ht]. destruct (N.eq_dec q p) as [->|Hne].
  - destruct Ht as (T1 & T2 & T3 & T4). split.
    + unfold rows_ok in *. destruct sd; cbn [w_src w_dst w_dbs w_dbd];
        destruct (w_dbs w p) as [rs|] eqn:Es, (w_dbd w p) as [rd|] eqn:Ed; try contradiction; try exact I;
        destruct Hr as (bc & bs & Hs & Hd); exists bc, bs; split; try assumption.
      * intros s Hs' Hm. exfalso. destruct e; cbn [apply_edit] in Hs'.
        -- rewrite upd_same in Hs'. inversion Hs'; subst. unfold is_modified in Hm. cbn in Hm. apply orb_false_elim in Hm. destruct Hm as [Hm _]. apply orb_false_elim in Hm. destruct Hm as [_ Hm].
           apply Z.ltb_ge in Hm. specialize (T3 rs eq_refl). lia.
        -- rewrite upd_same in Hs'. discriminate.
        -- destruct (w_src w p) as [f|] eqn:Ef; [|congruence]. rewrite upd_same in Hs'. inversion Hs'; subst. unfold is_modified in Hm. cbn in Hm.
           apply orb_false_elim in Hm. destruct Hm as [Hm _]. apply orb_false_elim in Hm. destruct Hm as [_ Hm]. apply Z.ltb_ge in Hm. specialize (T3 rs eq_refl). lia.
      * intros d Hd' Hm. exfalso. destruct e; cbn [apply_edit] in Hd'.
        -- rewrite upd_same in Hd'. inversion Hd'; subst. unfold is_modified in Hm. cbn in Hm. apply orb_false_elim in Hm. destruct Hm as [Hm _]. apply orb_false_elim in Hm. destruct Hm as [_ Hm].
           apply Z.ltb_ge in Hm. specialize (T4 rd eq_refl). lia.
        -- rewrite upd_same in Hd'. discriminate.
        -- destruct (w_dst w p) as [f|] eqn:Ef; [|congruence]. rewrite upd_same in Hd'. inversion Hd'; subst. unfold is_modified in Hm. cbn in Hm.
           apply orb_false_elim in Hm. destruct Hm as [Hm _]. apply orb_false_elim in Hm. destruct Hm as [_ Hm]. apply Z.ltb_ge in Hm. specialize (T4 rd eq_refl). lia.
    + destruct sd; cbn [w_src w_dst w_dbs w_dbd]; repeat split; intros x Hx; cbn [w_src w_dst w_dbs w_dbd] in Hx;
        try (specialize (T1 x Hx); lia); try (specialize (T2 x Hx); lia); try (specialize (T3 x Hx); lia); try (specialize (T4 x Hx); lia).
      * destruct e; cbn [apply_edit] in Hx; [rewrite upd_same in Hx; inversion Hx; subst; cbn; lia | rewrite upd_same in Hx; discriminate|].
        destruct (w_src w p) as [f|] eqn:Ef; [rewrite upd_same in Hx; inversion Hx; subst; cbn; lia | rewrite Ef in Hx; discriminate].
      * destruct e; cbn [apply_edit] in Hx; [rewrite upd_same in Hx; inversion Hx; subst; cbn; lia | rewrite upd_same in Hx; discriminate|].
        destruct (w_dst w p) as [f|] eqn:Ef; [rewrite upd_same in Hx; inversion Hx; subst; cbn; lia | rewrite Ef in Hx; discriminate].
  - (* another path: nothing changes there *)
    assert (E : forall m : fmap fent, apply_edit (t + 1) m p e q = m q).
    { intro m. destruct e; cbn [apply_edit]; [apply upd_other; exact Hne | apply upd_other; exact Hne|]. destruct (m p); [apply upd_other; exact Hne | reflexivity]. }
    split.
    + unfold rows_ok in *. destruct sd; cbn [w_src w_dst w_dbs w_dbd]; rewrite ?E; exact Hr.
    + apply (times_ok_mono t); [lia|]. unfold times_ok in *. destruct sd; cbn [w_src w_dst w_dbs w_dbd]; rewrite ?E; exact Ht.
Qed.

Lemma path_sync_times t st w p : times_ok t w p -> times_ok (t + 1) (path_sync st (t + 1) w p) p.
Proof.
  intros (T1 & T2 & T3 & T4). unfold path_sync, sync_step.
  assert (Hfiles : forall x, (forall f, w_src x p = Some f -> (f_mtime f <= t + 1)%Z) -> (forall f, w_dst x p = Some f -> (f_mtime f <= t + 1)%Z) ->
                   (forall r, w_dbs x p = Some r -> (s_mtime r <= t + 1)%Z) -> (forall r, w_dbd x p = Some r -> (s_mtime r <= t + 1)%Z) ->
                   times_ok (t + 1) (record_path x p) p).
  { intros x A B C D. unfold times_ok, record_path. destruct (w_src x p) as [s|] eqn:Es, (w_dst x p) as [d|] eqn:Ed; cbn.
    - destruct (content_equal s d); cbn; rewrite ?Es, ?Ed, ?upd_same; repeat split; intros y Hy; try (inversion Hy; subst; cbn); auto.
    - rewrite Es, Ed. repeat split; intros y Hy; auto; discriminate.
    - rewrite Es, Ed. repeat split; intros y Hy; auto; discriminate.
    - rewrite Es, Ed, !upd_same. repeat split; intros y Hy; discriminate. }
  destruct (action_of st w p) as [a|].
  - destruct (exec_db (t + 1) w p a) as [D1 D2].
    apply Hfiles; [| |rewrite D1; intros y Hy; specialize (T3 y Hy); lia|rewrite D2; intros y Hy; specialize (T4 y Hy); lia];
      destruct a; cbn [exec]; destruct (w_src w p) as [s|] eqn:Es; destruct (w_dst w p) as [d|] eqn:Ed; cbn [w_src w_dst];
      intros y Hy; rewrite ?upd_same in Hy; try (rewrite upd_other in Hy by (apply not_eq_sym; apply cslot_ne); rewrite ?upd_same in Hy); rewrite ?Es, ?Ed in Hy;
      try discriminate; inversion Hy; subst; cbn; try lia;
      try (specialize (T1 _ eq_refl); lia); try (specialize (T2 _ eq_refl); lia).
  - apply Hfiles; intros y Hy; [specialize (T1 y Hy)|specialize (T2 y Hy)|specialize (T3 y Hy)|specialize (T4 y Hy)]; lia.
Qed.

(* one successful sync keeps every path of the universe good and leaves it in sync with fresh rows *)
Theorem bisync_keeps_good U st maxdel t w w' p :
  NoDup U -> conflict_names_outside U -> In p U -> good t w p -> bisync U st maxdel (t + 1) w = Some w' ->
  good (t + 1) w' p /\ rows_fresh w' p /\ in_sync w' p.
Proof.
  intros Hnd Hc Hp [Hr Ht] Hb. pose proof (bisync_at U st maxdel (t + 1) w w' p Hnd Hc Hp Hb) as E. symmetry in E.
  destruct (path_sync_fresh st (t + 1) w p Hr) as [Hf Hs].
  assert (Hf' : rows_fresh w' p) by (apply (rows_fresh_at _ _ _ E Hf)).
  assert (Hs' : in_sync w' p) by (apply (in_sync_at _ _ _ E Hs)).
  split; [|split; assumption]. split; [apply fresh_rows_ok; assumption|].
  apply (times_ok_at _ _ _ _ E). apply path_sync_times. exact Ht.
Qed.

(* a refused sync (deletion limit) changes nothing *)
Lemma good_mono t w p : good t w p -> good (t + 1) w p.
Proof. intros [A B]. split; [exact A | apply (times_ok_mono t); [lia | exact B]]. Qed.

Theorem history_good U : NoDup U -> conflict_names_outside U -> forall h p, In p U ->
  good (fst (run_history U h)) (snd (run_history U h)) p.
Proof.
  intros Hnd Hc h. unfold run_history.
  assert (G : forall h t w, (forall p, In p U -> good t w p) -> forall p, In p U -> good (fst (fold_left (run_step U) h (t, w))) (snd (fold_left (run_step U) h (t, w))) p).
  { induction h0 as [|s h0 IH]; intros t w Hg p Hp; [apply Hg; exact Hp|].
    cbn [fold_left]. destruct s as [sd q e|st m]; cbn [run_step].
    - destruct sd; apply IH; try exact Hp; intros r Hr.
      + apply (edit_keeps_good t w Source q e r). apply Hg. exact Hr.
      + apply (edit_keeps_good t w Dest q e r). apply Hg. exact Hr.
    - destruct (bisync U st m (t + 1) w) as [w'|] eqn:Eb; apply IH; try exact Hp; intros r Hr.
      + apply (bisync_keeps_good U st m t w w' r Hnd Hc Hr (Hg r Hr) Eb).
      + apply good_mono. apply Hg. exact Hr. }
  intros p Hp. apply G; [|exact Hp]. intros q _. split; [exact I|]. repeat split; intros x Hx; discriminate.
Qed.

(* ---------- histories in which the database loses rows ---------- *)
Lemma run_step_good U : NoDup U -> conflict_names_outside U -> forall t w s,
  (forall p, In p U -> good t w p) -> forall p, In p U -> good (fst (run_step U (t, w) s)) (snd (run_step U (t, w) s)) p.
Proof.
  intros Hnd Hc t w s Hg p Hp. destruct s as [sd q e|st m]; cbn [run_step].
  - destruct sd; cbn [fst snd].
    + apply (edit_keeps_good t w Source q e p). apply Hg. exact Hp.
    + apply (edit_keeps_good t w Dest q e p). apply Hg. exact Hp.
  - destruct (bisync U st m (t + 1) w) as [w'|] eqn:Eb; cbn [fst snd].
    + apply (bisync_keeps_good U st m t w w' p Hnd Hc Hp (Hg p Hp) Eb).
    + apply good_mono. apply Hg. exact Hp.
Qed.

(* ---------- ordinary histories never leave a row for one side only ---------- *)
Definition paired (w : world) (p : N) : Prop := w_dbs w p = None <-> w_dbd w p = None.

Lemma fresh_paired w p : rows_fresh w p -> paired w p.
Proof.
  unfold rows_fresh, paired. destruct (w_src w p), (w_dst w p); try contradiction; intros [A B]; rewrite A, B; split; intro H; try discriminate; reflexivity.
Qed.

Theorem history_paired U : NoDup U -> conflict_names_outside U -> forall h p, In p U -> paired (snd (run_history U h)) p.
Proof.
  intros Hnd Hc h. unfold run_history.
  assert (G : forall h t w, (forall p, In p U -> good t w p /\ paired w p) ->
              forall p, In p U -> good (fst (fold_left (run_step U) h (t, w))) (snd (fold_left (run_step U) h (t, w))) p /\
                                  paired (snd (fold_left (run_step U) h (t, w))) p).
  { induction h0 as [|s h0 IH]; intros t w Hg p Hp; [apply Hg; exact Hp|].
    cbn [fold_left]. rewrite (surjective_pairing (run_step U (t, w) s)). apply IH; [|exact Hp]. intros r Hr. split.
    - apply run_step_good; try assumption. intros q Hq. apply Hg. exact Hq.
    - destruct s as [sd q e|st m]; cbn [run_step].
      + destruct sd; cbn [snd]; unfold paired; cbn [w_dbs w_dbd]; apply Hg; exact Hr.
      + destruct (bisync U st m (t + 1) w) as [w'|] eqn:Eb; cbn [snd].
        * apply fresh_paired. destruct (Hg r Hr) as [Hgood _].
          destruct (bisync_keeps_good U st m t w w' r Hnd Hc Hr Hgood Eb) as (_ & Hf & _). exact Hf.
        * apply Hg. exact Hr. }
  intros p Hp. apply G; [|exact Hp]. intros q _. split; [split; [exact I|]|].
  - repeat split; intros x Hx; discriminate.
  - unfold paired. cbn. split; reflexivity.
Qed.

Lemma drop_row_keeps_good t w sd q p : good t w p -> good (t + 1) (drop_row sd q w) p.
Proof.
  intros [Hr (T1 & T2 & T3 & T4)]. split.
  - unfold rows_ok in *. destruct sd; cbn [drop_row w_src w_dst w_dbs w_dbd]; unfold upd; destruct (N.eqb p q);
      try exact Hr; destruct (w_dbs w p), (w_dbd w p); exact I.
  - unfold times_ok. destruct sd; cbn [drop_row w_src w_dst w_dbs w_dbd]; unfold upd; repeat split; intros x Hx;
      try (destruct (N.eqb p q); [discriminate|]);
      first [specialize (T1 x Hx) | specialize (T2 x Hx) | specialize (T3 x Hx) | specialize (T4 x Hx)]; lia.
Qed.

Definition no_backdated_write (x : xstep) : Prop := match x with XWriteAt _ _ _ _ _ => False | _ => True end.

Theorem xhistory_good U : NoDup U -> conflict_names_outside U -> forall h, (forall x, In x h -> no_backdated_write x) ->
  forall p, In p U -> good (fst (run_xhistory U h)) (snd (run_xhistory U h)) p.
Proof.
  intros Hnd Hc h. unfold run_xhistory.
  assert (G : forall h t w, (forall x, In x h -> no_backdated_write x) -> (forall p, In p U -> good t w p) ->
              forall p, In p U -> good (fst (fold_left (run_xstep U) h (t, w))) (snd (fold_left (run_xstep U) h (t, w))) p).
  { induction h0 as [|x h0 IH]; intros t w Hn Hg p Hp; [apply Hg; exact Hp|].
    cbn [fold_left].
    assert (Hn' : forall y, In y h0 -> no_backdated_write y) by (intros y Hy; apply Hn; right; exact Hy).
    destruct x as [s|sd q|sd q sz c mt].
    - cbn [run_xstep]. rewrite (surjective_pairing (run_step U (t, w) s)). apply IH; [exact Hn'| |exact Hp].
      intros r Hr. apply run_step_good; assumption.
    - cbn [run_xstep fst snd]. apply IH; [exact Hn'| |exact Hp]. intros r Hr. apply drop_row_keeps_good. apply Hg. exact Hr.
    - exfalso. apply (Hn (XWriteAt sd q sz c mt)). left. reflexivity. }
  intros Hn p Hp. apply G; [exact Hn| |exact Hp]. intros q _. split; [exact I|]. repeat split; intros x Hx; discriminate.
Qed.

(* a first sync of two arbitrary trees (no rows at p): every combination of sizes, contents and time stamps is a good state *)
Lemma rowless_good t w p : w_dbs w p = None -> w_dbd w p = None ->
  (forall f, w_src w p = Some f -> (f_mtime f <= t)%Z) -> (forall f, w_dst w p = Some f -> (f_mtime f <= t)%Z) -> good t w p.
Proof.
  intros A B C D. split; [unfold rows_ok; rewrite A, B; exact I|]. unfold times_ok. rewrite A, B. repeat split; try assumption; intros r Hr; discriminate.
Qed.

(* ---------- after a sync, an edit on one side, then any sync: the edit wins, whatever the strategy ---------- *)
Theorem edit_after_sync_propagates U st1 m1 st2 m2 t w w1 w3 p e :
  NoDup U -> conflict_names_outside U -> In p U -> good t w p ->
  bisync U st1 m1 (t + 1) w = Some w1 ->
  let w2 := mk_world (apply_edit (t + 2) (w_src w1) p e) (w_dst w1) (w_dbs w1) (w_dbd w1) in
  (w_src w1 p = None -> e <> Touch /\ e <> Delete) ->
  bisync U st2 m2 (t + 3) w2 = Some w3 ->
  w_src w3 p = w_src w2 p /\ same_content (w_dst w3 p) (w_src w2 p) = true.
Proof.
  intros Hnd Hc Hp Hg Hb1 w2 Hne Hb3.
  destruct (bisync_keeps_good U st1 m1 t w w1 p Hnd Hc Hp Hg Hb1) as ([_ Ht1] & Hf & Hs).
  pose proof (bisync_at U st2 m2 (t + 3) w2 w3 p Hnd Hc Hp Hb3) as E. unfold at_ in E. inversion E as [[E1 E2 E3 E4]]. rewrite E1, E2.
  destruct Ht1 as (T1 & T2 & T3 & T4).
  unfold rows_fresh in Hf. destruct (w_src w1 p) as [s|] eqn:Es, (w_dst w1 p) as [d|] eqn:Ed; try contradiction; destruct Hf as [Fs Fd].
  - (* present on both sides with fresh rows: the edit makes the source differ from its row *)
    apply source_change_propagates. exists (rec_of s), (rec_of d), d. subst w2. cbn [w_src w_dst w_dbs w_dbd]. rewrite Fs, Fd, Ed.
    split; [reflexivity|]. split; [reflexivity|]. split; [reflexivity|]. split; [apply is_modified_rec_of|].
    destruct e; cbn [apply_edit]; rewrite ?Es, ?upd_same; try exact I; unfold is_modified, rec_of; cbn;
      [assert (Hlt : (f_mtime s <? t + 2)%Z = true) by (apply Z.ltb_lt; specialize (T1 s eq_refl); lia); rewrite Hlt; rewrite orb_true_r; reflexivity|
       assert (Hlt : (f_mtime s <? t + 2)%Z = true) by (apply Z.ltb_lt; specialize (T1 s eq_refl); lia); rewrite Hlt; rewrite orb_true_r; reflexivity].
  - (* absent on both sides: the edit creates the file *)
    destruct (Hne eq_refl) as [N1 N2]. destruct e as [sz c| |]; try congruence. subst w2. cbn [w_src w_dst w_dbs w_dbd apply_edit]. rewrite upd_same.
    apply new_file_propagates; cbn [w_src w_dst w_dbs w_dbd]; try assumption. apply upd_same.
Qed.

(* ---------- paths hidden by an ignore rule ---------- *)
(* a path that is not hidden anywhere is classified exactly as without ignore rules *)
Lemma scanned_same st hs hd w p : hs p = false -> hd p = false -> action_of st (scanned hs hd w) p = action_of st w p.
Proof. intros Hs Hd. unfold action_of, scanned, visible. cbn. rewrite Hs, Hd. reflexivity. Qed.

Lemma sync_files_h_no_rules U st now w : sync_files_h U st now (fun _ => false) (fun _ => false) w = fold_left (sync_step st now w) U w.
Proof.
  unfold sync_files_h.
  assert (G : forall acc, fold_left (sync_step_h st now (fun _ => false) (fun _ => false) w) U acc = fold_left (sync_step st now w) U acc).
  { induction U as [|p U IH]; intro acc; cbn [fold_left]; [reflexivity|].
    rewrite IH. assert (E : sync_step_h st now (fun _ => false) (fun _ => false) w acc p = sync_step st now w acc p).
    { unfold sync_step_h, sync_step, hidden_somewhere. cbn [andb orb]. rewrite scanned_same by reflexivity. reflexivity. }
    rewrite E. reflexivity. }
  apply G.
Qed.

(* A file that an ignore rule hides on one side is left alone on BOTH sides by the whole run: it is neither deleted on the other
   side, nor overwritten, nor thrown away in a conflict -- whatever the strategy and whatever happens at the other paths
   (provided p is not one of their conflict names). *)
Theorem hidden_left_alone U st now hs hd w p :
  hidden_somewhere hs hd w p = true -> (forall q, In q U -> ~ is_cname q p) ->
  at_ (sync_files_h U st now hs hd w) p = at_ w p.
Proof.
  intros Hh Hc. unfold sync_files_h.
  assert (G : forall acc, at_ acc p = at_ w p -> at_ (fold_left (sync_step_h st now hs hd w) U acc) p = at_ w p).
  { induction U as [|q U IH]; intros acc Hacc; cbn [fold_left]; [exact Hacc|].
    apply IH; [intros q' Hq'; apply Hc; right; exact Hq'|].
    unfold sync_step_h. destruct (hidden_somewhere hs hd w q) eqn:Eq; [exact Hacc|].
    destruct (action_of st (scanned hs hd w) q) as [a|]; [|exact Hacc].
    rewrite exec_frame; [exact Hacc|].
    intros [E|[_ E]].
    - subst q. rewrite Hh in Eq. discriminate.
    - apply (Hc q (or_introl eq_refl)). exact E. }
  apply G. reflexivity.
Qed.
