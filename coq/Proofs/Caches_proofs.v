(* Proofs about Model/Caches.v *)
From Coq Require Import NArith ZArith List Bool Lia.
From SyModel Require Import Engine Caches.
From SyProofs Require Import Engine_proofs.
Import ListNotations.

(* ---- checksum database: a refinement of "compute the checksum" under the history assumption ---- *)
Section History.
  (* every (mtime, size, content) a path has ever had, the current one included *)
  Variable versions : path -> list (Z * N * N).

  (* source edits change a file's size or mtime: two versions with equal mtime and size have equal content *)
  Definition history_ok : Prop :=
    forall p mt sz c1 c2, In (mt, sz, c1) (versions p) -> In (mt, sz, c2) (versions p) -> c1 = c2.

  (* every row was stored from a version the path really had *)
  Definition db_truthful (d : cdb) : Prop :=
    forall r, In r d -> In (r_mtime r, r_size r, r_sum r) (versions (r_path r)).

  Definition current (e : sentry) : Prop := In (se_mtime e, se_size e, se_content e) (versions (se_path e)).

  Lemma lookup_truthful d p mt sz h : db_truthful d -> db_lookup d p mt sz = Some h -> In (mt, sz, h) (versions p).
  Proof.
    intros Ht H. unfold db_lookup in H. destruct (find (row_matches p mt sz) d) as [r|] eqn:E; [|discriminate].
    inversion H; subst. apply find_some in E. destruct E as [Hin Hm]. unfold row_matches in Hm.
    apply andb_prop in Hm. destruct Hm as [Hm Hs]. apply andb_prop in Hm. destruct Hm as [Hp Hmt].
    apply peqb_eq in Hp. apply Z.eqb_eq in Hmt. apply N.eqb_eq in Hs. subst. apply Ht. exact Hin.
  Qed.

  Theorem plan_sum_exact d e : history_ok -> db_truthful d -> current e -> plan_sum d e = se_content e.
  Proof.
    intros Hh Ht Hc. unfold plan_sum. destruct (db_lookup d (se_path e) (se_mtime e) (se_size e)) as [h|] eqn:E; [|reflexivity].
    apply (Hh (se_path e) (se_mtime e) (se_size e)); [apply (lookup_truthful d _ _ _ _ Ht E) | exact Hc].
  Qed.

  Lemma with_content_self e : with_content e (se_content e) = e.
  Proof. destruct e; reflexivity. Qed.

  Theorem plan_db_same c ds dst d e : history_ok -> db_truthful d -> current e ->
    plan_entry_db c ds dst d e = plan_entry c ds dst e.
  Proof.
    intros Hh Ht Hc. unfold plan_entry_db. rewrite (plan_sum_exact d e Hh Ht Hc), with_content_self. reflexivity.
  Qed.

  Theorem plan_all_db_same c ds dst d src : history_ok -> db_truthful d -> (forall e, In e src -> current e) ->
    map (plan_entry_db c ds dst d) src = map (plan_entry c ds dst) src.
  Proof. intros Hh Ht Hc. apply map_ext_in. intros e He. apply plan_db_same; auto. Qed.

  (* what a run stores keeps the database truthful *)
  Lemma db_store_truthful d e : db_truthful d -> current e -> db_truthful (db_store d e).
  Proof.
    intros Ht Hc r [<-|Hr]; [exact Hc|]. apply filter_In in Hr. apply Ht. apply Hr.
  Qed.

  Theorem db_store_all_truthful src : forall d, db_truthful d -> (forall e, In e src -> current e) -> db_truthful (db_store_all d src).
  Proof.
    induction src as [|e src IH]; intros d Ht Hc; [exact Ht|]. unfold db_store_all. cbn [fold_left].
    apply IH; [|intros x Hx; apply Hc; right; exact Hx].
    destruct (se_is_dir e); [exact Ht | apply db_store_truthful; [exact Ht | apply Hc; left; reflexivity]].
  Qed.
End History.

(* a later history only adds versions: truthfulness persists *)
Lemma db_truthful_mono (v1 v2 : path -> list (Z * N * N)) d : (forall p x, In x (v1 p) -> In x (v2 p)) -> db_truthful v1 d -> db_truthful v2 d.
Proof. intros Hm Ht r Hr. apply Hm. apply Ht. exact Hr. Qed.

Lemma db_empty_truthful v : db_truthful v [].
Proof. intros r []. Qed.

(* ---- directory cache: a cache written by runs never holds the root, so it is never substituted for a scan ---- *)
Definition no_root (c : dircache) : Prop := dc_dir_mtime c [] = None.
Definition listing_nonroot (l : list sentry) : Prop := forall e, In e l -> se_path e <> [].

Lemma find_root_none_cons (acc : list (path * Z)) p m :
  p <> [] -> find (fun x => peqb (fst x) []) acc = None ->
  find (fun x => peqb (fst x) []) ((p, m) :: filter (fun x => negb (peqb (fst x) p)) acc) = None.
Proof.
  intros Hp Hn. cbn [find fst]. destruct (peqb p []) eqn:E; [apply peqb_eq in E; contradiction|].
  induction acc as [|x acc IH]; [reflexivity|]. cbn [find] in Hn. destruct (peqb (fst x) []) eqn:Ex; [discriminate|].
  cbn [filter]. destruct (negb (peqb (fst x) p)); [cbn [find]; rewrite Ex|]; apply IH; exact Hn.
Qed.

Theorem dc_update_no_root c l : no_root c -> listing_nonroot l -> no_root (dc_update c l).
Proof.
  unfold no_root, dc_dir_mtime, dc_update. cbn [dc_dirs]. generalize (dc_dirs c) as acc. induction l as [|e l IH]; intros acc Hn Hl.
  - cbn [fold_left]. exact Hn.
  - cbn [fold_left]. apply IH; [|intros x Hx; apply Hl; right; exact Hx].
    destruct (se_is_dir e); cbv beta iota; [|exact Hn].
    destruct (find (fun x => peqb (fst x) []) acc) eqn:E; [discriminate|].
    assert (F := find_root_none_cons acc (se_path e) (se_mtime e) (Hl e (or_introl eq_refl)) E).
    match goal with |- match ?o with Some _ => _ | None => _ end = None => assert (G : o = None) by exact F; rewrite G; reflexivity end.
Qed.

Theorem dc_never_hits : forall ls c root_mtime, no_root c -> Forall listing_nonroot ls ->
  dc_hit (fold_left dc_update ls c) root_mtime = false.
Proof.
  induction ls as [|l ls IH]; intros c m Hn Hl; cbn [fold_left].
  - unfold dc_hit. unfold no_root in Hn. rewrite Hn. reflexivity.
  - inversion Hl; subst. apply IH; [apply dc_update_no_root; assumption | assumption].
Qed.

Theorem scan_with_cache_is_scan ls root_mtime cached real : Forall listing_nonroot ls ->
  scan_with_cache (fold_left dc_update ls dc_empty) root_mtime cached real = real.
Proof. intro H. unfold scan_with_cache. rewrite dc_never_hits; [reflexivity | reflexivity | exact H]. Qed.

(* ---- resume ---- *)
Theorem plan_resume_nil src : plan_resume [] src = src.
Proof.
  unfold plan_resume. induction src as [|e src IH]; [reflexivity|]. cbn [filter]. unfold still_completed at 1. cbn [existsb].
  rewrite andb_false_r. cbn [orb negb]. f_equal. exact IH.
Qed.

(* a FILE that the resume state keeps out of the plan is one whose recorded version is the source's current version *)
Theorem plan_resume_skips_only_unchanged comp src e :
  In e src -> se_is_dir e = false -> ~ In e (plan_resume comp src) ->
  exists r, In r comp /\ cp_path r = se_path e /\ cp_size r = se_size e /\ cp_sum r = se_content e.
Proof.
  intros He Hd Hn. unfold plan_resume in Hn.
  destruct (still_completed comp e) eqn:E.
  - unfold still_completed in E. rewrite Hd in E. cbn [andb orb] in E. apply existsb_exists in E. destruct E as (r & Hr & Er).
    apply andb_prop in Er. destruct Er as [Er E3]. apply andb_prop in Er. destruct Er as [E1 E2].
    exists r. split; [exact Hr|]. apply peqb_eq in E1. apply N.eqb_eq in E2, E3. auto.
  - exfalso. apply Hn. apply filter_In. split; [exact He | rewrite E; reflexivity].
Qed.

(* an edited file (another size or another content) is planned again, whatever the state file says *)
Theorem plan_resume_replans_edited comp src e :
  In e src -> se_is_dir e = false ->
  (forall r, In r comp -> cp_path r = se_path e -> cp_size r <> se_size e \/ cp_sum r <> se_content e) ->
  In e (plan_resume comp src).
Proof.
  intros He Hd Hall. unfold plan_resume. apply filter_In. split; [exact He|]. apply negb_true_iff.
  destruct (still_completed comp e) eqn:E; [|reflexivity]. exfalso.
  unfold still_completed in E. rewrite Hd in E. cbn [andb orb] in E. apply existsb_exists in E. destruct E as (r & Hr & Er).
  apply andb_prop in Er. destruct Er as [Er E3]. apply andb_prop in Er. destruct Er as [E1 E2].
  apply peqb_eq in E1. apply N.eqb_eq in E2, E3. destruct (Hall r Hr E1) as [X|X]; contradiction.
Qed.

(* ---- resume and the destination ---- *)
(* every entry that plan_resume keeps is kept by plan_resume_d as well: looking at the destination only ever plans MORE *)
Theorem plan_resume_d_plans_more comp dst src e : In e (plan_resume comp src) -> In e (plan_resume_d comp dst src).
Proof.
  unfold plan_resume, plan_resume_d. rewrite !filter_In. intros [He Hn]. split; [exact He|].
  apply negb_true_iff in Hn. rewrite Hn. reflexivity.
Qed.

(* An entry that the resume state keeps out of the plan is one the planner itself would have skipped: leaving it out changes no
   file of the destination.  (Default comparison, i.e. without --checksum / --ignore-times; with --size-only as well.) *)
Theorem plan_resume_d_harmless c ds comp dst src e :
  c_checksum c = false -> c_ignore_times c = false ->
  In e src -> ~ In e (plan_resume_d comp dst src) ->
  t_action (plan_entry c ds dst e) = ASkip.
Proof.
  intros Hck Hit He Hn. unfold plan_resume_d in Hn.
  destruct (still_completed comp e && dest_holds dst e) eqn:E.
  2:{ exfalso. apply Hn. apply filter_In. split; [exact He | rewrite E; reflexivity]. }
  apply andb_prop in E. destruct E as [_ Hh]. unfold dest_holds in Hh. unfold plan_entry. cbn [t_action].
  destruct (dst (se_path e)) as [[dc dsz dmt|]|] eqn:Ed; [| |discriminate].
  - apply andb_prop in Hh. destruct Hh as [Hh Hm]. apply andb_prop in Hh. destruct Hh as [Hd Hs].
    apply negb_true_iff in Hd. rewrite Hd. rewrite Hck. unfold needs_update. rewrite Hck, Hit.
    apply N.eqb_eq in Hs. subst dsz. rewrite N.eqb_refl. cbn [negb orb]. rewrite Hm. cbn [negb].
    destruct (c_size_only c); reflexivity.
  - rewrite Hh. reflexivity.
Qed.

(* a listed path whose destination entry is missing, or is a file of another size or time stamp, is planned *)
Theorem plan_resume_d_replans_when_destination_differs comp dst src e :
  In e src -> dest_holds dst e = false -> In e (plan_resume_d comp dst src).
Proof. intros He Hh. unfold plan_resume_d. apply filter_In. split; [exact He|]. rewrite Hh, andb_false_r. reflexivity. Qed.

(* ---- resume: the whole run ---- *)
(* what the resume state keeps out of the plan *)
Definition resumed_out (comp : list completed) (dst : fs) (e : sentry) : bool := still_completed comp e && dest_holds dst e.

Lemma plan_resume_d_filter comp dst src : plan_resume_d comp dst src = filter (fun e => negb (resumed_out comp dst e)) src.
Proof. reflexivity. Qed.

Lemma resumed_out_is_skip c ds comp dst e :
  c_checksum c = false -> c_ignore_times c = false -> resumed_out comp dst e = true -> t_action (plan_entry c ds dst e) = ASkip.
Proof.
  intros Hck Hit H. apply (plan_resume_d_harmless c ds comp dst [e] e Hck Hit (or_introl eq_refl)).
  unfold plan_resume_d. cbn [filter]. fold (resumed_out comp dst e). rewrite H. cbn [negb]. intros [].
Qed.

(* dropping tasks that are Skip tasks changes neither the final file system, nor the errors, nor a refusal *)
Lemma exec_all_drop_skips c now (drop : task -> bool) :
  (forall t, drop t = true -> t_action t = ASkip) ->
  forall ts m errs evs evs',
    r_fs (exec_all c now m (filter (fun t => negb (drop t)) ts) errs evs') = r_fs (exec_all c now m ts errs evs) /\
    r_errors (exec_all c now m (filter (fun t => negb (drop t)) ts) errs evs') = r_errors (exec_all c now m ts errs evs) /\
    r_refused (exec_all c now m (filter (fun t => negb (drop t)) ts) errs evs') = r_refused (exec_all c now m ts errs evs).
Proof.
  intros Hdrop. induction ts as [|t ts IH]; intros m errs evs evs'; cbn [filter exec_all].
  - cbn. repeat split.
  - destruct (drop t) eqn:Ed; cbn [negb].
    + (* a Skip task: the file system stays, only an event is added *)
      assert (Ex : exec_task c now m t = inl m).
      { unfold exec_task. rewrite (Hdrop t Ed). destruct (c_dry_run c); reflexivity. }
      rewrite Ex. apply IH.
    + cbn [exec_all]. destruct (exec_task c now m t) as [m'|x]; apply IH.
Qed.

Lemma existsb_path_app_partition (f : sentry -> bool) (p : path) (keep src : list sentry) :
  existsb (fun e => peqb (se_path e) p) (keep ++ src) =
  existsb (fun e => peqb (se_path e) p) ((keep ++ filter f src) ++ filter (fun e => negb (f e)) src).
Proof.
  rewrite !existsb_app. rewrite <- orb_assoc. f_equal.
  induction src as [|e src IH]; [reflexivity|]. cbn [existsb filter].
  destruct (f e); cbn [negb existsb]; rewrite IH;
    destruct (peqb (se_path e) p), (existsb (fun e0 => peqb (se_path e0) p) (filter f src)),
             (existsb (fun e0 => peqb (se_path e0) p) (filter (fun e0 => negb (f e0)) src)); reflexivity.
Qed.

Lemma filter_all_true {A} (f : A -> bool) l : (forall x, In x l -> f x = true) -> filter f l = l.
Proof. induction l as [|a l IH]; intro H; [reflexivity|]. cbn [filter]. rewrite (H a (or_introl eq_refl)). f_equal. apply IH. intros x Hx. apply H. right; exact Hx. Qed.

Lemma map_plan_filter c ds dst comp src :
  map (plan_entry c ds dst) (filter (fun e => negb (resumed_out comp dst e)) src)
  = filter (fun t => negb (match t_src t with Some e => resumed_out comp dst e | None => false end)) (map (plan_entry c ds dst) src).
Proof.
  induction src as [|e src IH]; [reflexivity|]. cbn [filter map]. cbn [plan_entry t_src].
  destruct (resumed_out comp dst e); cbn [negb map]; [exact IH | f_equal; exact IH].
Qed.

(* THE TWIN STATEMENT for --resume: with any state file [comp], the run that leaves the completed entries out of the plan (they
   still count for the deletion plan, as the code passes the whole scan to plan_deletions) ends with the same destination, the
   same errors and the same refusal as the run without resume.  Default comparison flags. *)
Theorem resume_run_same_outcome refuse ds c now U keep src dst comp :
  c_checksum c = false -> c_ignore_times c = false ->
  let out := filter (resumed_out comp dst) src in
  let r1 := run refuse ds c now U keep src dst in
  let r2 := run refuse ds c now U (keep ++ out) (plan_resume_d comp dst src) dst in
  r_fs r2 = r_fs r1 /\ r_errors r2 = r_errors r1 /\ r_refused r2 = r_refused r1.
Proof.
  intros Hck Hit out r1 r2. subst out r1 r2. unfold run. rewrite plan_resume_d_filter.
  set (L := filter (fun p => match dst p with Some _ => true | None => false end) U).
  (* the deletion plans coincide *)
  assert (Hd : plan_deletions ((keep ++ filter (resumed_out comp dst) src) ++ filter (fun e => negb (resumed_out comp dst e)) src) L
               = plan_deletions (keep ++ src) L).
  { unfold plan_deletions. f_equal. apply filter_ext. intro p. rewrite <- existsb_path_app_partition. reflexivity. }
  rewrite Hd.
  set (dels := if c_delete c then plan_deletions (keep ++ src) L else []).
  destruct (c_delete c && negb (c_force_delete c) && negb match dels with [] => true | _ :: _ => false end
            && refuse (Z.of_nat (length dels)) (Z.of_nat (length L)) (c_threshold c)); [repeat split|].
  (* the tasks of the resumed run are those of the plain run minus Skip tasks *)
  set (drop := fun t : task => match t_src t with Some e => resumed_out comp dst e | None => false end).
  assert (Hdrop : forall t, In t (map (plan_entry c ds dst) src ++ dels) -> drop t = true -> t_action t = ASkip).
  { intros t Hin Ht. apply in_app_or in Hin. destruct Hin as [Hin|Hin].
    - apply in_map_iff in Hin. destruct Hin as (e & <- & _). unfold drop in Ht. cbn [plan_entry t_src] in Ht.
      apply (resumed_out_is_skip c ds comp dst e Hck Hit Ht).
    - exfalso. subst dels. destruct (c_delete c); [|destruct Hin]. unfold plan_deletions in Hin. apply in_map_iff in Hin.
      destruct Hin as (p & <- & _). unfold drop in Ht. cbn in Ht. discriminate. }
  assert (Hf : map (plan_entry c ds dst) (filter (fun e => negb (resumed_out comp dst e)) src) ++ dels
               = filter (fun t => negb (drop t)) (map (plan_entry c ds dst) src ++ dels)).
  { rewrite filter_app. f_equal.
    - apply map_plan_filter.
    - symmetry. apply filter_all_true. intros t Hin. subst dels.
      destruct (c_delete c); [|destruct Hin]. unfold plan_deletions in Hin. apply in_map_iff in Hin. destruct Hin as (p & <- & _). reflexivity. }
  rewrite Hf.
  (* exec_all_drop_skips needs the Skip fact for every task; it only ever applies it to tasks of the list: strengthen drop *)
  set (drop' := fun t : task => drop t && match t_action t with ASkip => true | _ => false end).
  assert (Hsame : filter (fun t => negb (drop t)) (map (plan_entry c ds dst) src ++ dels)
                  = filter (fun t => negb (drop' t)) (map (plan_entry c ds dst) src ++ dels)).
  { apply filter_ext_in. intros t Hin. unfold drop'. destruct (drop t) eqn:Et; [|reflexivity]. rewrite (Hdrop t Hin Et). reflexivity. }
  rewrite Hsame.
  apply (exec_all_drop_skips c now drop').
  intros t Ht. unfold drop' in Ht. apply andb_prop in Ht. destruct Ht as [_ Ht]. destruct (t_action t); try discriminate. reflexivity.
Qed.
