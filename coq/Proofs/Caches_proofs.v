(* Proofs about Model/Caches.v *)
From Coq Require Import NArith ZArith List Bool Lia.
From SyModel Require Import Engine Caches.
From SyProofs Require Import Engine_proofs.
Import ListNotations.

(* ---- checksum database: a refinement of "compute the checksum" under the history assumption ---- *)
Section History.
  (* every (mtime, size, content) a path has ever had, the current one included *)
  Variable versions : path -> list (Z * N * N).

  (* source edits change a file's size or mtime: two versions with equal mtime and size have equal content *)
  Definition history_ok : Prop :=
    forall p mt sz c1 c2, In (mt, sz, c1) (versions p) -> In (mt, sz, c2) (versions p) -> c1 = c2.

  (* every row was stored from a version the path really had *)
  Definition db_truthful (d : cdb) : Prop :=
    forall r, In r d -> In (r_mtime r, r_size r, r_sum r) (versions (r_path r)).

  Definition current (e : sentry) : Prop := In (se_mtime e, se_size e, se_content e) (versions (se_path e)).

  Lemma lookup_truthful d p mt sz h : db_truthful d -> db_lookup d p mt sz = Some h -> In (mt, sz, h) (versions p).
  Proof.
    intros Ht H. unfold db_lookup in H. destruct (find (row_matches p mt sz) d) as [r|] eqn:E; [|discriminate].
    inversion H; subst. apply find_some in E. destruct E as [Hin Hm]. unfold row_matches in Hm.
    apply andb_prop in Hm. destruct Hm as [Hm Hs]. apply andb_prop in Hm. destruct Hm as [Hp Hmt].
    apply peqb_eq in Hp. apply Z.eqb_eq in Hmt. apply N.eqb_eq in Hs. subst. apply Ht. exact Hin.
  Qed.

  Theorem plan_sum_exact d e : history_ok -> db_truthful d -> current e -> plan_sum d e = se_content e.
  Proof.
    intros Hh Ht Hc. unfold plan_sum. destruct (db_lookup d (se_path e) (se_mtime e) (se_size e)) as [h|] eqn:E; [|reflexivity].
    apply (Hh (se_path e) (se_mtime e) (se_size e)); [apply (lookup_truthful d _ _ _ _ Ht E) | exact Hc].
  Qed.

  Lemma with_content_self e : with_content e (se_content e) = e.
  Proof. destruct e; reflexivity. Qed.

  Theorem plan_db_same c ds dst d e : history_ok -> db_truthful d -> current e ->
    plan_entry_db c ds dst d e = plan_entry c ds dst e.
  Proof.
    intros Hh Ht Hc. unfold plan_entry_db. rewrite (plan_sum_exact d e Hh Ht Hc), with_content_self. reflexivity.
  Qed.

  Theorem plan_all_db_same c ds dst d src : history_ok -> db_truthful d -> (forall e, In e src -> current e) ->
    map (plan_entry_db c ds dst d) src = map (plan_entry c ds dst) src.
  Proof. intros Hh Ht Hc. apply map_ext_in. intros e He. apply plan_db_same; auto. Qed.

  (* what a run stores keeps the database truthful *)
  Lemma db_store_truthful d e : db_truthful d -> current e -> db_truthful (db_store d e).
  Proof.
    intros Ht Hc r [<-|Hr]; [exact Hc|]. apply filter_In in Hr. apply Ht. apply Hr.
  Qed.

  Theorem db_store_all_truthful src : forall d, db_truthful d -> (forall e, In e src -> current e) -> db_truthful (db_store_all d src).
  Proof.
    induction src as [|e src IH]; intros d Ht Hc; [exact Ht|]. unfold db_store_all. cbn [fold_left].
    apply IH; [|intros x Hx; apply Hc; right; exact Hx].
    destruct (se_is_dir e); [exact Ht | apply db_store_truthful; [exact Ht | apply Hc; left; reflexivity]].
  Qed.
End History.

(* a later history only adds versions: truthfulness persists *)
Lemma db_truthful_mono (v1 v2 : path -> list (Z * N * N)) d : (forall p x, In x (v1 p) -> In x (v2 p)) -> db_truthful v1 d -> db_truthful v2 d.
Proof. intros Hm Ht r Hr. apply Hm. apply Ht. exact Hr. Qed.

Lemma db_empty_truthful v : db_truthful v [].
Proof. intros r []. Qed.

(* ---- directory cache: a cache written by runs never holds the root, so it is never substituted for a scan ---- *)
Definition no_root (c : dircache) : Prop := dc_dir_mtime c [] = None.
Definition listing_nonroot (l : list sentry) : Prop := forall e, In e l -> se_path e <> [].

Lemma find_root_none_cons (acc : list (path * Z)) p m :
  p <> [] -> find (fun x => peqb (fst x) []) acc = None ->
  find (fun x => peqb (fst x) []) ((p, m) :: filter (fun x => negb (peqb (fst x) p)) acc) = None.
Proof.
  intros Hp Hn. cbn [find fst]. destruct (peqb p []) eqn:E; [apply peqb_eq in E; contradiction|].
  induction acc as [|x acc IH]; [reflexivity|]. cbn [find] in Hn. destruct (peqb (fst x) []) eqn:Ex; [discriminate|].
  cbn [filter]. destruct (negb (peqb (fst x) p)); [cbn [find]; rewrite Ex|]; apply IH; exact Hn.
Qed.

Theorem dc_update_no_root c l : no_root c -> listing_nonroot l -> no_root (dc_update c l).
Proof.
  unfold no_root, dc_dir_mtime, dc_update. cbn [dc_dirs]. generalize (dc_dirs c) as acc. induction l as [|e l IH]; intros acc Hn Hl.
  - cbn [fold_left]. exact Hn.
  - cbn [fold_left]. apply IH; [|intros x Hx; apply Hl; right; exact Hx].
    destruct (se_is_dir e); cbv beta iota; [|exact Hn].
    destruct (find (fun x => peqb (fst x) []) acc) eqn:E; [discriminate|].
    assert (F := find_root_none_cons acc (se_path e) (se_mtime e) (Hl e (or_introl eq_refl)) E).
    match goal with |- match ?o with Some _ => _ | None => _ end = None => assert (G : o = None) by exact F; rewrite G; reflexivity end.
Qed.

Theorem dc_never_hits : forall ls c root_mtime, no_root c -> Forall listing_nonroot ls ->
  dc_hit (fold_left dc_update ls c) root_mtime = false.
Proof.
  induction ls as [|l ls IH]; intros c m Hn Hl; cbn [fold_left].
  - unfold dc_hit. unfold no_root in Hn. rewrite Hn. reflexivity.
  - inversion Hl; subst. apply IH; [apply dc_update_no_root; assumption | assumption].
Qed.

Theorem scan_with_cache_is_scan ls root_mtime cached real : Forall listing_nonroot ls ->
  scan_with_cache (fold_left dc_update ls dc_empty) root_mtime cached real = real.
Proof. intro H. unfold scan_with_cache. rewrite dc_never_hits; [reflexivity | reflexivity | exact H]. Qed.

(* ---- resume ---- *)
Theorem plan_resume_nil src : plan_resume [] src = src.
Proof.
  unfold plan_resume. induction src as [|e src IH]; [reflexivity|]. cbn [filter]. unfold still_completed at 1. cbn [existsb].
  rewrite andb_false_r. cbn [orb negb]. f_equal. exact IH.
Qed.

(* a FILE that the resume state keeps out of the plan is one whose recorded version is the source's current version *)
Theorem plan_resume_skips_only_unchanged comp src e :
  In e src -> se_is_dir e = false -> ~ In e (plan_resume comp src) ->
  exists r, In r comp /\ cp_path r = se_path e /\ cp_size r = se_size e /\ cp_sum r = se_content e.
Proof.
  intros He Hd Hn. unfold plan_resume in Hn.
  destruct (still_completed comp e) eqn:E.
  - unfold still_completed in E. rewrite Hd in E. cbn [andb orb] in E. apply existsb_exists in E. destruct E as (r & Hr & Er).
    apply andb_prop in Er. destruct Er as [Er E3]. apply andb_prop in Er. destruct Er as [E1 E2].
    exists r. split; [exact Hr|]. apply peqb_eq in E1. apply N.eqb_eq in E2, E3. auto.
  - exfalso. apply Hn. apply filter_In. split; [exact He | rewrite E; reflexivity].
Qed.

(* an edited file (another size or another content) is planned again, whatever the state file says *)
Theorem plan_resume_replans_edited comp src e :
  In e src -> se_is_dir e = false ->
  (forall r, In r comp -> cp_path r = se_path e -> cp_size r <> se_size e \/ cp_sum r <> se_content e) ->
  In e (plan_resume comp src).
Proof.
  intros He Hd Hall. unfold plan_resume. apply filter_In. split; [exact He|]. apply negb_true_iff.
  destruct (still_completed comp e) eqn:E; [|reflexivity]. exfalso.
  unfold still_completed in E. rewrite Hd in E. cbn [andb orb] in E. apply existsb_exists in E. destruct E as (r & Hr & Er).
  apply andb_prop in Er. destruct Er as [Er E3]. apply andb_prop in Er. destruct Er as [E1 E2].
  apply peqb_eq in E1. apply N.eqb_eq in E2, E3. destruct (Hall r Hr E1) as [X|X]; contradiction.
Qed.

(* ---- resume and the destination ---- *)
(* every entry that plan_resume keeps is kept by plan_resume_d as well: looking at the destination only ever plans MORE *)
Theorem plan_resume_d_plans_more comp dst src e : In e (plan_resume comp src) -> In e (plan_resume_d comp dst src).
Proof.
  unfold plan_resume, plan_resume_d. rewrite !filter_In. intros [He Hn]. split; [exact He|].
  apply negb_true_iff in Hn. rewrite Hn. reflexivity.
Qed.

(* An entry that the resume state keeps out of the plan is one the planner itself would have skipped: leaving it out changes no
   file of the destination.  (Default comparison, i.e. without --checksum / --ignore-times; with --size-only as well.) *)
Theorem plan_resume_d_harmless c ds comp dst src e :
  c_checksum c = false -> c_ignore_times c = false ->
  In e src -> ~ In e (plan_resume_d comp dst src) ->
  t_action (plan_entry c ds dst e) = ASkip.
Proof.
  intros Hck Hit He Hn. unfold plan_resume_d in Hn.
  destruct (still_completed comp e && dest_holds dst e) eqn:E.
  2:{ exfalso. apply Hn. apply filter_In. split; [exact He | rewrite E; reflexivity]. }
  apply andb_prop in E. destruct E as [_ Hh]. unfold dest_holds in Hh. unfold plan_entry. cbn [t_action].
  destruct (dst (se_path e)) as [[dc dsz dmt|]|] eqn:Ed; [| |discriminate].
  - apply andb_prop in Hh. destruct Hh as [Hh Hm]. apply andb_prop in Hh. destruct Hh as [Hd Hs].
    apply negb_true_iff in Hd. rewrite Hd. rewrite Hck. unfold needs_update. rewrite Hck, Hit.
    apply N.eqb_eq in Hs. subst dsz. rewrite N.eqb_refl. cbn [negb orb]. rewrite Hm. cbn [negb].
    destruct (c_size_only c); reflexivity.
  - rewrite Hh. reflexivity.
Qed.

(* a listed path whose destination entry is missing, or is a file of another size or time stamp, is planned *)
Theorem plan_resume_d_replans_when_destination_differs comp dst src e :
  In e src -> dest_holds dst e = false -> In e (plan_resume_d comp dst src).
Proof. intros He Hh. unfold plan_resume_d. apply filter_In. split; [exact He|]. rewrite Hh, andb_false_r. reflexivity. Qed.
