(* Proofs about Model/Crash.v *)
From Coq Require Import NArith ZArith List Bool Lia.
From SyModel Require Import Engine Crash.
Import ListNotations.

Lemma crun_cons e now st l s : crun e now (st :: l) s = crun e now l (cstep_apply e now s st).
Proof. reflexivity. Qed.

Section OneRun.
  Variables (c : cfg) (e : sentry) (now : Z).

  (* the working file holds (an image of) the source's content; complete with the right size when [b] *)
  Definition tinv (b : bool) (t : cnode) : Prop :=
    exists k sz mt, t = CFile (se_content e) k sz mt /\ (b = true -> k = true /\ sz = se_size e).

  (* the destination while it is written in place *)
  Definition iinv (b : bool) (d : cnode) : Prop :=
    exists k sz mt, d = CFile (se_content e) k sz mt /\ (b = true -> k = true /\ sz = se_size e) /\ (b = false -> k = false /\ (sz < se_size e)%N).

  Definition settled (s0 s' : cstate) : Prop :=
    cs_dest s' = cs_dest s0 \/ (holds_source e (cs_dest s') = true /\ cs_temp s' = CAbsent).

  Lemma holds_source_file mt : holds_source e (CFile (se_content e) true (se_size e) mt) = true.
  Proof. cbn. rewrite !N.eqb_refl. reflexivity. Qed.

  Lemma open_tinv : tinv (N.eqb (se_size e) 0) (CFile (se_content e) (N.eqb (se_size e) 0) 0 now).
  Proof. exists (N.eqb (se_size e) 0), 0%N, now. split; [reflexivity|]. intro H. split; [exact H | apply N.eqb_eq in H; congruence]. Qed.

  (* ---- programs through the working file ---- *)
  Lemma temp_tail_prefixes : forall l b s k, temp_tail b l = true -> tinv b (cs_temp s) ->
    settled s (crun e now (firstn k l) s).
  Proof.
    induction l as [|st tl IH]; intros b s k H Hi; [discriminate|].
    destruct k as [|k]; [left; reflexivity|]. cbn [firstn]. rewrite crun_cons.
    destruct Hi as (kk & sz & mt & Ht & Hb).
    destruct st as [t|t|t|t n|t|t| | |]; try destruct t; cbn [temp_tail] in H; try discriminate.
    - (* SSetLen true *)
      assert (E : cstep_apply e now s (SSetLen true) = mk_cstate (cs_dest s) (CFile (se_content e) (kk && N.eqb sz (se_size e)) (se_size e) now)).
      { unfold cstep_apply, target, set_target. rewrite Ht. reflexivity. }
      rewrite E. specialize (IH b (mk_cstate (cs_dest s) (CFile (se_content e) (kk && N.eqb sz (se_size e)) (se_size e) now)) k H).
      destruct IH as [IH|IH]; [| left; exact IH | right; exact IH].
      exists (kk && N.eqb sz (se_size e)), (se_size e), now. split; [reflexivity|]. intro Hbt. destruct (Hb Hbt) as [-> ->].
      rewrite N.eqb_refl. split; reflexivity.
    - (* SWrite true n *)
      assert (E : cstep_apply e now s (SWrite true n) = mk_cstate (cs_dest s) (CFile (se_content e) false (N.max sz n) now)).
      { unfold cstep_apply, target, set_target. rewrite Ht. reflexivity. }
      rewrite E. specialize (IH false (mk_cstate (cs_dest s) (CFile (se_content e) false (N.max sz n) now)) k H).
      destruct IH as [IH|IH]; [| left; exact IH | right; exact IH].
      exists false, (N.max sz n), now. split; [reflexivity | discriminate].
    - (* SWriteLast true *)
      assert (E : cstep_apply e now s (SWriteLast true) = mk_cstate (cs_dest s) (CFile (se_content e) true (se_size e) now)).
      { unfold cstep_apply, target, set_target. rewrite Ht. reflexivity. }
      rewrite E. specialize (IH true (mk_cstate (cs_dest s) (CFile (se_content e) true (se_size e) now)) k H).
      destruct IH as [IH|IH]; [| left; exact IH | right; exact IH].
      exists true, (se_size e), now. split; [reflexivity|]. intros _. split; reflexivity.
    - (* SMeta true *)
      change (cstep_apply e now s (SMeta true)) with s. apply (IH b s k H). exists kk, sz, mt. split; assumption.
    - (* SRename :: SUtime :: [] *)
      destruct tl as [|st2 tl2]; [discriminate|]. destruct st2; try discriminate. destruct tl2; [|discriminate].
      subst b. destruct (Hb eq_refl) as [-> ->].
      assert (E : cstep_apply e now s SRename = mk_cstate (CFile (se_content e) true (se_size e) mt) CAbsent).
      { unfold cstep_apply. rewrite Ht. reflexivity. }
      rewrite E. right. destruct k as [|k]; cbn [firstn]; [cbn; rewrite !N.eqb_refl; split; reflexivity|].
      rewrite crun_cons. replace (firstn k []) with (@nil cstep) by (destruct k; reflexivity). cbn. rewrite !N.eqb_refl. split; reflexivity.
    - (* SUtimeT :: SRename :: [] *)
      destruct tl as [|st2 tl2]; [discriminate|]. destruct st2; try discriminate. destruct tl2; [|discriminate].
      subst b. destruct (Hb eq_refl) as [-> ->].
      assert (E : cstep_apply e now s SUtimeT = mk_cstate (cs_dest s) (CFile (se_content e) true (se_size e) (se_mtime e))).
      { unfold cstep_apply. rewrite Ht. reflexivity. }
      rewrite E. destruct k as [|k]; cbn [firstn]; [left; reflexivity|].
      rewrite crun_cons. replace (firstn k []) with (@nil cstep) by (destruct k; reflexivity).
      right. cbn. rewrite !N.eqb_refl. split; reflexivity.
  Qed.

  Lemma temp_tail_full : forall l b s, temp_tail b l = true -> tinv b (cs_temp s) -> crun e now l s = final_state e.
  Proof.
    induction l as [|st tl IH]; intros b s H Hi; [discriminate|]. rewrite crun_cons.
    destruct Hi as (kk & sz & mt & Ht & Hb).
    destruct st as [t|t|t|t n|t|t| | |]; try destruct t; cbn [temp_tail] in H; try discriminate.
    - apply (IH b); [exact H|]. unfold cstep_apply, target, set_target. rewrite Ht. cbn [cs_temp].
      exists (kk && N.eqb sz (se_size e)), (se_size e), now. split; [reflexivity|]. intro Hbt. destruct (Hb Hbt) as [-> ->].
      rewrite N.eqb_refl. split; reflexivity.
    - apply (IH false); [exact H|]. unfold cstep_apply, target, set_target. rewrite Ht. cbn [cs_temp].
      exists false, (N.max sz n), now. split; [reflexivity | discriminate].
    - apply (IH true); [exact H|]. unfold cstep_apply, target, set_target. rewrite Ht. cbn [cs_temp].
      exists true, (se_size e), now. split; [reflexivity|]. intros _. split; reflexivity.
    - apply (IH b); [exact H|]. exists kk, sz, mt. split; assumption.
    - destruct tl as [|st2 tl2]; [discriminate|]. destruct st2; try discriminate. destruct tl2; [|discriminate].
      subst b. destruct (Hb eq_refl) as [-> ->].
      assert (E : cstep_apply e now s SRename = mk_cstate (CFile (se_content e) true (se_size e) mt) CAbsent).
      { unfold cstep_apply. rewrite Ht. reflexivity. }
      rewrite E. reflexivity.
    - destruct tl as [|st2 tl2]; [discriminate|]. destruct st2; try discriminate. destruct tl2; [|discriminate].
      subst b. destruct (Hb eq_refl) as [-> ->].
      unfold crun. cbn [fold_left]. unfold cstep_apply at 2. rewrite Ht. cbn. reflexivity.
  Qed.

  (* after the working file has been created afresh *)
  Definition after_open_temp (s : cstate) : cstate := mk_cstate (cs_dest s) (CFile (se_content e) (N.eqb (se_size e) 0) 0 now).

  Lemma temp_class_shape p : temp_class e p = true ->
    exists hd tl, p = hd ++ SOpen true :: tl /\ (hd = [] \/ hd = [SRemove true]) /\ temp_tail (N.eqb (se_size e) 0) tl = true.
  Proof.
    destruct p as [|st p]; [discriminate|]. destruct st as [t|t|t|t n|t|t| | |]; try destruct t; cbn [temp_class]; try discriminate.
    - intro H. exists [], p. split; [reflexivity|]. split; [left; reflexivity | exact H].
    - destruct p as [|st2 p]; [discriminate|]. destruct st2 as [t|t|t|t n|t|t| | |]; try destruct t; try discriminate.
      intro H. exists [SRemove true], p. split; [reflexivity|]. split; [right; reflexivity | exact H].
  Qed.

  Theorem temp_class_prefixes p s k : temp_class e p = true -> settled s (crash_state e now p k s).
  Proof.
    intro H. destruct (temp_class_shape p H) as (hd & tl & -> & Hhd & Ht). unfold crash_state.
    destruct Hhd as [->| ->]; cbn [app].
    - destruct k as [|k]; [left; reflexivity|]. cbn [firstn]. rewrite crun_cons.
      change (cstep_apply e now s (SOpen true)) with (after_open_temp s).
      destruct (temp_tail_prefixes tl _ (after_open_temp s) k Ht open_tinv) as [A|A]; [left; exact A | right; exact A].
    - destruct k as [|k]; [left; reflexivity|]. cbn [firstn]. rewrite crun_cons.
      destruct k as [|k]; [left; reflexivity|]. cbn [firstn]. rewrite crun_cons.
      set (s1 := cstep_apply e now s (SRemove true)).
      change (cstep_apply e now s1 (SOpen true)) with (after_open_temp s1).
      destruct (temp_tail_prefixes tl _ (after_open_temp s1) k Ht open_tinv) as [A|A]; [left; exact A | right; exact A].
  Qed.

  Theorem temp_class_full p s : temp_class e p = true -> crun e now p s = final_state e.
  Proof.
    intro H. destruct (temp_class_shape p H) as (hd & tl & -> & Hhd & Ht).
    destruct Hhd as [->| ->]; cbn [app]; rewrite ?crun_cons.
    - change (cstep_apply e now s (SOpen true)) with (after_open_temp s). apply (temp_tail_full tl _ _ Ht). apply open_tinv.
    - set (s1 := cstep_apply e now s (SRemove true)). change (cstep_apply e now s1 (SOpen true)) with (after_open_temp s1).
      apply (temp_tail_full tl _ _ Ht). apply open_tinv.
  Qed.

  (* ---- programs in place ---- *)
  Lemma open_iinv : iinv (N.eqb (se_size e) 0) (CFile (se_content e) (N.eqb (se_size e) 0) 0 now).
  Proof.
    exists (N.eqb (se_size e) 0), 0%N, now. split; [reflexivity|]. split; intro H.
    - split; [exact H | apply N.eqb_eq in H; congruence].
    - split; [exact H | apply N.eqb_neq in H; lia].
  Qed.

  Lemma inplace_tail_prefixes : forall l b s k, inplace_tail e b l = true -> iinv b (cs_dest s) ->
    cs_temp (crun e now (firstn k l) s) = cs_temp s /\ exists b', iinv b' (cs_dest (crun e now (firstn k l) s)).
  Proof.
    induction l as [|st tl IH]; intros b s k H Hi; [discriminate|].
    destruct k as [|k]; [split; [reflexivity | exists b; exact Hi]|]. cbn [firstn]. rewrite crun_cons.
    destruct Hi as (kk & sz & mt & Hd & Hb1 & Hb0).
    destruct st as [t|t|t|t n|t|t| | |]; try destruct t; cbn [inplace_tail] in H; try discriminate.
    - (* SWrite false n *)
      apply andb_prop in H. destruct H as [H Htl]. apply andb_prop in H. destruct H as [Hs Hn].
      apply negb_true_iff in Hs. subst b. apply N.ltb_lt in Hn. destruct (Hb0 eq_refl) as [-> Hsz].
      assert (E : cstep_apply e now s (SWrite false n) = mk_cstate (CFile (se_content e) false (N.max sz n) now) (cs_temp s)).
      { unfold cstep_apply, target, set_target. rewrite Hd. reflexivity. }
      rewrite E. destruct (IH false (mk_cstate (CFile (se_content e) false (N.max sz n) now) (cs_temp s)) k Htl) as [A B]; [|split; [exact A | exact B]].
      exists false, (N.max sz n), now. split; [reflexivity|]. split; [discriminate|]. intros _. split; [reflexivity | lia].
    - (* SWriteLast false *)
      assert (E : cstep_apply e now s (SWriteLast false) = mk_cstate (CFile (se_content e) true (se_size e) now) (cs_temp s)).
      { unfold cstep_apply, target, set_target. rewrite Hd. reflexivity. }
      rewrite E. destruct (IH true (mk_cstate (CFile (se_content e) true (se_size e) now) (cs_temp s)) k H) as [A B]; [|split; [exact A | exact B]].
      exists true, (se_size e), now. split; [reflexivity|]. split; [intros _; split; reflexivity | discriminate].
    - (* SMeta false *)
      change (cstep_apply e now s (SMeta false)) with s. apply (IH b s k H). exists kk, sz, mt. split; [exact Hd | split; [exact Hb1 | exact Hb0]].
    - (* SUtime :: [] *)
      destruct tl; [|discriminate]. subst b. destruct (Hb1 eq_refl) as [-> ->].
      replace (firstn k []) with (@nil cstep) by (destruct k; reflexivity). unfold cstep_apply. rewrite Hd. cbn.
      split; [reflexivity|]. exists true, true, (se_size e), (se_mtime e). split; [reflexivity|]. split; [intros _; split; reflexivity | discriminate].
  Qed.

  Lemma inplace_tail_full : forall l b s, inplace_tail e b l = true -> iinv b (cs_dest s) ->
    crun e now l s = mk_cstate (CFile (se_content e) true (se_size e) (se_mtime e)) (cs_temp s).
  Proof.
    induction l as [|st tl IH]; intros b s H Hi; [discriminate|]. rewrite crun_cons.
    destruct Hi as (kk & sz & mt & Hd & Hb1 & Hb0).
    destruct st as [t|t|t|t n|t|t| | |]; try destruct t; cbn [inplace_tail] in H; try discriminate.
    - apply andb_prop in H. destruct H as [H Htl]. apply andb_prop in H. destruct H as [Hs Hn].
      apply negb_true_iff in Hs. subst b. apply N.ltb_lt in Hn. destruct (Hb0 eq_refl) as [-> Hsz].
      assert (E : cstep_apply e now s (SWrite false n) = mk_cstate (CFile (se_content e) false (N.max sz n) now) (cs_temp s)).
      { unfold cstep_apply, target, set_target. rewrite Hd. reflexivity. }
      rewrite E. rewrite (IH false _ Htl); [reflexivity|]. exists false, (N.max sz n), now. split; [reflexivity|]. split; [discriminate|]. intros _. split; [reflexivity | lia].
    - assert (E : cstep_apply e now s (SWriteLast false) = mk_cstate (CFile (se_content e) true (se_size e) now) (cs_temp s)).
      { unfold cstep_apply, target, set_target. rewrite Hd. reflexivity. }
      rewrite E. rewrite (IH true _ H); [reflexivity|]. exists true, (se_size e), now. split; [reflexivity|]. split; [intros _; split; reflexivity | discriminate].
    - change (cstep_apply e now s (SMeta false)) with s. apply (IH b s H). exists kk, sz, mt. split; [exact Hd | split; [exact Hb1 | exact Hb0]].
    - destruct tl; [|discriminate]. subst b. destruct (Hb1 eq_refl) as [-> ->]. unfold cstep_apply. rewrite Hd. reflexivity.
  Qed.

  Definition after_open_dest (s : cstate) : cstate := mk_cstate (CFile (se_content e) (N.eqb (se_size e) 0) 0 now) (cs_temp s).

  Theorem inplace_class_prefixes p s k : inplace_class e p = true ->
    cs_temp (crash_state e now p k s) = cs_temp s /\
    (k = 0 \/ exists b, iinv b (cs_dest (crash_state e now p k s))).
  Proof.
    destruct p as [|st p]; [discriminate|]. destruct st as [t|t|t|t n|t|t| | |]; try destruct t; cbn [inplace_class]; try discriminate.
    intro H. unfold crash_state. destruct k as [|k]; [split; [reflexivity | left; reflexivity]|]. cbn [firstn]. rewrite crun_cons.
    change (cstep_apply e now s (SOpen false)) with (after_open_dest s).
    destruct (inplace_tail_prefixes p _ (after_open_dest s) k H open_iinv) as [A B]. split; [exact A | right; exact B].
  Qed.

  Theorem inplace_class_full p s : inplace_class e p = true ->
    crun e now p s = mk_cstate (CFile (se_content e) true (se_size e) (se_mtime e)) (cs_temp s).
  Proof.
    destruct p as [|st p]; [discriminate|]. destruct st as [t|t|t|t n|t|t| | |]; try destruct t; cbn [inplace_class]; try discriminate.
    intro H. rewrite crun_cons. change (cstep_apply e now s (SOpen false)) with (after_open_dest s).
    apply (inplace_tail_full p _ (after_open_dest s) H). apply open_iinv.
  Qed.

  (* a destination that is being written in place is never taken for up to date unless its data is complete *)
  Lemma iinv_replans b d : iinv b d -> replans c e d = false -> holds_source e d = true.
  Proof.
    intros (kk & sz & mt & -> & Hb1 & Hb0) Hr. destruct b.
    - destruct (Hb1 eq_refl) as [-> ->]. apply holds_source_file.
    - destruct (Hb0 eq_refl) as [-> Hsz]. exfalso. unfold replans in Hr. destruct (c_checksum c) eqn:Ck.
      + rewrite andb_false_r in Hr. discriminate.
      + unfold needs_update in Hr. rewrite Ck in Hr. destruct (c_ignore_times c); [discriminate|].
        assert (Hne : N.eqb (se_size e) sz = false) by (apply N.eqb_neq; lia). rewrite Hne in Hr. cbn in Hr.
        destruct (c_size_only c); discriminate.
  Qed.
End OneRun.

(* ---- the statements used by Properties/C09.v ---- *)

(* an existing destination at or above the gate holds exactly its old or exactly its new content at every boundary *)
Theorem big_update_old_or_new c e now p s k :
  uses_temp c (cs_dest s) = true -> program_ok c e (cs_dest s) p = true ->
  cs_dest (crash_state e now p k s) = cs_dest s \/ holds_source e (cs_dest (crash_state e now p k s)) = true.
Proof.
  intros Hu Hp. unfold program_ok in Hp. rewrite Hu in Hp.
  destruct (temp_class_prefixes e now p s k Hp) as [A|[A _]]; [left; exact A | right; exact A].
Qed.

(* no interrupted state is accepted as up to date by the planner of a later run, under any comparison mode *)
Theorem never_accepted_torn c e now p s k :
  program_ok c e (cs_dest s) p = true -> replans c e (cs_dest s) = true ->
  replans c e (cs_dest (crash_state e now p k s)) = false -> holds_source e (cs_dest (crash_state e now p k s)) = true.
Proof.
  intros Hp Hold Hr. unfold program_ok in Hp. destruct (uses_temp c (cs_dest s)).
  - destruct (temp_class_prefixes e now p s k Hp) as [A|[A _]]; [rewrite A in Hr; congruence | exact A].
  - destruct (inplace_class_prefixes e now p s k Hp) as [_ [->|[b Hb]]].
    + unfold crash_state in Hr. cbn in Hr. congruence.
    + apply (iinv_replans c e b _ Hb Hr).
Qed.

(* one later uninterrupted run of the same command: the destination holds the source's bytes and no working file is left *)
Theorem recovery_converges c e now now' p p' s k :
  cs_temp s = CAbsent -> program_ok c e (cs_dest s) p = true -> replans c e (cs_dest s) = true ->
  program_ok c e (cs_dest (crash_state e now p k s)) p' = true ->
  holds_source e (cs_dest (rerun c e now' p' (crash_state e now p k s))) = true /\
  cs_temp (rerun c e now' p' (crash_state e now p k s)) = CAbsent.
Proof.
  intros Ht Hp Hold Hp'. set (s' := crash_state e now p k s) in *.
  (* the working file exists only while the destination is still the old one *)
  assert (Htmp : cs_temp s' = CAbsent \/ (cs_dest s' = cs_dest s /\ uses_temp c (cs_dest s) = true)).
  { unfold program_ok in Hp. destruct (uses_temp c (cs_dest s)) eqn:Hu.
    - destruct (temp_class_prefixes e now p s k Hp) as [A|[_ A]]; [right; split; [exact A | reflexivity] | left; exact A].
    - left. destruct (inplace_class_prefixes e now p s k Hp) as [A _]. fold s' in A. congruence. }
  unfold rerun. destruct (replans c e (cs_dest s')) eqn:Hr.
  - unfold program_ok in Hp'. destruct (uses_temp c (cs_dest s')) eqn:Hu'.
    + rewrite (temp_class_full e now' p' s' Hp'). cbn. rewrite !N.eqb_refl. split; reflexivity.
    + rewrite (inplace_class_full e now' p' s' Hp'). cbn [cs_dest cs_temp]. split; [apply holds_source_file|].
      destruct Htmp as [A|[A B]]; [exact A|]. rewrite A in Hu'. congruence.
  - split; [apply (never_accepted_torn c e now p s k Hp Hold Hr)|].
    destruct Htmp as [A|[A _]]; [exact A|]. fold s' in Hr. rewrite A in Hr. congruence.
Qed.
