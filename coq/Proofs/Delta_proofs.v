(* Proofs about Model/Delta.v: both generators terminate within their fuel,
   emit only Copy ops that reference ranges inside old, and (when the strong
   hash does not collide on the blocks compared) their output applied to old
   reconstructs new exactly -- for every old, new, block size > 0 and, for the
   streaming generator, every chunk size >= block size. *)
From Coq Require Import ZArith List Lia Bool.
From SyGen Require Import SrcConstants.
From SyModel Require Import Adler Delta.
From SyProofs Require Import ListAux.
Import ListNotations.
Open Scope Z_scope.

(* ---------- apply ---------- *)
Lemma apply_app old a : forall b,
  apply old (a ++ b) =
  match apply old a with
  | Some x => option_map (app x) (apply old b)
  | None => None
  end.
Proof.
  induction a as [|o a IH]; intro b.
  - cbn [app apply]. destruct (apply old b); reflexivity.
  - cbn [app apply]. destruct o as [off sz|d].
    + destruct ((0 <=? off) && (0 <=? sz) && (off + sz <=? len old)); [|reflexivity].
      rewrite IH. destruct (apply old a); [|reflexivity]. cbn [option_map].
      destruct (apply old b); cbn [option_map]; [rewrite app_assoc|]; reflexivity.
    + rewrite IH. destruct (apply old a); [|reflexivity]. cbn [option_map].
      destruct (apply old b); cbn [option_map]; [rewrite app_assoc|]; reflexivity.
Qed.

Lemma apply_all_in_range old ops res :
  apply old ops = Some res -> Forall (fun o => copy_in_range old o = true) ops.
Proof.
  revert res. induction ops as [|o ops IH]; intros res E; [constructor|].
  cbn [apply] in E. destruct o as [off sz|d].
  - destruct ((0 <=? off) && (0 <=? sz) && (off + sz <=? len old)) eqn:G; [|discriminate].
    destruct (apply old ops) eqn:E'; [|discriminate]. constructor; [exact G | eapply IH; reflexivity].
  - destruct (apply old ops) eqn:E'; [|discriminate]. constructor; [reflexivity | eapply IH; reflexivity].
Qed.

Lemma frev_rev (A : Type) (l : list A) : frev l = rev l.
Proof. unfold frev. rewrite rev_append_rev. apply app_nil_r. Qed.

Lemma len_nonneg l : 0 <= len l. Proof. unfold len. lia. Qed.
Lemma len_app a b : len (a ++ b) = len a + len b. Proof. unfold len. rewrite app_length. lia. Qed.
Lemma len_cons x l : len (x :: l) = len l + 1. Proof. unfold len. cbn [length]. lia. Qed.
Lemma len_firstn_le n l : len l >= Z.of_nat n -> len (firstn n l) = Z.of_nat n.
Proof. unfold len. rewrite firstn_length. lia. Qed.
Lemma len_skipn n l : len (skipn n l) = Z.max 0 (len l - Z.of_nat n).
Proof. unfold len. rewrite skipn_length. lia. Qed.

Section Gen.
  Variable SH : Type.
  Variable H : list Z -> SH.
  Variable Seq : SH -> SH -> bool.
  Variable old : list Z.
  Variable bs : Z.
  Variable cks : list (cksum SH).
  Variable new : list Z.
  Hypothesis bs_pos : 0 < bs.
  Let bsn := Z.to_nat bs.

  Definition block_of (c : cksum SH) : list Z :=
    firstn (Z.to_nat (c_size c)) (skipn (Z.to_nat (c_off c)) old).

  Definition cks_wf (c : cksum SH) : Prop :=
    0 <= c_off c /\ 0 <= c_size c /\ c_off c + c_size c <= len old /\ c_strong c = H (block_of c).

  Definition sublist (b l : list Z) : Prop := exists p q, l = p ++ b ++ q.

  (* the strong hash does not collide between a block of old and a different block of new *)
  Definition collision_free : Prop :=
    forall c b, In c cks -> sublist b new -> Seq (c_strong c) (H b) = true -> b = block_of c.

  (* ---------- try_match ---------- *)
  Lemma find_full_some weak rest c :
    find_full SH H Seq bs cks weak rest = Some c ->
    In c cks /\ Seq (c_strong c) (H (firstn bsn rest)) = true.
  Proof.
    unfold find_full. destruct (existsb _ cks); [|discriminate].
    intro E. apply find_some in E. destruct E as [Hin Hp].
    apply andb_prop in Hp. split; [assumption | apply Hp].
  Qed.

  Lemma find_partial_some weak rest rem c :
    find_partial SH H Seq cks weak rest rem = Some c ->
    In c cks /\ Seq (c_strong c) (H rest) = true.
  Proof.
    unfold find_partial. destruct (existsb _ cks); [|discriminate].
    intro E. apply find_some in E. destruct E as [Hin Hp].
    apply andb_prop in Hp. destruct Hp as [_ Hp]. apply andb_prop in Hp. split; [assumption | apply Hp].
  Qed.

  Definition consumed (rest : list Z) (rem : Z) : list Z :=
    if bs <=? rem then firstn bsn rest else rest.

  Lemma try_match_some r rest rem c :
    try_match SH H Seq bs cks r rest rem = Some c ->
    In c cks /\ Seq (c_strong c) (H (consumed rest rem)) = true.
  Proof.
    unfold try_match, consumed. destruct (bs <=? rem).
    - apply find_full_some.
    - apply find_partial_some.
  Qed.

  (* ---------- generic loop invariant ---------- *)
  Section Inv.
    Variable P : list op -> list Z -> list Z -> Prop.   (* ops (reversed), literals (reversed), consumed prefix *)
    Hypothesis P_lit : forall ops lit pre x, P ops lit pre -> P ops (x :: lit) (pre ++ [x]).
    Hypothesis P_copy : forall ops lit pre c b,
      P ops lit pre -> In c cks -> b <> [] -> (exists post, new = pre ++ b ++ post) ->
      Seq (c_strong c) (H b) = true ->
      P (Copy (c_off c) (c_size c) :: flush ops lit) [] (pre ++ b).

    Lemma mem_loop_inv : forall (fuel : nat) rest rem ahead ops lit r pre,
      (length rest < fuel)%nat -> new = pre ++ rest -> rem = len rest -> ahead = skipn bsn rest ->
      P ops lit pre ->
      exists ops' lit', mem_loop SH H Seq bs cks fuel rest rem ahead ops lit r = Some (rev (flush ops' lit'))
                        /\ P ops' lit' new.
    Proof.
      induction fuel as [|f IH]; intros rest rem ahead ops lit r pre Hf Hnew Hrem Hah HP; [lia|].
      cbn [mem_loop]. destruct rest as [|x rest'].
      - exists ops, lit. split; [rewrite frev_rev; reflexivity|]. rewrite app_nil_r in Hnew. subst pre. exact HP.
      - destruct (try_match SH H Seq bs cks r (x :: rest') rem) as [c|] eqn:Em.
        + apply try_match_some in Em. destruct Em as [Hin Hs]. unfold consumed in Hs.
          destruct (bs <=? rem) eqn:Eb.
          * apply Z.leb_le in Eb.
            assert (Hl : length (firstn bsn (x :: rest')) = bsn).
            { rewrite firstn_length. unfold len in Hrem. subst bsn. lia. }
            eapply (IH ahead (rem - bs) (skipn bsn ahead) _ [] _ (pre ++ firstn bsn (x :: rest'))).
            -- subst ahead. rewrite skipn_length. cbn [length] in *. subst bsn. lia.
            -- subst ahead. rewrite <- app_assoc, firstn_skipn. exact Hnew.
            -- subst ahead. rewrite len_skipn. subst bsn. lia.
            -- reflexivity.
            -- apply P_copy; try assumption.
               ++ intro E. rewrite E in Hl. cbn in Hl. subst bsn. lia.
               ++ exists (skipn bsn (x :: rest')). rewrite firstn_skipn. exact Hnew.
          * eapply (IH [] 0 [] _ [] r (pre ++ x :: rest')).
            -- cbn [length] in *. lia.
            -- rewrite app_nil_r. exact Hnew.
            -- reflexivity.
            -- destruct bsn; reflexivity.
            -- apply P_copy; try assumption; [discriminate|]. exists []. rewrite app_nil_r. exact Hnew.
        + eapply (IH rest' (rem - 1) (tl ahead) ops (x :: lit) _ (pre ++ [x])).
          * cbn [length] in Hf. lia.
          * rewrite <- app_assoc. exact Hnew.
          * rewrite len_cons in Hrem. lia.
          * subst ahead. clear. destruct bsn as [|n]; [reflexivity|]. cbn [skipn].
            generalize rest'. clear. induction n as [|n IHn]; intros l; [destruct l; reflexivity|].
            destruct l as [|y l]; [reflexivity|]. cbn [skipn]. apply IHn.
          * apply P_lit. exact HP.
    Qed.

    Hypothesis P_init : P [] [] [].

    Lemma gen_mem_inv :
      exists ops' lit', gen_mem SH H Seq bs cks new = Some (rev (flush ops' lit')) /\ P ops' lit' new.
    Proof.
      unfold gen_mem. destruct (list_case _ new) as [En|(x & n' & En)].
      - exists [], []. rewrite En. split; [reflexivity | exact P_init].
      - rewrite En. cbv iota. rewrite <- En. eapply (mem_loop_inv (S (length new)) new (len new) _ [] [] _ []); try reflexivity; [lia | exact P_init].
    Qed.

    (* ---------- streaming ---------- *)
    Variable chunk : Z.
    Hypothesis chunk_ge : bs <= chunk.
    Let chunkn := Z.to_nat chunk.

    Lemma str_loop_inv : forall (fuel : nat) wrest wrem wpos ahead frest last ops lit r pre,
      (length wrest + length frest < fuel)%nat ->
      new = pre ++ wrest ++ frest -> wrem = len wrest -> ahead = skipn bsn wrest -> 0 <= wpos ->
      (frest <> [] -> 0 < last /\ bs <= wpos + wrem /\ wrest <> []) ->
      P ops lit pre ->
      exists ops' lit',
        str_loop SH H Seq bs cks chunk fuel wrest wrem wpos ahead frest last ops lit r = Some (rev (flush ops' lit'))
        /\ P ops' lit' new.
    Proof.
      induction fuel as [|f IH]; intros wrest wrem wpos ahead frest last ops lit r pre Hf Hnew Hrem Hah Hwp He HP; [lia|].
      cbn [str_loop]. destruct wrest as [|x wrest'].
      - destruct frest as [|y fr]; [|destruct (He ltac:(discriminate)) as (_ & _ & Hne); congruence].
        exists ops, lit. split; [rewrite frev_rev; reflexivity|]. cbn [app] in Hnew. rewrite app_nil_r in Hnew. subst pre. exact HP.
      - (* the body: a new (wrest1, wrem1, wpos1, ahead1, ops1, lit1, r1) with its own prefix pre1 *)
        set (body := match try_match SH H Seq bs cks r (x :: wrest') wrem with Some c => _ | None => _ end).
        assert (Hbody : exists wrest1 wrem1 wpos1 ahead1 ops1 lit1 r1 pre1,
                   body = (wrest1, wrem1, wpos1, ahead1, ops1, lit1, r1) /\
                   new = pre1 ++ wrest1 ++ frest /\ wrem1 = len wrest1 /\ ahead1 = skipn bsn wrest1 /\
                   wpos1 + wrem1 = wpos + wrem /\ 0 <= wpos1 /\ (length wrest1 < length (x :: wrest'))%nat /\
                   P ops1 lit1 pre1).
        { subst body. destruct (try_match SH H Seq bs cks r (x :: wrest') wrem) as [c|] eqn:Em.
          - apply try_match_some in Em. destruct Em as [Hin Hs]. unfold consumed in Hs.
            destruct (bs <=? wrem) eqn:Eb.
            + apply Z.leb_le in Eb.
              assert (Hl : length (firstn bsn (x :: wrest')) = bsn).
              { rewrite firstn_length. unfold len in Hrem. subst bsn. lia. }
              do 7 eexists. exists (pre ++ firstn bsn (x :: wrest')). split; [reflexivity|].
              subst ahead. repeat split.
              * rewrite <- app_assoc. rewrite (app_assoc (firstn _ _)), firstn_skipn. exact Hnew.
              * rewrite len_skipn. subst bsn. lia.
              * lia.
              * lia.
              * rewrite skipn_length. cbn [length] in *. subst bsn. lia.
              * apply P_copy; try assumption.
                -- intro E. rewrite E in Hl. cbn in Hl. subst bsn. lia.
                -- exists (skipn bsn (x :: wrest') ++ frest). rewrite (app_assoc (firstn _ _)), firstn_skipn. exact Hnew.
            + do 7 eexists. exists (pre ++ x :: wrest'). split; [reflexivity|]. repeat split.
              * cbn [app]. rewrite <- app_assoc. exact Hnew.
              * destruct bsn; reflexivity.
              * lia.
              * pose proof (len_nonneg (x :: wrest')). lia.
              * cbn [length]. lia.
              * apply P_copy; try assumption; [discriminate|]. exists frest. exact Hnew.
          - do 7 eexists. exists (pre ++ [x]). split; [reflexivity|]. repeat split.
            + rewrite <- app_assoc. exact Hnew.
            + rewrite len_cons in Hrem. lia.
            + subst ahead. clear. destruct bsn as [|n]; [reflexivity|]. cbn [skipn].
              generalize wrest'. clear. induction n as [|n IHn]; intros l; [destruct l; reflexivity|].
              destruct l as [|y l]; [reflexivity|]. cbn [skipn]. apply IHn.
            + lia.
            + lia.
            + cbn [length]. lia.
            + apply P_lit. exact HP. }
        destruct Hbody as (wrest1 & wrem1 & wpos1 & ahead1 & ops1 & lit1 & r1 & pre1 & -> & Hnew1 & Hrem1 & Hah1 & Hsum & Hwp1 & Hlt & HP1).
        cbv iota beta.
        destruct ((bs <=? wpos1) && (0 <? last) && (wrem1 <? bs)) eqn:Eref.
        + (* refill *)
          apply andb_prop in Eref. destruct Eref as [Eref E3]. apply andb_prop in Eref. destruct Eref as [E1 E2].
          apply Z.leb_le in E1. apply Z.ltb_lt in E2. apply Z.ltb_lt in E3.
          eapply (IH (wrest1 ++ firstn chunkn frest) _ 0 _ (skipn chunkn frest) _ ops1 lit1 _ pre1).
          * rewrite app_length. pose proof (firstn_skipn chunkn frest) as Efs.
            apply (f_equal (@length Z)) in Efs. rewrite app_length in Efs. cbn [length] in *. lia.
          * rewrite <- app_assoc, firstn_skipn. exact Hnew1.
          * rewrite len_app. subst wrem1. reflexivity.
          * reflexivity.
          * lia.
          * intro Hne. subst chunkn.
            assert (Hfull : length (firstn (Z.to_nat chunk) frest) = Z.to_nat chunk).
            { rewrite firstn_length. destruct (Nat.le_gt_cases (Z.to_nat chunk) (length frest)) as [Hle|Hgt]; [lia|].
              rewrite skipn_all2 in Hne by lia. congruence. }
            unfold len. rewrite Hfull. repeat split; try lia.
            -- pose proof (len_nonneg wrest1). unfold len in *. lia.
            -- intro E. apply app_eq_nil in E. destruct E as [_ E]. rewrite E in Hfull. cbn in Hfull. lia.
          * exact HP1.
        + (* no refill *)
          eapply (IH wrest1 wrem1 wpos1 ahead1 frest last ops1 lit1 r1 pre1); try assumption.
          * cbn [length] in *. lia.
          * intro Hne. destruct (He Hne) as (Hl & Hb & _). repeat split; [assumption | lia |].
            intro E. subst wrest1. assert (wrem1 = 0) by (subst wrem1; reflexivity).
            assert (Ht : (bs <=? wpos1) && (0 <? last) && (wrem1 <? bs) = true).
            { apply andb_true_intro; split; [apply andb_true_intro; split|]; [apply Z.leb_le | apply Z.ltb_lt | apply Z.ltb_lt]; lia. }
            congruence.
    Qed.

    Hypothesis chunk_pos : 0 < chunk.

    Lemma gen_stream_inv :
      exists ops' lit', gen_stream SH H Seq bs cks chunk new = Some (rev (flush ops' lit')) /\ P ops' lit' new.
    Proof.
      unfold gen_stream. destruct (list_case _ new) as [En|(x & n' & En)].
      - exists [], []. rewrite En. split; [reflexivity | exact P_init].
      - rewrite En. cbv iota. rewrite <- En.
        eapply (str_loop_inv (S (length new)) (firstn chunkn new) _ 0 _ (skipn chunkn new) _ [] [] _ []); try reflexivity.
        + pose proof (firstn_skipn chunkn new) as Efs. apply (f_equal (@length Z)) in Efs. rewrite app_length in Efs. lia.
        + cbn [app]. rewrite firstn_skipn. reflexivity.
        + intro Hne. subst chunkn.
          assert (Hfull : length (firstn (Z.to_nat chunk) new) = Z.to_nat chunk).
          { rewrite firstn_length. destruct (Nat.le_gt_cases (Z.to_nat chunk) (length new)) as [Hle|Hgt]; [lia|].
            rewrite skipn_all2 in Hne by lia. congruence. }
          unfold len. rewrite Hfull. repeat split; try lia.
          intro E. rewrite E in Hfull. cbn in Hfull. lia.
        + exact P_init.
    Qed.
  End Inv.

  (* ---------- instance 1: every Copy comes from a checksum entry (unconditional) ---------- *)
  Definition from_cks (o : op) : Prop :=
    match o with Copy off sz => exists c, In c cks /\ c_off c = off /\ c_size c = sz | Data _ => True end.

  Definition P_range (ops : list op) (_ _ : list Z) : Prop := Forall from_cks ops.

  Lemma flush_from ops lit : Forall from_cks ops -> Forall from_cks (flush ops lit).
  Proof. intro Hf. unfold flush. destruct lit; [assumption|]. constructor; [exact I | assumption]. Qed.

  Lemma range_result ops lit : P_range ops lit new -> Forall from_cks (rev (flush ops lit)).
  Proof. intro Hp. apply Forall_rev. apply flush_from. exact Hp. Qed.

  Theorem gen_mem_from_cks ops : gen_mem SH H Seq bs cks new = Some ops -> Forall from_cks ops.
  Proof.
    intro E. destruct (gen_mem_inv P_range) as (ops' & lit' & E' & HP).
    - intros; assumption.
    - intros ops0 lit0 pre c b Hp Hin _ _ _. constructor; [exists c; auto | apply flush_from; exact Hp].
    - constructor.
    - rewrite E in E'. inversion E'; subst. apply range_result. exact HP.
  Qed.

  Theorem gen_stream_from_cks chunk ops :
    bs <= chunk -> 0 < chunk -> gen_stream SH H Seq bs cks chunk new = Some ops -> Forall from_cks ops.
  Proof.
    intros Hc Hp E. destruct (gen_stream_inv P_range) with (chunk := chunk) as (ops' & lit' & E' & HP); try assumption.
    - intros; assumption.
    - intros ops0 lit0 pre c b Hp0 Hin _ _ _. constructor; [exists c; auto | apply flush_from; exact Hp0].
    - constructor.
    - rewrite E in E'. inversion E'; subst. apply range_result. exact HP.
  Qed.

  (* ---------- instance 2: reconstruction ---------- *)
  Hypothesis Hwf : forall c, In c cks -> cks_wf c.
  Hypothesis Hcf : collision_free.

  Definition P_recon (ops : list op) (lit pre : list Z) : Prop :=
    exists pre0, apply old (rev ops) = Some pre0 /\ pre = pre0 ++ rev lit.

  Lemma recon_flush ops lit pre : P_recon ops lit pre -> apply old (rev (flush ops lit)) = Some pre.
  Proof.
    intros (pre0 & Ea & ->). unfold flush. destruct lit as [|y lit]; [rewrite app_nil_r; exact Ea|].
    cbn [rev]. rewrite apply_app, Ea. cbn [apply option_map]. rewrite app_nil_r, frev_rev. reflexivity.
  Qed.

  Lemma recon_copy ops lit pre c b :
    P_recon ops lit pre -> In c cks -> b <> [] -> (exists post, new = pre ++ b ++ post) ->
    Seq (c_strong c) (H b) = true ->
    P_recon (Copy (c_off c) (c_size c) :: flush ops lit) [] (pre ++ b).
  Proof.
    intros Hp Hin _ (post & Hn) Hs.
    assert (Eb : b = block_of c) by (apply Hcf; [assumption | exists pre, post; exact Hn | assumption]).
    destruct (Hwf c Hin) as (H0 & H1 & H2 & _).
    exists (pre ++ b). split; [|rewrite app_nil_r; reflexivity].
    cbn [rev]. rewrite apply_app, (recon_flush _ _ _ Hp). cbn [apply].
    replace ((0 <=? c_off c) && (0 <=? c_size c) && (c_off c + c_size c <=? len old)) with true.
    - cbn [option_map]. rewrite app_nil_r, Eb. reflexivity.
    - symmetry. apply andb_true_intro; split; [apply andb_true_intro; split|]; apply Z.leb_le; assumption.
  Qed.

  Lemma recon_lit ops lit pre x : P_recon ops lit pre -> P_recon ops (x :: lit) (pre ++ [x]).
  Proof. intros (pre0 & Ea & ->). exists pre0. split; [assumption|]. cbn [rev]. rewrite app_assoc. reflexivity. Qed.

  Lemma recon_init : P_recon [] [] [].
  Proof. exists []. split; reflexivity. Qed.

  Theorem recon_mem : exists ops, gen_mem SH H Seq bs cks new = Some ops /\ apply old ops = Some new.
  Proof.
    destruct (gen_mem_inv P_recon) as (ops' & lit' & E & HP).
    - intros; apply recon_lit; assumption.
    - intros; apply recon_copy; assumption.
    - apply recon_init.
    - eexists; split; [exact E | apply recon_flush; exact HP].
  Qed.

  Theorem recon_stream chunk :
    bs <= chunk -> 0 < chunk ->
    exists ops, gen_stream SH H Seq bs cks chunk new = Some ops /\ apply old ops = Some new.
  Proof.
    intros Hc Hp. destruct (gen_stream_inv P_recon) with (chunk := chunk) as (ops' & lit' & E & HP); try assumption.
    - intros; apply recon_lit; assumption.
    - intros; apply recon_copy; assumption.
    - apply recon_init.
    - eexists; split; [exact E | apply recon_flush; exact HP].
  Qed.
End Gen.

(* ---------- compute_checksums yields well-formed entries ---------- *)
Section Blocks.
  Variable SH : Type.
  Variable H : list Z -> SH.
  Variable old : list Z.
  Variable bs : Z.
  Hypothesis bs_pos : 0 < bs.

  Lemma firstn_length_self (l : list Z) n : firstn (length (firstn n l)) l = firstn n l.
  Proof.
    rewrite firstn_length. destruct (Nat.le_gt_cases n (length l)) as [Hle|Hgt].
    - rewrite Nat.min_l by assumption. reflexivity.
    - rewrite Nat.min_r by lia. rewrite !firstn_all2 by lia. reflexivity.
  Qed.

  Lemma blocks_wf : forall (fuel : nat) off l,
    l = skipn (Z.to_nat off) old -> 0 <= off ->
    forall c, In c (blocks SH H fuel (Z.to_nat bs) bs off l) -> cks_wf SH H old c.
  Proof.
    induction fuel as [|f IH]; intros off l El Hoff c Hin; [destruct Hin|].
    cbn [blocks] in Hin. destruct l as [|x l']; [destruct Hin|].
    destruct Hin as [<-|Hin].
    - unfold cks_wf, block_of. cbn [c_off c_size c_strong].
      assert (Hlen : (length (x :: l') = length old - Z.to_nat off)%nat) by (rewrite El, skipn_length; reflexivity).
      assert (Hb : (length (firstn (Z.to_nat bs) (x :: l')) <= length (x :: l'))%nat) by (rewrite firstn_length; lia).
      repeat split.
      + assumption.
      + apply len_nonneg.
      + unfold len. cbn [length] in *. lia.
      + unfold len. rewrite Nat2Z.id. rewrite <- El. rewrite firstn_length_self. reflexivity.
    - eapply (IH (off + bs) (skipn (Z.to_nat bs) (x :: l'))); [| lia | exact Hin].
      rewrite El, skipn_skipn'. f_equal. lia.
  Qed.

  Lemma compute_checksums_wf c : In c (compute_checksums SH H bs old) -> cks_wf SH H old c.
  Proof. unfold compute_checksums. apply blocks_wf; [reflexivity | lia]. Qed.
End Blocks.

(* ---------- the executable instance (identity hash) never collides ---------- *)
Lemma list_eqb_eq a : forall b, list_eqb a b = true -> a = b.
Proof.
  induction a as [|x a IH]; intros [|y b] E; cbn in E; try discriminate; [reflexivity|].
  apply andb_prop in E. destruct E as [E1 E2]. apply Z.eqb_eq in E1. subst. f_equal. apply IH. exact E2.
Qed.

Lemma id_collision_free old bs new :
  0 < bs -> collision_free (list Z) id_hash list_eqb old (cks_id bs old) new.
Proof.
  intros Hbs c b Hin _ E. destruct (compute_checksums_wf _ id_hash old bs Hbs c Hin) as (_ & _ & _ & Es).
  rewrite Es in E. unfold id_hash in E. symmetry. apply list_eqb_eq. exact E.
Qed.

(* from_cks + well-formedness = copy_in_range *)
Lemma from_cks_in_range SH (H : list Z -> SH) old (cks : list (cksum SH)) ops :
  (forall c, In c cks -> cks_wf SH H old c) -> Forall (from_cks SH cks) ops ->
  Forall (fun o => copy_in_range old o = true) ops.
Proof.
  intros Hwf Hf. eapply Forall_impl; [|exact Hf]. intros [off sz|d] Ho; [|reflexivity].
  destruct Ho as (c & Hin & <- & <-). destruct (Hwf c Hin) as (H0 & H1 & H2 & _). cbn [copy_in_range].
  apply andb_true_intro; split; [apply andb_true_intro; split|]; apply Z.leb_le; assumption.
Qed.
