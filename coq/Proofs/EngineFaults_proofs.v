(* Proofs about Model/EngineFaults.v: containment of injected and natural failures *)
From Coq Require Import NArith ZArith List Bool Lia.
From SyModel Require Import Engine EngineFaults.
From SyProofs Require Import Engine_proofs.
Import ListNotations.

Definition errored (errs : list (path * eaction * err)) (p : path) : Prop := exists a x, In (p, a, x) errs.

Lemma step_f_errs_mono flt junk c now s t p : errored (snd (fst s)) p -> errored (snd (fst (step_f flt junk c now s t))) p.
Proof.
  destruct s as [[m errs] evs]. cbn [fst snd]. intros (a & x & Hin). unfold step_f.
  destruct (if c_dry_run c then None else flt (t_path t)); [exists a, x; right; exact Hin|].
  destruct (exec_task c now m t); cbn [fst snd]; exists a, x; [exact Hin | right; exact Hin].
Qed.

Lemma fold_errs_mono flt junk c now : forall ts s p, errored (snd (fst s)) p -> errored (snd (fst (fold_left (step_f flt junk c now) ts s))) p.
Proof. induction ts as [|t ts IH]; intros s p H; [exact H|]. cbn [fold_left]. apply IH. apply step_f_errs_mono. exact H. Qed.

Lemma step_f_src flt junk c now m errs evs t e : c_dry_run c = false -> t_src t = Some e ->
  step_f flt junk c now (m, errs, evs) t =
  match flt (t_path t) with
  | Some x => (fault_effect junk m t, (t_path t, t_action t, x) :: errs, evs)
  | None => match exec_task c now m t with
            | inl m' => (m', errs, (t_action t, t_path t) :: evs)
            | inr x => (m, (t_path t, t_action t, x) :: errs, evs)
            end
  end.
Proof. intros Hd Hs. unfold step_f. rewrite Hd. reflexivity. Qed.

(* ---------- the source tasks ---------- *)
Lemma src_phase flt junk c ds now dst : c_dry_run c = false ->
  forall todo done m errs evs,
    src_wf (done ++ todo) ->
    (forall e, In e done -> post c ds now dst m e \/ errored errs (se_path e)) ->
    (forall e, In e todo -> m (se_path e) = dst (se_path e) \/ (se_is_dir e = true /\ m (se_path e) = Some Dir)) ->
    let s' := fold_left (step_f flt junk c now) (map (plan_entry c ds dst) todo) (m, errs, evs) in
    forall e, In e (done ++ todo) -> post c ds now dst (fst (fst s')) e \/ errored (snd (fst s')) (se_path e).
Proof.
  intros Hdry. induction todo as [|e0 todo IH]; intros done m errs evs Hwf Hdone Htodo s' e He.
  - subst s'. cbn. rewrite app_nil_r in He. apply Hdone. exact He.
  - subst s'. cbn [map fold_left].
    destruct (plan_entry_ok c ds dst e0) as (Hok & Hnd & Hp).
    assert (Hwf' : src_wf ((done ++ [e0]) ++ todo)) by (rewrite <- app_assoc; exact Hwf).
    assert (He' : In e ((done ++ [e0]) ++ todo)) by (rewrite <- app_assoc; exact He).
    destruct Hwf as (Hnd_paths & Hne & Hfile & Hclosed).
    assert (Hdistinct : forall e1, In e1 (done ++ todo) -> se_path e1 <> se_path e0).
    { intros e1 H1 Eq. unfold paths_of in Hnd_paths. rewrite map_app in Hnd_paths. cbn [map] in Hnd_paths.
      apply NoDup_remove_2 in Hnd_paths. apply Hnd_paths. rewrite <- Eq. rewrite <- map_app. apply in_map. exact H1. }
    assert (Hin0 : In e0 (done ++ e0 :: todo)) by (apply in_or_app; right; left; reflexivity).
    (* what a step that records an error for e0 and changes at most e0's own (file) path preserves *)
    assert (Hfail : forall m1 errs1, (forall q, q <> se_path e0 -> m1 q = m q) -> (se_is_dir e0 = true -> m1 = m) ->
                      errored errs1 (se_path e0) -> (forall p, errored errs p -> errored errs1 p) ->
                      (forall e1, In e1 (done ++ [e0]) -> post c ds now dst m1 e1 \/ errored errs1 (se_path e1)) /\
                      (forall e1, In e1 todo -> m1 (se_path e1) = dst (se_path e1) \/ (se_is_dir e1 = true /\ m1 (se_path e1) = Some Dir))).
    { intros m1 errs1 Hframe Hdirsame Herr Hmono. split.
      - intros e1 H1. apply in_app_or in H1. destruct H1 as [H1|[H1|[]]].
        + destruct (Hdone e1 H1) as [(x & Hx & Hg)|Hbad]; [left; exists x; split; [|exact Hg] | right; apply Hmono; exact Hbad].
          rewrite Hframe; [exact Hx | apply Hdistinct; apply in_or_app; left; exact H1].
        + subst e1. right. exact Herr.
      - intros e1 H1. assert (Hq : se_path e1 <> se_path e0) by (apply Hdistinct; apply in_or_app; right; exact H1).
        rewrite (Hframe _ Hq). apply Htodo. right. exact H1. }
    assert (Esrc : t_src (plan_entry c ds dst e0) = Some e0) by (unfold plan_entry; destruct (se_is_dir e0); destruct (dst (se_path e0)) as [[? ? ?|]|]; reflexivity).
    rewrite (step_f_src flt junk c now m errs evs _ e0 Hdry Esrc), Hp.
    destruct (flt (se_path e0)) as [x|] eqn:Ef.
    + (* injected fault *)
      destruct (Hfail (fault_effect junk m (plan_entry c ds dst e0)) ((se_path e0, t_action (plan_entry c ds dst e0), x) :: errs)) as [Hd' Ht'].
      * intros q Hq. unfold fault_effect. rewrite Esrc, Hp. destruct (se_is_dir e0); [reflexivity | apply fs_set_other; exact Hq].
      * intro Hd. unfold fault_effect. rewrite Esrc, Hd. reflexivity.
      * eexists _, _. left. reflexivity.
      * intros p (a & y & Hin). exists a, y. right. exact Hin.
      * apply (IH (done ++ [e0]) _ _ evs Hwf' Hd' Ht' e He').
    + destruct (exec_task c now m (plan_entry c ds dst e0)) as [m1|x] eqn:E0.
      * (* the task succeeds: as in the fault-free run *)
        apply (IH (done ++ [e0]) m1 errs _ Hwf'); [| | exact He'].
        -- intros e1 H1. apply in_app_or in H1. destruct H1 as [H1|[H1|[]]].
           ++ destruct (Hdone e1 H1) as [(y & Hy & Hg)|Hbad]; [left | right; exact Hbad]. exists y. split; [|exact Hg].
              eapply exec_task_keeps; try eassumption. rewrite Hp. apply Hdistinct. apply in_or_app. left. exact H1.
           ++ subst e1. left. destruct (se_is_dir e0) eqn:Hd.
              ** exists Dir. split; [|unfold good; rewrite Hd; reflexivity].
                 eapply own_task_dir; try eassumption.
                 destruct (Htodo e0 (or_introl eq_refl)) as [H|[_ H]]; [left|right]; exact H.
              ** destruct (Htodo e0 (or_introl eq_refl)) as [Hm|[Hcontra _]]; [|congruence].
                 pose proof (own_task_file c ds now dst m m1 e0 Hdry Hd Hm E0) as Hown. unfold post, good. rewrite Hd.
                 destruct (needs c ds dst e0) eqn:En.
                 --- unfold file_post in Hown. eexists. split; [exact Hown | reflexivity].
                 --- destruct (skip_means_file c ds dst e0 Hd En) as (dc & dsz & dmt & Ed). exists (File dc dsz dmt). rewrite Hown, Ed. split; reflexivity.
        -- intros e1 H1.
           assert (Hin1 : In e1 (done ++ e0 :: todo)) by (apply in_or_app; right; right; exact H1).
           assert (Hq : se_path e1 <> t_path (plan_entry c ds dst e0)).
           { rewrite Hp. apply Hdistinct. apply in_or_app. right. exact H1. }
           destruct (Htodo e1 (or_intror H1)) as [Hm|[Hd Hm]].
           ++ destruct (m (se_path e1)) as [y|] eqn:Ey.
              ** left. rewrite <- Hm. eapply exec_task_keeps; eassumption.
              ** destruct (exec_task_none c now m _ m1 (se_path e1) Hok Hnd E0 Hq Ey) as [Hn|Hn]; [left; congruence|].
                 destruct (se_is_dir e1) eqn:Hd1; [right; split; [reflexivity | exact Hn]|].
                 exfalso. pose proof (exec_task_created_is_ancestor c now m _ m1 (se_path e1) Hok Hnd E0 Hq Ey Hn) as Hanc.
                 rewrite Hp in Hanc. exact (Hfile e1 e0 Hin1 Hin0 Hd1 Hanc).
           ++ right. split; [exact Hd|]. eapply exec_task_keeps; eassumption.
      * (* the task fails for a reason the model knows: nothing changes *)
        destruct (Hfail m ((se_path e0, t_action (plan_entry c ds dst e0), x) :: errs)) as [Hd' Ht'].
        -- intros q _. reflexivity.
        -- intros _. reflexivity.
        -- eexists _, _. left. reflexivity.
        -- intros p (a & y & Hin). exists a, y. right. exact Hin.
        -- apply (IH (done ++ [e0]) _ _ evs Hwf' Hd' Ht' e He').
Qed.

(* ---------- the deletions that follow ---------- *)
Lemma dels_phase flt junk c ds now dst src : src_wf src ->
  forall dels s, (forall t, In t dels -> del_task_ok src t) ->
  let s' := fold_left (step_f flt junk c now) dels s in
  forall e, In e src -> post c ds now dst (fst (fst s)) e -> post c ds now dst (fst (fst s')) e.
Proof.
  intros (Hnd & Hne & Hfile & Hclosed). induction dels as [|t dels IH]; intros s Hall s' e He Hpost; [exact Hpost|].
  subst s'. cbn [fold_left]. apply IH; [intros t' Ht'; apply Hall; right; exact Ht' | exact He|].
  destruct (Hall t (or_introl eq_refl)) as (Ha & Hs & Hp0 & Hnin).
  destruct s as [[m errs] evs]. cbn [fst] in *. unfold step_f.
  (* no selected entry sits at or below the path of a deletion task *)
  assert (Hnot : pprefix (t_path t) (se_path e) = true -> False).
  { intro Hpre. apply pprefix_spec in Hpre. destruct Hpre as (r & Er).
    destruct r as [|r0 r].
    - rewrite app_nil_r in Er. apply Hnin. rewrite <- Er. unfold paths_of. apply in_map. exact He.
    - destruct (Hclosed e (t_path t) He) as (d & Hd & Hdp & _).
      + split; [exact Hp0|]. exists (r0 :: r). split; [discriminate | exact Er].
      + apply Hnin. rewrite <- Hdp. unfold paths_of. apply in_map. exact Hd. }
  destruct (if c_dry_run c then None else flt (t_path t)) as [xf|].
  - (* the deletion fails: the entry stays, part of what is below it may be gone -- none of it is a selected entry *)
    cbn [fst]. destruct Hpost as (x & Hx & Hg). exists x. split; [|exact Hg].
    unfold fault_effect. rewrite Hs. destruct (strict_prefix (t_path t) (se_path e)) eqn:Esp; [|exact Hx].
    exfalso. apply Hnot. unfold strict_prefix in Esp. apply andb_true_iff in Esp. exact (proj1 Esp).
  - destruct (exec_task c now m t) as [m1|x] eqn:Et; cbn [fst]; [|exact Hpost].
    destruct Hpost as (x & Hx & Hg). exists x. split; [|exact Hg]. rewrite <- Hx.
    apply (exec_task_frame c now m t m1); [unfold task_ok; rewrite Hs; exact Ha | exact Et|].
    unfold task_touches. rewrite Ha. exact Hnot.
Qed.

(* ---------- containment: whatever fails, every entry without an error of its own ends up as C01 requires ---------- *)
Lemma exec_f_post flt junk ds c now src dst dels :
  src_wf src -> c_dry_run c = false ->
  (forall t, In t dels -> del_task_ok src t) ->
  forall r, r = exec_all_f flt junk c now dst (map (plan_entry c ds dst) src ++ dels) ->
  forall e, In e src -> (forall a x, ~ In (se_path e, a, x) (r_errors r)) -> post c ds now dst (r_fs r) e.
Proof.
  intros Hwf Hdry Hd r Er e He Hnoerr. subst r. revert Hnoerr. unfold exec_all_f. rewrite fold_left_app.
  match goal with |- context [fold_left ?f dels ?init] => remember init as s1 eqn:Es1; remember (fold_left f dels s1) as s2 eqn:Es2 end.
  intro Hnoerr.
  assert (H1 : post c ds now dst (fst (fst s1)) e \/ errored (snd (fst s1)) (se_path e)).
  { rewrite Es1. apply (src_phase flt junk c ds now dst Hdry src [] dst [] []); try assumption; [intros e1 [] | intros e1 _; left; reflexivity]. }
  destruct H1 as [Hpost | Herr].
  - pose proof (dels_phase flt junk c ds now dst src Hwf dels s1 Hd e He Hpost) as H2. cbv zeta in H2. rewrite <- Es2 in H2.
    destruct s2 as [[m2 errs2] evs2]. cbn [finish r_fs fst] in *. exact H2.
  - exfalso. pose proof (fold_errs_mono flt junk c now dels s1 (se_path e) Herr) as H2. rewrite <- Es2 in H2.
    destruct s2 as [[m2 errs2] evs2]. cbn [finish r_errors fst snd] in *. destruct H2 as (a & x & Hin). apply (Hnoerr a x). apply -> in_rev. exact Hin.
Qed.

Theorem run_f_post flt junk refuse ds c now U keep src dst :
  src_wf src -> c_dry_run c = false -> dst [] = None ->
  let r := run_f flt junk refuse ds c now U keep src dst in
  r_refused r = false ->
  forall e, In e src -> (forall a x, ~ In (se_path e, a, x) (r_errors r)) -> post c ds now dst (r_fs r) e.
Proof.
  intros Hwf Hdry Hroot. unfold run_f. cbv zeta.
  destruct (c_delete c && negb (c_force_delete c) && _ && _) eqn:Eb; [cbn; discriminate|].
  intros _ e He Hnoerr. eapply exec_f_post; try eassumption; [|reflexivity].
  intros t Ht. destruct (c_delete c); [|destruct Ht].
  eapply plan_deletions_ok; [exact Hroot | | exact Ht].
  intros p Hp. apply filter_In in Hp. destruct Hp as [_ Hp]. destruct (dst p); [discriminate | discriminate].
Qed.

(* without injected faults this is the engine of Engine.v *)
Lemma exec_all_as_fold junk c now : forall ts m errs evs,
  exec_all c now m ts errs evs = finish (fold_left (step_f (fun _ => None) junk c now) ts (m, errs, evs)).
Proof.
  induction ts as [|t ts IH]; intros m errs evs; [reflexivity|]. cbn [exec_all fold_left]. unfold step_f at 2.
  assert (E : (if c_dry_run c then None else @None err) = None) by (destruct (c_dry_run c); reflexivity).
  rewrite E. destruct (exec_task c now m t); apply IH.
Qed.

Theorem run_f_no_faults junk refuse ds c now U keep src dst :
  run_f (fun _ => None) junk refuse ds c now U keep src dst = run refuse ds c now U keep src dst.
Proof. unfold run_f, run, exec_all_f. cbv zeta. destruct (_ && _); [reflexivity|]. symmetry. apply exec_all_as_fold. Qed.

(* ---------- visibility: a fault that hits a task of the run is in the error list, hence in the exit status ---------- *)
Lemma fold_records_fault flt junk c now : c_dry_run c = false -> forall ts s t x,
  In t ts -> flt (t_path t) = Some x -> errored (snd (fst (fold_left (step_f flt junk c now) ts s))) (t_path t).
Proof.
  intro Hdry. induction ts as [|t0 ts IH]; intros s t x Hin Hf; [destruct Hin|].
  cbn [fold_left]. destruct Hin as [->|Hin].
  - apply fold_errs_mono. destruct s as [[m errs] evs]. unfold step_f. rewrite Hdry, Hf. cbn [fst snd].
    exists (t_action t), x. left. reflexivity.
  - apply (IH _ t x Hin Hf).
Qed.

Theorem run_f_fault_visible flt junk refuse ds c now U keep src dst p x :
  c_dry_run c = false ->
  let r := run_f flt junk refuse ds c now U keep src dst in
  r_refused r = false ->
  flt p = Some x ->
  (In p (map se_path src) \/ (c_delete c = true /\ In p (map t_path (plan_deletions (keep ++ src) (filter (fun q => match dst q with Some _ => true | None => false end) U))))) ->
  (exists a y, In (p, a, y) (r_errors r)) /\ exit_status c r = 1%Z.
Proof.
  intros Hdry r Hnr Hf Hin. subst r. unfold run_f in *. cbv zeta in *.
  destruct (c_delete c && negb (c_force_delete c) && _ && _) eqn:Eb; [cbn in Hnr; discriminate|].
  set (ts := map (plan_entry c ds dst) src ++ (if c_delete c then _ else [])).
  assert (Ht : exists t, In t ts /\ t_path t = p).
  { destruct Hin as [Hs | [Hd Hdl]].
    - apply in_map_iff in Hs. destruct Hs as (e & Ep & He). exists (plan_entry c ds dst e). split.
      + unfold ts. apply in_or_app. left. apply in_map. exact He.
      + destruct (plan_entry_ok c ds dst e) as (_ & _ & Hp). rewrite Hp. exact Ep.
    - apply in_map_iff in Hdl. destruct Hdl as (t & Ep & Ht). exists t. split; [|exact Ep].
      unfold ts. apply in_or_app. right. rewrite Hd. exact Ht. }
  destruct Ht as (t & Ht & Ep). subst p.
  unfold exec_all_f.
  pose proof (fold_records_fault flt junk c now Hdry ts (dst, [], []) t x Ht Hf) as Herr.
  destruct (fold_left (step_f flt junk c now) ts (dst, [], [])) as [[m2 errs2] evs2]. cbn [fst snd] in Herr.
  destruct Herr as (a & y & Hy). cbn [finish r_errors].
  assert (Hin' : In (t_path t, a, y) (rev errs2)) by (apply -> in_rev; exact Hy).
  split; [exists a, y; exact Hin'|].
  unfold exit_status. cbn [r_refused r_errors].
  destruct (negb (N.eqb (c_max_errors c) 0) && N.leb (c_max_errors c) (N.of_nat (length (rev errs2)))); [reflexivity|].
  destruct (rev errs2); [destruct Hin' | reflexivity].
Qed.
