(* Proofs about Model/Engine.v *)
From Coq Require Import NArith ZArith List Bool Lia.
From SyModel Require Import Engine.
Import ListNotations.

(* ---------- paths ---------- *)
Lemma peqb_eq a : forall b, peqb a b = true <-> a = b.
Proof.
  induction a as [|x a IH]; intros [|y b]; cbn; split; intro E; try discriminate; try reflexivity.
  - apply andb_prop in E. destruct E as [E1 E2]. apply N.eqb_eq in E1. apply IH in E2. subst. reflexivity.
  - inversion E; subst. rewrite N.eqb_refl. apply IH. reflexivity.
Qed.
Lemma peqb_refl a : peqb a a = true. Proof. apply peqb_eq. reflexivity. Qed.
Lemma peqb_neq a b : a <> b -> peqb a b = false.
Proof. intro H. destruct (peqb a b) eqn:E; [apply peqb_eq in E; contradiction | reflexivity]. Qed.

Lemma fs_set_same m p v : fs_set m p v p = v.
Proof. unfold fs_set. rewrite peqb_refl. reflexivity. Qed.
Lemma fs_set_other m p v q : q <> p -> fs_set m p v q = m q.
Proof. intro H. unfold fs_set. rewrite peqb_neq by assumption. reflexivity. Qed.

Lemma pprefix_spec a : forall b, pprefix a b = true <-> exists r, b = a ++ r.
Proof.
  induction a as [|x a IH]; intros b.
  - cbn. split; [intros _; exists b; reflexivity | reflexivity].
  - destruct b as [|y b]; cbn.
    + split; [discriminate | intros (r & E); discriminate].
    + split.
      * intro E. apply andb_prop in E. destruct E as [E1 E2]. apply N.eqb_eq in E1. apply IH in E2.
        destruct E2 as (r & ->). subst. exists r. reflexivity.
      * intros (r & E). inversion E; subst. rewrite N.eqb_refl. apply IH. exists r. reflexivity.
Qed.

Definition proper (a p : path) : Prop := a <> [] /\ exists r, r <> [] /\ p = a ++ r.

Lemma proper_prefixes_spec : forall p a, In a (proper_prefixes p) <-> proper a p.
Proof.
  induction p as [|c p IH]; intros a.
  - cbn. split; [intros [] | intros (_ & r & Hr & E)]. destruct a; [|discriminate]. cbn in E. subst. congruence.
  - cbn [proper_prefixes]. destruct p as [|c2 p'].
    + split; [intros [] | intros (Ha & r & Hr & E)].
      destruct a as [|x a]; [congruence|]. inversion E as [[Ex Er]]. destruct a; [|discriminate]. cbn in Er. subst. congruence.
    + split.
      * intros [<-|Hin].
        -- split; [discriminate|]. exists (c2 :: p'). split; [discriminate | reflexivity].
        -- apply in_map_iff in Hin. destruct Hin as (a' & <- & Hin). apply IH in Hin.
           destruct Hin as (Ha & r & Hr & E). split; [discriminate|]. exists r. split; [assumption|]. cbn. rewrite E. reflexivity.
      * intros (Ha & r & Hr & E). destruct a as [|x a]; [congruence|]. inversion E as [[Ex Er]]. subst x.
        destruct a as [|y a]; [left; reflexivity|]. right. apply in_map_iff. exists (y :: a). split; [reflexivity|].
        apply IH. split; [discriminate|]. exists r. split; assumption.
Qed.

Lemma proper_neq a p : proper a p -> a <> p.
Proof. intros (_ & r & Hr & E) Eap. rewrite <- Eap in E. rewrite <- (app_nil_r a) in E at 1. apply app_inv_head in E. congruence. Qed.

(* ---------- mkdirs only turns absent paths of its list into directories ---------- *)
Lemma mkdirs_frame : forall ps m m', mkdirs m ps = inl m' ->
  (forall q, ~ In q ps -> m' q = m q) /\
  (forall q, In q ps -> m' q = Some Dir) /\
  (forall q x, m q = Some x -> m' q = Some x).
Proof.
  induction ps as [|p ps IH]; intros m m' E.
  - cbn in E. inversion E; subst. repeat split; auto. intros q [].
  - cbn [mkdirs] in E. destruct (m p) as [[c s t|]|] eqn:Ep; [discriminate| |].
    + destruct (IH m m' E) as (F1 & F2 & F3). repeat split.
      * intros q Hq. apply F1. intro. apply Hq. right. assumption.
      * intros q [<-|Hq]; [apply F3; exact Ep | apply F2; exact Hq].
      * exact F3.
    + destruct (IH _ m' E) as (F1 & F2 & F3). repeat split.
      * intros q Hq. rewrite F1 by (intro; apply Hq; right; assumption).
        apply fs_set_other. intro; subst. apply Hq. left. reflexivity.
      * intros q [<-|Hq]; [apply F3; apply fs_set_same | apply F2; exact Hq].
      * intros q x Hx. apply F3. destruct (peqb q p) eqn:Eq.
        -- apply peqb_eq in Eq. subst. congruence.
        -- unfold fs_set. rewrite Eq. exact Hx.
Qed.

(* ---------- the tasks of a plan ---------- *)
Definition paths_of (src : list sentry) : list path := map se_path src.

(* a scan (after filtering) lists each path once, files are never ancestors of other entries,
   and every proper ancestor of an entry is itself listed as a directory *)
Definition src_wf (src : list sentry) : Prop :=
  NoDup (paths_of src) /\
  (forall e, In e src -> se_path e <> []) /\
  (forall e f, In e src -> In f src -> se_is_dir e = false -> ~ proper (se_path e) (se_path f)) /\
  (forall e a, In e src -> proper a (se_path e) -> exists d, In d src /\ se_path d = a /\ se_is_dir d = true).

(* all tasks succeed: the state after running them in order *)
Fixpoint exec_seq (c : cfg) (now : Z) (m : fs) (ts : list task) : option fs :=
  match ts with
  | [] => Some m
  | t :: ts' => match exec_task c now m t with inl m' => exec_seq c now m' ts' | inr _ => None end
  end.

Lemma exec_all_noerr c now : forall ts m errs evs,
  r_errors (exec_all c now m ts errs evs) = [] ->
  errs = [] /\ exec_seq c now m ts = Some (r_fs (exec_all c now m ts errs evs)).
Proof.
  induction ts as [|t ts IH]; intros m errs evs H.
  - cbn in *. split; [|reflexivity]. destruct errs; [reflexivity|]. cbn in H. apply app_eq_nil in H. destruct H; discriminate.
  - cbn [exec_all exec_seq] in *. destruct (exec_task c now m t) as [m'|x].
    + apply IH. exact H.
    + destruct (IH _ _ _ H) as [E _]. discriminate.
Qed.

(* what a task may change *)
Definition task_touches (t : task) (q : path) : Prop :=
  match t_action t with
  | ASkip => False
  | ACreate | AUpdate => q = t_path t \/ proper q (t_path t)
  | ADelete => pprefix (t_path t) q = true
  end.

Definition task_ok (t : task) : Prop :=
  match t_src t with Some e => t_path t = se_path e | None => t_action t = ADelete end.

Lemma exec_task_frame c now m t m' q :
  task_ok t -> exec_task c now m t = inl m' -> ~ task_touches t q -> m' q = m q.
Proof.
  intros Hok E Hn. unfold exec_task in E. destruct (c_dry_run c); [inversion E; reflexivity|].
  unfold task_touches, task_ok in *.
  destruct (t_action t) eqn:Ea.
  - destruct (t_src t); inversion E; reflexivity.
  - destruct (t_src t) as [e|] eqn:Es; [|inversion E; reflexivity]. rewrite Hok in Hn.
    destruct (se_is_dir e).
    + unfold mkdir_all in E. destruct (mkdirs_frame _ _ _ E) as (F1 & _ & _). apply F1.
      intro Hin. apply in_app_or in Hin. destruct Hin as [Hin|[<-|[]]]; [|apply Hn; left; reflexivity].
      apply Hn. right. apply proper_prefixes_spec. exact Hin.
    + unfold copy_file, mkdir_parents in E. destruct (mkdirs m (proper_prefixes (se_path e))) as [m1|] eqn:Em; [|discriminate].
      destruct (mkdirs_frame _ _ _ Em) as (F1 & _ & _).
      destruct (m1 (se_path e)) as [[? ? ?|]|]; inversion E; subst; try discriminate;
        (rewrite fs_set_other by (intro; subst; apply Hn; left; reflexivity);
         apply F1; intro Hin; apply Hn; right; apply proper_prefixes_spec; exact Hin).
  - destruct (t_src t) as [e|] eqn:Es; [|inversion E; reflexivity]. rewrite Hok in Hn.
    destruct (se_is_dir e); [inversion E; reflexivity|].
    unfold update_file in E. destruct (m (se_path e)) as [[dc dsz dmt|]|] eqn:Ed; [| discriminate |].
    + destruct (N.ltb dsz (c_big c)).
      * unfold copy_file, mkdir_parents in E. destruct (mkdirs m (proper_prefixes (se_path e))) as [m1|] eqn:Em; [|discriminate].
        destruct (mkdirs_frame _ _ _ Em) as (F1 & _ & _).
        destruct (m1 (se_path e)) as [[? ? ?|]|]; inversion E; subst; try discriminate;
          (rewrite fs_set_other by (intro; subst; apply Hn; left; reflexivity);
           apply F1; intro Hin; apply Hn; right; apply proper_prefixes_spec; exact Hin).
      * inversion E; subst. apply fs_set_other. intro; subst. apply Hn. left. reflexivity.
    + unfold copy_file, mkdir_parents in E. destruct (mkdirs m (proper_prefixes (se_path e))) as [m1|] eqn:Em; [|discriminate].
      destruct (mkdirs_frame _ _ _ Em) as (F1 & _ & _).
      destruct (m1 (se_path e)) as [[? ? ?|]|]; inversion E; subst; try discriminate;
        (rewrite fs_set_other by (intro; subst; apply Hn; left; reflexivity);
         apply F1; intro Hin; apply Hn; right; apply proper_prefixes_spec; exact Hin).
  - unfold remove in E. destruct (m (t_path t)) as [[? ? ?|]|] eqn:Ed; [| |inversion E; reflexivity].
    + inversion E; subst. apply fs_set_other. intro; subst. apply Hn. apply pprefix_spec. exists []. rewrite app_nil_r. reflexivity.
    + inversion E; subst. destruct (pprefix (t_path t) q) eqn:Ep; [exfalso; apply Hn; reflexivity | reflexivity].
Qed.

(* create/update tasks never destroy an existing entry other than their own path *)
Lemma exec_task_keeps c now m t m' q x :
  task_ok t -> t_action t <> ADelete -> exec_task c now m t = inl m' -> q <> t_path t -> m q = Some x -> m' q = Some x.
Proof.
  intros Hok Hnd E Hq Hx. unfold exec_task in E. destruct (c_dry_run c); [(assert (m' = m) by congruence; subst m'; exact Hx)|].
  unfold task_ok in Hok. destruct (t_action t) eqn:Ea; try congruence.
  - destruct (t_src t) as [e|]; [|(assert (m' = m) by congruence; subst m'; exact Hx)]. rewrite Hok in Hq. destruct (se_is_dir e).
    + unfold mkdir_all in E. destruct (mkdirs_frame _ _ _ E) as (_ & _ & F3). apply F3. exact Hx.
    + unfold copy_file, mkdir_parents in E. destruct (mkdirs m (proper_prefixes (se_path e))) as [m1|] eqn:Em; [|discriminate].
      destruct (mkdirs_frame _ _ _ Em) as (_ & _ & F3).
      destruct (m1 (se_path e)) as [[? ? ?|]|]; inversion E; subst; try discriminate; rewrite fs_set_other by assumption; apply F3; exact Hx.
  - destruct (t_src t) as [e|]; [|(assert (m' = m) by congruence; subst m'; exact Hx)]. rewrite Hok in Hq. destruct (se_is_dir e); [(assert (m' = m) by congruence; subst m'; exact Hx)|].
    unfold update_file in E. destruct (m (se_path e)) as [[dc dsz dmt|]|] eqn:Ed; [| discriminate |].
    + destruct (N.ltb dsz (c_big c)).
      * unfold copy_file, mkdir_parents in E. destruct (mkdirs m (proper_prefixes (se_path e))) as [m1|] eqn:Em; [|discriminate].
        destruct (mkdirs_frame _ _ _ Em) as (_ & _ & F3).
        destruct (m1 (se_path e)) as [[? ? ?|]|]; inversion E; subst; try discriminate; rewrite fs_set_other by assumption; apply F3; exact Hx.
      * inversion E; subst. rewrite fs_set_other by assumption. exact Hx.
    + unfold copy_file, mkdir_parents in E. destruct (mkdirs m (proper_prefixes (se_path e))) as [m1|] eqn:Em; [|discriminate].
      destruct (mkdirs_frame _ _ _ Em) as (_ & _ & F3).
      destruct (m1 (se_path e)) as [[? ? ?|]|]; inversion E; subst; try discriminate; rewrite fs_set_other by assumption; apply F3; exact Hx.
Qed.

(* ---------- what the task of a source entry establishes at its own path ---------- *)
Definition needs (c : cfg) (ds : path -> N * Z) (dst : fs) (e : sentry) : bool :=
  match t_action (plan_entry c ds dst e) with ASkip => false | _ => true end.

(* the entry as C01 wants it: the source's content, size and mtime *)
Definition file_post (e : sentry) (n : option node) : Prop :=
  n = Some (File (se_content e) (se_size e) (se_mtime e)).

Lemma own_task_file c ds now dst m m' e :
  c_dry_run c = false -> se_is_dir e = false -> m (se_path e) = dst (se_path e) ->
  exec_task c now m (plan_entry c ds dst e) = inl m' ->
  if needs c ds dst e then file_post e (m' (se_path e)) else m' (se_path e) = dst (se_path e).
Proof.
  intros Hdry Hd Hm E. unfold needs, file_post. unfold exec_task in E. rewrite Hdry in E.
  unfold plan_entry in *. rewrite Hd in *. cbn [t_action t_src t_path] in *.
  destruct (dst (se_path e)) as [[dc dsz dmt|]|] eqn:Ed.
  - set (a := if c_checksum c then if N.eqb dc (se_content e) then ASkip else AUpdate
              else if needs_update c e dsz dmt then AUpdate else ASkip) in *.
    assert (Ha : a = ASkip \/ a = AUpdate) by (subst a; destruct (c_checksum c), (N.eqb dc (se_content e)), (needs_update c e dsz dmt); auto).
    destruct Ha as [Ha|Ha]; rewrite Ha in *.
    + inversion E; subst. rewrite Hm. reflexivity.
    + rewrite Hd in E. unfold update_file in E. rewrite Hm in E.
      destruct (N.ltb dsz (c_big c)) eqn:Eb.
      * unfold copy_file, mkdir_parents in E. destruct (mkdirs m (proper_prefixes (se_path e))) as [m1|]; [|discriminate].
        destruct (m1 (se_path e)) as [[? ? ?|]|]; inversion E; subst; try discriminate; rewrite fs_set_same; reflexivity.
      * inversion E; subst. rewrite fs_set_same. reflexivity.
  - (* a directory in the file's place: the update fails *)
    rewrite Hd in E. unfold update_file in E. rewrite Hm in E. discriminate.
  - rewrite Hd in E. unfold copy_file, mkdir_parents in E. destruct (mkdirs m (proper_prefixes (se_path e))) as [m1|]; [|discriminate].
    destruct (m1 (se_path e)) as [[? ? ?|]|]; inversion E; subst; try discriminate; rewrite fs_set_same; reflexivity.
Qed.

Lemma own_task_dir c ds now dst m m' e :
  c_dry_run c = false -> se_is_dir e = true ->
  (m (se_path e) = dst (se_path e) \/ m (se_path e) = Some Dir) ->
  exec_task c now m (plan_entry c ds dst e) = inl m' -> m' (se_path e) = Some Dir.
Proof.
  intros Hdry Hd Hm E. unfold exec_task in E. rewrite Hdry in E. unfold plan_entry in E. rewrite Hd in E. cbn [t_action t_src t_path] in E.
  destruct (dst (se_path e)) as [[cc s t|]|] eqn:Ed.
  - (* a file in the directory's place: the task is Create, and create_dir_all cannot succeed over the file *)
    rewrite Hd in E. unfold mkdir_all in E. destruct (mkdirs_frame _ _ _ E) as (_ & F2 & F3).
    assert (Hin : In (se_path e) (proper_prefixes (se_path e) ++ [se_path e])) by (apply in_or_app; right; left; reflexivity).
    destruct Hm as [Hm|Hm]; [|apply F2; exact Hin].
    pose proof (F2 _ Hin) as A. pose proof (F3 _ _ Hm) as B. congruence.
  - inversion E; subst. destruct Hm as [Hm|Hm]; exact Hm.
  - rewrite Hd in E. unfold mkdir_all in E. destruct (mkdirs_frame _ _ _ E) as (_ & F2 & _). apply F2. apply in_or_app. right. left. reflexivity.
Qed.

(* ---------- the whole run ---------- *)
Lemma exec_task_none c now m t m' q :
  task_ok t -> t_action t <> ADelete -> exec_task c now m t = inl m' -> q <> t_path t -> m q = None ->
  m' q = None \/ m' q = Some Dir.
Proof.
  intros Hok Hnd E Hq Hx. unfold exec_task in E. destruct (c_dry_run c); [left; assert (m' = m) by congruence; subst; exact Hx|].
  unfold task_ok in Hok.
  assert (Hmk : forall ps m1, mkdirs m ps = inl m1 -> m1 q = None \/ m1 q = Some Dir).
  { intros ps m1 Em. destruct (mkdirs_frame _ _ _ Em) as (F1 & F2 & _).
    destruct (in_dec (list_eq_dec N.eq_dec) q ps) as [Hin|Hnin]; [right; apply F2; exact Hin | left; rewrite F1 by exact Hnin; exact Hx]. }
  assert (Hcp : forall e m2, t_path t = se_path e -> copy_file m e = inl m2 -> m2 q = None \/ m2 q = Some Dir).
  { intros e m2 Hp Ec. unfold copy_file, mkdir_parents in Ec. destruct (mkdirs m (proper_prefixes (se_path e))) as [m1|] eqn:Em; [|discriminate].
    destruct (m1 (se_path e)) as [[? ? ?|]|]; inversion Ec; subst; try discriminate; (rewrite fs_set_other by congruence; eapply Hmk; exact Em). }
  destruct (t_action t) eqn:Ea; try congruence.
  - left. destruct (t_src t); (assert (m' = m) by congruence; subst; exact Hx).
  - destruct (t_src t) as [e|]; [|left; assert (m' = m) by congruence; subst; exact Hx]. destruct (se_is_dir e).
    + unfold mkdir_all in E. eapply Hmk. exact E.
    + eapply Hcp; eassumption.
  - destruct (t_src t) as [e|]; [|left; assert (m' = m) by congruence; subst; exact Hx].
    destruct (se_is_dir e); [left; assert (m' = m) by congruence; subst; exact Hx|].
    unfold update_file in E. destruct (m (se_path e)) as [[dc dsz dmt|]|] eqn:Ed; [| discriminate | eapply Hcp; eassumption].
    destruct (N.ltb dsz (c_big c)); [eapply Hcp; eassumption|].
    left. inversion E; subst. rewrite fs_set_other by congruence. exact Hx.
Qed.

Lemma exec_task_created_is_ancestor c now m t m' q :
  task_ok t -> t_action t <> ADelete -> exec_task c now m t = inl m' -> q <> t_path t -> m q = None -> m' q = Some Dir ->
  proper q (t_path t).
Proof.
  intros Hok Hnd E Hq Hx Hd. unfold exec_task in E. destruct (c_dry_run c); [assert (m' = m) by congruence; subst; congruence|].
  unfold task_ok in Hok.
  assert (Hmk : forall p m1, mkdirs m (proper_prefixes p) = inl m1 -> m1 q = Some Dir -> proper q p).
  { intros p m1 Em Hq1. destruct (mkdirs_frame _ _ _ Em) as (F1 & _ & _).
    destruct (in_dec (list_eq_dec N.eq_dec) q (proper_prefixes p)) as [Hin|Hnin]; [apply proper_prefixes_spec; exact Hin|].
    rewrite F1 in Hq1 by exact Hnin. congruence. }
  assert (Hcp : forall e m2, t_path t = se_path e -> copy_file m e = inl m2 -> m2 q = Some Dir -> proper q (se_path e)).
  { intros e m2 Hp Ec Hq2. unfold copy_file, mkdir_parents in Ec. destruct (mkdirs m (proper_prefixes (se_path e))) as [m1|] eqn:Em; [|discriminate].
    destruct (m1 (se_path e)) as [[? ? ?|]|]; inversion Ec; subst; try discriminate; (rewrite fs_set_other in Hq2 by congruence; eapply Hmk; eassumption). }
  destruct (t_action t) eqn:Ea; try congruence.
  - destruct (t_src t) as [e|]; [|assert (m' = m) by congruence; subst; congruence]. rewrite Hok. destruct (se_is_dir e).
    + unfold mkdir_all in E. destruct (mkdirs_frame _ _ _ E) as (F1 & _ & _).
      destruct (in_dec (list_eq_dec N.eq_dec) q (proper_prefixes (se_path e) ++ [se_path e])) as [Hin|Hnin].
      * apply in_app_or in Hin. destruct Hin as [Hin|[Hin|[]]]; [apply proper_prefixes_spec; exact Hin | congruence].
      * rewrite F1 in Hd by exact Hnin. congruence.
    + eapply Hcp; eassumption.
  - destruct (t_src t) as [e|]; [|assert (m' = m) by congruence; subst; congruence]. rewrite Hok.
    destruct (se_is_dir e); [assert (m' = m) by congruence; subst; congruence|].
    unfold update_file in E. destruct (m (se_path e)) as [[dc dsz dmt|]|] eqn:Ed; [| discriminate | eapply Hcp; eassumption].
    destruct (N.ltb dsz (c_big c)); [eapply Hcp; eassumption|].
    inversion E; subst. rewrite fs_set_other in Hd by congruence. congruence.
Qed.

(* the state of an entry that C01 requires after a successful run *)
Definition good (c : cfg) (ds : path -> N * Z) (now : Z) (dst : fs) (e : sentry) (x : node) : Prop :=
  if se_is_dir e then x = Dir
  else if needs c ds dst e then file_post e (Some x) else Some x = dst (se_path e).

Definition post (c : cfg) (ds : path -> N * Z) (now : Z) (dst : fs) (m : fs) (e : sentry) : Prop :=
  exists x, m (se_path e) = Some x /\ good c ds now dst e x.

Lemma plan_entry_ok c ds dst e : task_ok (plan_entry c ds dst e) /\ t_action (plan_entry c ds dst e) <> ADelete /\ t_path (plan_entry c ds dst e) = se_path e.
Proof.
  unfold plan_entry, task_ok. cbn [t_src t_path t_action]. repeat split.
  destruct (se_is_dir e); destruct (dst (se_path e)) as [[dc dsz dmt|]|]; try discriminate;
    try (destruct (c_checksum c), (N.eqb dc (se_content e)), (needs_update c e dsz dmt); discriminate).
Qed.

Lemma skip_means_file c ds dst e : se_is_dir e = false -> needs c ds dst e = false ->
  exists dc dsz dmt, dst (se_path e) = Some (File dc dsz dmt).
Proof.
  unfold needs, plan_entry. intros Hd. rewrite Hd. cbn [t_action].
  destruct (dst (se_path e)) as [[dc dsz dmt|]|]; [eauto | discriminate | discriminate].
Qed.

(* no entry of the wrong kind at the path of an entry whose task succeeds *)
Definition okk (dst : fs) (e : sentry) : Prop :=
  (se_is_dir e = true -> forall cc s t, dst (se_path e) <> Some (File cc s t)) /\
  (se_is_dir e = false -> dst (se_path e) <> Some Dir).

Lemma dir_task_success_not_file c ds now dst m m' e :
  c_dry_run c = false -> se_is_dir e = true -> m (se_path e) = dst (se_path e) ->
  exec_task c now m (plan_entry c ds dst e) = inl m' -> forall cc s t, dst (se_path e) <> Some (File cc s t).
Proof.
  intros Hdry Hd Hm E cc s t Ed. unfold exec_task in E. rewrite Hdry in E. unfold plan_entry in E. rewrite Hd, Ed in E. cbn [t_action t_src t_path] in E.
  rewrite Hd in E. unfold mkdir_all in E. destruct (mkdirs_frame _ _ _ E) as (_ & F2 & F3).
  assert (Hin : In (se_path e) (proper_prefixes (se_path e) ++ [se_path e])) by (apply in_or_app; right; left; reflexivity).
  rewrite Ed in Hm. pose proof (F2 _ Hin) as A. pose proof (F3 _ _ Hm) as B. congruence.
Qed.

Lemma file_task_success_not_dir c ds now dst m m' e :
  c_dry_run c = false -> se_is_dir e = false -> m (se_path e) = dst (se_path e) ->
  exec_task c now m (plan_entry c ds dst e) = inl m' -> dst (se_path e) <> Some Dir.
Proof.
  intros Hdry Hd Hm E Ed. unfold exec_task in E. rewrite Hdry in E. unfold plan_entry in E. rewrite Hd, Ed in E. cbn [t_action t_src t_path] in E.
  rewrite Hd in E. unfold update_file in E. rewrite Hm, Ed in E. discriminate.
Qed.

Lemma src_tasks_post c ds now dst : c_dry_run c = false ->
  forall todo done m mf,
    src_wf (done ++ todo) ->
    (forall e, In e done -> post c ds now dst m e /\ okk dst e) ->
    (forall e, In e todo -> m (se_path e) = dst (se_path e) \/ (se_is_dir e = true /\ m (se_path e) = Some Dir /\ dst (se_path e) = None)) ->
    exec_seq c now m (map (plan_entry c ds dst) todo) = Some mf ->
    forall e, In e (done ++ todo) -> post c ds now dst mf e /\ okk dst e.
Proof.
  intros Hdry. induction todo as [|e0 todo IH]; intros done m mf Hwf Hdone Htodo E e He.
  - cbn in E. inversion E; subst. rewrite app_nil_r in He. apply Hdone. exact He.
  - cbn [map exec_seq] in E. destruct (exec_task c now m (plan_entry c ds dst e0)) as [m1|] eqn:E0; [|discriminate].
    destruct (plan_entry_ok c ds dst e0) as (Hok & Hnd & Hp).
    assert (Hwf' : src_wf ((done ++ [e0]) ++ todo)) by (rewrite <- app_assoc; exact Hwf).
    assert (He' : In e ((done ++ [e0]) ++ todo)) by (rewrite <- app_assoc; exact He).
    destruct Hwf as (Hnd_paths & Hne & Hfile & Hclosed).
    assert (Hdistinct : forall e1, In e1 (done ++ todo) -> se_path e1 <> se_path e0).
    { intros e1 H1 Eq. unfold paths_of in Hnd_paths. rewrite map_app in Hnd_paths. cbn [map] in Hnd_paths.
      apply NoDup_remove_2 in Hnd_paths. apply Hnd_paths. rewrite <- Eq. rewrite <- map_app. apply in_map. exact H1. }
    apply (IH (done ++ [e0]) m1 mf Hwf'); [ | | exact E | exact He'].
    + (* entries already done keep their state; e0 reaches it *)
      intros e1 H1. apply in_app_or in H1. destruct H1 as [H1|[H1|[]]].
      * destruct (Hdone e1 H1) as [(x & Hx & Hg) Hokk]. split; [|exact Hokk]. exists x. split; [|exact Hg].
        eapply exec_task_keeps; try eassumption. rewrite Hp. apply Hdistinct. apply in_or_app. left. exact H1.
      * subst e1.
        assert (Hin0 : In e0 (done ++ e0 :: todo)) by (apply in_or_app; right; left; reflexivity).
        split.
        2:{ (* the task of e0 succeeded: nothing of the wrong kind was in its place *)
            unfold okk. destruct (Htodo e0 (or_introl eq_refl)) as [Hm|(Hd0 & _ & Hnone)].
            - split; intro Hd0; [eapply dir_task_success_not_file; eassumption | eapply file_task_success_not_dir; eassumption].
            - split; intro Hd1; [intros cc s t; congruence | congruence]. }
        destruct (se_is_dir e0) eqn:Hd.
        -- exists Dir. split; [|unfold good; rewrite Hd; reflexivity].
           eapply own_task_dir; try eassumption.
           destruct (Htodo e0 (or_introl eq_refl)) as [H|(_ & H & _)]; [left|right]; exact H.
        -- destruct (Htodo e0 (or_introl eq_refl)) as [Hm|[Hcontra _]]; [|congruence].
           pose proof (own_task_file c ds now dst m m1 e0 Hdry Hd Hm E0) as Hown. unfold post, good. rewrite Hd.
           destruct (needs c ds dst e0) eqn:En.
           ++ unfold file_post in Hown. eexists. split; [exact Hown | reflexivity].
           ++ destruct (skip_means_file c ds dst e0 Hd En) as (dc & dsz & dmt & Ed). exists (File dc dsz dmt). rewrite Hown, Ed. split; reflexivity.
    + (* entries still to do are untouched, or (directories) already created *)
      intros e1 H1.
      assert (Hin1 : In e1 (done ++ e0 :: todo)) by (apply in_or_app; right; right; exact H1).
      assert (Hin0 : In e0 (done ++ e0 :: todo)) by (apply in_or_app; right; left; reflexivity).
      assert (Hq : se_path e1 <> t_path (plan_entry c ds dst e0)).
      { rewrite Hp. apply Hdistinct. apply in_or_app. right. exact H1. }
      destruct (Htodo e1 (or_intror H1)) as [Hm|(Hd & Hm & Hnone)].
      * destruct (m (se_path e1)) as [x|] eqn:Ex.
        -- left. rewrite <- Hm. eapply exec_task_keeps; eassumption.
        -- destruct (exec_task_none c now m _ m1 (se_path e1) Hok Hnd E0 Hq Ex) as [Hn|Hn]; [left; congruence|].
           (* a directory appeared at e1's path: it is a proper ancestor of e0, hence e1 is a directory *)
           destruct (se_is_dir e1) eqn:Hd1; [right; split; [reflexivity | split; [exact Hn | congruence]]|].
           exfalso. pose proof (exec_task_created_is_ancestor c now m _ m1 (se_path e1) Hok Hnd E0 Hq Ex Hn) as Hanc.
           rewrite Hp in Hanc. exact (Hfile e1 e0 Hin1 Hin0 Hd1 Hanc).
      * right. split; [exact Hd|]. split; [eapply exec_task_keeps; eassumption | exact Hnone].
Qed.

Lemma exec_seq_app c now : forall a b m, exec_seq c now m (a ++ b) =
  match exec_seq c now m a with Some m1 => exec_seq c now m1 b | None => None end.
Proof.
  induction a as [|t a IH]; intros b m; [reflexivity|]. cbn [app exec_seq].
  destruct (exec_task c now m t); [apply IH | reflexivity].
Qed.

Definition del_task_ok (src : list sentry) (t : task) : Prop :=
  t_action t = ADelete /\ t_src t = None /\ t_path t <> [] /\ ~ In (t_path t) (paths_of src).

Lemma dels_preserve c ds now dst src : src_wf src ->
  forall dels m mf, (forall t, In t dels -> del_task_ok src t) -> exec_seq c now m dels = Some mf ->
  forall e, In e src -> post c ds now dst m e -> post c ds now dst mf e.
Proof.
  intros (Hnd & Hne & Hfile & Hclosed). induction dels as [|t dels IH]; intros m mf Hall E e He Hpost.
  - cbn in E. inversion E; subst. exact Hpost.
  - cbn [exec_seq] in E. destruct (exec_task c now m t) as [m1|] eqn:Et; [|discriminate].
    apply (IH m1 mf); [intros t' Ht'; apply Hall; right; exact Ht' | exact E | exact He|].
    destruct (Hall t (or_introl eq_refl)) as (Ha & Hs & Hp0 & Hnin).
    destruct Hpost as (x & Hx & Hg). exists x. split; [|exact Hg]. rewrite <- Hx.
    apply (exec_task_frame c now m t m1); [unfold task_ok; rewrite Hs; exact Ha | exact Et|].
    unfold task_touches. rewrite Ha. intro Hpre. apply pprefix_spec in Hpre. destruct Hpre as (r & Er).
    destruct r as [|r0 r].
    + rewrite app_nil_r in Er. apply Hnin. rewrite <- Er. unfold paths_of. apply in_map. exact He.
    + destruct (Hclosed e (t_path t) He) as (d & Hd & Hdp & _).
      * split; [exact Hp0|]. exists (r0 :: r). split; [discriminate | exact Er].
      * apply Hnin. rewrite <- Hdp. unfold paths_of. apply in_map. exact Hd.
Qed.

Lemma plan_deletions_ok keep src listing (dst : fs) :
  dst [] = None -> (forall p, In p listing -> dst p <> None) ->
  forall t, In t (plan_deletions (keep ++ src) listing) -> del_task_ok src t.
Proof.
  intros Hroot Hl t Ht. unfold plan_deletions in Ht. apply in_map_iff in Ht. destruct Ht as (p & <- & Hp).
  apply filter_In in Hp. destruct Hp as [Hin Hf]. unfold del_task_ok. cbn [t_action t_src t_path]. repeat split.
  - intro Ep. subst p. apply (Hl [] Hin). exact Hroot.
  - intro Hc. unfold paths_of in Hc. apply in_map_iff in Hc. destruct Hc as (e & Ee & He).
    apply negb_true_iff in Hf. assert (existsb (fun e0 => peqb (se_path e0) p) (keep ++ src) = true); [|congruence].
    apply existsb_exists. exists e. split; [apply in_or_app; right; exact He | apply peqb_eq; exact Ee].
Qed.

(* ---------- C01: postcondition of a successful run ---------- *)
Theorem run_post refuse ds c now U keep src dst :
  src_wf src -> c_dry_run c = false -> dst [] = None ->
  let r := run refuse ds c now U keep src dst in
  r_refused r = false -> r_errors r = [] ->
  forall e, In e src -> post c ds now dst (r_fs r) e.
Proof.
  intros Hwf Hdry Hroot r Href Herr e He. subst r. unfold run in *. cbv zeta in *.
  set (listing := filter (fun p => match dst p with Some _ => true | None => false end) U) in *.
  set (dels := if c_delete c then plan_deletions (keep ++ src) listing else []) in *.
  match type of Href with context [if ?b then _ else _] => destruct b eqn:Eb end; [cbn in Href; discriminate|].
  destruct (exec_all_noerr _ _ _ _ _ _ Herr) as [_ Eseq].
  rewrite exec_seq_app in Eseq.
  destruct (exec_seq c now dst (map (plan_entry c ds dst) src)) as [m1|] eqn:E1; [|discriminate].
  apply (dels_preserve c ds now dst src Hwf dels m1); [| exact Eseq | exact He |].
  - intros t Ht. subst dels. destruct (c_delete c); [|destruct Ht].
    eapply plan_deletions_ok; [exact Hroot | | exact Ht].
    intros p Hp. subst listing. apply filter_In in Hp. destruct Hp as [_ Hp]. destruct (dst p); [discriminate | discriminate].
  - apply (src_tasks_post c ds now dst Hdry src [] dst m1); try assumption; [intros e1 [] | intros e1 _; left; reflexivity].
Qed.

(* a run that is not refused and reports no error met no entry of the wrong kind: a file where the source has a directory makes the
   directory's creation fail, a directory where the source has a file makes the copy fail (`fix: an entry of the wrong kind in the
   destination is reported, not skipped`) *)
Theorem run_no_conflicts refuse ds c now U keep src dst :
  src_wf src -> c_dry_run c = false ->
  let r := run refuse ds c now U keep src dst in
  r_refused r = false -> r_errors r = [] ->
  forall e, In e src -> okk dst e.
Proof.
  intros Hwf Hdry r Href Herr e He. subst r. unfold run in *. cbv zeta in *.
  match type of Href with context [if ?b then _ else _] => destruct b eqn:Eb end; [cbn in Href; discriminate|].
  destruct (exec_all_noerr _ _ _ _ _ _ Herr) as [_ Eseq].
  rewrite exec_seq_app in Eseq.
  destruct (exec_seq c now dst (map (plan_entry c ds dst) src)) as [m1|] eqn:E1; [|discriminate].
  apply (src_tasks_post c ds now dst Hdry src [] dst m1); try assumption; [intros e1 [] | intros e1 _; left; reflexivity].
Qed.


(* ---------- C07 / C08: refusal and dry-run leave the destination as it was ---------- *)
Lemma exec_all_dry c now : c_dry_run c = true -> forall ts m errs evs, r_fs (exec_all c now m ts errs evs) = m.
Proof.
  intros Hdry. induction ts as [|t ts IH]; intros m errs evs; [reflexivity|].
  cbn [exec_all]. unfold exec_task. rewrite Hdry. apply IH.
Qed.

Theorem dry_run_changes_nothing refuse ds c now U keep src dst :
  c_dry_run c = true -> r_fs (run refuse ds c now U keep src dst) = dst.
Proof.
  intro Hdry. unfold run. match goal with |- context [if ?b then _ else _] => destruct b end; [reflexivity | apply exec_all_dry; exact Hdry].
Qed.

Theorem refusal_changes_nothing refuse ds c now U keep src dst :
  r_refused (run refuse ds c now U keep src dst) = true ->
  r_fs (run refuse ds c now U keep src dst) = dst /\ exit_status c (run refuse ds c now U keep src dst) = 1%Z /\ r_events (run refuse ds c now U keep src dst) = [].
Proof.
  unfold run. match goal with |- context [if ?b then _ else _] => destruct b eqn:Eb end.
  - intros _. repeat split.
  - intro H. exfalso. revert H. generalize (map (plan_entry c ds dst) src ++ (if c_delete c then plan_deletions (keep ++ src) (filter (fun p => match dst p with Some _ => true | None => false end) U) else [])).
    intro ts. generalize (@nil (path * eaction * err)) (@nil (eaction * path)). generalize dst.
    induction ts as [|t ts IH]; intros m errs evs; cbn [exec_all]; [cbn; discriminate|].
    destruct (exec_task c now m t); apply IH.
Qed.

Theorem refuses_when_guard_fires refuse ds c now U keep src dst :
  let listing := filter (fun p => match dst p with Some _ => true | None => false end) U in
  let dels := plan_deletions (keep ++ src) listing in
  c_delete c = true -> c_force_delete c = false -> dels <> [] ->
  refuse (Z.of_nat (length dels)) (Z.of_nat (length listing)) (c_threshold c) = true ->
  r_refused (run refuse ds c now U keep src dst) = true.
Proof.
  intros listing dels Hd Hf Hne Hr. unfold run. fold listing. rewrite Hd. fold dels. rewrite Hf, Hr. cbn [negb andb].
  destruct dels; [congruence | reflexivity].
Qed.

(* ---------- C06 (first half): without --delete nothing that lacks a source counterpart is touched ---------- *)
Lemma exec_all_keeps c now : forall ts m errs evs q x,
  (forall t, In t ts -> task_ok t /\ t_action t <> ADelete /\ t_path t <> q) ->
  m q = Some x -> r_fs (exec_all c now m ts errs evs) q = Some x.
Proof.
  induction ts as [|t ts IH]; intros m errs evs q x Hall Hx; [exact Hx|].
  cbn [exec_all]. destruct (Hall t (or_introl eq_refl)) as (Hok & Hnd & Hp).
  destruct (exec_task c now m t) as [m1|] eqn:Et.
  - apply IH; [intros t' Ht'; apply Hall; right; exact Ht'|]. eapply exec_task_keeps; try eassumption. congruence.
  - apply IH; [intros t' Ht'; apply Hall; right; exact Ht' | exact Hx].
Qed.

Theorem no_delete_no_loss refuse ds c now U keep src dst q x :
  c_delete c = false -> ~ In q (paths_of src) -> dst q = Some x ->
  r_fs (run refuse ds c now U keep src dst) q = Some x.
Proof.
  intros Hd Hq Hx. unfold run. rewrite Hd. cbn [andb]. rewrite app_nil_r.
  apply exec_all_keeps; [|exact Hx].
  intros t Ht. apply in_map_iff in Ht. destruct Ht as (e & <- & He).
  destruct (plan_entry_ok c ds dst e) as (Hok & Hnd & Hp). repeat split; try assumption.
  rewrite Hp. intro Eq. apply Hq. rewrite <- Eq. unfold paths_of. apply in_map. exact He.
Qed.

(* ---------- deletions: never an error, never create anything ---------- *)
Lemma delete_effect c now m t :
  c_dry_run c = false -> t_action t = ADelete ->
  exists m', exec_task c now m t = inl m' /\ m' (t_path t) = None /\ (forall q, m q = None -> m' q = None).
Proof.
  intros Hdry Ha. unfold exec_task. rewrite Hdry, Ha.
  assert (E : (match t_src t with | Some _ | None => match m (t_path t) with None => inl m | Some _ => remove m (t_path t) end end : fs + err)
              = match m (t_path t) with None => inl m | Some _ => remove m (t_path t) end) by (destruct (t_src t); reflexivity).
  destruct (t_src t); unfold remove; destruct (m (t_path t)) as [[? ? ?|]|] eqn:Ed; eexists; (split; [reflexivity|]); split;
    try (rewrite fs_set_same; reflexivity); try exact Ed;
    try (intros q Hq; unfold fs_set; destruct (peqb q (t_path t)); [reflexivity | exact Hq]);
    try (rewrite (proj2 (pprefix_spec (t_path t) (t_path t)) (ex_intro _ [] (eq_sym (app_nil_r _)))); reflexivity);
    try (intros q Hq; destruct (pprefix (t_path t) q); [reflexivity | exact Hq]); try (intros q Hq; exact Hq).
Qed.

Lemma dels_never_fail c now : c_dry_run c = false -> forall ds m, (forall t, In t ds -> t_action t = ADelete) ->
  exists mf, exec_seq c now m ds = Some mf /\
             forall q, (In q (map t_path ds) \/ m q = None) -> mf q = None.
Proof.
  intros Hdry. induction ds as [|t ds IH]; intros m Hall.
  - exists m. split; [reflexivity|]. intros q [[]|H]; exact H.
  - destruct (delete_effect c now m t Hdry (Hall t (or_introl eq_refl))) as (m1 & E1 & Hp & Hnone).
    destruct (IH m1 (fun t' Ht' => Hall t' (or_intror Ht'))) as (mf & Ef & Hq).
    exists mf. split; [cbn [exec_seq]; rewrite E1; exact Ef|].
    intros q [[<-|Hin]|Hn]; apply Hq; [right; exact Hp | left; exact Hin | right; apply Hnone; exact Hn].
Qed.

(* a path outside the source listing that does not exist stays absent through the create/update tasks *)
Lemma src_tasks_keep_absent c ds now dst : forall todo m mf q,
  (forall e a, In e todo -> proper a (se_path e) -> a <> q) -> (forall e, In e todo -> se_path e <> q) ->
  m q = None -> exec_seq c now m (map (plan_entry c ds dst) todo) = Some mf -> mf q = None.
Proof.
  induction todo as [|e0 todo IH]; intros m mf q Hanc Hne Hm E.
  - cbn in E. inversion E; subst. exact Hm.
  - cbn [map exec_seq] in E. destruct (exec_task c now m (plan_entry c ds dst e0)) as [m1|] eqn:E0; [|discriminate].
    destruct (plan_entry_ok c ds dst e0) as (Hok & Hnd & Hp).
    apply (IH m1 mf q); [intros e a He; apply Hanc; right; exact He | intros e He; apply Hne; right; exact He | | exact E].
    assert (Hq : q <> t_path (plan_entry c ds dst e0)) by (rewrite Hp; intro Eq; apply (Hne e0 (or_introl eq_refl)); congruence).
    destruct (exec_task_none c now m _ m1 q Hok Hnd E0 Hq Hm) as [Hn|Hd]; [exact Hn|].
    exfalso. pose proof (exec_task_created_is_ancestor c now m _ m1 q Hok Hnd E0 Hq Hm Hd) as Hpr. rewrite Hp in Hpr.
    exact (Hanc e0 q (or_introl eq_refl) Hpr eq_refl).
Qed.

(* ---------- C06: exact mirror ---------- *)
Lemma paths_of_app a b : paths_of (a ++ b) = paths_of a ++ paths_of b.
Proof. unfold paths_of. apply map_app. Qed.

(* with --delete, a destination path that has no counterpart anywhere in the source scan (selected or filtered out) is gone *)
Theorem stale_removed refuse ds c now U keep src dst :
  src_wf src -> c_dry_run c = false -> c_delete c = true -> dst [] = None ->
  let r := run refuse ds c now U keep src dst in
  r_refused r = false -> r_errors r = [] ->
  forall q, In q U -> ~ In q (paths_of (keep ++ src)) -> r_fs r q = None.
Proof.
  intros Hwf Hdry Hdel Hroot r Href Herr q HqU Hnin0.
  assert (Hnin : ~ In q (paths_of src)) by (intro H; apply Hnin0; rewrite paths_of_app; apply in_or_app; right; exact H).
  subst r. unfold run in *. cbv zeta in *. rewrite Hdel in *.
  match type of Href with context [if ?b then _ else _] => destruct b eqn:Eb end; [cbn in Href; discriminate|].
  destruct (exec_all_noerr _ _ _ _ _ _ Herr) as [_ Eseq]. cbv iota beta in Eseq. rewrite exec_seq_app in Eseq.
  destruct (exec_seq c now dst (map (plan_entry c ds dst) src)) as [m1|] eqn:E1; [|discriminate].
  destruct (dels_never_fail c now Hdry (plan_deletions (keep ++ src) (filter (fun p => match dst p with Some _ => true | None => false end) U)) m1) as (mf & Ef & Hq).
  { intros t Ht. unfold plan_deletions in Ht. apply in_map_iff in Ht. destruct Ht as (p & <- & _). reflexivity. }
  pose proof (eq_trans (eq_sym Ef) Eseq) as Emf. injection Emf as Emf. rewrite <- Emf. apply Hq.
  destruct (dst q) as [x|] eqn:Edq.
  + left. unfold plan_deletions. rewrite map_map. cbn [t_path]. rewrite map_id. apply filter_In. split.
    * apply filter_In. split; [exact HqU | rewrite Edq; reflexivity].
    * apply negb_true_iff. destruct (existsb (fun e => peqb (se_path e) q) (keep ++ src)) eqn:Ex; [|reflexivity].
      exfalso. apply existsb_exists in Ex. destruct Ex as (e & He & Ee). apply peqb_eq in Ee. apply Hnin0. rewrite <- Ee. unfold paths_of. apply in_map. exact He.
  + right. destruct Hwf as (_ & _ & _ & Hclosed).
    apply (src_tasks_keep_absent c ds now dst src dst m1 q); [| | exact Edq | exact E1].
    * intros e a He Hpr Eq. subst a. destruct (Hclosed e q He Hpr) as (d & Hd & Hdp & _). apply Hnin. rewrite <- Hdp. unfold paths_of. apply in_map. exact Hd.
    * intros e He Eq. apply Hnin. rewrite <- Eq. unfold paths_of. apply in_map. exact He.
Qed.

(* an UNFILTERED run (nothing kept out): the destination's paths are exactly the source's *)
Theorem mirror refuse ds c now U src dst :
  src_wf src -> c_dry_run c = false -> c_delete c = true -> dst [] = None ->
  let r := run refuse ds c now U [] src dst in
  r_refused r = false -> r_errors r = [] ->
  forall q, In q U -> (r_fs r q <> None <-> In q (paths_of src)).
Proof.
  intros Hwf Hdry Hdel Hroot r Href Herr q HqU. split.
  - intro Hsome. destruct (in_dec (list_eq_dec N.eq_dec) q (paths_of src)) as [Hin|Hnin]; [exact Hin|]. exfalso. apply Hsome.
    apply (stale_removed refuse ds c now U [] src dst Hwf Hdry Hdel Hroot Href Herr q HqU). exact Hnin.
  - intro Hin. unfold paths_of in Hin. apply in_map_iff in Hin. destruct Hin as (e & <- & He).
    destruct (run_post refuse ds c now U [] src dst Hwf Hdry Hroot Href Herr e He) as (x & Hx & _). fold r in Hx. congruence.
Qed.

(* ---------- C10: truthful exit status ---------- *)
Theorem exit0_no_errors c r : exit_status c r = 0%Z -> r_refused r = false /\ r_errors r = [].
Proof.
  unfold exit_status. destruct (r_refused r); [discriminate|].
  destruct (negb (N.eqb (c_max_errors c) 0) && N.leb (c_max_errors c) (N.of_nat (length (r_errors r)))); [discriminate|].
  destruct (r_errors r); [split; reflexivity | discriminate].
Qed.

(* ---------- C19: the event list of an error-free run ---------- *)
Lemma exec_all_events c now : forall ts m errs evs,
  r_errors (exec_all c now m ts errs evs) = [] ->
  r_events (exec_all c now m ts errs evs) = rev evs ++ map (fun t => (t_action t, t_path t)) ts.
Proof.
  induction ts as [|t ts IH]; intros m errs evs H.
  - cbn. rewrite app_nil_r. reflexivity.
  - cbn [exec_all map] in *. destruct (exec_task c now m t) as [m'|x].
    + rewrite (IH _ _ _ H). cbn [rev]. rewrite <- app_assoc. reflexivity.
    + destruct (exec_all_noerr _ _ _ _ _ _ H) as [E _]. discriminate.
Qed.

Definition event_true (dst final : fs) (ev : eaction * path) : Prop :=
  match fst ev with
  | ACreate => dst (snd ev) = None /\ final (snd ev) <> None
  | AUpdate => (exists c s t, dst (snd ev) = Some (File c s t)) /\ exists c s t, final (snd ev) = Some (File c s t)
  | ASkip => final (snd ev) = dst (snd ev)
  | ADelete => dst (snd ev) <> None /\ final (snd ev) = None
  end.

Theorem events_truthful refuse ds c now U keep src dst :
  src_wf src -> c_dry_run c = false -> dst [] = None ->
  (forall p, dst p <> None -> In p U) ->
  let r := run refuse ds c now U keep src dst in
  r_refused r = false -> r_errors r = [] ->
  forall ev, In ev (r_events r) -> event_true dst (r_fs r) ev.
Proof.
  intros Hwf Hdry Hroot HU r Href Herr ev Hev.
  pose proof (run_post refuse ds c now U keep src dst Hwf Hdry Hroot Href Herr) as Hpost.
  pose proof (run_no_conflicts refuse ds c now U keep src dst Hwf Hdry Href Herr) as Hokk.
  assert (Hnf : forall e, In e src -> se_is_dir e = true -> forall cc s t, dst (se_path e) <> Some (File cc s t)) by (intros e0 H0 Hd0; apply (Hokk e0 H0); exact Hd0).
  assert (Hnd2 : forall e, In e src -> se_is_dir e = false -> dst (se_path e) <> Some Dir) by (intros e0 H0 Hd0; apply (Hokk e0 H0); exact Hd0).
  assert (Hevs : r_events r = map (fun t => (t_action t, t_path t))
                   (map (plan_entry c ds dst) src ++ (if c_delete c then plan_deletions (keep ++ src) (filter (fun p => match dst p with Some _ => true | None => false end) U) else []))).
  { subst r. unfold run in *. cbv zeta in *.
    match type of Href with context [if ?b then _ else _] => destruct b eqn:Eb end; [cbn in Href; discriminate|].
    apply (exec_all_events c now _ dst [] [] Herr). }
  rewrite Hevs in Hev. apply in_map_iff in Hev. destruct Hev as (t & <- & Ht). apply in_app_or in Ht. destruct Ht as [Ht|Ht].
  - apply in_map_iff in Ht. destruct Ht as (e & <- & He). destruct (plan_entry_ok c ds dst e) as (_ & _ & Hp).
    destruct (Hpost e He) as (x & Hx & Hg). fold r in Hx. unfold event_true. cbn [fst snd]. rewrite Hp.
    unfold good, needs in Hg. unfold plan_entry in *. cbn [t_action] in *.
    destruct (se_is_dir e) eqn:Hd.
    + destruct (dst (se_path e)) as [y|] eqn:Ed.
      * cbn. rewrite Hx, Hg. destruct y as [cc s t|]; [exfalso; eapply Hnf; eassumption | reflexivity].
      * cbn. split; [reflexivity | congruence].
    + destruct (dst (se_path e)) as [[dc dsz dmt|]|] eqn:Ed.
      * set (a := if c_checksum c then if N.eqb dc (se_content e) then ASkip else AUpdate else if needs_update c e dsz dmt then AUpdate else ASkip) in *.
        assert (Ha : a = ASkip \/ a = AUpdate) by (subst a; destruct (c_checksum c), (N.eqb dc (se_content e)), (needs_update c e dsz dmt); auto).
        destruct Ha as [Ha|Ha]; rewrite Ha in *; cbn.
        -- rewrite Hx. exact Hg.
        -- split; [eauto|]. unfold file_post in Hg. inversion Hg; subst. eauto.
      * exfalso. eapply Hnd2; eassumption.
      * cbn. split; [reflexivity | congruence].
  - destruct (c_delete c) eqn:Hdel; [|destruct Ht].
    unfold plan_deletions in Ht. apply in_map_iff in Ht. destruct Ht as (p & <- & Hp). apply filter_In in Hp. destruct Hp as [Hin Hf].
    apply filter_In in Hin. destruct Hin as [HpU Hs]. unfold event_true. cbn [fst snd t_action t_path]. split.
    + destruct (dst p); [discriminate | discriminate].
    + apply (stale_removed refuse ds c now U keep src dst Hwf Hdry Hdel Hroot Href Herr p HpU).
      intro Hin. apply negb_true_iff in Hf. unfold paths_of in Hin. apply in_map_iff in Hin. destruct Hin as (e & Ee & He).
      assert (existsb (fun e0 => peqb (se_path e0) p) (keep ++ src) = true) by (apply existsb_exists; exists e; split; [exact He | apply peqb_eq; exact Ee]). congruence.
Qed.
