(* Proofs about Model/Filter.v. *)
From Coq Require Import NArith List Bool Lia.
From SyModel Require Import Filter.
Import ListNotations.
Open Scope N_scope.

(* ---------- glob: executable matcher = declarative relation ---------- *)
Inductive gmatch : list tok -> str -> Prop :=
| gm_nil : gmatch [] []
| gm_lit c p s : gmatch p s -> gmatch (Lit c :: p) (c :: s)
| gm_any x p s : gmatch p s -> gmatch (Any1 :: p) (x :: s)
| gm_star p s1 s2 : gmatch p s2 -> gmatch (Star :: p) (s1 ++ s2).

Lemma glob_star_unfold p s :
  glob_match (Star :: p) s = glob_match p s || match s with _ :: s' => glob_match (Star :: p) s' | [] => false end.
Proof. destruct s; reflexivity. Qed.

Lemma glob_match_sound : forall p s, glob_match p s = true -> gmatch p s.
Proof.
  induction p as [|t p IH]; intros s E.
  - destruct s; [constructor | discriminate].
  - destruct t as [c| |].
    + destruct s as [|x s]; [discriminate|]. cbn in E. apply andb_prop in E. destruct E as [E1 E2].
      apply N.eqb_eq in E1. subst. constructor. apply IH. exact E2.
    + destruct s as [|x s]; [discriminate|]. constructor. apply IH. exact E.
    + induction s as [|x s IHs].
      * rewrite glob_star_unfold in E. rewrite orb_false_r in E. apply (gm_star p [] []). apply IH. exact E.
      * rewrite glob_star_unfold in E. apply orb_prop in E. destruct E as [E|E].
        -- apply (gm_star p [] (x :: s)). apply IH. exact E.
        -- specialize (IHs E). inversion IHs as [| | |p' s1 s2 Hm]; subst.
           apply (gm_star p (x :: s1) s2). exact Hm.
Qed.

Lemma glob_match_complete : forall p s, gmatch p s -> glob_match p s = true.
Proof.
  intros p s Hm. induction Hm as [|c p s Hm IH|x p s Hm IH|p s1 s2 Hm IH].
  - reflexivity.
  - cbn. rewrite N.eqb_refl. exact IH.
  - exact IH.
  - induction s1 as [|y s1 IHs]; rewrite glob_star_unfold.
    + cbn [app]. rewrite IH. reflexivity.
    + cbn [app]. rewrite IHs. apply orb_true_r.
Qed.

Theorem glob_match_spec p s : glob_match p s = true <-> gmatch p s.
Proof. split; [apply glob_match_sound | apply glob_match_complete]. Qed.

(* ---------- strings and prefixes ---------- *)
Lemma str_eqb_eq a : forall b, str_eqb a b = true <-> a = b.
Proof.
  induction a as [|x a IH]; intros [|y b]; cbn; split; intro E; try discriminate; try reflexivity.
  - apply andb_prop in E. destruct E as [E1 E2]. apply N.eqb_eq in E1. apply IH in E2. subst. reflexivity.
  - inversion E; subst. rewrite N.eqb_refl. apply IH. reflexivity.
Qed.

Lemma is_prefix_spec a : forall b, is_prefix a b = true <-> exists rest, b = a ++ rest.
Proof.
  induction a as [|x a IH]; intros b.
  - cbn. split; [intros _; exists b; reflexivity | reflexivity].
  - destruct b as [|y b]; cbn.
    + split; [discriminate | intros (rest & E); discriminate].
    + split.
      * intro E. apply andb_prop in E. destruct E as [E1 E2]. apply str_eqb_eq in E1. apply IH in E2.
        destruct E2 as (rest & ->). subst. exists rest. reflexivity.
      * intros (rest & E). inversion E; subst. apply andb_true_intro. split; [apply str_eqb_eq; reflexivity | apply IH; exists rest; reflexivity].
Qed.

Definition proper_prefix (a p : path) : Prop := a <> [] /\ exists rest, rest <> [] /\ p = a ++ rest.

Lemma prefixes_spec : forall p a, In a (prefixes p) <-> proper_prefix a p.
Proof.
  induction p as [|c p IH]; intros a.
  - cbn. split; [intros [] | intros (_ & rest & Hr & E)]. destruct a; [|discriminate]. cbn in E. subst. congruence.
  - cbn [prefixes]. destruct p as [|c2 p'].
    + split; [intros [] | intros (Ha & rest & Hr & E)].
      destruct a as [|x a]; [congruence|]. inversion E as [[Ex Er]]. destruct a; [|discriminate]. cbn in Er. subst. congruence.
    + split.
      * intros [<-|Hin].
        -- split; [discriminate|]. exists (c2 :: p'). split; [discriminate | reflexivity].
        -- apply in_map_iff in Hin. destruct Hin as (a' & <- & Hin). apply IH in Hin.
           destruct Hin as (Ha & rest & Hr & E). split; [discriminate|]. exists rest. split; [assumption|]. cbn. rewrite E. reflexivity.
      * intros (Ha & rest & Hr & E). destruct a as [|x a]; [congruence|]. inversion E as [[Ex Er]]. subst x.
        destruct a as [|y a]; [left; reflexivity|]. right. apply in_map_iff. exists (y :: a). split; [reflexivity|].
        apply IH. split; [discriminate|]. exists rest. split; assumption.
Qed.

Lemma ancestors_spec p a : In a (ancestors p) <-> proper_prefix a p.
Proof. unfold ancestors. rewrite <- in_rev. apply prefixes_spec. Qed.

Lemma proper_prefix_trans a b c : proper_prefix a b -> proper_prefix b c -> proper_prefix a c.
Proof.
  intros (Ha & r1 & Hr1 & ->) (_ & r2 & Hr2 & ->). split; [assumption|]. exists (r1 ++ r2). split.
  - destruct r1; [congruence | discriminate].
  - rewrite app_assoc. reflexivity.
Qed.

(* ---------- the three sentences of the statement about a single rule ---------- *)
Theorem basename_rule r p d :
  r_dir_only r = false -> r_has_slash r = false ->
  rule_matches r p d = match basename p with Some b => glob_match (r_toks r) b | None => false end.
Proof. intros H1 H2. unfold rule_matches. rewrite H1, H2. reflexivity. Qed.

Theorem slash_rule r p d :
  r_dir_only r = false -> r_has_slash r = true ->
  rule_matches r p d = glob_match (r_toks r) (join p).
Proof. intros H1 H2. unfold rule_matches. rewrite H1, H2. reflexivity. Qed.

(* a directory pattern (other than the documented "*/" idiom) that matches a directory matches its whole subtree *)
Theorem dir_rule_subtree r p q d :
  r_dir_only r = true -> r_star_only r = false ->
  rule_matches r p true = true -> proper_prefix p q -> rule_matches r q d = true.
Proof.
  intros H1 H2 Hm Hpq. unfold rule_matches in *. rewrite H1 in *. destruct (r_has_slash r).
  - apply orb_true_iff. right. apply existsb_exists. apply orb_prop in Hm. destruct Hm as [Hm|Hm].
    + exists p. split; [apply ancestors_spec; assumption | exact Hm].
    + apply existsb_exists in Hm. destruct Hm as (a & Ha & Hma). exists a. split; [|exact Hma].
      apply ancestors_spec. apply ancestors_spec in Ha. eapply proper_prefix_trans; eassumption.
  - rewrite H2 in *. apply orb_true_iff. right. apply existsb_exists. apply orb_prop in Hm. destruct Hm as [Hm|Hm].
    + exists p. split; [apply ancestors_spec; assumption | exact Hm].
    + apply existsb_exists in Hm. destruct Hm as (a & Ha & Hma). exists a. split; [|exact Hma].
      apply ancestors_spec. apply ancestors_spec in Ha. eapply proper_prefix_trans; eassumption.
Qed.

(* and it matches nothing that is neither such a directory nor below one *)
Theorem dir_rule_only_subtree r q d :
  r_dir_only r = true -> r_star_only r = false -> rule_matches r q d = true ->
  (d = true /\ rule_matches r q true = true /\ forall a, proper_prefix a q -> True) \/
  (exists a, proper_prefix a q /\ rule_matches r a true = true).
Proof.
  intros H1 H2 Hm. unfold rule_matches in Hm. rewrite H1 in Hm. destruct (r_has_slash r) eqn:Hs.
  - apply orb_prop in Hm. destruct Hm as [Hm|Hm].
    + apply andb_prop in Hm. destruct Hm as [-> Hm]. left. repeat split.
      unfold rule_matches. rewrite H1, Hs. cbn [andb]. rewrite Hm. reflexivity.
    + right. apply existsb_exists in Hm. destruct Hm as (a & Ha & Hma). exists a. split; [apply ancestors_spec; exact Ha|].
      unfold rule_matches. rewrite H1, Hs. cbn [andb]. rewrite Hma. reflexivity.
  - rewrite H2 in Hm. apply orb_prop in Hm. destruct Hm as [Hm|Hm].
    + apply andb_prop in Hm. destruct Hm as [-> Hm]. left. repeat split.
      unfold rule_matches. rewrite H1, Hs, H2. cbn [andb]. rewrite Hm. reflexivity.
    + right. apply existsb_exists in Hm. destruct Hm as (a & Ha & Hma). exists a. split; [apply ancestors_spec; exact Ha|].
      unfold rule_matches. rewrite H1, Hs, H2. cbn [andb]. rewrite Hma. reflexivity.
Qed.

(* first matching rule decides; no match = include *)
Theorem first_match_spec rules p d :
  should_include rules p d =
  match find (fun r => rule_matches r p d) rules with
  | Some r => match r_action r with Include => true | Exclude => false end
  | None => true
  end.
Proof.
  induction rules as [|r rs IH]; [reflexivity|]. cbn [should_include find].
  destruct (rule_matches r p d); [reflexivity | exact IH].
Qed.

Lemma build_rules_app a : forall b,
  build_rules (a ++ b) =
  match build_rules a, build_rules b with Some x, Some y => Some (x ++ y) | _, _ => None end.
Proof.
  induction a as [|[k t] a IH]; intro b; cbn [app build_rules].
  - destruct (build_rules b); reflexivity.
  - destruct (cli_rule k t).
    + apply IH.
    + reflexivity.
    + rewrite IH. destruct (build_rules a), (build_rules b); reflexivity.
Qed.

(* ---------- the selection fold of the engine ---------- *)
Section Select.
  Variable rules : list rule.
  Variables mn mx : option N.

  Definition selected (e : entry) : Prop :=
    should_include rules (e_path e) (e_is_dir e) = true /\
    (forall a, proper_prefix a (e_path e) -> should_include rules a true = true) /\
    (e_is_dir e = true \/ size_filtered mn mx (e_size e) = false).

  (* a scan lists every directory before its descendants, each path once *)
  Definition listing_wf (l : list entry) : Prop :=
    NoDup (map e_path l) /\
    (forall e, In e l -> e_path e <> []) /\
    (forall l1 e l2 a, l = l1 ++ e :: l2 -> proper_prefix a (e_path e) ->
                       exists d, In d l1 /\ e_path d = a /\ e_is_dir d = true).

  Definition inv (l1 : list entry) (excl : list path) : Prop :=
    (forall d, In d excl -> should_include rules d true = false /\ exists x, In x l1 /\ e_path x = d /\ e_is_dir x = true) /\
    (forall x, In x l1 -> e_is_dir x = true -> should_include rules (e_path x) true = false ->
               exists d, In d excl /\ is_prefix d (e_path x) = true).

  Lemma is_prefix_refl p : is_prefix p p = true.
  Proof. apply is_prefix_spec. exists []. rewrite app_nil_r. reflexivity. Qed.

  Lemma is_prefix_trans a b c : is_prefix a b = true -> is_prefix b c = true -> is_prefix a c = true.
  Proof.
    intros H1 H2. apply is_prefix_spec in H1. apply is_prefix_spec in H2. destruct H1 as (r1 & ->), H2 as (r2 & ->).
    apply is_prefix_spec. exists (r1 ++ r2). rewrite app_assoc. reflexivity.
  Qed.

  Lemma select_loop_spec L : listing_wf L ->
    forall l2 l1 excl, L = l1 ++ l2 -> inv l1 excl ->
    forall e0, In e0 (select_loop rules mn mx excl l2) <-> In e0 l2 /\ selected e0.
  Proof.
    intros (Hnd & Hne & Hpf). induction l2 as [|e l2 IH]; intros l1 excl HL Hinv e0.
    - cbn. split; [intros [] | intros [[] _]].
    - assert (HL' : L = (l1 ++ [e]) ++ l2) by (rewrite <- app_assoc; exact HL).
      assert (Hein : In e L) by (rewrite HL; apply in_or_app; right; left; reflexivity).
      destruct Hinv as [Hi1 Hi2].
      cbn [select_loop].
      destruct (existsb (fun d => is_prefix d (e_path e)) excl) eqn:Eex.
      + (* under an excluded directory *)
        apply existsb_exists in Eex. destruct Eex as (d & Hd & Hpre).
        destruct (Hi1 d Hd) as (Hdx & x & Hx & Hxp & Hxd).
        assert (Hnsel : ~ selected e).
        { intros (_ & Hanc & _).
          assert (Hpp : proper_prefix d (e_path e)).
          { apply is_prefix_spec in Hpre. destruct Hpre as (rest & Er). split.
            - rewrite <- Hxp. apply Hne. rewrite HL. apply in_or_app. left. exact Hx.
            - exists rest. split; [|exact Er]. intro; subst rest. rewrite app_nil_r in Er.
              (* e and x would have the same path *)
              rewrite HL in Hnd. rewrite map_app in Hnd. cbn [map] in Hnd. apply NoDup_remove_2 in Hnd.
              apply Hnd. apply in_or_app. left. rewrite Er, <- Hxp. apply in_map. exact Hx. }
          rewrite (Hanc d Hpp) in Hdx. discriminate. }
        rewrite (IH (l1 ++ [e]) excl HL').
        * split; [intros [H1 H2]; split; [right; exact H1 | exact H2] | intros [[<-|H1] H2]; [contradiction | split; assumption]].
        * split.
          -- intros d' Hd'. destruct (Hi1 d' Hd') as (A & x' & B & C & D). split; [exact A|]. exists x'. split; [apply in_or_app; left; exact B | split; assumption].
          -- intros x' Hx' Hdir Hex. apply in_app_or in Hx'. destruct Hx' as [Hx'|[<-|[]]]; [apply Hi2; assumption|].
             exists d. split; assumption.
      + assert (Hnu : forall d, In d excl -> is_prefix d (e_path e) = false).
        { intros d Hd. destruct (is_prefix d (e_path e)) eqn:E; [|reflexivity].
          assert (existsb (fun d => is_prefix d (e_path e)) excl = true) by (apply existsb_exists; exists d; split; assumption). congruence. }
        assert (Hanc : forall a, proper_prefix a (e_path e) -> should_include rules a true = true).
        { intros a Ha. destruct (should_include rules a true) eqn:Ea; [reflexivity|].
          destruct (Hpf l1 e l2 a HL Ha) as (x & Hx & Hxp & Hxd).
          destruct (Hi2 x Hx Hxd) as (d & Hd & Hpre); [rewrite Hxp; exact Ea|].
          rewrite Hxp in Hpre. destruct Ha as (_ & rest & _ & Er).
          assert (is_prefix d (e_path e) = true).
          { eapply is_prefix_trans; [exact Hpre|]. apply is_prefix_spec. exists rest. exact Er. }
          rewrite (Hnu d Hd) in H. discriminate. }
        destruct (should_include rules (e_path e) (e_is_dir e)) eqn:Einc; cbn [negb].
        * (* included *)
          assert (Hinv' : inv (l1 ++ [e]) excl).
          { split.
            - intros d' Hd'. destruct (Hi1 d' Hd') as (A & x' & B & C & D). split; [exact A|]. exists x'. split; [apply in_or_app; left; exact B | split; assumption].
            - intros x' Hx' Hdir Hex. apply in_app_or in Hx'. destruct Hx' as [Hx'|[<-|[]]]; [apply Hi2; assumption|].
              rewrite Hdir in Einc. congruence. }
          destruct (e_is_dir e) eqn:Edir.
          -- cbn [In]. rewrite (IH (l1 ++ [e]) excl HL' Hinv'). split.
             ++ intros [<-|[H1 H2]]; [split; [left; reflexivity|] | split; [right; exact H1 | exact H2]].
                split; [rewrite Edir; exact Einc | split; [exact Hanc | left; exact Edir]].
             ++ intros [[<-|H1] H2]; [left; reflexivity | right; split; assumption].
          -- destruct (size_filtered mn mx (e_size e)) eqn:Esz.
             ++ rewrite (IH (l1 ++ [e]) excl HL' Hinv'). split.
                ** intros [H1 H2]; split; [right; exact H1 | exact H2].
                ** intros [[<-|H1] H2]; [|split; assumption]. destruct H2 as (_ & _ & [H|H]); congruence.
             ++ cbn [In]. rewrite (IH (l1 ++ [e]) excl HL' Hinv'). split.
                ** intros [<-|[H1 H2]]; [split; [left; reflexivity|] | split; [right; exact H1 | exact H2]].
                   split; [rewrite Edir; exact Einc | split; [exact Hanc | right; exact Esz]].
                ** intros [[<-|H1] H2]; [left; reflexivity | right; split; assumption].
        * (* excluded by its own first matching rule *)
          assert (Hnsel : ~ selected e) by (intros (H & _); congruence).
          rewrite (IH (l1 ++ [e]) (if e_is_dir e then excl ++ [e_path e] else excl) HL').
          -- split; [intros [H1 H2]; split; [right; exact H1 | exact H2] | intros [[<-|H1] H2]; [contradiction | split; assumption]].
          -- destruct (e_is_dir e) eqn:Edir; split.
             ++ intros d Hd. apply in_app_or in Hd. destruct Hd as [Hd|[<-|[]]].
                ** destruct (Hi1 d Hd) as (A & x' & B & C & D). split; [exact A|]. exists x'. split; [apply in_or_app; left; exact B | split; assumption].
                ** split; [exact Einc|]. exists e. split; [apply in_or_app; right; left; reflexivity | split; [reflexivity | exact Edir]].
             ++ intros x' Hx' Hdir Hex. apply in_app_or in Hx'. destruct Hx' as [Hx'|[<-|[]]].
                ** destruct (Hi2 x' Hx' Hdir Hex) as (d & Hd & Hp). exists d. split; [apply in_or_app; left; exact Hd | exact Hp].
                ** exists (e_path e). split; [apply in_or_app; right; left; reflexivity | apply is_prefix_refl].
             ++ intros d' Hd'. destruct (Hi1 d' Hd') as (A & x' & B & C & D). split; [exact A|]. exists x'. split; [apply in_or_app; left; exact B | split; assumption].
             ++ intros x' Hx' Hdir Hex. apply in_app_or in Hx'. destruct Hx' as [Hx'|[<-|[]]]; [apply Hi2; assumption | congruence].
  Qed.

  Lemma path_eqb_eq a : forall b, path_eqb a b = true <-> a = b.
  Proof.
    induction a as [|x a IH]; intros [|y b]; cbn; split; intro E; try discriminate; try reflexivity.
    - apply andb_prop in E. destruct E as [E1 E2]. apply str_eqb_eq in E1. apply IH in E2. subst. reflexivity.
    - inversion E; subst. apply andb_true_intro. split; [apply str_eqb_eq; reflexivity | apply IH; reflexivity].
  Qed.

  Lemma listing_ok_aux_spec : forall l seen, listing_ok_aux seen l = true ->
    NoDup (map e_path l) /\ (forall e, In e l -> ~ In (e_path e) (map e_path seen)) /\
    (forall e, In e l -> e_path e <> []) /\
    (forall l1 e l2 a, l = l1 ++ e :: l2 -> proper_prefix a (e_path e) ->
                       exists d, (In d seen \/ In d l1) /\ e_path d = a /\ e_is_dir d = true).
  Proof.
    induction l as [|e l IH]; intros seen E.
    - repeat split; [constructor | intros e [] | intros e [] |]. intros [|? ?] ? ? ? HL; discriminate.
    - cbn [listing_ok_aux] in E. apply andb_prop in E. destruct E as [E E4]. apply andb_prop in E. destruct E as [E E3].
      apply andb_prop in E. destruct E as [E1 E2].
      destruct (IH (e :: seen) E4) as (N1 & N2 & N3 & N4).
      assert (Hfresh : ~ In (e_path e) (map e_path seen)).
      { intro Hin. apply in_map_iff in Hin. destruct Hin as (x & Hx & Hxin).
        apply negb_true_iff in E2. assert (existsb (fun x => path_eqb (e_path x) (e_path e)) seen = true); [|congruence].
        apply existsb_exists. exists x. split; [exact Hxin | apply path_eqb_eq; exact Hx]. }
      repeat split.
      + cbn [map]. constructor; [|exact N1]. intro Hin. apply in_map_iff in Hin. destruct Hin as (x & Hx & Hxin).
        apply (N2 x Hxin). cbn [map]. left. symmetry. exact Hx.
      + intros x [<-|Hx]; [exact Hfresh|]. intro Hin. apply (N2 x Hx). cbn [map]. right. exact Hin.
      + intros x [<-|Hx]; [|apply N3; exact Hx]. destruct (e_path e); [discriminate | discriminate].
      + intros l1 x l2 a HL Ha. destruct l1 as [|y l1]; cbn [app] in HL; inversion HL; subst.
        * rewrite forallb_forall in E3. specialize (E3 a (proj2 (prefixes_spec _ _) Ha)).
          apply existsb_exists in E3. destruct E3 as (d & Hd & Hp). apply andb_prop in Hp. destruct Hp as [Hp1 Hp2].
          apply path_eqb_eq in Hp1. exists d. split; [left; exact Hd | split; assumption].
        * destruct (N4 l1 x l2 a eq_refl Ha) as (d & [[<-|Hd]|Hd] & Hp & Hdir).
          -- exists y. split; [right; left; reflexivity | split; assumption].
          -- exists d. split; [left; exact Hd | split; assumption].
          -- exists d. split; [right; right; exact Hd | split; assumption].
  Qed.

  Theorem listing_ok_wf l : listing_ok l = true -> listing_wf l.
  Proof.
    intro E. destruct (listing_ok_aux_spec l [] E) as (N1 & _ & N3 & N4). split; [exact N1 | split; [exact N3|]].
    intros l1 e l2 a HL Ha. destruct (N4 l1 e l2 a HL Ha) as (d & [[]|Hd] & Hp & Hdir). exists d. split; [exact Hd | split; assumption].
  Qed.

  Theorem engine_select_spec l e :
    listing_wf l -> (In e (engine_select rules mn mx l) <-> In e l /\ selected e).
  Proof.
    intro Hwf. unfold engine_select. apply (select_loop_spec l Hwf l [] []); [reflexivity|].
    split; [intros d [] | intros x []].
  Qed.
End Select.
