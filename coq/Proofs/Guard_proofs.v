(* Proofs joining Model/Threshold.v (the guard's floating-point test) and Model/Engine.v (where the guard sits in a run) *)
From Coq Require Import ZArith NArith List Bool Lia.
From SyModel Require Import Threshold Engine.
From SyProofs Require Import Threshold_flocq Engine_proofs.
Import ListNotations.
Open Scope Z_scope.

Lemma filter_length_le' {A} (f : A -> bool) (l : list A) : (length (filter f l) <= length l)%nat.
Proof. induction l as [|x l IH]; cbn [filter length]; [lia|]. destruct (f x); cbn [length]; lia. Qed.

Lemma plan_deletions_length src listing : (length (plan_deletions src listing) <= length listing)%nat.
Proof. unfold plan_deletions. rewrite map_length. apply filter_length_le'. Qed.

Theorem mass_deletion_refused ds c now U keep src dst :
  let listing := filter (fun p => match dst p with Some _ => true | None => false end) U in
  let dels := plan_deletions (keep ++ src) listing in
  let r := run (refuse false) ds c now U keep src dst in
  c_delete c = true -> c_force_delete c = false ->
  0 <= c_threshold c <= 100 -> Z.of_nat (length listing) < 2^45 ->
  c_threshold c * Z.of_nat (length listing) < 100 * Z.of_nat (length dels) ->
  r_refused r = true /\ r_fs r = dst /\ r_events r = nil /\ exit_status c r = 1.
Proof.
  intros listing dels r Hd Hf Ht Hn Hex.
  assert (Hne : dels <> nil) by (intro E; rewrite E in Hex; cbn [length] in Hex; nia).
  assert (Hdl : Z.of_nat (length dels) <= Z.of_nat (length listing)) by (apply Nat2Z.inj_le; apply plan_deletions_length).
  assert (Hl : 0 < Z.of_nat (length dels)) by (destruct dels; [congruence | cbn [length]; lia]).
  assert (Hr : r_refused r = true).
  { unfold r. apply refuses_when_guard_fires; try assumption.
    apply refuse_sound_binary64; fold listing; fold dels; lia. }
  destruct (refusal_changes_nothing (refuse false) ds c now U keep src dst Hr) as (Hfs & Hex1 & Hev).
  repeat split; assumption.
Qed.
