(* Proofs about Model/Hardlink.v *)
From Coq Require Import List Bool Arith Lia.
From SyModel Require Import Hardlink.
Import ListNotations.

Lemma pc_eqb_eq a b : pc_eqb a b = true -> a = b.
Proof.
  destruct a, b; cbn; intro H; try discriminate; try reflexivity;
    try (apply andb_prop in H; destruct H as [H H']; apply Bool.eqb_prop in H');
    apply Nat.eqb_eq in H; subst; reflexivity.
Qed.
Lemma pcs_eqb_eq a : forall b, pcs_eqb a b = true -> a = b.
Proof.
  induction a as [|x a IH]; intros [|y b] H; cbn in H; try discriminate; [reflexivity|].
  apply andb_prop in H. destruct H as [H1 H2]. apply pc_eqb_eq in H1. apply IH in H2. subst. reflexivity.
Qed.
Lemma st_eqb_eq a b : st_eqb a b = true -> a = b.
Proof.
  unfold st_eqb. intro H. apply andb_prop in H. destruct H as [H1 H3].
  destruct a as [ma pa], b as [mb pb]. cbn in *. apply pcs_eqb_eq in H3. subst.
  destruct ma, mb; cbn in H1; try discriminate; try reflexivity; apply Nat.eqb_eq in H1; subst; reflexivity.
Qed.

Definition no_faults (sched : list (nat * bool)) : Prop := Forall (fun x => snd x = false) sched.

Lemma step_in_succs fused strict faults s i f s' :
  (f = true -> faults = true) -> step fused strict s i f = Some s' -> In s' (succs fused strict faults s).
Proof.
  intros Hf E. unfold succs. apply in_flat_map. exists i. split.
  - apply in_seq. split; [lia|]. cbn. unfold step in E. destruct (nth_error (s_pcs s) i) eqn:En; [|discriminate].
    apply nth_error_Some. congruence.
  - destruct f.
    + rewrite (Hf eq_refl). apply in_or_app. right. rewrite E. left. reflexivity.
    + apply in_or_app. left. rewrite E. left. reflexivity.
Qed.

(* a closed set that contains a state contains everything reachable from it by any (allowed) schedule *)
Lemma closed_contains_runs fused strict faults seen : closed fused strict faults seen = true ->
  forall sched s, (faults = false -> no_faults sched) -> In s seen -> In (run_sched fused strict s sched) seen.
Proof.
  intro Hc. unfold closed in Hc. rewrite forallb_forall in Hc.
  induction sched as [|[i f] sched IH]; intros s Hnf Hin; [exact Hin|].
  cbn [run_sched]. destruct (step fused strict s i f) as [s'|] eqn:E.
  - apply IH.
    + intro Hf. specialize (Hnf Hf). inversion Hnf; assumption.
    + specialize (Hc s Hin). rewrite forallb_forall in Hc.
      assert (Hs : In s' (succs fused strict faults s)).
      { eapply step_in_succs; [|exact E]. intro Ef. destruct faults; [reflexivity|]. specialize (Hnf eq_refl). inversion Hnf as [|? ? Hx]. cbn in Hx. congruence. }
      specialize (Hc s' Hs). apply existsb_exists in Hc. destruct Hc as (y & Hy & Ey). apply st_eqb_eq in Ey. subst. exact Hy.
  - apply IH; [|exact Hin]. intro Hf. specialize (Hnf Hf). inversion Hnf; assumption.
Qed.

(* the reachable sets WITH failing operations and WITH the read/register gap, computed once by the kernel *)
Definition FUEL : nat := 400000.
Definition seen_of (n : nat) : list st := fst (explore FUEL false true true [] [init n]).

Lemma seen_facts : forall n, In n [1; 2; 3] ->
  closed false true true (seen_of n) = true /\ existsb (st_eqb (init n)) (seen_of n) = true /\
  existsb (deadlocked false true) (seen_of n) = false /\ forallb structure_ok (seen_of n) = true.
Proof. intros n [<-|[<-|[<-|[]]]]; vm_compute; repeat split. Qed.

Global Opaque seen_of FUEL.

Lemma runs_in_seen n sched : In n [1; 2; 3] -> In (run_sched false true (init n) sched) (seen_of n).
Proof.
  intros Hn. destruct (seen_facts n Hn) as (Hc & Hi & _ & _).
  apply existsb_exists in Hi. destruct Hi as (s0 & Hs0 & E0). apply st_eqb_eq in E0.
  assert (Hnf : true = false -> no_faults sched) by (intro X; discriminate X).
  pose proof (closed_contains_runs false true true (seen_of n) Hc sched s0 Hnf Hs0) as H.
  exact (eq_ind s0 (fun x => In (run_sched false true x sched) (seen_of n)) H (init n) (eq_sym E0)).
Qed.

Theorem no_deadlock_bounded n sched : In n [1; 2; 3] -> deadlocked false true (run_sched false true (init n) sched) = false.
Proof.
  intros Hn. pose proof (runs_in_seen n sched Hn) as Hin. destruct (seen_facts n Hn) as (_ & _ & Hd & _).
  destruct (deadlocked false true (run_sched false true (init n) sched)) eqn:E; [|reflexivity].
  assert (Ht : existsb (deadlocked false true) (seen_of n) = true) by (apply existsb_exists; eexists; split; [exact Hin | exact E]).
  pose proof (eq_trans (eq_sym Ht) Hd) as X. discriminate X.
Qed.

Theorem structure_bounded n sched : In n [1; 2; 3] -> structure_ok (run_sched false true (init n) sched) = true.
Proof.
  intros Hn. pose proof (runs_in_seen n sched Hn) as Hin. destruct (seen_facts n Hn) as (_ & _ & _ & Hs).
  rewrite forallb_forall in Hs. apply Hs. exact Hin.
Qed.
