(* Proofs/Hardlink_unbounded.v -- the hard-link hand-off of Model/Hardlink.v (strict = true: the code as it is) for ANY
   number of workers: an inductive invariant of every reachable state (any schedule, with failing operations, with or
   without the gap between reading the map and registering for the notice), from which follow deadlock-freedom and the link
   structure of finished runs, and a measure that every step decreases, from which follows termination with an explicit bound. *)
From Coq Require Import List Bool Arith Lia.
From SyModel Require Import Hardlink.
Import ListNotations.

Lemma set_nth_length l : forall i v, length (set_nth l i v) = length l.
Proof. induction l as [|x l IH]; intros [|i] v; cbn; try reflexivity. rewrite IH. reflexivity. Qed.

Lemma nth_upd l : forall i v p j, nth_error l i = Some p ->
  nth_error (set_nth l i v) j = if Nat.eqb j i then Some v else nth_error l j.
Proof.
  induction l as [|x l IH]; intros [|i] v p [|j] H; cbn in *; try discriminate; try reflexivity.
  apply (IH i v p j H).
Qed.

(* what worker i does, given the map, which notices have fired, and its own position *)
Definition local (fused strict : bool) (m : mstate) (F : nat -> bool) (i : nat) (p : pc) (f : bool) : option (mstate * pc) :=
  match p with
  | PRead => Some (m, match m with MCompleted o => PLink o | MInProgress o => if fused then PEnabled o (F o) else PGap o | MAbsent => PClaim end)
  | PGap o => Some (m, PEnabled o (F o))
  | PEnabled o late => Some (m, match m with MInProgress o' => if strict && negb (Nat.eqb o' o) then PRead else PWait o late | _ => PRead end)
  | PWait o late => if negb late && F o then Some (m, PRead) else None
  | PClaim => match m with MAbsent => Some (MInProgress i, PCopy) | _ => Some (m, PRead) end
  | PCopy => Some (m, if f then PRelease else PDone)
  | PRelease => Some (MAbsent, PReleaseNotify)
  | PReleaseNotify => Some (m, PErrOwner)
  | PDone => Some (MCompleted i, PNotify)
  | PNotify => Some (m, POkOwner)
  | PLink o => Some (m, if f then PErr else POkLinked o)
  | POkOwner | POkLinked _ | PErr | PErrOwner => None
  end.

Lemma step_local fused strict s i f s' : step fused strict s i f = Some s' ->
  exists p m' p', nth_error (s_pcs s) i = Some p /\ local fused strict (s_map s) (fired s) i p f = Some (m', p') /\
                  s' = mk_st m' (set_nth (s_pcs s) i p').
Proof.
  unfold step. destruct (nth_error (s_pcs s) i) as [p|] eqn:Hp; [|discriminate].
  intro H. exists p.
  destruct p; cbn [local]; try discriminate;
    repeat match type of H with
           | context [match s_map s with _ => _ end] => destruct (s_map s)
           | context [if ?b then _ else _] => destruct b
           end; try discriminate; inversion H; subst; do 2 eexists; (split; [reflexivity|]); (split; reflexivity).
Qed.

Lemma local_step fused strict s i f p m' p' : nth_error (s_pcs s) i = Some p -> local fused strict (s_map s) (fired s) i p f = Some (m', p') ->
  step fused strict s i f = Some (mk_st m' (set_nth (s_pcs s) i p')).
Proof.
  intros Hp H. unfold step. rewrite Hp.
  destruct p; cbn [local] in H; try discriminate;
    repeat match type of H with
           | context [match s_map s with _ => _ end] => destruct (s_map s)
           | context [if ?b then _ else _] => destruct b
           end; try discriminate; inversion H; subst; reflexivity.
Qed.

Lemma local_nonterminal fused strict m F i p f r : local fused strict m F i p f = Some r -> terminal p = false.
Proof. destruct p; cbn; intro H; try discriminate; reflexivity. Qed.

Definition ownA (p : pc) : bool := match p with PCopy | PRelease | PDone => true | _ => false end.
Definition notifier (p : pc) : bool := match p with PCopy | PRelease | PDone | PReleaseNotify | PNotify => true | _ => false end.
Definition okowner (p : pc) : bool := match p with PNotify | POkOwner => true | _ => false end.
Definition linked_to (p : pc) : option nat := match p with PLink o | POkLinked o => Some o | _ => None end.
Definition has_fired (p : pc) : bool := match p with POkOwner | PErrOwner => true | _ => false end.

Lemma fired_in_spec pcs o : fired_in pcs o = true <-> exists q, nth_error pcs o = Some q /\ has_fired q = true.
Proof.
  unfold fired_in. split.
  - destruct (nth_error pcs o) as [q|]; [|discriminate]. intro H. exists q. split; [reflexivity|]. destruct q; try discriminate; reflexivity.
  - intros (q & -> & Hq). destruct q; try discriminate; reflexivity.
Qed.

Lemma fired_upd pcs i p v o : nth_error pcs i = Some p ->
  fired_in (set_nth pcs i v) o = if Nat.eqb o i then has_fired v else fired_in pcs o.
Proof.
  intro Hp. unfold fired_in at 1. rewrite (nth_upd _ _ _ _ o Hp). destruct (Nat.eqb o i); [|reflexivity].
  destruct v; reflexivity.
Qed.

Lemma fired_mono pcs i p v o : nth_error pcs i = Some p -> terminal p = false ->
  fired_in pcs o = true -> fired_in (set_nth pcs i v) o = true.
Proof.
  intros Hp Ht Hf. rewrite (fired_upd _ _ _ _ _ Hp). destruct (Nat.eqb_spec o i) as [->|]; [|exact Hf].
  apply fired_in_spec in Hf. destruct Hf as (q & Hq & Hfq). rewrite Hp in Hq. inversion Hq; subst. destruct q; discriminate.
Qed.

Record Inv (s : st) : Prop := mk_Inv {
  I_own_map : forall i p, nth_error (s_pcs s) i = Some p -> ownA p = true -> s_map s = MInProgress i;
  I_map_own : forall o, s_map s = MInProgress o -> exists p, nth_error (s_pcs s) o = Some p /\ ownA p = true;
  I_en : forall i o l, nth_error (s_pcs s) i = Some (PEnabled o l) -> l = true -> fired s o = true;
  I_wait : forall i o l, nth_error (s_pcs s) i = Some (PWait o l) ->
           l = false /\ (fired s o = true \/ exists q, nth_error (s_pcs s) o = Some q /\ notifier q = true);
  I_completed : forall o, s_map s = MCompleted o -> exists q, nth_error (s_pcs s) o = Some q /\ okowner q = true;
  I_linked : forall i p o, nth_error (s_pcs s) i = Some p -> linked_to p = Some o -> s_map s = MCompleted o;
  I_okowner : forall i p, nth_error (s_pcs s) i = Some p -> okowner p = true -> s_map s = MCompleted i
}.

Lemma nth_repeat (p : pc) n i q : nth_error (repeat p n) i = Some q -> q = p.
Proof. revert i. induction n as [|n IH]; intros [|i] H; cbn in H; try discriminate; [inversion H; reflexivity | apply (IH i H)]. Qed.

Lemma inv_init n : Inv (init n).
Proof.
  constructor; cbn [init s_map s_pcs]; intros;
    repeat match goal with H : nth_error (repeat _ _) _ = Some _ |- _ => apply nth_repeat in H; subst end; cbn in *; try discriminate.
Qed.

Ltac split_nth Hp :=
  repeat match goal with
  | H : nth_error (set_nth _ ?i _) ?j = Some _ |- _ =>
      rewrite (nth_upd _ _ _ _ j Hp) in H; destruct (Nat.eqb_spec j i); [subst j; inversion H; subst; clear H|]
  end.

Ltac local_cases Hl :=
  cbn [local andb] in Hl;
  repeat match type of Hl with
         | context [match ?m with MAbsent => _ | MInProgress _ => _ | MCompleted _ => _ end] => destruct m
         | context [if negb (Nat.eqb ?a ?b) then _ else _] => destruct (Nat.eqb_spec a b); cbn [negb] in Hl
         | context [if ?b then _ else _] => destruct b eqn:?
         end; try discriminate; inversion Hl; subst; clear Hl.

Lemma at_keep (P : pc -> bool) pcs i p v o q :
  nth_error pcs i = Some p -> nth_error pcs o = Some q -> P q = true -> (P p = true -> P v = true) ->
  exists q', nth_error (set_nth pcs i v) o = Some q' /\ P q' = true.
Proof.
  intros Hp Ho Hq Himp. rewrite (nth_upd _ _ _ _ o Hp). destruct (Nat.eqb_spec o i) as [->|Hne].
  - exists v. split; [reflexivity|]. apply Himp. congruence.
  - exists q. split; assumption.
Qed.

Lemma own_notifier q : ownA q = true -> notifier q = true.
Proof. destruct q; cbn; congruence. Qed.

Lemma own_not_fired q : ownA q = true -> has_fired q = false.
Proof. destruct q; cbn; congruence. Qed.

Lemma step_inv_local fused m pcs i f p m' p' :
  Inv (mk_st m pcs) -> nth_error pcs i = Some p -> local fused true m (fired_in pcs) i p f = Some (m', p') ->
  Inv (mk_st m' (set_nth pcs i p')).
Proof.
  intros [H1 H2 H3 H4 H5 H6 H7] Hp Hl. unfold fired in *. cbn [s_map s_pcs] in *.
  pose proof (local_nonterminal _ _ _ _ _ _ _ _ Hl) as Hnt.
  assert (Hmono : forall o, fired_in pcs o = true -> fired_in (set_nth pcs i p') o = true) by (intros o; apply (fired_mono _ _ _ _ _ Hp Hnt)).
  destruct p; try discriminate Hnt; local_cases Hl.
  all: constructor; unfold fired; cbn [s_map s_pcs].
  (* I_own_map, I_linked, I_okowner and the like: first-order *)
  all: try (intros; split_nth Hp; cbn in *; try discriminate; try congruence; eauto; fail).
  (* I_map_own *)
  all: try (intros oo Hm; try discriminate Hm;
            first [ destruct (H2 oo Hm) as (q & Hq & Hoq); apply (at_keep ownA _ _ _ _ _ _ Hp Hq Hoq); cbn; congruence
                  | inversion Hm; subst; exists PCopy; split; [rewrite (nth_upd _ _ _ _ _ Hp), Nat.eqb_refl; reflexivity | reflexivity] ]; fail).
  (* I_en *)
  all: try (intros jj oo ll Hn Hl'; split_nth Hp; apply Hmono; first [ congruence | eapply H3; eauto ]; fail).
  (* I_completed *)
  all: try (intros oo Hm; try discriminate Hm;
            first [ destruct (H5 oo Hm) as (q & Hq & Hok); apply (at_keep okowner _ _ _ _ _ _ Hp Hq Hok); cbn; congruence
                  | inversion Hm; subst; exists PNotify; split; [rewrite (nth_upd _ _ _ _ _ Hp), Nat.eqb_refl; reflexivity | reflexivity] ]; fail).
  (* I_wait *)
  all: try (intros jj oo ll Hn; split_nth Hp;
            first
            [ match goal with
              | Hn' : nth_error _ jj = Some (PWait oo ll) |- _ =>
                  destruct (H4 _ _ _ Hn') as [Hl0 [Hf | (q & Hq & Hnq)]]; (split; [exact Hl0|]);
                  [ left; apply Hmono; exact Hf
                  | destruct (Nat.eq_dec oo i) as [->|Hoi];
                    [ rewrite Hp in Hq; inversion Hq; subst; cbn in Hnq; try discriminate Hnq;
                      first [ right; eexists; split; [rewrite (nth_upd _ _ _ _ _ Hp), Nat.eqb_refl; reflexivity | reflexivity]
                            | left; rewrite (fired_upd _ _ _ _ _ Hp), Nat.eqb_refl; reflexivity ]
                    | right; exists q; split; [rewrite (nth_upd _ _ _ _ _ Hp); destruct (Nat.eqb_spec oo i); [contradiction | exact Hq] | exact Hnq] ] ]
              end
            | (* the stepping worker becomes a waiter: the notice it registered with is the one in the map *)
              destruct (H2 _ eq_refl) as (q & Hq & Hown); split;
              [ match goal with |- ?l = false => destruct l; [exfalso|reflexivity] end;
                pose proof (H3 _ _ _ Hp eq_refl) as Hf; apply fired_in_spec in Hf; destruct Hf as (q2 & Hq2 & Hf2);
                rewrite Hq in Hq2; inversion Hq2; subst; rewrite (own_not_fired _ Hown) in Hf2; discriminate
              | right; exists q; split; [|apply own_notifier; exact Hown];
                rewrite (nth_upd _ _ _ _ _ Hp);
                match goal with |- (if Nat.eqb ?a ?b then _ else _) = _ => destruct (Nat.eqb_spec a b) as [E|E]; [subst; rewrite Hp in Hq; inversion Hq; subst; discriminate Hown | exact Hq] end ] ]; fail).
  all: try (assert (Hm := H1 _ _ Hp eq_refl); subst).
  all: intros; split_nth Hp; cbn in *; try discriminate; try reflexivity; try congruence;
       exfalso; match goal with
       | Hx : nth_error _ ?j = Some ?q, Ho : ownA ?q = true |- _ => let X := fresh in assert (X := H1 _ _ Hx Ho); first [discriminate X | inversion X; congruence]
       | Hx : nth_error _ ?j = Some ?q, Ho : linked_to ?q = Some _ |- _ => discriminate (H6 _ _ _ Hx Ho)
       | Hx : nth_error _ ?j = Some ?q, Ho : okowner ?q = true |- _ => discriminate (H7 _ _ Hx Ho)
       end.
Qed.

Lemma step_inv fused s i f s' : Inv s -> step fused true s i f = Some s' -> Inv s'.
Proof.
  intros HI Hs. destruct (step_local _ _ _ _ _ _ Hs) as (p & m' & p' & Hp & Hl & ->).
  destruct s as [m pcs]. unfold fired in Hl. cbn [s_map s_pcs] in *. eapply step_inv_local; eassumption.
Qed.

Lemma run_inv fused : forall sched s, Inv s -> Inv (run_sched fused true s sched).
Proof.
  induction sched as [|[i f] sched IH]; intros s HI; [exact HI|].
  cbn [run_sched]. destruct (step fused true s i f) as [s'|] eqn:E; [apply IH; eapply step_inv; eassumption | apply IH; exact HI].
Qed.

Theorem reachable_inv fused n sched : Inv (run_sched fused true (init n) sched).
Proof. apply run_inv. apply inv_init. Qed.

Lemma not_all_terminal s : all_terminal s = false -> exists i p, nth_error (s_pcs s) i = Some p /\ terminal p = false.
Proof.
  unfold all_terminal. generalize (s_pcs s). induction l as [|x l IH]; cbn; [discriminate|].
  destruct (terminal x) eqn:Ex; cbn.
  - intro H. destruct (IH H) as (i & p & Hi & Hp). exists (S i), p. split; assumption.
  - intros _. exists 0, x. split; [reflexivity | exact Ex].
Qed.

Lemma all_terminal_nth s : all_terminal s = true -> forall i p, nth_error (s_pcs s) i = Some p -> terminal p = true.
Proof.
  unfold all_terminal. intros H i p Hp. rewrite forallb_forall in H. apply H. eapply nth_error_In. exact Hp.
Qed.

Lemma can_move fused strict s j q : nth_error (s_pcs s) j = Some q -> terminal q = false ->
  (forall o l, q = PWait o l -> l = false /\ fired s o = true) -> exists s', step fused strict s j false = Some s'.
Proof.
  intros Hq Ht Hw.
  assert (exists r, local fused strict (s_map s) (fired s) j q false = Some r) as [[m' p'] Hl].
  { destruct q; cbn [local]; try discriminate; try (eexists; reflexivity).
    - destruct (Hw o late eq_refl) as [-> Hf]. rewrite Hf. eexists; reflexivity.
    - destruct (s_map s); eexists; reflexivity. }
  eexists. apply (local_step _ _ _ _ _ _ _ _ Hq Hl).
Qed.

Theorem inv_no_deadlock fused s : Inv s -> deadlocked fused true s = false.
Proof.
  intros HI. unfold deadlocked. destruct (all_terminal s) eqn:Et; [reflexivity|]. cbn [negb andb].
  destruct (not_all_terminal s Et) as (i & p & Hp & Htp).
  assert (Hex : exists j s', j < length (s_pcs s) /\ step fused true s j false = Some s').
  { assert (Hlen : forall j q, nth_error (s_pcs s) j = Some q -> j < length (s_pcs s)) by (intros j q H; apply nth_error_Some; congruence).
    destruct p; try discriminate Htp;
      try (destruct (can_move fused true s i _ Hp eq_refl) as [s' Hs']; [intros o0 l0 He0; discriminate He0 | exists i, s'; split; [eapply Hlen; exact Hp | exact Hs']]; fail).
    (* a waiter *)
    destruct (I_wait s HI i o late Hp) as [Hl [Hf | (q & Hq & Hnq)]].
    - destruct (can_move fused true s i _ Hp eq_refl) as [s' Hs']; [intros o0 l0 He0; inversion He0; subst; split; [reflexivity | exact Hf]|].
      exists i, s'. split; [eapply Hlen; exact Hp | exact Hs'].
    - assert (Htq : terminal q = false) by (destruct q; cbn in Hnq |- *; congruence).
      destruct (can_move fused true s o q Hq Htq) as [s' Hs']; [intros o0 l0 He0; subst q; discriminate Hnq|].
      exists o, s'. split; [eapply Hlen; exact Hq | exact Hs']. }
  destruct Hex as (j & s' & Hj & Hs').
  destruct (forallb _ _) eqn:E; [|reflexivity].
  rewrite forallb_forall in E. specialize (E j). rewrite Hs' in E. symmetry. apply E. apply in_seq. lia.
Qed.

Lemma forallb_combine_seq (f : nat * pc -> bool) l : forall a,
  (forall i p, nth_error l i = Some p -> f (a + i, p) = true) -> forallb f (combine (seq a (length l)) l) = true.
Proof.
  induction l as [|x l IH]; intros a H; [reflexivity|]. cbn [length seq combine forallb].
  rewrite (IH (S a)).
  - specialize (H 0 x eq_refl). rewrite Nat.add_0_r in H. rewrite H. reflexivity.
  - intros i p Hi. specialize (H (S i) p Hi). rewrite Nat.add_succ_r in H. exact H.
Qed.

Theorem inv_structure s : Inv s -> structure_ok s = true.
Proof.
  intros HI. unfold structure_ok. destruct (all_terminal s) eqn:Et; [|reflexivity]. cbn [negb orb].
  pose proof (all_terminal_nth s Et) as Hall.
  destruct (s_map s) as [|o|o] eqn:Em.
  - (* nobody completed: everybody failed *)
    apply forallb_forall. intros p Hin. destruct (In_nth_error _ _ Hin) as [i Hi].
    pose proof (Hall i p Hi) as Ht. destruct p; try discriminate Ht; try reflexivity.
    + pose proof (I_okowner s HI i _ Hi eq_refl) as X. rewrite Em in X. discriminate X.
    + pose proof (I_linked s HI i _ owner Hi eq_refl) as X. rewrite Em in X. discriminate X.
  - (* in progress: the owner has not returned *)
    destruct (I_map_own s HI o Em) as (p & Hi & Hp). pose proof (Hall o p Hi) as Ht. destruct p; discriminate.
  - destruct (I_completed s HI o Em) as (q & Hq & Hok). pose proof (Hall o q Hq) as Htq.
    assert (q = POkOwner) by (destruct q; try discriminate; reflexivity). subst q. rewrite Hq.
    rewrite andb_true_r. apply forallb_combine_seq. intros i p Hi. cbn [fst snd plus].
    pose proof (Hall i p Hi) as Ht. destruct p; try discriminate Ht.
    + pose proof (I_okowner s HI i _ Hi eq_refl) as X. rewrite Em in X. inversion X. apply Nat.eqb_refl.
    + pose proof (I_linked s HI i _ owner Hi eq_refl) as X. rewrite Em in X. inversion X; subst. rewrite Nat.eqb_refl. cbn.
      destruct (Nat.eqb_spec i owner); [subst; rewrite Hq in Hi; discriminate | reflexivity].
    + destruct (Nat.eqb_spec i o); [subst; rewrite Hq in Hi; discriminate | reflexivity].
    + destruct (Nat.eqb_spec i o); [subst; rewrite Hq in Hi; discriminate | reflexivity].
Qed.

Theorem no_deadlock_any fused n sched : deadlocked fused true (run_sched fused true (init n) sched) = false.
Proof. apply inv_no_deadlock. apply reachable_inv. Qed.

Theorem structure_any fused n sched : structure_ok (run_sched fused true (init n) sched) = true.
Proof. apply inv_structure. apply reachable_inv. Qed.

(* ---------- termination: a measure that every step decreases ---------- *)
(* steps that change the shared state (the map, or which notices have fired) a worker may still take *)
Definition gsteps (p : pc) : nat :=
  match p with
  | PRead | PGap _ | PEnabled _ _ | PWait _ _ | PClaim => 3
  | PCopy | PRelease | PDone => 2
  | PReleaseNotify | PNotify => 1
  | _ => 0
  end.
(* steps a worker can take while the shared state stays as it is *)
Definition rank_read (m : mstate) : nat := match m with MAbsent => 1 | MInProgress _ => 3 | MCompleted _ => 2 end.
Definition rank_wait (m : mstate) (F : nat -> bool) (o : nat) (l : bool) : nat := if negb l && F o then 1 + rank_read m else 0.
Definition rank_enabled (m : mstate) (F : nat -> bool) (o : nat) (l : bool) : nat :=
  match m with
  | MInProgress o' => if Nat.eqb o' o then 1 + rank_wait m F o l else 1 + rank_read m
  | _ => 1 + rank_read m
  end.
Definition rank (m : mstate) (F : nat -> bool) (p : pc) : nat :=
  match p with
  | PRead => rank_read m
  | PGap o => 1 + rank_enabled m F o (F o)
  | PEnabled o l => rank_enabled m F o l
  | PWait o l => rank_wait m F o l
  | PClaim => match m with MAbsent => 0 | _ => 1 + rank_read m end
  | PCopy => 1
  | PLink _ => 1
  | _ => 0
  end.

Definition sum (l : list nat) : nat := fold_right plus 0 l.
Definition measure (s : st) : nat :=
  (5 * length (s_pcs s) + 1) * sum (map gsteps (s_pcs s)) + sum (map (rank (s_map s) (fired_in (s_pcs s))) (s_pcs s)).

Lemma rank_le m F p : rank m F p <= 5.
Proof.
  destruct p; cbn [rank]; unfold rank_enabled, rank_wait, rank_read; rewrite ?andb_negb_l;
    repeat match goal with
           | |- context [match ?x with MAbsent => _ | MInProgress _ => _ | MCompleted _ => _ end] => destruct x
           | |- context [if ?b then _ else _] => destruct b
           end; lia.
Qed.

Lemma sum_rank_le m F l : sum (map (rank m F) l) <= 5 * length l.
Proof. induction l as [|x l IH]; cbn [map sum fold_right length]; [lia|]. pose proof (rank_le m F x). unfold sum in IH. lia. Qed.

Lemma sum_set_nth (h : pc -> nat) l : forall i p v, nth_error l i = Some p ->
  sum (map h (set_nth l i v)) + h p = sum (map h l) + h v.
Proof.
  induction l as [|x l IH]; intros [|i] p v H; cbn in H; try discriminate.
  - inversion H; subst. cbn. lia.
  - cbn [set_nth map sum fold_right]. specialize (IH i p v H). unfold sum in IH. lia.
Qed.

Lemma rank_ext m F G p : (forall o, F o = G o) -> rank m F p = rank m G p.
Proof.
  intro E. destruct p; cbn [rank]; unfold rank_enabled, rank_wait; rewrite ?E; reflexivity.
Qed.

Lemma sum_rank_ext m F G l : (forall o, F o = G o) -> sum (map (rank m F) l) = sum (map (rank m G) l).
Proof. intro E. induction l as [|x l IH]; [reflexivity|]. cbn [map sum fold_right]. unfold sum in IH. rewrite IH, (rank_ext m F G x E). reflexivity. Qed.

Lemma local_decreases fused m F i p f m' p' : local fused true m F i p f = Some (m', p') ->
  (m' = m /\ has_fired p' = false /\ gsteps p' <= gsteps p /\ rank m F p' < rank m F p) \/ (gsteps p' + 1 = gsteps p).
Proof.
  intro Hl. destruct p; cbn [local andb] in Hl;
    repeat match type of Hl with
           | context [match ?x with MAbsent => _ | MInProgress _ => _ | MCompleted _ => _ end] => destruct x
           | context [if negb (Nat.eqb ?a ?b) then _ else _] => destruct (Nat.eqb_spec a b); cbn [negb] in Hl
           | context [if ?b then _ else _] => destruct b eqn:?
           end; try discriminate; inversion Hl; subst; cbn [rank gsteps has_fired]; unfold rank_enabled, rank_wait, rank_read;
    rewrite ?Nat.eqb_refl;
    repeat match goal with
           | H : _ && _ = true |- _ => rewrite H
           | H : ?a <> ?b |- context [Nat.eqb ?a ?b] => destruct (Nat.eqb_spec a b); [contradiction|]
           end;
    try (right; lia);
    try (left; repeat split; try lia;
         repeat match goal with
                | |- context [match ?x with MAbsent => _ | MInProgress _ => _ | MCompleted _ => _ end] => destruct x
                | |- context [negb ?x && ?x] => rewrite (andb_negb_l x)
                | |- context [if ?b then _ else _] => destruct b
                end; lia).
Qed.

Theorem step_decreases fused s i f s' : step fused true s i f = Some s' -> measure s' < measure s.
Proof.
  intro Hs. destruct (step_local _ _ _ _ _ _ Hs) as (p & m' & p' & Hp & Hl & ->).
  change (fired s) with (fired_in (s_pcs s)) in Hl.
  unfold measure. cbn [s_map s_pcs]. rewrite set_nth_length.
  set (n := length (s_pcs s)).
  pose proof (sum_set_nth gsteps (s_pcs s) i p p' Hp) as HG.
  pose proof (local_nonterminal _ _ _ _ _ _ _ _ Hl) as Hnt.
  destruct (local_decreases _ _ _ _ _ _ _ _ Hl) as [(-> & Hnf & Hg & Hr) | Hg].
  - assert (E : forall o, fired_in (set_nth (s_pcs s) i p') o = fired_in (s_pcs s) o).
    { intro o. rewrite (fired_upd _ _ _ _ _ Hp). destruct (Nat.eqb_spec o i) as [->|]; [|reflexivity].
      rewrite Hnf. unfold fired_in. rewrite Hp. destruct p; try discriminate Hnt; reflexivity. }
    rewrite (sum_rank_ext (s_map s) _ _ (set_nth (s_pcs s) i p') E).
    pose proof (sum_set_nth (rank (s_map s) (fired_in (s_pcs s))) (s_pcs s) i p p' Hp) as HR.
    assert (sum (map gsteps (set_nth (s_pcs s) i p')) <= sum (map gsteps (s_pcs s))) by lia.
    assert (sum (map (rank (s_map s) (fired_in (s_pcs s))) (set_nth (s_pcs s) i p')) < sum (map (rank (s_map s) (fired_in (s_pcs s))) (s_pcs s))) by lia.
    nia.
  - pose proof (sum_rank_le m' (fired_in (set_nth (s_pcs s) i p')) (set_nth (s_pcs s) i p')) as HR. rewrite set_nth_length in HR. fold n in HR.
    assert (sum (map gsteps (set_nth (s_pcs s) i p')) + 1 = sum (map gsteps (s_pcs s))) by lia.
    nia.
Qed.

(* the number of steps a schedule really takes (choices of workers that cannot move are skipped) *)
Fixpoint steps_taken (fused strict : bool) (s : st) (sched : list (nat * bool)) : nat :=
  match sched with
  | [] => 0
  | (i, f) :: t => match step fused strict s i f with Some s' => S (steps_taken fused strict s' t) | None => steps_taken fused strict s t end
  end.

Theorem steps_bounded fused : forall sched s, steps_taken fused true s sched + measure (run_sched fused true s sched) <= measure s.
Proof.
  induction sched as [|[i f] sched IH]; intros s; cbn [steps_taken run_sched]; [lia|].
  destruct (step fused true s i f) as [s'|] eqn:E; [|apply IH].
  pose proof (step_decreases _ _ _ _ _ E). specialize (IH s'). lia.
Qed.

Lemma sum_repeat h (p : pc) n : sum (map h (repeat p n)) = n * h p.
Proof. induction n as [|n IH]; cbn [repeat map sum fold_right]; [reflexivity|]. unfold sum in IH. rewrite IH. lia. Qed.

Lemma measure_init n : measure (init n) = 15 * n * n + 4 * n.
Proof. unfold measure, init. cbn [s_pcs s_map]. rewrite repeat_length, !sum_repeat. cbn [gsteps rank rank_read]. nia. Qed.

Theorem steps_bounded_init fused n sched : steps_taken fused true (init n) sched <= 15 * n * n + 4 * n.
Proof. pose proof (steps_bounded fused sched (init n)). rewrite measure_init in H. lia. Qed.
