From Coq Require Import NArith Arith List Bool Lia.
From SyModel Require Import Inodes.
Import ListNotations.

Lemma nlink_shared U s p q i : In q U -> q <> p -> d_names s p = Some i -> d_names s q = Some i -> In p U -> NoDup U -> 1 < nlink U s p.
Proof.
  intros Hq Hne Hp Hqi HpU Hnd. unfold nlink. rewrite Hp.
  set (f := fun q0 => match d_names s q0 with Some j => N.eqb j i | None => false end).
  assert (Fp : f p = true) by (unfold f; rewrite Hp; apply N.eqb_refl).
  assert (Fq : f q = true) by (unfold f; rewrite Hqi; apply N.eqb_refl).
  assert (Hin_p : In p (filter f U)) by (apply filter_In; split; assumption).
  assert (Hin_q : In q (filter f U)) by (apply filter_In; split; assumption).
  assert (Hnd' : NoDup (filter f U)) by (apply NoDup_filter; exact Hnd).
  destruct (filter f U) as [|a [|b l]]; [destruct Hin_p | | cbn; lia].
  destruct Hin_p as [<-|[]]. destruct Hin_q as [E|[]]. congruence.
Qed.

Lemma replace_local U s p c : wf U s -> In p U ->
  content_of (replace s p c) p = Some c /\ (forall q, q <> p -> content_of (replace s p c) q = content_of s q) /\ wf U (replace s p c).
Proof.
  intros Hwf HpU. split; [|split].
  - unfold content_of, replace. cbn [d_names d_store]. rewrite N.eqb_refl. cbn [option_map]. rewrite N.eqb_refl. reflexivity.
  - intros q Hq. unfold content_of, replace. cbn [d_names d_store]. destruct (N.eqb_spec q p); [contradiction|].
    destruct (d_names s q) as [j|] eqn:Eq; [|reflexivity]. cbn [option_map]. destruct (Hwf q j Eq) as [Hlt _].
    destruct (N.eqb_spec j (d_next s)); [lia | reflexivity].
  - intros q j Hq. unfold replace in *. cbn [d_names d_next] in *. destruct (N.eqb_spec q p).
    + inversion Hq; subst. split; [lia | exact HpU].
    + destruct (Hwf q j Hq) as [A B]. split; [lia | exact B].
Qed.

(* one update: the name holds the new content; every OTHER name holds what it held (a snapshot made with cp -al, a former hard link) *)
Theorem update_local U s p c :
  NoDup U -> wf U s -> In p U ->
  let s' := update true U s (p, c) in
  content_of s' p = Some c /\ (forall q, q <> p -> content_of s' q = content_of s q) /\ wf U s'.
Proof.
  intros Hnd Hwf HpU. cbn [update]. destruct (d_names s p) as [i|] eqn:Ep; [|apply replace_local; assumption].
  destruct (Nat.ltb 1 (nlink U s p)) eqn:En; cbn [andb]; [apply replace_local; assumption|].
  (* in place: nobody else has this inode *)
  apply Nat.ltb_ge in En. split; [|split].
  - unfold content_of, in_place. rewrite Ep. cbn [d_names d_store]. rewrite Ep. cbn [option_map]. rewrite N.eqb_refl. reflexivity.
  - intros q Hq. unfold content_of, in_place. rewrite Ep. cbn [d_names d_store].
    destruct (d_names s q) as [j|] eqn:Eq; [|reflexivity]. cbn [option_map]. destruct (N.eqb_spec j i) as [->|]; [|reflexivity].
    exfalso. destruct (Hwf q i Eq) as [_ HqU].
    pose proof (nlink_shared U s p q i HqU Hq Ep Eq HpU Hnd). lia.
  - intros q j Hq. unfold in_place in *. rewrite Ep in *. cbn [d_names d_next] in *. apply (Hwf q j Hq).
Qed.

(* any sequence of updates of distinct names: every updated name ends up with its own content, every other name is untouched *)
Theorem updates_correct U : NoDup U -> forall l s,
  wf U s -> NoDup (map fst l) -> (forall pc, In pc l -> In (fst pc) U) ->
  let s' := updates true U s l in
  (forall p c, In (p, c) l -> content_of s' p = Some c) /\ (forall q, ~ In q (map fst l) -> content_of s' q = content_of s q).
Proof.
  intros HndU. induction l as [|[p c] l IH]; intros s Hwf Hnd HU; cbn [updates fold_left map fst].
  - split; [intros p c [] | intros q _; reflexivity].
  - inversion Hnd as [|? ? Hnotin Hnd']; subst.
    destruct (update_local U s p c HndU Hwf (HU (p, c) (or_introl eq_refl))) as (Hp & Hothers & Hwf').
    destruct (IH (update true U s (p, c)) Hwf' Hnd' (fun pc H => HU pc (or_intror H))) as [IH1 IH2]. split.
    + intros p0 c0 [E|Hin].
      * inversion E; subst. unfold updates in IH2. rewrite (IH2 p0 Hnotin). exact Hp.
      * apply IH1. exact Hin.
    + intros q Hq. unfold updates in IH2. rewrite IH2 by (intro X; apply Hq; right; exact X).
      apply Hothers. intro; subst. apply Hq. left. reflexivity.
Qed.

(* the code before the repair: two names of one inode whose sources now differ -- the second update wins for both *)
Example in_place_refuted :
  let s := mk_dstate (fun p => if N.eqb p 1 then Some 7%N else if N.eqb p 2 then Some 7%N else None) (fun _ => 0%N) 8 in
  let s' := updates false [1; 2]%N s [(1, 11); (2, 22)]%N in
  content_of s' 1%N = Some 22%N /\ content_of s' 2%N = Some 22%N.
Proof. vm_compute. split; reflexivity. Qed.
