From Coq Require Import NArith Arith List Bool Lia.
From SyModel Require Import Inodes.
Import ListNotations.

Lemma nlink_shared U s p q i : In q U -> q <> p -> d_names s p = Some i -> d_names s q = Some i -> In p U -> NoDup U -> 1 < nlink U s p.
Proof.
  intros Hq Hne Hp Hqi HpU Hnd. unfold nlink. rewrite Hp.
  set (f := fun q0 => match d_names s q0 with Some j => N.eqb j i | None => false end).
  assert (Fp : f p = true) by (unfold f; rewrite Hp; apply N.eqb_refl).
  assert (Fq : f q = true) by (unfold f; rewrite Hqi; apply N.eqb_refl).
  assert (Hin_p : In p (filter f U)) by (apply filter_In; split; assumption).
  assert (Hin_q : In q (filter f U)) by (apply filter_In; split; assumption).
  assert (Hnd' : NoDup (filter f U)) by (apply NoDup_filter; exact Hnd).
  destruct (filter f U) as [|a [|b l]]; [destruct Hin_p | | cbn; lia].
  destruct Hin_p as [<-|[]]. destruct Hin_q as [E|[]]. congruence.
Qed.

Lemma replace_local U s p c : wf U s -> In p U ->
  content_of (replace s p c) p = Some c /\ (forall q, q <> p -> content_of (replace s p c) q = content_of s q) /\ wf U (replace s p c).
Proof.
  intros Hwf HpU. split; [|split].
  - unfold content_of, replace. cbn [d_names d_store]. rewrite N.eqb_refl. cbn [option_map]. rewrite N.eqb_refl. reflexivity.
  - intros q Hq. unfold content_of, replace. cbn [d_names d_store]. destruct (N.eqb_spec q p); [contradiction|].
    destruct (d_names s q) as [j|] eqn:Eq; [|reflexivity]. cbn [option_map]. destruct (Hwf q j Eq) as [Hlt _].
    destruct (N.eqb_spec j (d_next s)); [lia | reflexivity].
  - intros q j Hq. unfold replace in *. cbn [d_names d_next] in *. destruct (N.eqb_spec q p).
    + inversion Hq; subst. split; [lia | exact HpU].
    + destruct (Hwf q j Hq) as [A B]. split; [lia | exact B].
Qed.

(* one update: the name holds the new content; every OTHER name holds what it held (a snapshot made with cp -al, a former hard link) *)
Theorem update_local U s p c :
  NoDup U -> wf U s -> In p U ->
  let s' := update true U s (p, c) in
  content_of s' p = Some c /\ (forall q, q <> p -> content_of s' q = content_of s q) /\ wf U s'.
Proof.
  intros Hnd Hwf HpU. cbn [update]. destruct (d_names s p) as [i|] eqn:Ep; [|apply replace_local; assumption].
  destruct (Nat.ltb 1 (nlink U s p)) eqn:En; cbn [andb]; [apply replace_local; assumption|].
  (* in place: nobody else has this inode *)
  apply Nat.ltb_ge in En. split; [|split].
  - unfold content_of, in_place. rewrite Ep. cbn [d_names d_store]. rewrite Ep. cbn [option_map]. rewrite N.eqb_refl. reflexivity.
  - intros q Hq. unfold content_of, in_place. rewrite Ep. cbn [d_names d_store].
    destruct (d_names s q) as [j|] eqn:Eq; [|reflexivity]. cbn [option_map]. destruct (N.eqb_spec j i) as [->|]; [|reflexivity].
    exfalso. destruct (Hwf q i Eq) as [_ HqU].
    pose proof (nlink_shared U s p q i HqU Hq Ep Eq HpU Hnd). lia.
  - intros q j Hq. unfold in_place in *. rewrite Ep in *. cbn [d_names d_next] in *. apply (Hwf q j Hq).
Qed.

(* any sequence of updates of distinct names: every updated name ends up with its own content, every other name is untouched *)
Theorem updates_correct U : NoDup U -> forall l s,
  wf U s -> NoDup (map fst l) -> (forall pc, In pc l -> In (fst pc) U) ->
  let s' := updates true U s l in
  (forall p c, In (p, c) l -> content_of s' p = Some c) /\ (forall q, ~ In q (map fst l) -> content_of s' q = content_of s q).
Proof.
  intros HndU. induction l as [|[p c] l IH]; intros s Hwf Hnd HU; cbn [updates fold_left map fst].
  - split; [intros p c [] | intros q _; reflexivity].
  - inversion Hnd as [|? ? Hnotin Hnd']; subst.
    destruct (update_local U s p c HndU Hwf (HU (p, c) (or_introl eq_refl))) as (Hp & Hothers & Hwf').
    destruct (IH (update true U s (p, c)) Hwf' Hnd' (fun pc H => HU pc (or_intror H))) as [IH1 IH2]. split.
    + intros p0 c0 [E|Hin].
      * inversion E; subst. unfold updates in IH2. rewrite (IH2 p0 Hnotin). exact Hp.
      * apply IH1. exact Hin.
    + intros q Hq. unfold updates in IH2. rewrite IH2 by (intro X; apply Hq; right; exact X).
      apply Hothers. intro; subst. apply Hq. left. reflexivity.
Qed.

(* the code before the repair: two names of one inode whose sources now differ -- the second update wins for both *)
Example in_place_refuted :
  let s := mk_dstate (fun p => if N.eqb p 1 then Some 7%N else if N.eqb p 2 then Some 7%N else None) (fun _ => 0%N) 8 in
  let s' := updates false [1; 2]%N s [(1, 11); (2, 22)]%N in
  content_of s' 1%N = Some 22%N /\ content_of s' 2%N = Some 22%N.
Proof. vm_compute. split; reflexivity. Qed.

(* ---------- relink_hard_link_groups ---------- *)
Lemma link_to_store s q i : d_store (link_to s q i) = d_store s.
Proof. reflexivity. Qed.

Lemma relink_group_store : forall names s kept, d_store (relink_group s kept names) = d_store s.
Proof.
  induction names as [|q rest IH]; intros s kept; cbn [relink_group]; [reflexivity|].
  destruct (d_names s q) as [j|]; [|apply IH].
  destruct (find _ kept) as [i|]; [rewrite IH; reflexivity | apply IH].
Qed.

(* the invariant of one group's pass: every kept inode is the inode of ... and kept inodes hold pairwise different contents *)
Definition kept_ok (s : dstate) (kept : list N) : Prop :=
  forall i i', In i kept -> In i' kept -> d_store s i = d_store s i' -> i = i'.

Lemma find_content_some s kept j i :
  find (fun i => N.eqb (d_store s i) (d_store s j)) kept = Some i -> In i kept /\ d_store s i = d_store s j.
Proof. intros H. apply find_some in H. destruct H as [A B]. apply N.eqb_eq in B. split; assumption. Qed.

Lemma find_content_none s kept j :
  find (fun i => N.eqb (d_store s i) (d_store s j)) kept = None -> forall i, In i kept -> d_store s i <> d_store s j.
Proof. intros H i Hi E. apply (find_none _ _ H) in Hi. apply N.eqb_neq in Hi. contradiction. Qed.

(* no name changes content; names outside the group keep their inode *)
Theorem relink_group_contents : forall names s kept p, content_of (relink_group s kept names) p = content_of s p.
Proof.
  induction names as [|q rest IH]; intros s kept p; cbn [relink_group]; [reflexivity|].
  destruct (d_names s q) as [j|] eqn:Eq; [|apply IH].
  destruct (find _ kept) as [i|] eqn:Ef; [|apply IH].
  rewrite IH. apply find_content_some in Ef. destruct Ef as [_ Ec].
  unfold content_of, link_to. cbn [d_names d_store]. destruct (N.eqb_spec p q) as [->|]; [|reflexivity].
  rewrite Eq. cbn [option_map]. congruence.
Qed.

Theorem relink_group_outside : forall names s kept p, ~ In p names -> d_names (relink_group s kept names) p = d_names s p.
Proof.
  induction names as [|q rest IH]; intros s kept p Hp; cbn [relink_group]; [reflexivity|].
  assert (Hpq : p <> q) by (intros ->; apply Hp; left; reflexivity).
  assert (Hpr : ~ In p rest) by (intros H; apply Hp; right; exact H).
  destruct (d_names s q) as [j|] eqn:Eq; [|apply IH; exact Hpr].
  destruct (find _ kept) as [i|] eqn:Ef; [|apply IH; exact Hpr].
  rewrite IH by exact Hpr. unfold link_to. cbn [d_names]. destruct (N.eqb_spec p q); [contradiction | reflexivity].
Qed.

(* the post-condition of one group's pass, by induction with the set of names already visited:
   [done] names are present-and-visited; each of them sits on a kept inode; kept inodes hold pairwise different contents *)
Lemma relink_group_joins : forall names s kept (done : list N),
  NoDup names -> (forall p, In p done -> ~ In p names) ->
  kept_ok s kept ->
  (forall p i, In p done -> d_names s p = Some i -> In i kept) ->
  let s' := relink_group s kept names in
  forall p q i j, In p (done ++ names) -> In q (done ++ names) ->
    d_names s' p = Some i -> d_names s' q = Some j -> d_store s' i = d_store s' j -> i = j.
Proof.
  induction names as [|r rest IH]; intros s kept done Hnd Hdis Hk Hdone; cbn [relink_group].
  - intros p q i j Hp Hq Ei Ej Ec. rewrite app_nil_r in *. eapply Hk; eauto.
  - inversion Hnd as [|? ? Hr Hnd']; subst.
    assert (Hdis' : forall p, In p (r :: done) -> ~ In p rest).
    { intros p [<-|Hp]; [exact Hr|]. intros H. apply (Hdis p Hp). right; exact H. }
    assert (Happ : forall p, In p (done ++ r :: rest) <-> In p ((r :: done) ++ rest)).
    { intros p. rewrite !in_app_iff. cbn [In]. tauto. }
    destruct (d_names s r) as [jr|] eqn:Er.
    + destruct (find _ kept) as [ir|] eqn:Ef.
      * (* r is pointed at the kept inode ir *)
        apply find_content_some in Ef. destruct Ef as [Hin Ec0].
        intros p q i j Hp Hq. apply Happ in Hp. apply Happ in Hq. revert p q i j Hp Hq.
        apply (IH (link_to s r ir) kept (r :: done) Hnd' Hdis').
        -- exact Hk.
        -- intros p i [<-|Hp] Ei.
           ++ unfold link_to in Ei. cbn [d_names] in Ei. rewrite N.eqb_refl in Ei. inversion Ei; subst. exact Hin.
           ++ unfold link_to in Ei. cbn [d_names] in Ei. destruct (N.eqb_spec p r) as [->|].
              ** inversion Ei; subst. exact Hin.
              ** eapply Hdone; eauto.
      * (* r becomes a representative *)
        pose proof (find_content_none s kept jr Ef) as Hnone.
        intros p q i j Hp Hq. apply Happ in Hp. apply Happ in Hq. revert p q i j Hp Hq.
        apply (IH s (jr :: kept) (r :: done) Hnd' Hdis').
        -- intros i i' [<-|Hi] [<-|Hi'] Ec; try reflexivity.
           ++ exfalso. apply (Hnone i' Hi'). symmetry; exact Ec.
           ++ exfalso. apply (Hnone i Hi). exact Ec.
           ++ apply Hk; assumption.
        -- intros p i [<-|Hp] Ei.
           ++ rewrite Er in Ei. inversion Ei; subst. left; reflexivity.
           ++ right. eapply Hdone; eauto.
    + (* r has no file in the destination: it is simply absent afterwards too *)
      intros p q i j Hp Hq Ei Ej Ec.
      assert (Habs : d_names (relink_group s kept rest) r = None) by (rewrite relink_group_outside by exact Hr; exact Er).
      assert (Hp' : In p (done ++ rest)).
      { apply in_app_iff in Hp. apply in_app_iff. destruct Hp as [Hp|[<-|Hp]]; [left; exact Hp | congruence | right; exact Hp]. }
      assert (Hq' : In q (done ++ rest)).
      { apply in_app_iff in Hq. apply in_app_iff. destruct Hq as [Hq|[<-|Hq]]; [left; exact Hq | congruence | right; exact Hq]. }
      assert (Hdis2 : forall p0, In p0 done -> ~ In p0 rest) by (intros p0 Hp0 H; apply (Hdis p0 Hp0); right; exact H).
      exact (IH s kept done Hnd' Hdis2 Hk Hdone p q i j Hp' Hq' Ei Ej Ec).
Qed.

(* After the pass over one group: two names of the group that hold the same file share an inode. *)
Theorem relink_group_correct names s :
  NoDup names ->
  let s' := relink_group s [] names in
  (forall p q i j, In p names -> In q names -> d_names s' p = Some i -> d_names s' q = Some j ->
                   content_of s' p = content_of s' q -> i = j)
  /\ (forall p, content_of s' p = content_of s p)
  /\ (forall p, ~ In p names -> d_names s' p = d_names s p).
Proof.
  intros Hnd. split; [|split].
  - intros p q i j Hp Hq Ei Ej Ec.
    assert (H1 : forall p0, In p0 (@nil N) -> ~ In p0 names) by (intros ? []).
    assert (H2 : kept_ok s []) by (intros ? ? []).
    assert (H3 : forall p0 i0, In p0 (@nil N) -> d_names s p0 = Some i0 -> In i0 (@nil N)) by (intros ? ? []).
    assert (H4 : d_store (relink_group s [] names) i = d_store (relink_group s [] names) j).
    { unfold content_of in Ec. rewrite Ei, Ej in Ec. cbn [option_map] in Ec. inversion Ec. reflexivity. }
    exact (relink_group_joins names s [] [] Hnd H1 H2 H3 p q i j Hp Hq Ei Ej H4).
  - intros p. apply relink_group_contents.
  - intros p Hp. apply relink_group_outside. exact Hp.
Qed.

(* a name of the group is only ever pointed at an inode that a name of the SAME group had: the pass never links two groups *)
Theorem relink_group_stays_inside : forall names s kept q i,
  d_names (relink_group s kept names) q = Some i ->
  d_names s q = Some i \/ In i kept \/ exists r, In r names /\ d_names s r = Some i.
Proof.
  induction names as [|r rest IH]; intros s kept q i H; cbn [relink_group] in H; [left; exact H|].
  destruct (d_names s r) as [jr|] eqn:Er.
  - destruct (find _ kept) as [ir|] eqn:Ef.
    + apply find_content_some in Ef. destruct Ef as [Hin _].
      apply IH in H. destruct H as [H|[H|(r' & Hr' & H)]].
      * unfold link_to in H. cbn [d_names] in H. destruct (N.eqb_spec q r) as [->|]; [inversion H; subst; right; left; exact Hin | left; exact H].
      * right; left; exact H.
      * unfold link_to in H. cbn [d_names] in H. destruct (N.eqb_spec r' r) as [->|].
        -- inversion H; subst. right; left; exact Hin.
        -- right; right. exists r'. split; [right; exact Hr' | exact H].
    + apply IH in H. destruct H as [H|[[<-|H]|(r' & Hr' & H)]].
      * left; exact H.
      * right; right. exists r. split; [left; reflexivity | exact Er].
      * right; left; exact H.
      * right; right. exists r'. split; [right; exact Hr' | exact H].
  - apply IH in H. destruct H as [H|[H|(r' & Hr' & H)]]; [left; exact H | right; left; exact H |].
    right; right. exists r'. split; [right; exact Hr' | exact H].
Qed.

(* after the transfers every name of the group that is there holds the source file's bytes [c]: the pass puts them on ONE inode *)
Corollary relink_group_one_inode names s c :
  NoDup names -> (forall p i, In p names -> d_names s p = Some i -> d_store s i = c) ->
  let s' := relink_group s [] names in
  forall p q i j, In p names -> In q names -> d_names s' p = Some i -> d_names s' q = Some j -> i = j.
Proof.
  intros Hnd Hc s' p q i j Hp Hq Ei Ej.
  destruct (relink_group_correct names s Hnd) as (H1 & H2 & _). fold s' in H1, H2.
  apply (H1 p q i j Hp Hq Ei Ej).
  assert (Cp : content_of s' p = Some c).
  { rewrite H2. unfold content_of. pose proof (H2 p) as X. unfold content_of in X. rewrite Ei in X. cbn [option_map] in X.
    destruct (d_names s p) as [i0|] eqn:E0; [|discriminate]. cbn [option_map]. f_equal. apply (Hc p i0 Hp E0). }
  assert (Cq : content_of s' q = Some c).
  { rewrite H2. unfold content_of. pose proof (H2 q) as X. unfold content_of in X. rewrite Ej in X. cbn [option_map] in X.
    destruct (d_names s q) as [j0|] eqn:E0; [|discriminate]. cbn [option_map]. f_equal. apply (Hc q j0 Hq E0). }
  rewrite Cp, Cq. reflexivity.
Qed.

(* ---------- the re-link as system calls: old or new at every kill point ---------- *)
Theorem relink_prog_old_or_new k q i s j :
  r_names s q = Some j ->
  (r_names (rprefix k (relink_prog q i) s) q = Some j \/ r_names (rprefix k (relink_prog q i) s) q = Some i) /\
  (forall p, p <> q -> r_names (rprefix k (relink_prog q i) s) p = r_names s p).
Proof.
  intro Hq. unfold rprefix, relink_prog.
  destruct k as [|[|k]]; cbn [firstn fold_left rstep_apply r_names r_tmp].
  - split; [left; exact Hq | reflexivity].
  - split; [left; exact Hq | reflexivity].
  - rewrite firstn_nil. cbn [fold_left r_names]. rewrite N.eqb_refl. split; [right; reflexivity|].
    intros p Hp. destruct (N.eqb p q) eqn:E; [apply N.eqb_eq in E; congruence | reflexivity].
Qed.

(* the completed program is link_to *)
Theorem relink_prog_is_link_to q i s (ds : dstate) :
  r_tmp s = None -> (forall p, r_names s p = d_names ds p) ->
  forall p, r_names (rprefix 2 (relink_prog q i) s) p = d_names (link_to ds q i) p.
Proof.
  intros _ Hn p. unfold rprefix, relink_prog. cbn [firstn fold_left rstep_apply r_names r_tmp link_to d_names].
  destruct (N.eqb p q); [reflexivity | apply Hn].
Qed.

(* unlink first, then link: killed between the two calls the name does not exist *)
Theorem relink_unlink_first_refuted q i s : r_names (rprefix 1 (relink_prog_unlink_first q i) s) q = None.
Proof. unfold rprefix, relink_prog_unlink_first. cbn [firstn fold_left rstep_apply r_names]. rewrite N.eqb_refl. reflexivity. Qed.

(* ---------- separation: the name keeps its content, gets an inode nobody else has, nobody else changes ---------- *)
Theorem separate_contents U s q : wf U s -> forall p, content_of (separate s q) p = content_of s p.
Proof.
  intros Hwf p. unfold separate. destruct (content_of s q) as [c|] eqn:Eq; [|reflexivity].
  unfold content_of, replace. cbn [d_names d_store].
  destruct (N.eqb p q) eqn:Epq.
  - apply N.eqb_eq in Epq. subst p. cbn [option_map]. rewrite N.eqb_refl. exact (eq_sym Eq).
  - destruct (d_names s p) as [j|] eqn:Ep; cbn [option_map]; [|reflexivity].
    destruct (Hwf p j Ep) as [Hlt _].
    destruct (N.eqb j (d_next s)) eqn:Ej; [apply N.eqb_eq in Ej; subst j; exfalso; exact (N.lt_irrefl _ Hlt) | reflexivity].
Qed.

Theorem separate_alone U s q c : wf U s -> content_of s q = Some c ->
  d_names (separate s q) q = Some (d_next s) /\
  (forall p, p <> q -> d_names (separate s q) p = d_names s p /\ d_names (separate s q) p <> Some (d_next s)).
Proof.
  intros Hwf Eq. unfold separate. rewrite Eq. unfold replace. cbn [d_names]. rewrite N.eqb_refl. split; [reflexivity|].
  intros p Hp. destruct (N.eqb p q) eqn:Epq; [apply N.eqb_eq in Epq; congruence|]. split; [reflexivity|].
  intro Hs. destruct (Hwf p _ Hs) as [Hlt _]. exact (N.lt_irrefl _ Hlt).
Qed.
