(* Proofs about Model/Links.v *)
From Coq Require Import NArith List Bool.
From SyModel Require Import Links.
Import ListNotations.

Lemma preserve_once s d : d <> DDir -> sync_link LPreserve s d = DLink (l_target s).
Proof.
  intro Hd. unfold sync_link, exec_link, plan_link. destruct d as [|t|c|]; try congruence; cbn.
  - reflexivity.
  - destruct (N.eqb_spec t (l_target s)); [subst; reflexivity | reflexivity].
  - reflexivity.
Qed.

Lemma preserve_dir s : sync_link LPreserve s DDir = DDir.
Proof. reflexivity. Qed.

Lemma skip_noop s d : sync_link LSkip s d = d.
Proof. unfold sync_link, exec_link. destruct (plan_link LSkip s d); destruct d; reflexivity. Qed.

Lemma follow_result s d c : l_cwd s = RFile c -> d <> DDir -> sync_link LFollow s d = DFile c.
Proof.
  intros Hc Hd. unfold sync_link, exec_link, plan_link. destruct d as [|t|c'|]; try congruence; cbn; rewrite ?Hc; try reflexivity.
  destruct (N.eqb_spec c' c); [subst; reflexivity | cbn; rewrite ?Hc; reflexivity].
Qed.

(* after any number of re-syncs, with the link's target changing arbitrarily in between, the destination entry
   is the symlink with exactly the latest target text *)
Theorem preserve_stable : forall hist s d, d <> DDir -> resync LPreserve (hist ++ [s]) d = DLink (l_target s).
Proof.
  induction hist as [|s0 hist IH]; intros s d Hd; cbn [app resync].
  - apply preserve_once. exact Hd.
  - apply IH. rewrite preserve_once by exact Hd. discriminate.
Qed.

Theorem skip_creates_nothing : forall hist d, resync LSkip hist d = d.
Proof. induction hist as [|s h IH]; intro d; cbn [resync]; [reflexivity | rewrite skip_noop; apply IH]. Qed.

(* no step of any mode, over any destination entry, writes through a link that is in the destination *)
Theorem never_writes_through m s d : wrote_through m s d = false.
Proof.
  unfold wrote_through, exec_link, plan_link. destruct d as [|t|c|]; cbn.
  - destruct m; cbn; try reflexivity. destruct (l_cwd s); reflexivity.
  - destruct m; cbn; try (destruct (N.eqb t (l_target s)); reflexivity). destruct (l_cwd s); reflexivity.
  - destruct m; cbn; try reflexivity. destruct (l_cwd s) as [| |c']; try reflexivity. destruct (N.eqb c c'); reflexivity.
  - destruct m; cbn; try reflexivity. destruct (l_cwd s); reflexivity.
Qed.

(* ---------- events of symlink entries ---------- *)
Ltac link_cases m s d :=
  unfold link_event, sync_link, exec_link, plan_link, update_link, handle_symlink, produced;
  destruct m, d as [|t|c|]; cbn; try (destruct (N.eqb t (l_target s))); cbn; destruct (l_cwd s) as [| |c'] eqn:?; cbn;
  try (destruct (N.eqb c c')); cbn.

Theorem create_event_true m s d : link_event m s d = EvCreate -> d = DAbsent /\ sync_link m s d <> DAbsent.
Proof. link_cases m s d; intro H; try discriminate H; split; try reflexivity; discriminate. Qed.

Theorem skip_event_true m s d : link_event m s d = EvSkip -> sync_link m s d = d.
Proof. link_cases m s d; intro H; try discriminate H; reflexivity. Qed.

(* an update event: the entry existed; it exists afterwards too, except that in follow mode a destination LINK is removed before
   the run finds out that the source link does not resolve to a file *)
Theorem update_event_true m s d : link_event m s d = EvUpdate ->
  d <> DAbsent /\ (sync_link m s d <> DAbsent \/ (m = LFollow /\ produced m s = false /\ exists t, d = DLink t)).
Proof.
  link_cases m s d; intro H; try discriminate H; (split; [discriminate|]);
    first [ left; discriminate | right; split; [reflexivity|]; split; [unfold produced; rewrite ?Heqc; reflexivity | eexists; reflexivity] ].
Qed.

(* ---------- entries whose kind changes between runs ---------- *)
Theorem sync_any_never_writes_through m e d : snd (sync_any true m e d) = false.
Proof. destruct e as [s|c|]; cbn; [apply never_writes_through | destruct d; reflexivity | destruct d; reflexivity]. Qed.

Theorem resync_any_never_writes_through m : forall hist d, snd (resync_any true m hist d) = false.
Proof.
  induction hist as [|e h IH]; intro d; [reflexivity|]. cbn [resync_any].
  destruct (sync_any true m e d) as [d1 w1] eqn:E1. destruct (resync_any true m h d1) as [d2 w2] eqn:E2. cbn [snd].
  pose proof (sync_any_never_writes_through m e d) as H1. rewrite E1 in H1. cbn in H1.
  pose proof (IH d1) as H2. rewrite E2 in H2. cbn in H2. subst. reflexivity.
Qed.

(* a regular file entry ends up as a regular file with the source's content over anything but a directory, a directory entry as a
   directory over anything but a regular file *)
Theorem file_entry_result m c d : d <> DDir -> fst (sync_any true m (SAFile c) d) = DFile c.
Proof. destruct d; cbn; intro H; try reflexivity; contradiction. Qed.
Theorem dir_entry_result m d : (forall c, d <> DFile c) -> fst (sync_any true m SADir d) = DDir.
Proof. destruct d as [|t|c|]; cbn; intro H; try reflexivity. exfalso. apply (H c). reflexivity. Qed.

(* ---------- a re-run reports nothing for the entry (C03) ---------- *)
Theorem link_rerun_is_quiet m s d : let d1 := sync_link m s d in
  sync_link m s d1 = d1 /\ (link_event m s d1 = EvSkip \/ link_event m s d1 = EvError).
Proof.
  cbn zeta. unfold link_event, sync_link, exec_link, plan_link, update_link, handle_symlink, produced.
  destruct m, d as [|t|c|]; cbn; try (destruct (N.eqb_spec t (l_target s))); try subst t; cbn; destruct (l_cwd s) as [| |c'] eqn:E; cbn;
    rewrite ?E, ?N.eqb_refl; cbn; try (destruct (N.eqb_spec c c')); try subst c; cbn; rewrite ?E, ?N.eqb_refl; cbn; rewrite ?E, ?N.eqb_refl; cbn; auto;
    try (destruct (N.eqb t (l_target s)); cbn; auto).
Qed.

(* ---------- the dry run announces what the real run reports ---------- *)
Theorem dry_run_announces_the_real_event m s d : link_event m s d <> EvError -> dry_link_event m s d = link_event m s d.
Proof.
  unfold dry_link_event, link_event, left_out, produced, plan_link, update_link, handle_symlink.
  destruct m, d as [|t|c|]; destruct (l_cwd s) as [| |c']; cbn;
    try (destruct (N.eqb t (l_target s))); try (destruct (N.eqb c c')); cbn; intro H; try reflexivity; try (exfalso; apply H; reflexivity).
Qed.
