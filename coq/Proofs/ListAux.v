(* Small list lemmas missing from the 8.16 standard library. *)
From Coq Require Import List Lia Arith.
Import ListNotations.

Lemma In_firstn (A : Type) : forall (n : nat) (l : list A) x, In x (firstn n l) -> In x l.
Proof.
  induction n as [|n IH]; intros l x H; [destruct H|].
  destruct l as [|y l]; [destruct H|]. cbn [firstn] in H. destruct H as [->|H]; [left; reflexivity|right; apply IH; exact H].
Qed.

Lemma In_skipn (A : Type) : forall (n : nat) (l : list A) x, In x (skipn n l) -> In x l.
Proof.
  induction n as [|n IH]; intros l x H; [exact H|].
  destruct l as [|y l]; [destruct H|]. right. apply IH. exact H.
Qed.

Lemma Forall_firstn (A : Type) (P : A -> Prop) n (l : list A) : Forall P l -> Forall P (firstn n l).
Proof. intro H. apply Forall_forall. intros x Hx. eapply Forall_forall; [exact H|]. eapply In_firstn; exact Hx. Qed.

Lemma Forall_skipn (A : Type) (P : A -> Prop) n (l : list A) : Forall P l -> Forall P (skipn n l).
Proof. intro H. apply Forall_forall. intros x Hx. eapply Forall_forall; [exact H|]. eapply In_skipn; exact Hx. Qed.

Lemma skipn_skipn' (A : Type) : forall (n m : nat) (l : list A), skipn n (skipn m l) = skipn (m + n) l.
Proof.
  intros n m; revert n. induction m as [|m IH]; intros n l; [reflexivity|].
  destruct l as [|x l]; [destruct n; reflexivity|]. cbn [skipn plus]. apply IH.
Qed.

Lemma firstn_app_skipn_firstn (A : Type) : forall (n m : nat) (l : list A),
  firstn n l ++ firstn m (skipn n l) = firstn (n + m) l.
Proof.
  induction n as [|n IH]; intros m l; [reflexivity|].
  destruct l as [|x l]; [destruct m; reflexivity|]. cbn [firstn skipn plus app]. f_equal. apply IH.
Qed.

Lemma list_case (A : Type) (l : list A) : l = [] \/ exists x t, l = x :: t.
Proof. destruct l as [|x t]; [left; reflexivity | right; exists x, t; reflexivity]. Qed.
