(* Proofs about Model/Sparse.v: for every layout of holes and data, receiving the packed data regions
   reconstructs the file exactly, given that holes read as zeros. *)
From Coq Require Import ZArith List Bool Lia.
From SyModel Require Import Sparse.
Import ListNotations.

Definition zeros (l : list Z) : Prop := Forall (fun x => x = 0%Z) l.

Lemma zeros_repeat l : zeros l -> l = repeat 0%Z (length l).
Proof. induction 1 as [|x l Hx Hl IH]; [reflexivity|]. cbn. subst. f_equal. exact IH. Qed.

Lemma repeat_add (x : Z) a b : repeat x (a + b) = repeat x a ++ repeat x b.
Proof. induction a; cbn; [reflexivity | f_equal; assumption]. Qed.

(* f decomposes into zero stretches and data regions exactly as rs says, starting at offset off *)
Inductive layout : nat -> list Z -> list (nat * nat) -> Prop :=
| lay_nil off : layout off [] []
| lay_zero off zs rest rs : zeros zs -> layout (off + length zs) rest rs -> layout off (zs ++ rest) rs
| lay_data off d rest rs : layout (off + length d) rest rs -> layout off (d ++ rest) ((off, length d) :: rs).

Lemma slice_mid (pre d rest : list Z) : slice (pre ++ d ++ rest) (length pre) (length d) = d.
Proof.
  unfold slice. rewrite skipn_app, skipn_all, Nat.sub_diag. cbn [app skipn].
  rewrite firstn_app, firstn_all, Nat.sub_diag. cbn. apply app_nil_r.
Qed.

Lemma write_at_zeros (pre d : list Z) (n : nat) :
  write_at (pre ++ repeat 0%Z (length d + n)) (length pre) d = (pre ++ d) ++ repeat 0%Z n.
Proof.
  unfold write_at. rewrite app_length, repeat_length.
  replace (length pre + length d - (length pre + (length d + n))) with 0 by lia. cbn [repeat]. rewrite app_nil_r.
  rewrite firstn_app, firstn_all, Nat.sub_diag. cbn [firstn]. rewrite app_nil_r.
  rewrite skipn_app. rewrite skipn_all2 by lia. cbn [app].
  replace (length pre + length d - length pre) with (length d) by lia.
  rewrite repeat_add, skipn_app, skipn_all2 by (rewrite repeat_length; lia).
  rewrite repeat_length, Nat.sub_diag. cbn. rewrite <- app_assoc. reflexivity.
Qed.

Lemma receive_layout : forall off suf rs, layout off suf rs ->
  forall pre, length pre = off ->
  receive_loop (pre ++ repeat 0%Z (length suf)) rs (pack (pre ++ suf) rs) = Some (pre ++ suf).
Proof.
  induction 1 as [off | off zs rest rs Hz Hl IH | off d rest rs Hl IH]; intros pre Hpre.
  - cbn. rewrite app_nil_r. reflexivity.
  - rewrite app_length, repeat_add. rewrite <- (zeros_repeat zs Hz). rewrite !app_assoc. rewrite <- (app_assoc pre zs rest).
    rewrite (app_assoc pre zs rest). apply IH. rewrite app_length. lia.
  - cbn [pack flat_map fst snd receive_loop]. rewrite <- Hpre. rewrite slice_mid.
    rewrite app_length. destruct (Nat.ltb_spec (length d + length (flat_map (fun r => slice (pre ++ d ++ rest) (fst r) (snd r)) rs)) (length d)) as [Hlt|_]; [lia|].
    rewrite firstn_app, firstn_all, Nat.sub_diag. cbn [firstn]. rewrite app_nil_r.
    rewrite skipn_app, skipn_all, Nat.sub_diag. cbn [skipn app].
    rewrite app_length, write_at_zeros. rewrite (app_assoc pre d rest).
    apply IH. rewrite app_length. lia.
Qed.

(* ---------- a file that matches its extent map: lengths agree and hole runs read as zeros ---------- *)
Fixpoint matches (ext : list run) (f : list Z) : Prop :=
  match ext with
  | [] => f = []
  | (isd, n) :: t => length (firstn n f) = n /\ (isd = false -> zeros (firstn n f)) /\ matches t (skipn n f)
  end.

Lemma detect_layout : forall ext f off, matches ext f -> layout off f (regions_from off ext).
Proof.
  induction ext as [|[isd n] t IH]; intros f off Hm.
  - cbn in Hm. subst. constructor.
  - cbn [matches] in Hm. destruct Hm as (Hlen & Hz & Hrest).
    rewrite <- (firstn_skipn n f). cbn [regions_from]. destruct isd.
    + destruct n as [|n'].
      * cbn [firstn app]. apply IH. exact Hrest.
      * rewrite <- Hlen at 2 3. apply lay_data. rewrite Hlen. apply IH. exact Hrest.
    + apply lay_zero; [apply Hz; reflexivity|]. rewrite Hlen. apply IH. exact Hrest.
Qed.

Theorem sparse_roundtrip ext f :
  matches ext f -> receive_sparse (length f) (detect ext) (pack f (detect ext)) = Some f.
Proof.
  intro Hm. unfold receive_sparse, detect.
  exact (receive_layout 0 f _ (detect_layout ext f 0 Hm) [] eq_refl).
Qed.

(* any region list that describes the file (not only the detected one) round-trips *)
Theorem layout_roundtrip f rs : layout 0 f rs -> receive_sparse (length f) rs (pack f rs) = Some f.
Proof. intro Hl. exact (receive_layout 0 f rs Hl [] eq_refl). Qed.

(* a stream that is too short is rejected, never padded *)
Theorem short_stream_rejected total o l rs stream :
  length stream < l -> receive_sparse total ((o, l) :: rs) stream = None.
Proof. intro H. unfold receive_sparse. cbn [receive_loop]. destruct (Nat.ltb_spec (length stream) l); [reflexivity | lia]. Qed.
