(* Proofs about coq/gen/StateGuards.v, the guards that py/gen_stateguards.py translates from /repo/src on every run.
   The scripts do not depend on the number or the names of the flags: the record is taken apart and every boolean is tried. *)
From Coq Require Import Bool List String.
From SyGen Require Import StateGuards.
Import ListNotations.

Ltac all_bools := repeat match goal with b : bool |- _ => destruct b end; reflexivity.

Lemma dry_run_no_state_file f : f_dry_run f = true -> forallb (fun g => negb (snd g f)) all_guards = true.
Proof. destruct f. simpl. intro H. subst. all_bools. Qed.

Lemma verify_only_main_no_state_file f : f_verify_only f = true -> forallb (fun g => negb (snd g f)) main_guards = true.
Proof. destruct f. simpl. intro H. subst. all_bools. Qed.

Lemma all_sites_found : List.length all_guards = expected_sites.
Proof. reflexivity. Qed.
