(* Proofs about Model/Temp.v: tasks with pairwise disjoint footprints give the same final state under
   every interleaving; the append naming makes the footprints disjoint except for literal name clashes *)
From Coq Require Import NArith List Bool Arith Lia.
From SyGen Require Import SrcConstants.
From SyModel Require Import Temp.
Import ListNotations.

Lemma fname_eqb_eq a b : fname_eqb a b = true <-> a = b.
Proof.
  unfold fname_eqb. revert b. induction a as [|x a IH]; intros [|y b]; split; intro H; try reflexivity; try discriminate.
  - apply andb_prop in H. destruct H as [H1 H2]. apply N.eqb_eq in H1. apply IH in H2. congruence.
  - inversion H; subst. rewrite N.eqb_refl. cbn. apply IH. reflexivity.
Qed.

Lemma fpath_eqb_eq a b : fpath_eqb a b = true <-> a = b.
Proof.
  unfold fpath_eqb. destruct a as [d n], b as [d' n']. cbn [fst snd]. split; intro H.
  - apply andb_prop in H. destruct H as [H1 H2]. apply N.eqb_eq in H1. apply fname_eqb_eq in H2. congruence.
  - inversion H; subst. rewrite N.eqb_refl. cbn. apply fname_eqb_eq. reflexivity.
Qed.

Lemma fpath_eqb_refl a : fpath_eqb a a = true.
Proof. apply fpath_eqb_eq. reflexivity. Qed.

Lemma fpath_eqb_neq a b : a <> b -> fpath_eqb a b = false.
Proof. intro H. destruct (fpath_eqb a b) eqn:E; [apply fpath_eqb_eq in E; contradiction | reflexivity]. Qed.

Lemma fpath_eq_dec (a b : fpath) : {a = b} + {a <> b}.
Proof. destruct (fpath_eqb a b) eqn:E; [left; apply fpath_eqb_eq; exact E | right; intro H; apply fpath_eqb_eq in H; congruence]. Qed.

Lemma tupd_same s p v : tupd s p v p = v.
Proof. unfold tupd. rewrite fpath_eqb_refl. reflexivity. Qed.

Lemma tupd_other s p v q : q <> p -> tupd s p v q = s q.
Proof. intro H. unfold tupd. rewrite fpath_eqb_neq by exact H. reflexivity. Qed.

(* ---- frame and locality of single operations *)
Lemma tapply_frame o s q : ~ In q (touches o) -> tapply o s q = s q.
Proof.
  destruct o as [p t|p t|a b|p]; cbn [touches tapply In]; intro H.
  - apply tupd_other. intro E. apply H. left. congruence.
  - destruct (s p); [|reflexivity]. apply tupd_other. intro E. apply H. left. congruence.
  - destruct (s a); [|reflexivity]. rewrite tupd_other by (intro E; apply H; left; congruence).
    apply tupd_other. intro E. apply H. right. left. congruence.
  - apply tupd_other. intro E. apply H. left. congruence.
Qed.

Lemma tapply_local o s s' : (forall q, In q (touches o) -> s q = s' q) -> forall q, In q (touches o) -> tapply o s q = tapply o s' q.
Proof.
  destruct o as [p t|p t|a b|p]; cbn [touches tapply In]; intros H q Hq; [| | |destruct Hq as [<-|[]]; rewrite !tupd_same; reflexivity].
  - destruct Hq as [<-|[]]. rewrite !tupd_same. reflexivity.
  - destruct Hq as [<-|[]]. rewrite <- (H p (or_introl eq_refl)). destruct (s p) eqn:E.
    + rewrite !tupd_same. reflexivity.
    + rewrite <- (H p (or_introl eq_refl)). reflexivity.
  - rewrite <- (H a (or_introl eq_refl)). destruct (s a) as [c|] eqn:E.
    + destruct (fpath_eq_dec q a) as [->|Hqa]; [rewrite !tupd_same; reflexivity|].
      rewrite !(tupd_other _ a) by exact Hqa. destruct Hq as [<-|[<-|[]]]; [contradiction|]. rewrite !tupd_same. reflexivity.
    + apply H. exact Hq.
Qed.

Definition agree (F : fpath -> Prop) (s s' : tfs) : Prop := forall q, F q -> s q = s' q.

Lemma tapply_agree (F : fpath -> Prop) o s s' :
  (forall q, In q (touches o) -> F q) -> agree F s s' -> agree F (tapply o s) (tapply o s').
Proof.
  intros Hin Hag q Hq. destruct (in_dec fpath_eq_dec q (touches o)) as [Hi|Hn].
  - apply tapply_local; [|exact Hi]. intros r Hr. apply Hag. apply Hin. exact Hr.
  - rewrite !tapply_frame by exact Hn. apply Hag. exact Hq.
Qed.

Definition run_ops (p : list top) (s : tfs) : tfs := fold_left (fun s o => tapply o s) p s.

(* what an execution leaves on a set F of paths is what the one task owning F computes on its own *)
Lemma exec_proj (F : fpath -> Prop) i : forall l s s',
  (forall x, In x l -> fst x = i -> forall q, In q (touches (snd x)) -> F q) ->
  (forall x, In x l -> fst x <> i -> forall q, In q (touches (snd x)) -> ~ F q) ->
  agree F s s' -> agree F (texec l s) (run_ops (proj i l) s').
Proof.
  induction l as [|x l IH]; intros s s' Hmine Hother Hag; [exact Hag|].
  unfold texec, proj. cbn [fold_left filter]. destruct (Nat.eqb (fst x) i) eqn:E.
  - apply Nat.eqb_eq in E. cbn [map]. unfold run_ops. cbn [fold_left]. apply IH.
    + intros y Hy. apply Hmine. right. exact Hy.
    + intros y Hy. apply Hother. right. exact Hy.
    + apply tapply_agree; [|exact Hag]. apply (Hmine x (or_introl eq_refl) E).
  - apply Nat.eqb_neq in E. apply IH.
    + intros y Hy. apply Hmine. right. exact Hy.
    + intros y Hy. apply Hother. right. exact Hy.
    + intros q Hq. rewrite tapply_frame; [apply Hag; exact Hq|].
      intro Hin. exact (Hother x (or_introl eq_refl) E q Hin Hq).
Qed.

Lemma exec_untouched q : forall l s, (forall x, In x l -> ~ In q (touches (snd x))) -> texec l s q = s q.
Proof.
  induction l as [|x l IH]; intros s H; [reflexivity|]. unfold texec. cbn [fold_left].
  change (texec l (tapply (snd x) s) q = s q). rewrite IH by (intros y Hy; apply H; right; exact Hy).
  apply tapply_frame. apply H. left. reflexivity.
Qed.

(* ---- interleavings *)
Definition is_interleaving (l : list (nat * top)) (ps : list (list top)) : Prop := forall i, proj i l = nth i ps [].
Definition foot (p : list top) : list fpath := concat (map touches p).
Definition disjoint_feet (ps : list (list top)) : Prop :=
  forall i j q, i <> j -> In q (foot (nth i ps [])) -> In q (foot (nth j ps [])) -> False.

Lemma in_foot o p q : In o p -> In q (touches o) -> In q (foot p).
Proof. intros Ho Hq. unfold foot. apply in_concat. exists (touches o). split; [apply in_map; exact Ho | exact Hq]. Qed.

Lemma in_proj x l : In x l -> In (snd x) (proj (fst x) l).
Proof. intro H. unfold proj. apply in_map. apply filter_In. split; [exact H | apply Nat.eqb_refl]. Qed.

Lemma owner_dec ps q : (exists i, In q (foot (nth i ps []))) \/ (forall i, ~ In q (foot (nth i ps []))).
Proof.
  induction ps as [|p r IH].
  - right. intros [|i]; cbn; tauto.
  - destruct (in_dec fpath_eq_dec q (foot p)) as [H|H]; [left; exists 0; exact H|].
    destruct IH as [[i Hi]|Hn]; [left; exists (S i); exact Hi|]. right. intros [|i]; [exact H | apply Hn].
Qed.

Lemma interleaving_owned ps l s i q :
  disjoint_feet ps -> is_interleaving l ps -> In q (foot (nth i ps [])) -> texec l s q = run_ops (nth i ps []) s q.
Proof.
  intros Hd Hl Hq. rewrite <- (Hl i).
  apply (exec_proj (fun r => In r (foot (nth i ps []))) i l s s); [| |intros r _; reflexivity|exact Hq].
  - intros x Hx E r Hr. apply (in_foot (snd x)); [|exact Hr]. rewrite <- (Hl i), <- E. apply in_proj. exact Hx.
  - intros x Hx E r Hr Hr'. apply (Hd (fst x) i r E); [|exact Hr']. apply (in_foot (snd x)); [|exact Hr].
    rewrite <- (Hl (fst x)). apply in_proj. exact Hx.
Qed.

Lemma interleaving_unowned ps l s q :
  is_interleaving l ps -> (forall i, ~ In q (foot (nth i ps []))) -> texec l s q = s q.
Proof.
  intros Hl Hn. apply exec_untouched. intros x Hx Hq. apply (Hn (fst x)). apply (in_foot (snd x)); [|exact Hq].
  rewrite <- (Hl (fst x)). apply in_proj. exact Hx.
Qed.

(* every interleaving of programs with pairwise disjoint footprints ends in the same state *)
Theorem interleavings_agree ps l1 l2 s :
  disjoint_feet ps -> is_interleaving l1 ps -> is_interleaving l2 ps -> forall q, texec l1 s q = texec l2 s q.
Proof.
  intros Hd H1 H2 q. destruct (owner_dec ps q) as [[i Hi]|Hn].
  - rewrite (interleaving_owned ps l1 s i q Hd H1 Hi), (interleaving_owned ps l2 s i q Hd H2 Hi). reflexivity.
  - rewrite (interleaving_unowned ps l1 s q H1 Hn), (interleaving_unowned ps l2 s q H2 Hn). reflexivity.
Qed.

(* ---- the sequential order and every schedule are interleavings *)
Lemma proj_app i a b : proj i (a ++ b) = proj i a ++ proj i b.
Proof. unfold proj. rewrite filter_app, map_app. reflexivity. Qed.

Lemma proj_tagged_same i p : proj i (map (fun o => (i, o)) p) = p.
Proof. unfold proj. induction p as [|o p IH]; [reflexivity|]. cbn. rewrite Nat.eqb_refl. cbn. f_equal. exact IH. Qed.

Lemma proj_tagged_other i j p : i <> j -> proj i (map (fun o => (j, o)) p) = [].
Proof. intro H. unfold proj. induction p as [|o p IH]; [reflexivity|]. cbn. apply Nat.eqb_neq in H. rewrite Nat.eqb_sym, H. exact IH. Qed.

Lemma sequential_from_proj ps : forall k i, proj i (sequential_from k ps) = if Nat.ltb i k then [] else nth (i - k) ps [].
Proof.
  induction ps as [|p r IH]; intros k i; cbn [sequential_from].
  - destruct (Nat.ltb i k); [reflexivity|]. destruct (i - k); reflexivity.
  - rewrite proj_app, IH. destruct (Nat.ltb_spec i k) as [Hlt|Hge].
    + rewrite proj_tagged_other by lia. destruct (Nat.ltb_spec i (S k)); [reflexivity | lia].
    + destruct (Nat.eq_dec i k) as [->|Hne].
      * rewrite proj_tagged_same. destruct (Nat.ltb_spec k (S k)); [|lia]. rewrite Nat.sub_diag, app_nil_r. reflexivity.
      * rewrite proj_tagged_other by lia. destruct (Nat.ltb_spec i (S k)); [lia|]. cbn [app].
        replace (i - k) with (S (i - S k)) by lia. reflexivity.
Qed.

Lemma sequential_is_interleaving ps : is_interleaving (sequential ps) ps.
Proof. intro i. unfold sequential. rewrite sequential_from_proj. cbn. rewrite Nat.sub_0_r. reflexivity. Qed.

Lemma take_nth_spec : forall i ps o ps', take_nth i ps = Some (o, ps') ->
  nth i ps [] = o :: nth i ps' [] /\ forall j, j <> i -> nth j ps' [] = nth j ps [].
Proof.
  induction i as [|i IH]; intros [|p r] o ps' H; cbn in H; try discriminate.
  - destruct p as [|o' p]; cbn in H; [discriminate|]. inversion H; subst. split; [reflexivity|]. intros [|j] Hj; [contradiction | reflexivity].
  - assert (H' : match take_nth i r with Some (o0, r') => Some (o0, p :: r') | None => None end = Some (o, ps')) by (destruct p; exact H).
    destruct (take_nth i r) as [[o' r']|] eqn:E; [|discriminate]. inversion H'; subst.
    destruct (IH r o r' E) as [H1 H2]. split; [exact H1|]. intros [|j] Hj; [reflexivity|]. cbn. apply H2. lia.
Qed.

Lemma run_schedule_is_interleaving : forall sched ps, is_interleaving (run_schedule sched ps) ps.
Proof.
  induction sched as [|i rest IH]; intro ps; cbn [run_schedule]; [apply sequential_is_interleaving|].
  destruct (take_nth i ps) as [[o ps']|] eqn:E; [|apply IH].
  destruct (take_nth_spec i ps o ps' E) as [H1 H2]. intro j. unfold proj. cbn [filter fst].
  destruct (Nat.eqb_spec i j) as [<-|Hne].
  - cbn [map snd]. fold (proj i (run_schedule rest ps')). rewrite (IH ps' i), H1. reflexivity.
  - fold (proj j (run_schedule rest ps')). rewrite (IH ps' j). apply H2. congruence.
Qed.

(* ---- transfer tasks *)
Section Tasks.
  Variable tn : fpath -> fpath.
  Variable tasks : list ttask.

  (* the naming never maps a destination onto a destination, nor two destinations onto one working file *)
  Definition good_naming : Prop :=
    NoDup (map tk_dest tasks) /\
    (forall t t', In t tasks -> In t' tasks -> tk_kind t = KDelta -> tn (tk_dest t) <> tk_dest t') /\
    (forall t t', In t tasks -> In t' tasks -> tk_kind t = KDelta -> tk_kind t' = KDelta -> tn (tk_dest t) = tn (tk_dest t') -> tk_dest t = tk_dest t').

  Let ps := map (prog tn) tasks.
  Let dflt := {| tk_id := 0; tk_dest := (0%N, []); tk_kind := KDirect |}.

  Lemma nth_ps i : i < length tasks -> nth i ps [] = prog tn (nth i tasks dflt).
  Proof. intro H. unfold ps. rewrite (nth_indep _ [] (prog tn dflt)) by (rewrite map_length; exact H). apply map_nth. Qed.

  Lemma nth_ps_over i : length tasks <= i -> nth i ps [] = [].
  Proof. intro H. apply nth_overflow. unfold ps. rewrite map_length. exact H. Qed.

  Lemma foot_prog t q : In q (foot (prog tn t)) ->
    q = tk_dest t \/ (tk_kind t = KDelta /\ q = tn (tk_dest t)).
  Proof.
    unfold foot, prog. destruct (tk_kind t); cbn; intro H.
    - destruct H as [H|[H|[H|[H|[]]]]]; subst; auto.
    - destruct H as [H|[H|[]]]; subst; auto.
    - destruct H as [H|[]]; subst; auto.
  Qed.

  Lemma dest_in_foot t : In (tk_dest t) (foot (prog tn t)).
  Proof. unfold foot, prog. destruct (tk_kind t); cbn; auto. Qed.

  Lemma temp_in_foot t : tk_kind t = KDelta -> In (tn (tk_dest t)) (foot (prog tn t)).
  Proof. intro H. unfold foot, prog. rewrite H. cbn. auto. Qed.

  Lemma nodup_nth_dest i j : NoDup (map tk_dest tasks) -> i < length tasks -> j < length tasks ->
    tk_dest (nth i tasks dflt) = tk_dest (nth j tasks dflt) -> i = j.
  Proof.
    intros Hnd Hi Hj E. rewrite <- !(map_nth tk_dest) in E.
    apply (proj1 (NoDup_nth (map tk_dest tasks) (tk_dest dflt)) Hnd); rewrite ?map_length; assumption.
  Qed.

  Lemma good_disjoint : good_naming -> disjoint_feet ps.
  Proof.
    intros (Hnd & Hdt & Htt) i j q Hij Hi Hj.
    destruct (Nat.lt_ge_cases i (length tasks)) as [Li|Li]; [|rewrite nth_ps_over in Hi by exact Li; destruct Hi].
    destruct (Nat.lt_ge_cases j (length tasks)) as [Lj|Lj]; [|rewrite nth_ps_over in Hj by exact Lj; destruct Hj].
    rewrite nth_ps in Hi, Hj by assumption.
    assert (Ii : In (nth i tasks dflt) tasks) by (apply nth_In; exact Li).
    assert (Ij : In (nth j tasks dflt) tasks) by (apply nth_In; exact Lj).
    apply foot_prog in Hi, Hj. destruct Hi as [Hi|[Ki Hi]], Hj as [Hj|[Kj Hj]]; subst q.
    - apply Hij. apply nodup_nth_dest; assumption.
    - exact (Hdt _ _ Ij Ii Kj (eq_sym Hj)).
    - exact (Hdt _ _ Ii Ij Ki Hj).
    - apply Hij. apply nodup_nth_dest; try assumption. apply Htt; assumption.
  Qed.

  Lemma run_prog_dest t s : tk_kind t <> KDelete -> tn (tk_dest t) <> tk_dest t \/ tk_kind t = KDirect ->
    run_ops (prog tn t) s (tk_dest t) = Some (TNew (tk_id t)).
  Proof.
    intros Hk H. unfold prog, run_ops. destruct (tk_kind t); cbn [fold_left tapply].
    - destruct H as [H|H]; [|discriminate]. rewrite tupd_same, tupd_same.
      rewrite tupd_other by (intro E; apply H; congruence). apply tupd_same.
    - rewrite tupd_same. apply tupd_same.
    - contradiction.
  Qed.

  Lemma run_prog_delete t s : tk_kind t = KDelete -> run_ops (prog tn t) s (tk_dest t) = None.
  Proof. intro H. unfold prog, run_ops. rewrite H. cbn [fold_left tapply]. apply tupd_same. Qed.

  Lemma run_prog_temp t s : tk_kind t = KDelta -> run_ops (prog tn t) s (tn (tk_dest t)) = None.
  Proof. intro H. unfold prog, run_ops. rewrite H. cbn [fold_left tapply]. rewrite tupd_same, tupd_same. apply tupd_same. Qed.

  (* the final state of EVERY interleaving: each transferred destination holds exactly its source's data, each deleted
     entry is gone, no working file exists, and every other path -- a user's own files included -- is as it was *)
  Theorem final_state l s : good_naming -> is_interleaving l ps ->
    (forall t, In t tasks -> tk_kind t <> KDelete -> texec l s (tk_dest t) = Some (TNew (tk_id t))) /\
    (forall t, In t tasks -> tk_kind t = KDelete -> texec l s (tk_dest t) = None) /\
    (forall t, In t tasks -> tk_kind t = KDelta -> texec l s (tn (tk_dest t)) = None) /\
    (forall q, (forall t, In t tasks -> q <> tk_dest t /\ (tk_kind t = KDelta -> q <> tn (tk_dest t))) -> texec l s q = s q).
  Proof.
    intros Hg Hl. pose proof (good_disjoint Hg) as Hd. destruct Hg as (Hnd & Hdt & Htt). split; [|split; [|split]].
    - intros t Ht Hk. destruct (In_nth _ _ dflt Ht) as (i & Li & Ei).
      rewrite (interleaving_owned ps l s i _ Hd Hl) by (rewrite nth_ps, Ei by exact Li; apply dest_in_foot).
      rewrite nth_ps, Ei by exact Li. apply run_prog_dest; [exact Hk|]. destruct (tk_kind t) eqn:K; [left | right; reflexivity | contradiction].
      apply (Hdt t t Ht Ht K).
    - intros t Ht K. destruct (In_nth _ _ dflt Ht) as (i & Li & Ei).
      rewrite (interleaving_owned ps l s i _ Hd Hl) by (rewrite nth_ps, Ei by exact Li; apply dest_in_foot).
      rewrite nth_ps, Ei by exact Li. apply run_prog_delete. exact K.
    - intros t Ht K. destruct (In_nth _ _ dflt Ht) as (i & Li & Ei).
      rewrite (interleaving_owned ps l s i _ Hd Hl) by (rewrite nth_ps, Ei by exact Li; apply temp_in_foot; exact K).
      rewrite nth_ps, Ei by exact Li. apply run_prog_temp. exact K.
    - intros q Hq. apply (interleaving_unowned ps l s q Hl). intros i Hi.
      destruct (Nat.lt_ge_cases i (length tasks)) as [Li|Li]; [|rewrite nth_ps_over in Hi by exact Li; destruct Hi].
      rewrite nth_ps in Hi by exact Li. destruct (Hq (nth i tasks dflt) (nth_In _ _ Li)) as [H1 H2].
      apply foot_prog in Hi. destruct Hi as [Hi|[K Hi]]; [exact (H1 Hi) | exact (H2 K Hi)].
  Qed.

  Theorem schedule_independent s sched1 sched2 : good_naming ->
    forall q, run_tasks tn tasks sched1 s q = run_tasks tn tasks sched2 s q.
  Proof.
    intros Hg q. unfold run_tasks. fold ps. apply (interleavings_agree ps); [apply good_disjoint; exact Hg | | ]; apply run_schedule_is_interleaving.
  Qed.
End Tasks.

(* ---- the append naming of temp_path_for *)
Lemma temp_path_injective a b : temp_path a = temp_path b -> a = b.
Proof.
  destruct a as [d n], b as [d' n']. unfold temp_path, temp_name. cbn [fst snd]. intro H. inversion H as [[Hd Hn]].
  apply app_inv_tail in Hn. subst. reflexivity.
Qed.

Lemma temp_path_not_self a : temp_path a <> a.
Proof.
  destruct a as [d n]. unfold temp_path, temp_name. cbn [fst snd]. intro H. inversion H as [Hn].
  assert (L : length (n ++ TEMP_SUFFIX) = length n) by (rewrite Hn; reflexivity). rewrite app_length in L.
  assert (0 < length TEMP_SUFFIX) by (vm_compute; lia). lia.
Qed.

(* no planned destination is literally the working-file name of another planned block-delta destination *)
Definition no_literal_clash (tasks : list ttask) : Prop :=
  forall t t', In t tasks -> In t' tasks -> tk_kind t = KDelta -> temp_path (tk_dest t) <> tk_dest t'.

Lemma append_naming_good tasks : NoDup (map tk_dest tasks) -> no_literal_clash tasks -> good_naming temp_path tasks.
Proof.
  intros Hnd Hc. split; [exact Hnd|]. split; [exact Hc|]. intros t t' _ _ _ _ E. apply temp_path_injective. exact E.
Qed.

(* ---- concrete worlds: non-vacuity and refutations *)
Definition nm (l : list N) : fname := l.
Definition a_txt : fpath := (1%N, [97; 46; 116; 120; 116]%N).
Definition a_bin : fpath := (1%N, [97; 46; 98; 105; 110]%N).
Definition a_bin_tmp : fpath := temp_path a_bin.
Definition a_sy_tmp : fpath := (1%N, [97; 46; 115; 121; 46; 116; 109; 112]%N).
Definition world0 : tfs := fun q => if fpath_eqb q a_txt then Some (TOld 1) else if fpath_eqb q a_bin then Some (TOld 2)
                                   else if fpath_eqb q a_sy_tmp then Some (TOld 3) else if fpath_eqb q a_bin_tmp then Some (TOld 4) else None.
Definition two_deltas : list ttask := [ {| tk_id := 1; tk_dest := a_txt; tk_kind := KDelta |}; {| tk_id := 2; tk_dest := a_bin; tk_kind := KDelta |} ].
Definition clash_tasks : list ttask := [ {| tk_id := 1; tk_dest := a_bin; tk_kind := KDelta |}; {| tk_id := 2; tk_dest := a_bin_tmp; tk_kind := KDirect |} ].
Definition universe0 : list fpath := [a_txt; a_bin; a_sy_tmp; a_bin_tmp; temp_path a_txt].

Lemma two_deltas_good : good_naming temp_path two_deltas.
Proof.
  apply append_naming_good.
  - cbn. repeat constructor; cbn; intuition discriminate.
  - intros t t' Ht Ht' _. cbn in Ht, Ht'. destruct Ht as [<-|[<-|[]]], Ht' as [<-|[<-|[]]]; vm_compute; discriminate.
Qed.

(* the pinned naming (Path::with_extension): a.txt and a.bin share a.sy.tmp, and a schedule exists whose result
   differs from the sequential one (a.bin ends with a.txt's data, and the user's a.sy.tmp is gone) *)
Lemma pinned_naming_shares : pinned_temp_path a_txt = pinned_temp_path a_bin /\ pinned_temp_path a_txt = a_sy_tmp.
Proof. vm_compute. split; reflexivity. Qed.

Lemma pinned_naming_schedule_dependent :
  observe (run_tasks pinned_temp_path two_deltas [0; 1; 1; 0; 1; 0] world0) universe0 <>
  observe (run_tasks pinned_temp_path two_deltas [] world0) universe0.
Proof. vm_compute. discriminate. Qed.

(* the append naming still fails when a planned destination is literally <other destination>.sy.tmp *)
Lemma literal_clash_schedule_dependent :
  observe (run_tasks temp_path clash_tasks [0; 1; 1; 0; 0] world0) universe0 <>
  observe (run_tasks temp_path clash_tasks [] world0) universe0.
Proof. vm_compute. discriminate. Qed.

(* ---- crash states of an interleaved run decompose per task ---- *)
Lemma proj_firstn_prefix i k l : proj i (firstn k l) = firstn (length (proj i (firstn k l))) (proj i l).
Proof.
  rewrite <- (firstn_skipn k l) at 3. rewrite proj_app. rewrite firstn_app, Nat.sub_diag, firstn_all. cbn. rewrite app_nil_r. reflexivity.
Qed.

Lemma sub_interleaving_owned ps l l' s i q :
  disjoint_feet ps -> is_interleaving l ps -> incl l' l -> In q (foot (nth i ps [])) -> texec l' s q = run_ops (proj i l') s q.
Proof.
  intros Hd Hl Hs Hq.
  apply (exec_proj (fun r => In r (foot (nth i ps []))) i l' s s); [| |intros r _; reflexivity|exact Hq].
  - intros x Hx E r Hr. apply (in_foot (snd x)); [|exact Hr]. rewrite <- (Hl i), <- E. apply in_proj. apply Hs. exact Hx.
  - intros x Hx E r Hr Hr'. apply (Hd (fst x) i r E); [|exact Hr']. apply (in_foot (snd x)); [|exact Hr].
    rewrite <- (Hl (fst x)). apply in_proj. apply Hs. exact Hx.
Qed.

Lemma firstn_incl (A : Type) k (l : list A) : incl (firstn k l) l.
Proof. intros x Hx. rewrite <- (firstn_skipn k l). apply in_or_app. left. exact Hx. Qed.

(* the process dies after k operations of an arbitrary interleaving: every path owned by task i is in the state that
   task i's own program reaches after some prefix of it (m = 0: untouched; m = all: finished), independently of what
   the other tasks did; every path owned by no task is untouched *)
Theorem crash_state_decomposes ps l s k :
  disjoint_feet ps -> is_interleaving l ps ->
  (forall i q, In q (foot (nth i ps [])) -> exists m, texec (firstn k l) s q = run_ops (firstn m (nth i ps [])) s q) /\
  (forall q, (forall i, ~ In q (foot (nth i ps []))) -> texec (firstn k l) s q = s q).
Proof.
  intros Hd Hl. split.
  - intros i q Hq. remember (length (proj i (firstn k l))) as m eqn:Em. exists m.
    rewrite (sub_interleaving_owned ps l (firstn k l) s i q Hd Hl (firstn_incl _ k l) Hq).
    pose proof (proj_firstn_prefix i k l) as E. rewrite <- Em in E. rewrite E, (Hl i). reflexivity.
  - intros q Hn. apply exec_untouched. intros x Hx Hq. apply (Hn (fst x)). apply (in_foot (snd x)); [|exact Hq].
    rewrite <- (Hl (fst x)). apply in_proj. apply (firstn_incl _ k l). exact Hx.
Qed.
