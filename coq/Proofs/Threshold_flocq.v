(* Proofs about Model/Threshold.v, part 3: the coded binary64 test itself, for UNBOUNDED sizes.
   Coq's primitive floats (the ones Threshold.refuse computes with, and the kernel evaluates in part 1) are tied to
   Flocq's IEEE-754 formalisation by Flocq.IEEE754.PrimFloat (Prim2B, mul_equiv, div_equiv, ltb_equiv,
   of_int63_equiv -- consequences of the standard library's FloatAxioms); Flocq's Bdiv_correct / Bmult_correct give
   each operation as a rounding to nearest-even of the exact real result, and relative_error_N_FLT_ex bounds each
   rounding by 2^-53 relatively.  Together with refuse_sound_core (part 2) this removes the "standard model"
   hypothesis: the theorem is about Threshold.refuse as it is extracted and evaluated. *)
From Coq Require Import ZArith Reals Floats Uint63 Bool Lia Lra Psatz.
From Flocq Require Import Core BinarySingleNaN PrimFloat Relative.
From SyModel Require Import Threshold.
From SyProofs Require Import Threshold_std.
Open Scope R_scope.
Local Existing Instance Flocq.IEEE754.PrimFloat.Hprec.
Local Existing Instance Flocq.IEEE754.PrimFloat.Hmax.
Notation Hp := Flocq.IEEE754.PrimFloat.Hprec.
Notation Hm := Flocq.IEEE754.PrimFloat.Hmax.

(* rounding to nearest-even in binary64 *)
Definition RN (x : R) : R := round radix2 (fexp prec emax) (round_mode mode_NE) x.

Lemma RN_id_int z : (Z.abs z < 2^53)%Z -> RN (IZR z) = IZR z.
Proof.
  intro Hz. unfold RN. apply round_generic; [apply valid_rnd_round_mode|].
  apply generic_format_FLT. apply (FLT_spec radix2 (SpecFloat.emin prec emax) prec (IZR z) (Float radix2 z 0)).
  - unfold F2R. simpl. ring.
  - simpl. exact Hz.
  - simpl. unfold SpecFloat.emin, emax, prec. lia.
Qed.

Lemma lt_emax x : Rabs x < IZR (2^62) -> Rabs x < bpow radix2 emax.
Proof.
  intro H. eapply Rlt_trans; [exact H|]. change (2^62)%Z with (Zpower radix2 62). rewrite IZR_Zpower by lia.
  apply bpow_lt. unfold emax. lia.
Qed.

(* `as f64` of an integer below 2^53 is exact *)
Lemma int_exact z : (0 <= z < 2^53)%Z ->
  is_finite (Prim2B (f_of_Z z)) = true /\ B2R (Prim2B (f_of_Z z)) = IZR z.
Proof.
  intro Hz. unfold f_of_Z. rewrite of_int63_equiv.
  assert (Ez : Uint63.to_Z (Uint63.of_Z z) = z).
  { rewrite Uint63.of_Z_spec. apply Z.mod_small. unfold wB. simpl. lia. }
  rewrite Ez.
  pose proof (binary_normalize_correct prec emax Hp Hm mode_NE z 0 false) as H.
  cbv zeta in H.
  assert (EF : F2R (Float radix2 z 0) = IZR z) by (unfold F2R; simpl; ring).
  rewrite EF in H. fold (RN (IZR z)) in H. rewrite RN_id_int in H by lia.
  rewrite Rlt_bool_true in H.
  - destruct H as (H1 & H2 & _). split; assumption.
  - apply lt_emax. rewrite <- abs_IZR. apply IZR_lt. lia.
Qed.

Definition u53 : R := /2 * bpow radix2 (-prec + 1).

(* one rounding of a number outside the subnormal range has relative error at most 2^-53 *)
Lemma RN_err x : bpow radix2 (-1022) <= Rabs x -> exists e, Rabs e <= u53 /\ RN x = x * (1 + e).
Proof.
  intro Hx. unfold RN, u53.
  apply (relative_error_N_FLT_ex radix2 (SpecFloat.emin prec emax) prec Hp (fun x => negb (Z.even x)) x).
  exact Hx.
Qed.

Lemma u53_val : u53 = / IZR (2^53).
Proof.
  unfold u53. replace (- prec + 1)%Z with (Z.opp 52) by (unfold prec; lia). rewrite (bpow_opp radix2 52).
  rewrite <- (IZR_Zpower radix2 52) by lia.
  change (Zpower radix2 52) with (2^52)%Z. change (2^53)%Z with (2 * 2^52)%Z. rewrite mult_IZR.
  field. apply not_0_IZR. lia.
Qed.

Lemma u53_small : 0 <= u53 /\ u53 <= /2.
Proof.
  rewrite u53_val. split.
  - left. apply Rinv_0_lt_compat. apply IZR_lt. lia.
  - apply Rinv_le_contravar; [lra|]. change 2 with (IZR 2). apply IZR_le. lia.
Qed.

Lemma small_lb : bpow radix2 (-1022) <= / IZR (2^54).
Proof.
  change (2^54)%Z with (Zpower radix2 54). rewrite IZR_Zpower by lia. rewrite <- bpow_opp.
  apply bpow_le. lia.
Qed.

(* the floating-point comparison of the guard, for every size below 2^53 *)
Theorem pct_exceeds d n t :
  (0 < n < 2^53)%Z -> (0 <= d < 2^53)%Z -> (0 <= t < 2^53)%Z -> (t * n < 100 * d)%Z ->
  (2 * (t * n + 1) < 2^53)%Z ->
  Coq.Floats.PrimFloat.ltb (f_of_Z t) (pct d n) = true.
Proof.
  intros Hn Hd Ht Hex Hsmall.
  assert (Hd1 : (1 <= d)%Z) by nia.
  destruct (int_exact d ltac:(lia)) as (Fd & Rd).
  destruct (int_exact n ltac:(lia)) as (Fn & Rn).
  destruct (int_exact t ltac:(lia)) as (Ft & Rt).
  destruct (int_exact 100 ltac:(lia)) as (Fh & Rh).
  destruct u53_small as (Hu0 & Hu1).
  assert (Hn' : 1 <= IZR n) by (apply IZR_le; lia).
  assert (Hd' : 1 <= IZR d) by (apply IZR_le; lia).
  assert (Hn53 : IZR n <= IZR (2^53)) by (apply IZR_le; lia).
  assert (Hd53 : IZR d <= IZR (2^53)) by (apply IZR_le; lia).
  assert (P53 : 0 < IZR (2^53)) by (apply IZR_lt; lia).
  set (q0 := IZR d / IZR n).
  assert (Hq0lo : / IZR (2^53) <= q0).
  { unfold q0, Rdiv. apply Rle_trans with (1 * / IZR n).
    - rewrite Rmult_1_l. apply Rinv_le_contravar; lra.
    - apply Rmult_le_compat_r; [left; apply Rinv_0_lt_compat; lra | lra]. }
  assert (Hq0hi : q0 <= IZR (2^53)).
  { unfold q0, Rdiv. apply Rle_trans with (IZR d * 1); [|lra].
    apply Rmult_le_compat_l; [lra|]. rewrite <- Rinv_1. apply Rinv_le_contravar; lra. }
  assert (Hq0pos : 0 < q0) by (pose proof (Rinv_0_lt_compat _ P53); lra).
  (* the division *)
  destruct (RN_err q0) as (e1 & He1 & E1).
  { rewrite Rabs_pos_eq by lra. eapply Rle_trans; [apply small_lb|].
    eapply Rle_trans; [|exact Hq0lo]. apply Rinv_le_contravar; [lra|]. apply IZR_le. lia. }
  pose proof (Rabs_le_both _ _ He1) as B1.
  assert (Hq : q0 / 2 <= RN q0 <= 2 * q0) by (rewrite E1; nra).
  pose proof (Bdiv_correct prec emax Hp Hm mode_NE (Prim2B (f_of_Z d)) (Prim2B (f_of_Z n))) as HD.
  rewrite Rd, Rn in HD. specialize (HD ltac:(lra)). fold q0 in HD. fold (RN q0) in HD.
  rewrite Rlt_bool_true in HD.
  2:{ apply lt_emax. rewrite Rabs_pos_eq by lra. apply Rle_lt_trans with (2 * IZR (2^53)); [lra|].
      change 2 with (IZR 2) at 1. rewrite <- mult_IZR. apply IZR_lt. lia. }
  destruct HD as (RD & FD & _). rewrite Fd in FD.
  (* the multiplication by 100.0 *)
  set (p0 := RN q0 * 100).
  assert (Hp0lo : / IZR (2^54) <= p0).
  { unfold p0. apply Rle_trans with (q0 / 2 * 1); [|nra].
    change (2^54)%Z with (2 * 2^53)%Z. rewrite mult_IZR. rewrite Rinv_mult. lra. }
  destruct (RN_err p0) as (e2 & He2 & E2).
  { rewrite Rabs_pos_eq; [|unfold p0; nra]. eapply Rle_trans; [apply small_lb|]. exact Hp0lo. }
  pose proof (Rabs_le_both _ _ He2) as B2.
  assert (Hp0pos : 0 < p0) by (unfold p0; nra).
  pose proof (Bmult_correct prec emax Hp Hm mode_NE (Bdiv mode_NE (Prim2B (f_of_Z d)) (Prim2B (f_of_Z n))) (Prim2B (f_of_Z 100))) as HM.
  rewrite RD, Rh in HM. fold p0 in HM. fold (RN p0) in HM.
  rewrite Rlt_bool_true in HM.
  2:{ apply lt_emax. rewrite E2. rewrite Rabs_pos_eq by nra.
      assert (Hp0hi : p0 <= 2 * IZR (2^53) * 100) by (unfold p0; lra).
      apply Rle_lt_trans with (2 * (2 * IZR (2^53) * 100)); [apply Rle_trans with (p0 * 2); [apply Rmult_le_compat_l; lra | lra]|].
      change 2 with (IZR 2). change 100 with (IZR 100). rewrite <- !mult_IZR. apply IZR_lt. lia. }
  destruct HM as (RM & FM & _). rewrite FD, Fh in FM. cbn [andb] in FM.
  (* the comparison *)
  unfold pct. rewrite ltb_equiv, mul_equiv, div_equiv.
  rewrite Bltb_correct by assumption. rewrite Rt, RM.
  apply Rlt_bool_true. rewrite E2. unfold p0. rewrite E1. unfold q0.
  apply (refuse_sound_core u53 d n t e1 e2); try assumption; try lia.
  rewrite u53_val.
  assert (Hs : IZR (2 * (t * n + 1)) < IZR (2^53)) by (apply IZR_lt; exact Hsmall).
  rewrite mult_IZR, plus_IZR, mult_IZR in Hs.
  apply Rmult_lt_reg_r with (IZR (2^53)); [exact P53|]. field_simplify; lra.
Qed.

Open Scope Z_scope.

(* the guard as coded: whenever the planned deletions exceed t percent of the destination's entries it refuses --
   every threshold the command line accepts, every destination of fewer than 2^45 (3.5e13) entries, any number
   of planned deletions below 2^53 *)
Theorem refuse_sound_binary64 d n t :
  0 < n < 2^45 -> 0 <= d < 2^53 -> 0 <= t <= 100 -> t * n < 100 * d -> refuse false d n t = true.
Proof.
  intros Hn Hd Ht Hex. unfold refuse.
  assert (Hd1 : 1 <= d) by nia.
  replace (0 <? d) with true by (symmetry; apply Z.ltb_lt; lia).
  replace (0 <? n) with true by (symmetry; apply Z.ltb_lt; lia).
  cbn [negb andb]. apply pct_exceeds; try lia.
  assert (t * n <= 100 * n) by nia. lia.
Qed.
