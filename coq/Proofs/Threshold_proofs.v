(* Proofs about Model/Threshold.v *)
From Coq Require Import ZArith Floats List Bool Lia Reals Lra Psatz.
From SyModel Require Import Threshold.
Import ListNotations.

(* ---------- (1) the coded binary64 test itself, on a finite domain, by kernel evaluation ---------- *)
Open Scope Z_scope.

Lemma In_upto k z : 0 <= z <= Z.of_nat k -> In z (upto k).
Proof.
  induction k as [|k IH]; intro H.
  - left. cbn in *. lia.
  - cbn [upto]. destruct (Z.eq_dec z (Z.of_nat (S k))) as [->|Hne]; [left; reflexivity|]. right. apply IH. lia.
Qed.

Definition NMAX : nat := 200.

Lemma sound_on_NMAX : sound_on NMAX = true.
Proof. vm_compute. reflexivity. Qed.

Lemma sound_on_spec nmax : sound_on nmax = true ->
  forall n d t, In n (upto nmax) -> In d (upto (Z.to_nat n)) -> In t (upto 100) ->
  implb (exceeds d n t && (d <=? n) && (0 <? n)) (refuse false d n t) = true.
Proof.
  unfold sound_on. intros H n d t Hn Hd Ht.
  rewrite forallb_forall in H. specialize (H n Hn).
  rewrite forallb_forall in H. specialize (H d Hd).
  rewrite forallb_forall in H. exact (H t Ht).
Qed.

(* no false negative of the floating-point test: whenever the planned deletions exceed t percent of the
   destination entries (exactly, over the integers) the guard refuses -- every n <= NMAX, d <= n, t <= 100 *)
Theorem refuse_sound_bounded d n t :
  0 < n <= Z.of_nat NMAX -> 0 <= d <= n -> 0 <= t <= 100 -> t * n < 100 * d -> refuse false d n t = true.
Proof.
  intros Hn Hd Ht Hex.
  pose proof (sound_on_spec NMAX sound_on_NMAX n d t (In_upto NMAX n ltac:(lia))
                (In_upto (Z.to_nat n) d ltac:(rewrite Z2Nat.id; lia)) (In_upto 100 t ltac:(lia))) as H.
  assert (E : exceeds d n t && (d <=? n) && (0 <? n) = true).
  { unfold exceeds. apply andb_true_intro; split; [apply andb_true_intro; split|]; [apply Z.ltb_lt | apply Z.leb_le | apply Z.ltb_lt]; lia. }
  rewrite E in H. exact H.
Qed.

(* force_delete, an empty plan or an empty destination never refuse *)
Lemma refuse_gates d n t : refuse true d n t = false /\ refuse false 0 n t = false /\ refuse false d 0 t = false.
Proof. unfold refuse. cbn. repeat split. destruct (0 <? d); reflexivity. Qed.

