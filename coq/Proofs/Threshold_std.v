(* Proofs about Model/Threshold.v, part 2: unbounded sizes relative to the standard model of rounding *)
From Coq Require Import ZArith Reals Lia Lra Psatz.
(* ---------- (2) unbounded sizes, relative to the standard model of rounding ---------- *)
Open Scope R_scope.

Lemma Rabs_le_both a b : Rabs a <= b -> - b <= a <= b.
Proof. intro H. unfold Rabs in H. destruct (Rcase_abs a); lra. Qed.

(* the inequality behind both unbounded theorems: with relative errors e1 (division) and e2 (multiplication)
   of magnitude at most u, the computed percentage stays above t whenever the exact ratio exceeds it *)
Lemma refuse_sound_core (u : R) (d n t : Z) (e1 e2 : R) :
  0 <= u -> Rabs e1 <= u -> Rabs e2 <= u ->
  (0 < n)%Z -> (0 <= t)%Z -> (t * n < 100 * d)%Z ->
  2 * u * (IZR t * IZR n + 1) < 1 ->
  IZR t < IZR d / IZR n * (1 + e1) * 100 * (1 + e2).
Proof.
  intros u_pos He1 He2 Hn Ht Hex Hsmall.
  assert (Hn' : 0 < IZR n) by (apply IZR_lt; assumption).
  assert (Ht' : 0 <= IZR t) by (apply IZR_le; assumption).
  assert (Hex' : IZR t * IZR n + 1 <= 100 * IZR d).
  { rewrite <- mult_IZR, <- plus_IZR. change 100 with (IZR 100). rewrite <- mult_IZR. apply IZR_le. lia. }
  apply Rabs_le_both in He1. apply Rabs_le_both in He2.
  set (q := IZR d / IZR n).
  assert (Hq : IZR t + / IZR n <= 100 * q).
  { unfold q. apply Rmult_le_reg_r with (IZR n); [assumption|]. field_simplify; [|lra|lra]. lra. }
  assert (Hinv : 0 < / IZR n) by (apply Rinv_0_lt_compat; assumption).
  assert (Hu1 : u < 1).
  { assert (0 <= IZR t * IZR n) by (apply Rmult_le_pos; lra). nra. }
  assert (H1 : 1 - u <= 1 + e1) by lra. assert (H2 : 1 - u <= 1 + e2) by lra.
  assert (Hprod : (1 - u) * (1 - u) <= (1 + e1) * (1 + e2)) by (apply Rmult_le_compat; lra).
  assert (Hq0 : 0 < 100 * q) by lra.
  assert (Hlow : 100 * q * ((1 - u) * (1 - u)) <= q * (1 + e1) * 100 * (1 + e2)) by nra.
  assert (Hkey : IZR t < (IZR t + / IZR n) * (1 - 2 * u)).
  { assert (Hn1 : IZR n * / IZR n = 1) by (apply Rinv_r; lra).
    assert (2 * u * (IZR t + / IZR n) < / IZR n).
    { apply Rmult_lt_reg_r with (IZR n); [assumption|]. replace (2 * u * (IZR t + / IZR n) * IZR n) with (2 * u * (IZR t * IZR n + IZR n * / IZR n)) by ring.
      rewrite Hn1. rewrite Rmult_comm with (r1 := / IZR n), Hn1. exact Hsmall. }
    lra. }
  assert (Hsq : (1 - 2 * u) <= (1 - u) * (1 - u)) by nra.
  assert (H2u : 0 <= 1 - 2 * u).
  { assert (0 <= IZR t * IZR n) by (apply Rmult_le_pos; lra). nra. }
  assert (A1 : (IZR t + / IZR n) * (1 - 2 * u) <= 100 * q * (1 - 2 * u)) by (apply Rmult_le_compat_r; assumption).
  assert (A2 : 100 * q * (1 - 2 * u) <= 100 * q * ((1 - u) * (1 - u))) by (apply Rmult_le_compat_l; lra).
  lra.
Qed.

Section StandardModel.
  Variable fl : R -> R.                      (* round-to-nearest binary64 *)
  Variable u : R.                            (* unit roundoff 2^-53 *)
  Hypothesis u_pos : 0 <= u.
  Hypothesis fl_err : forall x, exists e, Rabs e <= u /\ fl x = x * (1 + e).

  Definition pctR (d n : Z) : R := fl (fl (IZR d / IZR n) * 100).

  Theorem refuse_sound_std (d n t : Z) :
    (0 < n)%Z -> (0 <= t)%Z -> (t * n < 100 * d)%Z ->
    2 * u * (IZR t * IZR n + 1) < 1 ->
    IZR t < pctR d n.
  Proof.
    intros Hn Ht Hex Hsmall. unfold pctR.
    destruct (fl_err (IZR d / IZR n)) as (e1 & He1 & E1). rewrite E1.
    destruct (fl_err (IZR d / IZR n * (1 + e1) * 100)) as (e2 & He2 & E2). rewrite E2.
    apply (refuse_sound_core u d n t e1 e2); assumption.
  Qed.
End StandardModel.
