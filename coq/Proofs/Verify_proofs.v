(* Proofs about Model/Verify.v *)
From Coq Require Import NArith ZArith List Bool Lia.
From SyModel Require Import Engine Verify.
From SyProofs Require Import Engine_proofs.
Import ListNotations.

(* the two trees hold the same regular files with identical contents *)
Definition same_files (src dst : list ventry) : Prop :=
  (forall s, In s src -> v_is_dir s = false ->
     exists d, In d dst /\ v_path d = v_path s /\ v_is_dir d = false /\ v_content d = v_content s /\ v_size d = v_size s) /\
  (forall d, In d dst -> v_is_dir d = false -> exists s, In s src /\ v_path s = v_path d /\ v_is_dir s = false).

(* each path once per tree (a path may be a file in one tree and a directory in the other) *)
Definition trees_wf (src dst : list ventry) : Prop := NoDup (map v_path src) /\ NoDup (map v_path dst).

Lemma lookup_in l : NoDup (map v_path l) -> forall e, In e l -> lookup l (v_path e) = Some e.
Proof.
  induction l as [|x l IH]; intros Hnd e He; [destruct He|].
  cbn [map] in Hnd. inversion Hnd as [|? ? Hnin Hnd']; subst. unfold lookup. cbn [find].
  destruct He as [->|He].
  - rewrite peqb_refl. reflexivity.
  - destruct (peqb (v_path x) (v_path e)) eqn:E.
    + apply peqb_eq in E. exfalso. apply Hnin. rewrite E. apply in_map. exact He.
    + apply IH; assumption.
Qed.

Lemma lookup_some l p d : lookup l p = Some d -> In d l /\ v_path d = p.
Proof. unfold lookup. intro H. apply find_some in H. destruct H as [Hin Hp]. apply peqb_eq in Hp. split; assumption. Qed.

Lemma filter_nil_iff (A : Type) (f : A -> bool) l : filter f l = [] <-> forall x, In x l -> f x = false.
Proof.
  induction l as [|y l IH]; cbn; [split; [intros _ x [] | reflexivity]|].
  destruct (f y) eqn:E; split.
  - discriminate.
  - intro H. specialize (H y (or_introl eq_refl)). congruence.
  - intros H x [<-|Hx]; [exact E | apply IH; assumption].
  - intro H. apply IH. intros x Hx. apply H. right. exact Hx.
Qed.

Lemma map_nil_iff (A B : Type) (g : A -> B) l : map g l = [] <-> l = [].
Proof. destruct l; cbn; split; congruence. Qed.

Lemma exit0_iff r : verify_exit r = 0%Z <-> vr_errors r = [] /\ vr_mismatched r = [] /\ vr_only_src r = [] /\ vr_only_dst r = [].
Proof.
  unfold verify_exit. destruct (vr_errors r), (vr_mismatched r), (vr_only_src r), (vr_only_dst r); split; intro H;
    try discriminate; try (destruct H as (A & B & C & D); discriminate); auto.
Qed.

Definition cls m (dst : list ventry) (e : ventry) : option cmp :=
  match lookup dst (v_path e) with Some d => Some (compare m e d) | None => None end.

Lemma compare_match m s d : compare m s d = CmpMatch <-> v_is_dir d = false /\ v_content s = v_content d /\ v_size s = v_size d.
Proof.
  unfold compare. destruct (v_is_dir d); [split; [discriminate | intros [H _]; discriminate]|].
  destruct (N.eqb_spec (v_content s) (v_content d)); destruct (N.eqb_spec (v_size s) (v_size d)); cbn; split; intro H;
    try discriminate; try (destruct H as (_ & A & B); congruence); auto.
Qed.

Lemma compare_not_error m s d : compare m s d <> CmpError.
Proof. unfold compare. destruct (v_is_dir d); [discriminate|]. destruct (_ && _); discriminate. Qed.

(* exit 0 exactly when the trees hold the same files with identical contents -- every mode, type conflicts included *)
Theorem verify_exit0_iff m src dst :
  trees_wf src dst -> (verify_exit (verify m None None src dst) = 0%Z <-> same_files src dst).
Proof.
  intros (Hns & Hnd).
  set (sf := src_files None None src).
  assert (Hsf : forall e, In e sf <-> In e src /\ v_is_dir e = false).
  { intro e. unfold sf, src_files. rewrite filter_In. cbn. rewrite andb_true_r, negb_true_iff. reflexivity. }
  assert (Hexit : verify_exit (verify m None None src dst) = 0%Z <->
                  (forall e, In e sf -> cls m dst e = Some CmpMatch) /\
                  (forall d, In d dst -> negb (v_is_dir d) && negb (existsb (fun e => peqb (v_path e) (v_path d) && negb (v_is_dir e)) src) = false)).
  { rewrite exit0_iff. unfold verify. cbn [vr_errors vr_mismatched vr_only_src vr_only_dst]. fold sf.
    rewrite !map_nil_iff, !filter_nil_iff. split.
    - intros (Eerr & Emm & Eos & Eod). split; [|exact Eod]. intros e He.
      specialize (Eerr e He). specialize (Emm e He). specialize (Eos e He). unfold cls.
      destruct (lookup dst (v_path e)) as [d|]; [|discriminate]. destruct (compare m e d); try discriminate; reflexivity.
    - intros [H1 H2]. repeat split; try exact H2; intros e He; specialize (H1 e He); unfold cls in H1;
        destruct (lookup dst (v_path e)) as [d|]; try discriminate; destruct (compare m e d); try discriminate; reflexivity. }
  rewrite Hexit. clear Hexit. split.
  - intros [H1 H2]. split.
    + intros s Hs Hsd. assert (Hin : In s sf) by (apply Hsf; split; assumption).
      specialize (H1 s Hin). unfold cls in H1. destruct (lookup dst (v_path s)) as [d|] eqn:El; [|discriminate].
      destruct (lookup_some _ _ _ El) as [Hd Hp]. exists d. split; [exact Hd|]. split; [exact Hp|].
      inversion H1 as [Hc]. apply compare_match in Hc. destruct Hc as (A & B & C). repeat split; congruence.
    + intros d Hd Hdd. specialize (H2 d Hd). rewrite Hdd in H2. cbn in H2. apply negb_false_iff in H2.
      apply existsb_exists in H2. destruct H2 as (s & Hs & Ep). apply andb_prop in Ep. destruct Ep as [Ep Ef]. apply peqb_eq in Ep.
      apply negb_true_iff in Ef. exists s. split; [exact Hs|]. split; [exact Ep | exact Ef].
  - intros [Hs Hd]. split.
    + intros e He. apply Hsf in He. destruct He as [He Hed]. destruct (Hs e He Hed) as (d & Hdin & Hp & Hdd & Hc & Hz).
      unfold cls. rewrite <- Hp. rewrite (lookup_in dst Hnd d Hdin). f_equal. apply compare_match. repeat split; congruence.
    + intros d Hdin. destruct (v_is_dir d) eqn:Hdd; [reflexivity|]. cbn. apply negb_false_iff.
      destruct (Hd d Hdin Hdd) as (s & Hs' & Ep & Hf). apply existsb_exists. exists s. split; [exact Hs'|].
      rewrite Hf. cbn. rewrite andb_true_r. apply peqb_eq. exact Ep.
Qed.

(* the three lists are exactly the true sets *)
Theorem verify_lists_exact m mn mx src dst p :
  (In p (vr_only_src (verify m mn mx src dst)) <->
     exists e, In e src /\ v_path e = p /\ v_is_dir e = false /\ size_filtered mn mx (v_size e) = false /\ lookup dst p = None) /\
  (In p (vr_only_dst (verify m mn mx src dst)) <->
     exists d, In d dst /\ v_path d = p /\ v_is_dir d = false /\ forall e, In e src -> v_path e = p -> v_is_dir e = true) /\
  (In p (vr_mismatched (verify m mn mx src dst)) <->
     exists e d, In e src /\ v_path e = p /\ v_is_dir e = false /\ size_filtered mn mx (v_size e) = false /\ lookup dst p = Some d /\
                 (v_is_dir d = true \/ v_content e <> v_content d \/ v_size e <> v_size d)).
Proof.
  unfold verify. cbn [vr_only_src vr_only_dst vr_mismatched]. repeat split.
  - intro H. apply in_map_iff in H. destruct H as (e & Ep & He). apply filter_In in He. destruct He as [He Hc].
    unfold src_files in He. apply filter_In in He. destruct He as [He Hf]. apply andb_prop in Hf. destruct Hf as [Hf1 Hf2].
    apply negb_true_iff in Hf1, Hf2. exists e. repeat split; try assumption. rewrite <- Ep. destruct (lookup dst (v_path e)); [discriminate | reflexivity].
  - intros (e & He & Ep & Hd & Hs & Hl). apply in_map_iff. exists e. split; [exact Ep|]. apply filter_In. split.
    + unfold src_files. apply filter_In. split; [exact He|]. rewrite Hd, Hs. reflexivity.
    + rewrite Ep, Hl. reflexivity.
  - intro H. apply in_map_iff in H. destruct H as (d & Ep & Hd). apply filter_In in Hd. destruct Hd as [Hd Hf].
    apply andb_prop in Hf. destruct Hf as [Hf1 Hf2]. apply negb_true_iff in Hf1, Hf2. exists d. repeat split; try assumption.
    intros e He Epe. destruct (v_is_dir e) eqn:Ed; [reflexivity|]. exfalso.
    assert (X : existsb (fun e0 => peqb (v_path e0) (v_path d) && negb (v_is_dir e0)) src = true); [|congruence].
    apply existsb_exists. exists e. split; [exact He|]. rewrite Ed. cbn. rewrite andb_true_r. apply peqb_eq. congruence.
  - intros (d & Hd & Ep & Hdd & Hn). apply in_map_iff. exists d. split; [exact Ep|]. apply filter_In. split; [exact Hd|].
    rewrite Hdd. cbn. apply negb_true_iff. destruct (existsb (fun e => peqb (v_path e) (v_path d) && negb (v_is_dir e)) src) eqn:Ex; [|reflexivity].
    exfalso. apply existsb_exists in Ex. destruct Ex as (e & He & Epe). apply andb_prop in Epe. destruct Epe as [Epe Ef].
    apply peqb_eq in Epe. apply negb_true_iff in Ef. rewrite (Hn e He) in Ef by congruence. discriminate.
  - intro H. apply in_map_iff in H. destruct H as (e & Ep & He). apply filter_In in He. destruct He as [He Hc].
    unfold src_files in He. apply filter_In in He. destruct He as [He Hf]. apply andb_prop in Hf. destruct Hf as [Hf1 Hf2].
    apply negb_true_iff in Hf1, Hf2. rewrite Ep in Hc. destruct (lookup dst p) as [d|] eqn:El; [|discriminate].
    exists e, d. repeat split; try assumption.
    unfold compare in Hc. destruct (v_is_dir d); [left; reflexivity|]. right.
    destruct (N.eqb_spec (v_content e) (v_content d)); [|left; assumption]. destruct (N.eqb_spec (v_size e) (v_size d)); [|right; assumption].
    cbn in Hc. discriminate.
  - intros (e & d & He & Ep & Hd & Hs & Hl & Hne). apply in_map_iff. exists e. split; [exact Ep|]. apply filter_In. split.
    + unfold src_files. apply filter_In. split; [exact He|]. rewrite Hd, Hs. reflexivity.
    + rewrite Ep, Hl. unfold compare. destruct (v_is_dir d) eqn:Edd; [reflexivity|]. destruct Hne as [Hne|[Hne|Hne]]; [discriminate | |].
      * destruct (N.eqb_spec (v_content e) (v_content d)); [contradiction | reflexivity].
      * destruct (N.eqb_spec (v_size e) (v_size d)); [contradiction|]. rewrite andb_false_r. reflexivity.
Qed.

(* no read error arises from the comparison itself *)
Theorem verify_no_errors m mn mx src dst : vr_errors (verify m mn mx src dst) = [].
Proof.
  unfold verify. cbn [vr_errors]. apply map_nil_iff. apply filter_nil_iff. intros e _.
  destruct (lookup dst (v_path e)) as [d|]; [|reflexivity]. pose proof (compare_not_error m e d). destruct (compare m e d); try reflexivity. contradiction.
Qed.
