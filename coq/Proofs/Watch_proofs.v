(* Proofs about Model/Watch.v *)
From Coq Require Import Arith List Bool Lia.
From SyModel Require Import Watch.
Import ListNotations.

Definition winv (s : wstate) : Prop :=
  w_dst s <= w_src s /\ w_last_sync s <= w_now s /\
  (w_dst s < w_src s -> w_pending s = true \/ existsb (fun b => b) (w_queue s) = true).

Lemma existsb_app_true (l : list bool) : existsb (fun b => b) (l ++ [true]) = true.
Proof. rewrite existsb_app. cbn. apply orb_true_r. Qed.

Lemma winv_step d s a : watched a = true -> winv s -> winv (wstep d s a).
Proof.
  intros Hw (H1 & H2 & H3). unfold winv. destruct a; try discriminate; cbn [wstep].
  - (* Change *) split; [cbn; lia | split; [cbn; lia|]]. cbn. intros _. right. apply existsb_app_true.
  - (* Noise *) split; [cbn; lia | split; [cbn; lia|]]. cbn. intro H. destruct (H3 H) as [A|A]; [left; exact A | right; rewrite existsb_app, A; reflexivity].
  - (* Iter *) unfold iter. destruct (w_queue s) as [|ev q] eqn:Eq.
    + destruct (w_pending s && (d <=? S (w_now s) - w_last_sync s)) eqn:Ec.
      * unfold sync_now. cbn. split; [lia | split; [lia|]]. intro H. exfalso. lia.
      * split; [cbn; lia | split; [cbn; lia|]]. cbn. intro H. destruct (H3 H) as [A|A]; [left; exact A | cbn in A; discriminate].
    + split; [cbn; lia | split; [cbn; lia|]]. cbn. intro H. destruct (H3 H) as [A|A].
      * left. rewrite A. reflexivity.
      * cbn in A. destruct ev; [left; apply orb_true_r | right; exact A].
Qed.

Lemma winv_run d acts : forall s, forallb watched acts = true -> winv s -> winv (wrun d acts s).
Proof.
  induction acts as [|a acts IH]; intros s Hw Hi; [exact Hi|]. cbn in Hw. apply andb_prop in Hw. destruct Hw as [Ha Hr].
  unfold wrun. cbn [fold_left]. apply IH; [exact Hr | apply winv_step; assumption].
Qed.

Lemma winv_start v : winv (start v).
Proof. unfold winv, start. cbn. split; [lia | split; [lia|]]. intro H. lia. Qed.

Fixpoint iters (d n : nat) (s : wstate) : wstate := match n with O => s | S n' => iters d n' (iter d s) end.

Lemma iters_wrun d n s : iters d n s = wrun d (repeat Iter n) s.
Proof. revert s. induction n as [|n IH]; intro s; [reflexivity|]. cbn. apply IH. Qed.

(* once in sync, quiescent iterations keep it in sync *)
Lemma iter_keeps_sync d s : w_dst s = w_src s -> w_dst (iter d s) = w_src (iter d s) /\ w_src (iter d s) = w_src s.
Proof.
  intro H. unfold iter. destruct (w_queue s); [destruct (w_pending s && _)|]; cbn; auto.
Qed.

Lemma iters_keep_sync d n : forall s, w_dst s = w_src s -> w_dst (iters d n s) = w_src s /\ w_src (iters d n s) = w_src s.
Proof.
  induction n as [|n IH]; intros s H; [split; [exact H | reflexivity]|]. cbn [iters].
  destruct (iter_keeps_sync d s H) as [A B]. destruct (IH (iter d s) A) as [C D]. split; congruence.
Qed.

Lemma iter_src d s : w_src (iter d s) = w_src s.
Proof. unfold iter. destruct (w_queue s); [destruct (w_pending s && _)|]; reflexivity. Qed.

Lemma iter_empty_pending d s : w_queue s = [] -> w_pending s = true ->
  iter d s = if d <=? S (w_now s) - w_last_sync s
             then sync_now (mk_w [] true (w_last_sync s) (S (w_now s)) (w_src s) (w_dst s))
             else mk_w [] true (w_last_sync s) (S (w_now s)) (w_src s) (w_dst s).
Proof. intros Hq Hp. unfold iter. rewrite Hq, Hp. reflexivity. Qed.

(* draining: with an empty queue and something pending, a sync happens within [debounce] further iterations *)
Lemma timeout_progress d : forall m s, w_queue s = [] -> w_pending s = true -> d <= m + (w_now s - w_last_sync s) + 1 ->
  w_last_sync s <= w_now s -> w_dst (iters d (S m) s) = w_src s.
Proof.
  induction m as [|m IH]; intros s Hq Hp Hd Hl;
    [cbn [iters] | change (iters d (S (S m)) s) with (iters d (S m) (iter d s))]; rewrite (iter_empty_pending d s Hq Hp).
  - destruct (Nat.leb_spec d (S (w_now s) - w_last_sync s)); [reflexivity | lia].
  - destruct (Nat.leb_spec d (S (w_now s) - w_last_sync s)) as [Hle|Hgt].
    + match goal with |- w_dst (iters d (S m) ?s1) = _ => destruct (iters_keep_sync d (S m) s1 eq_refl) as [A _]; exact A end.
    + rewrite (IH (mk_w [] true (w_last_sync s) (S (w_now s)) (w_src s) (w_dst s))); cbn [w_queue w_pending w_now w_last_sync w_src w_dst]; try reflexivity; lia.
Qed.

Theorem quiescence_converges d : forall s n, winv s -> length (w_queue s) + d + 1 <= n -> w_dst (iters d n s) = w_src s.
Proof.
  intros s. remember (length (w_queue s)) as L eqn:EL. revert s EL. induction L as [|L IH]; intros s EL n Hi Hn.
  - destruct (w_queue s) eqn:Hq; [|discriminate]. destruct Hi as (H1 & H2 & H3).
    destruct (Nat.eq_dec (w_dst s) (w_src s)) as [E|E]; [apply iters_keep_sync; exact E|].
    assert (Hp : w_pending s = true) by (destruct H3 as [A|A]; [lia | exact A | rewrite Hq in A; discriminate]).
    destruct n as [|n]; [lia|].
    (* split n+1 = (d) + rest *)
    replace (S n) with (S d + (n - d)) by lia. 
    assert (G : forall a b t, iters d (a + b) t = iters d b (iters d a t)).
    { induction a as [|a IHa]; intros b t; [reflexivity|]. cbn. apply IHa. }
    rewrite G. pose proof (timeout_progress d d s Hq Hp ltac:(lia) H2) as T.
    assert (S1 : w_src (iters d (S d) s) = w_src s).
    { clear. generalize (S d) as k. intro k. revert s. induction k as [|k IHk]; intro s; [reflexivity|]. cbn. rewrite IHk. apply iter_src. }
    destruct (iters_keep_sync d (n - d) (iters d (S d) s)) as [A B]; [congruence|]. congruence.
  - destruct (w_queue s) as [|ev q] eqn:Hq; [discriminate|]. destruct n as [|n]; [lia|]. cbn [iters].
    rewrite <- (iter_src d s). apply IH.
    + unfold iter. rewrite Hq. cbn. cbn in EL. lia.
    + apply (winv_step d s Iter eq_refl Hi).
    + lia.
Qed.

(* whatever happens while watched -- changes and ignored events arriving before, between and after iterations and
   syncs, in any order -- once the source is quiet the destination catches up within a bounded number of iterations *)
Theorem eventually_propagates d v acts n :
  forallb watched acts = true ->
  length (w_queue (wrun d acts (start v))) + d + 1 <= n ->
  w_dst (wrun d (acts ++ repeat Iter n) (start v)) = w_src (wrun d acts (start v)).
Proof.
  intros Hw Hn. assert (A : wrun d (acts ++ repeat Iter n) (start v) = wrun d (repeat Iter n) (wrun d acts (start v))) by (unfold wrun; apply fold_left_app).
  rewrite A, <- iters_wrun. apply quiescence_converges; [apply winv_run; [exact Hw | apply winv_start] | exact Hn].
Qed.

(* the pinned start-up order: a change made during the initial sync is Unwatched; afterwards nothing ever propagates it *)
Theorem unwatched_change_never_propagates d v n :
  w_dst (wrun d (Unwatched :: repeat Iter n) (start v)) < w_src (wrun d (Unwatched :: repeat Iter n) (start v)).
Proof.
  assert (A : wrun d (Unwatched :: repeat Iter n) (start v) = wrun d (repeat Iter n) (mk_w [] false 0 0 (S v) v)) by reflexivity.
  rewrite A, <- iters_wrun.
  assert (G : forall j now, iters d j (mk_w [] false 0 now (S v) v) = mk_w [] false 0 (j + now) (S v) v).
  { induction j as [|k IH]; intro now; [reflexivity|]. cbn [iters]. unfold iter. cbn. rewrite IH. replace (k + S now) with (S k + now) by lia. reflexivity. }
  rewrite G. cbn. lia.
Qed.
