From Coq Require Import NArith List Bool.
From SyModel Require Import Xattr.
Import ListNotations.

Lemma refresh_is_source src dst k : refresh src dst k = src k.
Proof. unfold refresh, write_all, remove_absent. destruct (src k); reflexivity. Qed.

Lemma transfer_x src carried k : transfer_attrs true src carried k = src k.
Proof. unfold transfer_attrs, write_all, strip, aempty. destruct (src k); reflexivity. Qed.

Lemma transfer_nox src carried k : transfer_attrs false src carried k = None.
Proof. reflexivity. Qed.

(* one run with -X: whatever the destination was, afterwards it exists, has the source's content and exactly the source's attributes *)
Theorem sync_x_equal big st :
  exists d, xs_dst (sync_file true true big st) = Some d /\ xf_content d = xf_content (xs_src st) /\
            forall k, xf_attrs d k = xf_attrs (xs_src st) k.
Proof.
  unfold sync_file. destruct (xs_dst st) as [d|].
  - destruct (N.eqb (xf_content d) (xf_content (xs_src st)) && negb (xs_touched st)) eqn:E; eexists; (split; [reflexivity|]); cbn.
    + apply andb_true_iff in E. destruct E as [E _]. split; [apply N.eqb_eq; exact E|]. intro k. apply refresh_is_source.
    + split; [reflexivity|]. intro k. apply transfer_x.
  - eexists. split; [reflexivity|]. cbn. split; [reflexivity|]. intro k. apply transfer_x.
Qed.

Lemma sync_src ros x big st : xs_src (sync_file ros x big st) = xs_src st.
Proof. unfold sync_file. destruct (xs_dst st) as [d|]; [destruct (N.eqb _ _ && _)|]; reflexivity. Qed.

(* any history that ends with a -X run *)
Theorem history_x_equal ops big st :
  let st' := xrun (ops ++ [XSync true big]) st in
  exists d, xs_dst st' = Some d /\ xf_content d = xf_content (xs_src st') /\ forall k, xf_attrs d k = xf_attrs (xs_src st') k.
Proof.
  cbn zeta. unfold xrun. rewrite fold_left_app. cbn [fold_left xstep]. set (m := fold_left (xstep true) ops st).
  rewrite sync_src. apply sync_x_equal.
Qed.

(* a run without -X copies no attribute: an attribute on the destination afterwards was on it before, with that value,
   and a transferred file has none *)
Theorem sync_nox_copies_none ros big st d' k v :
  xs_dst (sync_file ros false big st) = Some d' -> xf_attrs d' k = Some v ->
  exists d, xs_dst st = Some d /\ xf_attrs d k = Some v /\ xf_content d = xf_content (xs_src st).
Proof.
  unfold sync_file. destruct (xs_dst st) as [d|].
  - destruct (N.eqb (xf_content d) (xf_content (xs_src st)) && negb (xs_touched st)) eqn:E; cbn; intros H Hk; inversion H; subst; cbn in Hk.
    + apply andb_true_iff in E. destruct E as [E _]. exists d. split; [reflexivity|]. split; [exact Hk|]. apply N.eqb_eq. exact E.
    + discriminate.
  - cbn. intros H Hk. inversion H; subst. cbn in Hk. discriminate.
Qed.

(* the content always follows the source *)
Theorem sync_content ros x big st : exists d, xs_dst (sync_file ros x big st) = Some d /\ xf_content d = xf_content (xs_src st).
Proof.
  unfold sync_file. destruct (xs_dst st) as [d|].
  - destruct (N.eqb (xf_content d) (xf_content (xs_src st)) && negb (xs_touched st)) eqn:E; eexists; (split; [reflexivity|]); cbn; [apply andb_true_iff in E; destruct E as [E _]; apply N.eqb_eq; exact E | reflexivity].
  - eexists. split; reflexivity.
Qed.
