(* C01 -- One-way sync makes every selected file byte-identical to its source.
   Model: Model/Engine.v (regular files and directories; links are C17's subject).
   Before the repair `fix: restore the source mtime ...` (known_findings.json, fixed) the faithful model refuted
   the "carries its mtime" clause for updates through the block-delta paths; the model now follows the
   repaired code and the postcondition is proved at full strength. *)
From Coq Require Import NArith ZArith List Bool Lia.
From SyModel Require Import Engine.
From SyProofs Require Import Engine_proofs.
Import ListNotations.

(* For every well-formed (filtered) source listing, every prior destination without a file where the source
   has a directory, every comparison mode, threshold and --delete setting: if the run is not refused and
   reports no per-file error, then every selected source entry exists in the destination with its kind;
   every file that was absent or differed under the active comparison rule has the source's content, size
   and mtime (whatever the size of the file it replaced); files that did not differ are untouched. *)
Theorem C01_postcondition : forall refuse ds c now U keep src dst,
  src_wf src -> c_dry_run c = false -> dst [] = None ->
  let r := run refuse ds c now U keep src dst in
  r_refused r = false -> r_errors r = [] ->
  forall e, In e src ->
    exists x, r_fs r (se_path e) = Some x /\
      if se_is_dir e then x = Dir
      else if needs c ds dst e then file_post e (Some x) else Some x = dst (se_path e).
Proof. intros. apply run_post; assumption. Qed.
Print Assumptions C01_postcondition.

(* the decision table of the statement: default = size differs or mtimes at least 2 whole seconds apart
   (Duration::as_secs() > 1); --size-only = size; --ignore-times and --checksum = always (the planner then
   compares checksums under --checksum) *)
Theorem C01_needs_update_table : forall c e dsz dmt,
  needs_update c e dsz dmt =
  if c_checksum c then true else if c_ignore_times c then true
  else if c_size_only c then negb (N.eqb (se_size e) dsz)
  else negb (N.eqb (se_size e) dsz) || negb (Z.leb (Z.quot (Z.abs (se_mtime e - dmt)) 1000000000) 1).
Proof. reflexivity. Qed.
Print Assumptions C01_needs_update_table.

(* the case that used to fail (C01-KF1, repaired): an update over a destination of at least c_big bytes now
   carries the source's mtime *)
Example C01_big_update_carries_mtime :
  let c := mk_cfg false false 50 false false false false 100 100 in
  let src := [mk_sentry [1%N] false 200 1000%Z 7 false] in
  let dst : fs := fun p => if peqb p [1%N] then Some (File 8 150 500%Z) else None in
  r_fs (run (fun _ _ _ => false) (fun _ => (0%N, 0%Z)) c 9000%Z [[1%N]] [] src dst) [1%N] = Some (File 7 200 1000%Z).
Proof. vm_compute. reflexivity. Qed.

(* ---- non-vacuity: a mixed tree (nested directory, create, small update, skip) satisfies the hypotheses ---- *)
Definition ex_src : list sentry :=
  [mk_sentry [1%N] true 0 0%Z 0 false; mk_sentry [1%N; 2%N] false 10 1000%Z 5 false;
   mk_sentry [3%N] false 20 2000%Z 6 false; mk_sentry [4%N] false 30 3000000000000%Z 7 false].
Definition ex_dst : fs := fun p =>
  if peqb p [3%N] then Some (File 9 21 2000%Z) else if peqb p [4%N] then Some (File 7 30 3000500000000%Z)
  else if peqb p [5%N] then Some (File 1 1 1%Z) else None.
Example ex_run :
  let r := run (fun _ _ _ => false) (fun _ => (0%N, 0%Z)) (mk_cfg false false 50 false false false false 100 100) 9%Z [[3%N]; [4%N]; [5%N]] [] ex_src ex_dst in
  r_errors r = [] /\ r_events r = [(ACreate, [1%N]); (ACreate, [1%N; 2%N]); (AUpdate, [3%N]); (ASkip, [4%N])] /\
  r_fs r [1%N; 2%N] = Some (File 5 10 1000%Z) /\ r_fs r [3%N] = Some (File 6 20 2000%Z) /\ r_fs r [5%N] = Some (File 1 1 1%Z).
Proof. vm_compute. repeat split. Qed.
