(* C02 -- Sync never modifies the source tree or anything outside the destination.
   In Model/Engine.v the source is immutable input and every write lands on a destination path by construction;
   the only channel by which a write to a destination path can leave the destination root is a symbolic link that
   is IN the destination.  The model follows the repaired code (`fix: compare and replace symlink entries as
   links ...`; on the pinned commit a re-sync wrote the link target's content through the destination link --
   truncating a source file behind an absolute link -- recorded as fixed in known_findings.json). *)
From Coq Require Import NArith ZArith List Bool.
From SyModel Require Import Links Engine.
From SyProofs Require Import Links_proofs Engine_proofs.
Import ListNotations.

(* no step of any link mode, over any destination entry (absent, link with the same or another target -- absolute
   into the source, into a sentinel, dangling -- regular file, directory) writes through a destination link *)
Theorem C02_never_writes_through_links : forall m s d, wrote_through m s d = false.
Proof. exact never_writes_through. Qed.
Print Assumptions C02_never_writes_through_links.

(* ... for every history of runs *)
Theorem C02_history_never_writes_through : forall m hist d,
  forallb (fun sd => negb (wrote_through m (fst sd) (snd sd)))
          ((fix states (h : list slink) (d : dentry) : list (slink * dentry) :=
              match h with [] => [] | s :: h' => (s, d) :: states h' (sync_link m s d) end) hist d) = true.
Proof.
  intros m hist. induction hist as [|s h IH]; intro d; [reflexivity|].
  cbn [forallb fst snd]. rewrite never_writes_through. cbn. apply IH.
Qed.
Print Assumptions C02_history_never_writes_through.

(* ... and when the KIND of the source entry changes between runs -- a link becomes a regular file or a real directory, or back:
   a symlink left in the destination by the earlier run is replaced, never written (or descended) through
   (`fix: a file or directory is never created through a symlink that sits in its place`; before it, replacing an absolute link
   in the source by a regular file made the next run overwrite the link's referent -- a source file -- recorded as fixed) *)
Theorem C02_kind_changes_never_write_through : forall m hist d, snd (resync_any true m hist d) = false.
Proof. exact resync_any_never_writes_through. Qed.
Print Assumptions C02_kind_changes_never_write_through.

Theorem C02_pinned_kind_change_refuted :
  resync_any false LPreserve [SALink (mk_slink 1 (RFile 9)); SAFile 5] DAbsent = (DLink 1, true).
Proof. reflexivity. Qed.

(* dry-run and a refused run leave even the destination untouched (C08 / C07); --verify-only has no mutating step (C15) *)
Theorem C02_dry_run_and_refusal_touch_nothing : forall refuse ds c now U keep src dst,
  (c_dry_run c = true -> r_fs (run refuse ds c now U keep src dst) = dst) /\
  (r_refused (run refuse ds c now U keep src dst) = true -> r_fs (run refuse ds c now U keep src dst) = dst).
Proof.
  intros. split; [apply dry_run_changes_nothing | intro H; apply (refusal_changes_nothing refuse ds c now U keep src dst H)].
Qed.
Print Assumptions C02_dry_run_and_refusal_touch_nothing.
