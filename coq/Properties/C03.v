(* C03 -- A completed sync is a fixed point: re-running changes nothing.
   "Equivalently, every transfer path leaves the destination entry in a state that the next comparison
   recognises as up to date": proved for every path of the model, which follows the repaired code
   (`fix: restore the source mtime ...`; before it the block-delta paths were a refuted case, C03-KF1). *)
From Coq Require Import NArith ZArith List Bool Lia.
From SyModel Require Import Engine Links.
From SyProofs Require Import Engine_proofs Links_proofs.
Import ListNotations.

Lemma mtime_matches_refl t : mtime_matches t t = true.
Proof. unfold mtime_matches. rewrite Z.sub_diag. reflexivity. Qed.

(* an entry in the state C01 guarantees (with the source's mtime) is planned Skip by the next run,
   in every comparison mode except --ignore-times (which by definition re-transfers) *)
Theorem C03_transfer_then_skip : forall c ds e m' ,
  c_ignore_times c = false -> se_is_dir e = false ->
  m' (se_path e) = Some (File (se_content e) (se_size e) (se_mtime e)) ->
  t_action (plan_entry c ds m' e) = ASkip.
Proof.
  intros c ds e m' Hit Hd Hm. unfold plan_entry. rewrite Hd, Hm. cbn [t_action].
  destruct (c_checksum c) eqn:Ec; [rewrite N.eqb_refl; reflexivity|].
  unfold needs_update. rewrite Ec, Hit. destruct (c_size_only c); rewrite N.eqb_refl; cbn; [reflexivity|].
  rewrite mtime_matches_refl. reflexivity.
Qed.
Print Assumptions C03_transfer_then_skip.

Theorem C03_dir_then_skip : forall c ds e m', se_is_dir e = true -> m' (se_path e) = Some Dir -> t_action (plan_entry c ds m' e) = ASkip.
Proof. intros c ds e m' Hd Hm. unfold plan_entry. rewrite Hd, Hm. reflexivity. Qed.
Print Assumptions C03_dir_then_skip.

(* a file that the first run skipped is skipped again (the plan depends only on the entry's own state) *)
Theorem C03_skip_stable : forall c ds e m m', m' (se_path e) = m (se_path e) -> plan_entry c ds m' e = plan_entry c ds m e.
Proof. intros c ds e m m' H. unfold plan_entry. rewrite H. reflexivity. Qed.
Print Assumptions C03_skip_stable.

(* the fixed point: after a successful run, the immediate re-run plans Skip for every selected entry
   (every mode except --ignore-times) *)
Theorem C03_rerun_plans_skip : forall refuse ds c now U keep src dst,
  src_wf src -> c_dry_run c = false -> c_ignore_times c = false -> dst [] = None ->
  let r := run refuse ds c now U keep src dst in
  r_refused r = false -> r_errors r = [] ->
  forall e, In e src -> t_action (plan_entry c ds (r_fs r) e) = ASkip.
Proof.
  intros refuse ds c now U keep src dst Hwf Hdry Hit Hroot r Href Herr e He.
  destruct (run_post refuse ds c now U keep src dst Hwf Hdry Hroot Href Herr e He) as (x & Hx & Hg).
  fold r in Hx. unfold good in Hg. destruct (se_is_dir e) eqn:Hd.
  - subst x. apply C03_dir_then_skip; assumption.
  - destruct (needs c ds dst e) eqn:En.
    + unfold file_post in Hg. inversion Hg; subst. apply C03_transfer_then_skip; assumption.
    + rewrite (C03_skip_stable c ds e dst (r_fs r)) by (rewrite Hx; exact Hg).
      unfold needs in En. destruct (t_action (plan_entry c ds dst e)); try discriminate. reflexivity.
Qed.
Print Assumptions C03_rerun_plans_skip.

(* ... and with --delete the re-run has nothing left to delete, under any filter: what the first run left has a counterpart in the source scan *)
Theorem C03_rerun_plans_no_deletion : forall refuse ds c now U keep src dst,
  src_wf src -> c_dry_run c = false -> c_delete c = true -> dst [] = None ->
  let r := run refuse ds c now U keep src dst in
  r_refused r = false -> r_errors r = [] ->
  plan_deletions (keep ++ src) (filter (fun p => match r_fs r p with Some _ => true | None => false end) U) = [].
Proof.
  intros refuse ds c now U keep src dst Hwf Hdry Hdel Hroot r Href Herr.
  unfold plan_deletions. destruct (filter _ (filter _ U)) as [|q l] eqn:E; [reflexivity|]. exfalso.
  assert (Hq : In q (q :: l)) by (left; reflexivity). rewrite <- E in Hq. apply filter_In in Hq. destruct Hq as [Hq Hn].
  apply filter_In in Hq. destruct Hq as [HqU Hs].
  assert (Hgone : r_fs r q = None).
  { apply (stale_removed refuse ds c now U keep src dst Hwf Hdry Hdel Hroot Href Herr q HqU).
    intro Hin. apply negb_true_iff in Hn. unfold paths_of in Hin. apply in_map_iff in Hin. destruct Hin as (e & Ee & He).
    assert (existsb (fun e0 => peqb (se_path e0) q) (keep ++ src) = true) by (apply existsb_exists; exists e; split; [exact He | apply peqb_eq; exact Ee]). congruence. }
  rewrite Hgone in Hs. discriminate.
Qed.
Print Assumptions C03_rerun_plans_no_deletion.

(* the case that used to fail (C03-KF1, repaired) *)
Example C03_big_update_then_skip :
  let c := mk_cfg false false 50 false false false false 100 100 in
  let e := mk_sentry [1%N] false 200 1000%Z 7 false in
  let dst : fs := fun p => if peqb p [1%N] then Some (File 8 150 500%Z) else None in
  t_action (plan_entry c (fun _ => (0%N, 0%Z)) (r_fs (run (fun _ _ _ => false) (fun _ => (0%N, 0%Z)) c 9000%Z [[1%N]] [] [e] dst)) e) = ASkip.
Proof. vm_compute. reflexivity. Qed.

(* ---------- symbolic-link entries (Model/Links.v): "entry kinds (files, directories, symlinks ...)" ---------- *)
(* re-running over what a run left reports neither a creation nor an update for the entry and leaves the destination entry as it
   is, in every link mode, whatever was at the path before and whatever the link resolves to (an entry that cannot be handled --
   a directory in the way -- is an error again).  On the pinned commit follow mode copied the link's referent again on every run
   and skip mode reported the entry as created every time (`fix: follow mode does not copy an up-to-date entry again`,
   `fix: a symlink entry that is not copied is reported as skipped ...`, recorded as fixed in known_findings.json). *)
Theorem C03_link_rerun_is_quiet : forall m s d, let d1 := sync_link m s d in
  sync_link m s d1 = d1 /\ (link_event m s d1 = EvSkip \/ link_event m s d1 = EvError).
Proof. exact link_rerun_is_quiet. Qed.
Print Assumptions C03_link_rerun_is_quiet.
