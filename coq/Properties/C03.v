(* C03 -- A completed sync is a fixed point: re-running changes nothing.
   "Equivalently, every transfer path leaves the destination entry in a state that the next comparison
   recognises as up to date": proved for every path except the block-delta paths, which the model refutes
   (C03_refuted_big_update, known finding C03-KF1). *)
From Coq Require Import NArith ZArith List Bool Lia.
From SyModel Require Import Engine.
From SyProofs Require Import Engine_proofs.
Import ListNotations.

Lemma mtime_matches_refl t : mtime_matches t t = true.
Proof. unfold mtime_matches. rewrite Z.sub_diag. reflexivity. Qed.

(* an entry in the state C01 guarantees (with the source's mtime) is planned Skip by the next run,
   in every comparison mode except --ignore-times (which by definition re-transfers) *)
Theorem C03_transfer_then_skip : forall c e m' ,
  c_ignore_times c = false -> se_is_dir e = false ->
  m' (se_path e) = Some (File (se_content e) (se_size e) (se_mtime e)) ->
  t_action (plan_entry c m' e) = ASkip.
Proof.
  intros c e m' Hit Hd Hm. unfold plan_entry. rewrite Hd, Hm. cbn [t_action].
  destruct (c_checksum c) eqn:Ec; [rewrite N.eqb_refl; reflexivity|].
  unfold needs_update. rewrite Ec, Hit. destruct (c_size_only c); rewrite N.eqb_refl; cbn; [reflexivity|].
  rewrite mtime_matches_refl. reflexivity.
Qed.
Print Assumptions C03_transfer_then_skip.

Theorem C03_dir_then_skip : forall c e m', se_is_dir e = true -> m' (se_path e) = Some Dir -> t_action (plan_entry c m' e) = ASkip.
Proof. intros c e m' Hd Hm. unfold plan_entry. rewrite Hd, Hm. reflexivity. Qed.
Print Assumptions C03_dir_then_skip.

(* a file that the first run skipped is skipped again (the plan depends only on the entry's own state) *)
Theorem C03_skip_stable : forall c e m m', m' (se_path e) = m (se_path e) -> plan_entry c m' e = plan_entry c m e.
Proof. intros c e m m' H. unfold plan_entry. rewrite H. reflexivity. Qed.
Print Assumptions C03_skip_stable.

(* the fixed point: after a successful run without --delete, the immediate re-run plans Skip for every selected
   entry that is not in the known class, and a run that only skips leaves the destination as it is *)
Theorem C03_rerun_plans_skip : forall refuse c now U src dst,
  src_wf src -> c_dry_run c = false -> c_ignore_times c = false -> dst [] = None ->
  (forall e, In e src -> se_is_dir e = true -> forall cc s t, dst (se_path e) <> Some (File cc s t)) ->
  let r := run refuse c now U src dst in
  r_refused r = false -> r_errors r = [] ->
  forall e, In e src ->
    t_action (plan_entry c (r_fs r) e) = ASkip \/
    (exists dc dsz dmt, dst (se_path e) = Some (File dc dsz dmt) /\ N.ltb dsz (c_big c) = false /\ needs c dst e = true).
Proof.
  intros refuse c now U src dst Hwf Hdry Hit Hroot Hnf r Href Herr e He.
  destruct (run_post refuse c now U src dst Hwf Hdry Hroot Hnf Href Herr e He) as (x & Hx & Hg).
  fold r in Hx. unfold good in Hg. destruct (se_is_dir e) eqn:Hd.
  - left. subst x. apply C03_dir_then_skip; assumption.
  - destruct (needs c dst e) eqn:En.
    + destruct Hg as (mt & Ex & [Emt|(Emt & dc & dsz & dmt & Ed & Eb)]).
      * left. inversion Ex; subst. apply C03_transfer_then_skip; assumption.
      * right. exists dc, dsz, dmt. repeat split; assumption.
    + left. rewrite (C03_skip_stable c e dst (r_fs r)) by (rewrite Hx; exact Hg).
      unfold needs in En. destruct (t_action (plan_entry c dst e)); try discriminate. reflexivity.
Qed.
Print Assumptions C03_rerun_plans_skip.

(* Known finding C03-KF1: the entry left by the block-delta paths is NOT recognised as up to date *)
Theorem C03_refuted_big_update :
  exists c e m', c_ignore_times c = false /\ m' (se_path e) = Some (File (se_content e) (se_size e) 9000000000000%Z)
                 /\ t_action (plan_entry c m' e) = AUpdate.
Proof.
  exists (mk_cfg false false 50 false false false false 100 100), (mk_sentry [1%N] false 200 1000%Z 7 false),
         (fun _ => Some (File 7 200 9000000000000%Z)).
  repeat split.
Qed.
Print Assumptions C03_refuted_big_update.
