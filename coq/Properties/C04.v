(* C04 -- Delta encoding reconstructs the new file exactly for every old/new pair.
   This file contains only the property theorems; each is closed by lemmas of
   Proofs/ and followed by Print Assumptions. *)
From Coq Require Import ZArith List Lia Bool.
From SyGen Require Import SrcConstants.
From SyModel Require Import Adler Delta Wire.
From SyProofs Require Import Adler_proofs Delta_proofs.
Import ListNotations.
Open Scope Z_scope.

(* side conditions on constants regenerated from /repo on every run *)
Lemma block_cap_ok : MAX_BLOCK * 255 < W32 /\ 0 < MIN_BLOCK /\ MIN_BLOCK <= MAX_BLOCK.
Proof. unfold MAX_BLOCK, MIN_BLOCK, W32. lia. Qed.
Lemma chunk_ok : MAX_BLOCK <= CHUNK_SIZE /\ 0 < CHUNK_SIZE.
Proof. unfold MAX_BLOCK, CHUNK_SIZE. lia. Qed.
(* the chunk of the streaming generator holds at least one block, whatever the block size *)
Lemma stream_chunk_ok bs : bs <= stream_chunk bs /\ 0 < stream_chunk bs.
Proof. unfold stream_chunk, CHUNK_SIZE. lia. Qed.

(* (1) The rolling weak checksum after any sequence of k roll steps equals the
   directly computed checksum of the current window: for every data, every
   window width bs with bs*255 < 2^32 (every block size up to 16 843 009, far
   above the 128 KiB cap), every k. *)
Theorem C04_rolling_equals_direct : forall (k bsn : nat) (data : list Z),
  bytes data -> (0 < bsn)%nat -> Z.of_nat bsn * 255 < W32 -> (bsn + k <= length data)%nat ->
  digest (rolls (Z.of_nat bsn) (state_of (firstn bsn data)) data (skipn bsn data) k)
  = hash (firstn bsn (skipn k data)).
Proof. intros. rewrite rolls_correct by assumption. symmetry. apply hash_digest. Qed.
Print Assumptions C04_rolling_equals_direct.

(* every block size the engine can choose satisfies the no-wrap condition *)
Theorem C04_block_sizes_covered : forall bs, 0 < bs <= MAX_BLOCK -> bs * 255 < W32.
Proof. intros bs Hb. pose proof block_cap_ok. lia. Qed.
Print Assumptions C04_block_sizes_covered.

(* the block size the code computes: whatever the floating-point square root of the file size comes out as
   (the theorem quantifies over EVERY integer, so a wrong, saturated or NaN-derived root is included), the
   clamped result is a legal block size: positive, within the cap, below the no-wrap bound of (1), and the
   streaming window of (3) holds a whole block of it *)
Theorem C04_chosen_block_size_ok : forall root,
  let bs := calculate_block_size root in
  MIN_BLOCK <= bs <= MAX_BLOCK /\ 0 < bs /\ bs * 255 < W32 /\ bs <= stream_chunk bs.
Proof.
  intros root bs. pose proof block_cap_ok as Hc. pose proof (stream_chunk_ok bs) as Hs.
  assert (Hb : MIN_BLOCK <= bs <= MAX_BLOCK).
  { subst bs. unfold calculate_block_size, clamp.
    destruct (root <? MIN_BLOCK) eqn:E1; [lia|]. destruct (MAX_BLOCK <? root) eqn:E2; lia. }
  repeat split; try lia.
Qed.
Print Assumptions C04_chosen_block_size_ok.
(* ... and inside the range the clamp changes nothing (the statement is not met by a constant function) *)
Theorem C04_clamp_identity_in_range : forall root, MIN_BLOCK <= root <= MAX_BLOCK -> calculate_block_size root = root.
Proof. intros root H. unfold calculate_block_size, clamp.
  destruct (root <? MIN_BLOCK) eqn:E1; [lia|]. destruct (MAX_BLOCK <? root) eqn:E2; lia. Qed.
Print Assumptions C04_clamp_identity_in_range.
Example ex_block_sizes : map calculate_block_size [0; 32; 1000; 10000; 316227; -5] = [512; 512; 1000; 10000; 131072; 512].
Proof. vm_compute. reflexivity. Qed.

(* (2) Copy operations only reference ranges inside old -- unconditional, for
   both generators, any strong hash. *)
Theorem C04_copy_in_range_mem : forall SH (H : list Z -> SH) Seq bs old new ops,
  0 < bs ->
  gen_mem SH H Seq bs (compute_checksums SH H bs old) new = Some ops ->
  Forall (fun o => copy_in_range old o = true) ops.
Proof.
  intros SH H Seq bs old new ops Hbs E.
  eapply (from_cks_in_range SH H old (compute_checksums SH H bs old)); [intros c Hc; eapply compute_checksums_wf; eassumption|].
  eapply gen_mem_from_cks; eassumption.
Qed.
Print Assumptions C04_copy_in_range_mem.

Theorem C04_copy_in_range_stream : forall SH (H : list Z -> SH) Seq bs old new ops,
  0 < bs ->
  gen_stream SH H Seq bs (compute_checksums SH H bs old) (stream_chunk bs) new = Some ops ->
  Forall (fun o => copy_in_range old o = true) ops.
Proof.
  intros SH H Seq bs old new ops Hbs E. pose proof (stream_chunk_ok bs) as (Hc1 & Hc2).
  eapply (from_cks_in_range SH H old (compute_checksums SH H bs old)); [intros c Hc; eapply compute_checksums_wf; [|exact Hc]; lia|].
  eapply gen_stream_from_cks with (chunk := stream_chunk bs); [.. | exact E]; lia.
Qed.
Print Assumptions C04_copy_in_range_stream.

(* (3) Reconstruction, relative to a strong hash that does not collide between
   a block of old and a different block of new (stated for an arbitrary hash;
   xxh3 is an oracle, see DESIGN.md section 8). *)
Theorem C04_recon_mem : forall SH (H : list Z -> SH) Seq bs old new,
  0 < bs ->
  collision_free SH H Seq old (compute_checksums SH H bs old) new ->
  exists ops, gen_mem SH H Seq bs (compute_checksums SH H bs old) new = Some ops /\ apply old ops = Some new.
Proof.
  intros SH H Seq bs old new Hbs Hcf. apply recon_mem; try assumption.
  intros c Hc. eapply compute_checksums_wf; eassumption.
Qed.
Print Assumptions C04_recon_mem.

Theorem C04_recon_stream : forall SH (H : list Z -> SH) Seq bs old new,
  0 < bs ->
  collision_free SH H Seq old (compute_checksums SH H bs old) new ->
  exists ops, gen_stream SH H Seq bs (compute_checksums SH H bs old) (stream_chunk bs) new = Some ops /\ apply old ops = Some new.
Proof.
  intros SH H Seq bs old new Hbs Hcf. pose proof (stream_chunk_ok bs) as (Hc1 & Hc2). apply recon_stream; try assumption; try lia.
  intros c Hc. eapply compute_checksums_wf; [|exact Hc]; lia.
Qed.
Print Assumptions C04_recon_stream.

(* (3') Closed form for the executable instance (identity strong hash): no hypothesis left. *)
Theorem C04_recon_id : forall bs old new,
  0 < bs ->
  (exists ops, gen_mem_id bs old new = Some ops /\ apply old ops = Some new) /\
  (exists ops, gen_stream_id (stream_chunk bs) bs old new = Some ops /\ apply old ops = Some new).
Proof.
  intros bs old new Hbs. split.
  - apply C04_recon_mem; [lia | apply id_collision_free; lia].
  - apply C04_recon_stream; [lia | apply id_collision_free; lia].
Qed.
Print Assumptions C04_recon_id.

(* (4) The JSON+zstd wire encoding consumed by the remote helper is transparent,
   given the codec round-trip laws (oracles): what the helper applies is what
   the sender generated, compressed or not. *)
Theorem C04_wire_transparent :
  forall (zc : list Z -> list Z) (zd : list Z -> option (list Z))
         (ser : list op -> list Z) (de : list Z -> option (list op)),
  (forall x, zd (zc x) = Some x) -> (forall x, sniff_apply_delta (zc x) = true) ->
  (forall ops, de (ser ops) = Some ops) -> (forall ops, sniff_apply_delta (ser ops) = false) ->
  forall compress old ops,
    helper_apply_delta zd de old (sender_payload zc ser compress ops) = apply old ops.
Proof.
  intros zc zd ser de Hz Hm Hs Hj compress old ops. unfold helper_apply_delta, sender_payload.
  destruct compress.
  - rewrite Hm, Hz, Hs. reflexivity.
  - rewrite Hj, Hs. reflexivity.
Qed.
Print Assumptions C04_wire_transparent.

(* the JSON text of a Delta starts with an opening brace (0x7B), which the sniffer cannot take for the zstd magic *)
Theorem C04_json_not_magic : forall rest, sniff_apply_delta (123 :: rest) = false.
Proof.
  intros rest. unfold sniff_apply_delta. destruct rest as [|b [|c [|d r]]]; try apply andb_false_r.
Qed.
Print Assumptions C04_json_not_magic.

(* ---- non-vacuity: concrete non-trivial instances ---- *)
(* unaligned shifted match + trailing partial block *)
Example ex_shift : gen_mem_id 4 [1;2;3;4;5;6;7;8;9;10] [0;1;2;3;4;5;6;7;255;9;10]
                   = Some [Data [0]; Copy 0 4; Data [5;6;7;255]; Copy 8 2].
Proof. vm_compute. reflexivity. Qed.
(* repeated block: first candidate in dest order wins *)
Example ex_repeat : gen_mem_id 2 [7;7;7;7;1] [7;7;1;7;7] = Some [Copy 0 2; Data [1]; Copy 0 2].
Proof. vm_compute. reflexivity. Qed.
(* weak-checksum collision between different blocks: [0;2;0] and [1;0;1] (a=3, b=7) *)
Example ex_weak_collision :
  hash [0;2;0] = hash [1;0;1] /\ gen_mem_id 3 [0;2;0] [1;0;1] = Some [Data [1;0;1]].
Proof. vm_compute. split; reflexivity. Qed.
(* streaming with a small chunk: refill with pending literals and a match after the refill *)
Example ex_stream_refill :
  gen_stream_id 4 2 [1;2;3;4;5;6] [9;1;2;9;9;3;4;5;6;8] = gen_mem_id 2 [1;2;3;4;5;6] [9;1;2;9;9;3;4;5;6;8] /\
  gen_stream_id 4 2 [1;2;3;4;5;6] [9;1;2;9;9;3;4;5;6;8] = Some [Data [9]; Copy 0 2; Data [9;9]; Copy 2 2; Copy 4 2; Data [8]].
Proof. vm_compute. split; reflexivity. Qed.
Example ex_rolls : digest (rolls 3 (state_of [1;2;3]) [1;2;3;4;5;250] [4;5;250] 3) = hash [4;5;250].
Proof. vm_compute. reflexivity. Qed.
