(* C05 -- Concurrent transfers never interfere: outcome independent of -j and scheduling.
   The model follows the repaired code (`fix: derive the delta-sync working file name by appending .sy.tmp ...`);
   on the pinned commit Path::with_extension mapped a.txt, a.bin and a user's a.sy.tmp to one working file
   (C05_pinned_naming_refuted; recorded as fixed in known_findings.json).

   A run with N workers is an arbitrary interleaving of the per-file programs of Model/Temp.v (create/truncate,
   finish, rename); `is_interleaving l ps` says that l's projection to every task is exactly that task's program,
   i.e. l ranges over ALL interleavings, for every number of tasks and workers. *)
From Coq Require Import NArith List Bool.
From SyGen Require Import SrcConstants.
From SyModel Require Import Temp.
From SyProofs Require Import Temp_proofs.
Import ListNotations.

(* Whatever the interleaving of transfers AND --delete tasks, each transferred destination holds exactly its own source's data,
   each stale entry planned for deletion is gone, no working file remains, and
   every path that is neither a planned destination nor a working file of this run -- a user's own files -- is as
   it was.  Hypotheses: destinations are distinct paths (one action per path) and no planned destination is
   literally named <another block-delta destination>.sy.tmp (planned deletions are task destinations too: since
   `fix: a leftover working file that an update is about to reuse is not planned for deletion` the engine never plans one); the third clause speaks about every path that is not
   literally <block-delta destination>.sy.tmp either. *)
Theorem C05_every_interleaving_partial : forall tasks l s,
  NoDup (map tk_dest tasks) -> no_literal_clash tasks -> is_interleaving l (map (prog temp_path) tasks) ->
  (forall t, In t tasks -> tk_kind t <> KDelete -> texec l s (tk_dest t) = Some (TNew (tk_id t))) /\
  (forall t, In t tasks -> tk_kind t = KDelete -> texec l s (tk_dest t) = None) /\
  (forall t, In t tasks -> tk_kind t = KDelta -> texec l s (temp_path (tk_dest t)) = None) /\
  (forall q, (forall t, In t tasks -> q <> tk_dest t /\ (tk_kind t = KDelta -> q <> temp_path (tk_dest t))) -> texec l s q = s q).
Proof. intros tasks l s Hnd Hc Hl. apply final_state; [apply append_naming_good; assumption | exact Hl]. Qed.
Print Assumptions C05_every_interleaving_partial.

(* Equality with the one-at-a-time run, for every pair of schedules (hence for every worker count) *)
Theorem C05_equals_sequential_partial : forall tasks s sched q,
  NoDup (map tk_dest tasks) -> no_literal_clash tasks ->
  run_tasks temp_path tasks sched s q = run_tasks temp_path tasks [] s q.
Proof. intros tasks s sched q Hnd Hc. apply schedule_independent. apply append_naming_good; assumption. Qed.
Print Assumptions C05_equals_sequential_partial.

(* Working files of two different destinations never coincide, and never coincide with their own destination:
   the naming is injective (for all names: same stem/different extension, names ending in .sy.tmp, dot files) and
   the directory is kept, so equal base names in different directories stay apart *)
Theorem C05_working_files_distinct : forall a b, temp_path a = temp_path b -> a = b.
Proof. exact temp_path_injective. Qed.
Print Assumptions C05_working_files_distinct.

Theorem C05_working_file_same_directory : forall a, fst (temp_path a) = fst a /\ temp_path a <> a.
Proof. intro a. split; [reflexivity | apply temp_path_not_self]. Qed.
Print Assumptions C05_working_file_same_directory.

(* The full statement ("for all name sets") is false of the repaired code as well: when a planned destination or a
   user's file is literally <block-delta destination>.sy.tmp, a schedule exists whose result differs from the
   sequential one.  Known finding C05-KF1 (class literal-temp-name). *)
Theorem C05_literal_clash_refuted :
  observe (run_tasks temp_path clash_tasks [0; 1; 1; 0; 0] world0) universe0 <>
  observe (run_tasks temp_path clash_tasks [] world0) universe0.
Proof. exact literal_clash_schedule_dependent. Qed.
Print Assumptions C05_literal_clash_refuted.

(* The pinned naming: shared working file, schedule-dependent result (history; fixed by the fix: commit) *)
Theorem C05_pinned_naming_refuted :
  pinned_temp_path a_txt = pinned_temp_path a_bin /\
  observe (run_tasks pinned_temp_path two_deltas [0; 1; 1; 0; 1; 0] world0) universe0 <>
  observe (run_tasks pinned_temp_path two_deltas [] world0) universe0.
Proof. split; [apply pinned_naming_shares | exact pinned_naming_schedule_dependent]. Qed.
Print Assumptions C05_pinned_naming_refuted.

(* non-vacuity: a.txt and a.bin, both block-delta updates, next to a user's a.sy.tmp, meet the hypotheses *)
Example ex_two_deltas : NoDup (map tk_dest two_deltas) /\ no_literal_clash two_deltas.
Proof. destruct two_deltas_good as (A & B & _). split; [exact A | exact B]. Qed.
Example ex_two_deltas_result :
  observe (run_tasks temp_path two_deltas [0; 1; 1; 0; 1; 0] world0) universe0 = [Some (TNew 1); Some (TNew 2); Some (TOld 3); None; None].
(* universe0 = a.txt, a.bin, the user's a.sy.tmp (kept), a.bin.sy.tmp (a pre-existing file literally named like a.bin's working
   file is consumed -- the literal-name class of C05-KF1, excluded by the third clause's side condition), a.txt.sy.tmp *)
Proof. vm_compute. reflexivity. Qed.
