(* C06 -- Deletion: extras untouched without --delete, exact mirror with it. *)
From Coq Require Import NArith ZArith List Bool Lia.
From SyModel Require Import Engine.
From SyProofs Require Import Engine_proofs.
Import ListNotations.

(* Without --delete no destination entry lacking a source counterpart is removed or altered --
   whatever else happens in the run (errors included) *)
Theorem C06_no_delete_no_loss : forall refuse ds c now U keep src dst q x,
  c_delete c = false -> ~ In q (paths_of src) -> dst q = Some x ->
  r_fs (run refuse ds c now U keep src dst) q = Some x.
Proof. exact no_delete_no_loss. Qed.
Print Assumptions C06_no_delete_no_loss.

(* the deletion plan is exactly the destination entries without a counterpart in the list it is given *)
Theorem C06_plan_exact : forall src listing p,
  In p (map t_path (plan_deletions src listing)) <-> In p listing /\ ~ In p (paths_of src).
Proof.
  intros src listing p. unfold plan_deletions. rewrite map_map. cbn [t_path]. rewrite map_id. rewrite filter_In. split.
  - intros [Hin Hf]. split; [exact Hin|]. intro Hc. unfold paths_of in Hc. apply in_map_iff in Hc. destruct Hc as (e & Ee & He).
    apply negb_true_iff in Hf. assert (existsb (fun e0 => peqb (se_path e0) p) src = true); [|congruence].
    apply existsb_exists. exists e. split; [exact He | apply peqb_eq; exact Ee].
  - intros [Hin Hn]. split; [exact Hin|]. apply negb_true_iff. destruct (existsb (fun e0 => peqb (se_path e0) p) src) eqn:Ex; [|reflexivity].
    exfalso. apply existsb_exists in Ex. destruct Ex as (e & He & Ee). apply peqb_eq in Ee. apply Hn. rewrite <- Ee. unfold paths_of. apply in_map. exact He.
Qed.
Print Assumptions C06_plan_exact.

(* under ANY filter or size bound a destination path whose counterpart exists in the source -- selected [src] or kept out of
   the run [keep] -- is never planned for deletion: the engine hands the planner the whole scan (`fix: plan --delete against
   the whole source scan`; on the pinned commit it handed it the filtered list, recorded as fixed) *)
Theorem C06_counterpart_never_planned : forall keep src listing e,
  In e (keep ++ src) -> ~ In (se_path e) (map t_path (plan_deletions (keep ++ src) listing)).
Proof. intros keep src listing e He Hc. apply C06_plan_exact in Hc. destruct Hc as [_ Hn]. apply Hn. unfold paths_of. apply in_map. exact He. Qed.
Print Assumptions C06_counterpart_never_planned.

(* with --delete, a destination path without a counterpart anywhere in the source scan is gone after a successful run *)
Theorem C06_stale_removed : forall refuse ds c now U keep src dst,
  src_wf src -> c_dry_run c = false -> c_delete c = true -> dst [] = None ->
  let r := run refuse ds c now U keep src dst in
  r_refused r = false -> r_errors r = [] ->
  forall q, In q U -> ~ In q (paths_of (keep ++ src)) -> r_fs r q = None.
Proof. exact stale_removed. Qed.
Print Assumptions C06_stale_removed.

(* selected source entries survive the deletions of a successful run (the mirror's "superset" half is C01) *)
Theorem C06_deletions_spare_selected : forall refuse ds c now U keep src dst,
  src_wf src -> c_dry_run c = false -> dst [] = None ->
  let r := run refuse ds c now U keep src dst in
  r_refused r = false -> r_errors r = [] -> forall e, In e src -> r_fs r (se_path e) <> None.
Proof.
  intros refuse ds c now U keep src dst Hwf Hdry Hroot r Href Herr e He.
  destruct (run_post refuse ds c now U keep src dst Hwf Hdry Hroot Href Herr e He) as (x & Hx & _). fold r in Hx. congruence.
Qed.
Print Assumptions C06_deletions_spare_selected.

(* With --delete (threshold not exceeded, or --force-delete) a successful unfiltered run leaves the set of
   destination paths equal to the source's: exact mirror, for every pair of trees *)
Theorem C06_mirror : forall refuse ds c now U src dst,
  src_wf src -> c_dry_run c = false -> c_delete c = true -> dst [] = None ->
  let r := run refuse ds c now U [] src dst in
  r_refused r = false -> r_errors r = [] ->
  forall q, In q U -> (r_fs r q <> None <-> In q (paths_of src)).
Proof. exact mirror. Qed.
Print Assumptions C06_mirror.

(* removing stale entries -- a stale directory together with its contents included -- never produces an
   error, whatever the order of the delete tasks (repaired: `fix: deleting an entry that vanished ...`;
   before it the children of a removed directory failed with ENOENT, C06-KF1) *)
Theorem C06_deletions_never_fail : forall c now ds m,
  c_dry_run c = false -> (forall t, In t ds -> t_action t = ADelete) ->
  exists mf, exec_seq c now m ds = Some mf /\ forall q, (In q (map t_path ds) \/ m q = None) -> mf q = None.
Proof. intros c now ds m Hdry Hall. apply dels_never_fail; assumption. Qed.
Print Assumptions C06_deletions_never_fail.

Example C06_stale_dir_no_error :
  let c := mk_cfg true true 50 false false false false 100 100 in
  let dst : fs := fun p => if peqb p [7%N] then Some Dir else if peqb p [7%N; 8%N] then Some (File 1 1 1%Z) else None in
  let r := run (fun _ _ _ => false) (fun _ => (0%N, 0%Z)) c 1%Z [[7%N]; [7%N; 8%N]] [] [] dst in
  r_errors r = [] /\ r_fs r [7%N] = None /\ r_fs r [7%N; 8%N] = None /\ r_events r = [(ADelete, [7%N]); (ADelete, [7%N; 8%N])].
Proof. vm_compute. repeat split. Qed.

(* non-vacuity of the filter clause: keep.log is kept out of the run by --exclude '*.log'; the destination's keep.log survives
   --delete, the stale entries go *)
Example C06_excluded_counterpart_survives :
  let c := mk_cfg true true 50 false false false false 100 100 in
  let keep := [mk_sentry [2%N] false 3 5%Z 8 false] in
  let src := [mk_sentry [1%N] false 3 5%Z 7 false] in
  let dst : fs := fun p => if peqb p [2%N] then Some (File 9 4 1%Z) else if peqb p [3%N] then Some (File 1 1 1%Z) else None in
  let r := run (fun _ _ _ => false) (fun _ => (0%N, 0%Z)) c 1%Z [[1%N]; [2%N]; [3%N]] keep src dst in
  r_errors r = [] /\ r_fs r [2%N] = Some (File 9 4 1%Z) /\ r_fs r [3%N] = None /\ r_fs r [1%N] = Some (File 7 3 5%Z).
Proof. vm_compute. repeat split. Qed.
