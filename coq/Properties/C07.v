(* C07 -- Mass-deletion guard: a run never deletes more than the configured share.
   Decision half (this file): the guard as coded in binary64 has no false negative.
   Placement half (the refusal happens before any change): Properties/C07 is completed by the
   engine-level theorem C06/C07 in Engine_props (see DESIGN.md) and by the world runs. *)
From Coq Require Import ZArith Floats List Bool Lia Reals.
From SyGen Require Import SrcConstants.
From SyModel Require Import Threshold.
From SyModel Require Import Engine.
From SyProofs Require Import Threshold_proofs Threshold_std Threshold_flocq Engine_proofs Guard_proofs.
Import ListNotations.
Open Scope Z_scope.

(* the coded floating-point test, evaluated by the kernel, for every destination of up to NMAX = 200 entries *)
Theorem C07_refuse_sound_bounded : forall d n t,
  0 < n <= Z.of_nat NMAX -> 0 <= d <= n -> 0 <= t <= 100 -> t * n < 100 * d -> refuse false d n t = true.
Proof. exact refuse_sound_bounded. Qed.
Print Assumptions C07_refuse_sound_bounded.

(* THE DECISION HALF AT FULL STRENGTH: the coded binary64 test (the same Threshold.refuse that the kernel evaluates
   above and that is compared with the binary) has no false negative for ANY destination of fewer than 2^45
   (3.5e13) entries, any number of planned deletions and every threshold the command line accepts.  Proved through
   Flocq's IEEE-754 formalisation (Flocq.IEEE754.PrimFloat ties Coq's primitive floats to it; Bdiv_correct,
   Bmult_correct, relative_error_N_FLT_ex); depends on the standard library's axioms for primitive floats and
   63-bit integers (FloatAxioms, Uint63) and its classical real numbers -- see DESIGN.md section 10. *)
Theorem C07_refuse_sound : forall d n t,
  0 < n < 2^45 -> 0 <= d < 2^53 -> 0 <= t <= 100 -> t * n < 100 * d -> refuse false d n t = true.
Proof. exact refuse_sound_binary64. Qed.
Print Assumptions C07_refuse_sound.

(* the same inequality relative to an abstract standard model of IEEE rounding |fl x - x| <= u |x| (kept: it shows
   which property of the arithmetic the guard needs; C07_refuse_sound instantiates it with binary64) *)
Theorem C07_refuse_sound_std_partial : forall (fl : R -> R) (u : R),
  (0 <= u)%R -> (forall x, exists e, (Rabs e <= u)%R /\ fl x = (x * (1 + e))%R) ->
  forall d n t, 0 < n -> 0 <= t -> t * n < 100 * d ->
  (2 * u * (IZR t * IZR n + 1) < 1)%R -> (IZR t < pctR fl d n)%R.
Proof. intros fl u Hu Hfl d n t. apply (refuse_sound_std fl u Hu Hfl). Qed.
Print Assumptions C07_refuse_sound_std_partial.

(* force_delete, an empty deletion plan and an empty destination never refuse (the guard is not consulted) *)
Theorem C07_gates : forall d n t,
  refuse true d n t = false /\ refuse false 0 n t = false /\ refuse false d 0 t = false.
Proof. exact refuse_gates. Qed.
Print Assumptions C07_gates.

(* "an empty, unmounted or mistaken source cannot wipe a destination under default settings":
   with the default threshold, planning the deletion of every one of n >= 1 destination entries is refused *)
Theorem C07_default_protects_empty_source : forall n,
  0 < n < 2^45 -> refuse false n n THRESHOLD_DEFAULT = true.
Proof. intros n Hn. apply refuse_sound_binary64; unfold THRESHOLD_DEFAULT; lia. Qed.
Print Assumptions C07_default_protects_empty_source.

(* only thresholds 0..100 are accepted by the CLI *)
Theorem C07_threshold_range : forall t, threshold_valid t = true <-> 0 <= t <= 100.
Proof. intro t. unfold threshold_valid, THRESHOLD_MAX. rewrite andb_true_iff, Z.leb_le, Z.leb_le. reflexivity. Qed.
Print Assumptions C07_threshold_range.

(* placement: when the guard fires the run stops before changing anything -- no entry is created, updated
   or deleted, no event is reported -- with a non-zero status; and it fires whenever the test says so *)
Theorem C07_refusal_changes_nothing : forall rf ds c now U keep src dst,
  r_refused (run rf ds c now U keep src dst) = true ->
  r_fs (run rf ds c now U keep src dst) = dst /\ exit_status c (run rf ds c now U keep src dst) = 1 /\ r_events (run rf ds c now U keep src dst) = nil.
Proof. exact refusal_changes_nothing. Qed.
Print Assumptions C07_refusal_changes_nothing.

Theorem C07_guard_fires : forall rf ds c now U keep src dst,
  let listing := filter (fun p => match dst p with Some _ => true | None => false end) U in
  let dels := plan_deletions (keep ++ src) listing in
  c_delete c = true -> c_force_delete c = false -> dels <> nil ->
  rf (Z.of_nat (length dels)) (Z.of_nat (length listing)) (c_threshold c) = true ->
  r_refused (run rf ds c now U keep src dst) = true.
Proof. exact refuses_when_guard_fires. Qed.
Print Assumptions C07_guard_fires.

(* THE WHOLE PROPERTY IN ONE STATEMENT: the engine of Model/Engine.v run with the guard as coded (Threshold.refuse on binary64).
   Unless --force-delete is given, if the deletions planned by --delete exceed --delete-threshold percent of the destination's
   entries (exactly, over the integers), the run is refused: the destination is exactly what it was -- no entry created, updated
   or deleted --, no event is reported and the exit status is 1.  For EVERY source listing, filter, comparison mode and
   destination of fewer than 2^45 entries, every threshold the command line accepts. *)
Theorem C07_mass_deletion_is_refused_before_any_change : forall ds c now U keep src dst,
  let listing := filter (fun p => match dst p with Some _ => true | None => false end) U in
  let dels := plan_deletions (keep ++ src) listing in
  let r := run (refuse false) ds c now U keep src dst in
  c_delete c = true -> c_force_delete c = false ->
  0 <= c_threshold c <= 100 -> Z.of_nat (length listing) < 2^45 ->
  c_threshold c * Z.of_nat (length listing) < 100 * Z.of_nat (length dels) ->
  r_refused r = true /\ r_fs r = dst /\ r_events r = nil /\ exit_status c r = 1.
Proof. exact mass_deletion_refused. Qed.
Print Assumptions C07_mass_deletion_is_refused_before_any_change.

(* non-vacuity: a destination of three stale files over an empty source, default threshold *)
Example C07_whole_property_example :
  let c := mk_cfg true false 50 false false false false 100 100 in
  let dst : fs := fun p => if peqb p [1%N] then Some (File 1 1 1) else if peqb p [2%N] then Some (File 2 2 2) else if peqb p [3%N] then Some (File 3 3 3) else None in
  let r := run (refuse false) (fun _ => (0%N, 0)) c 9 [[1%N]; [2%N]; [3%N]] [] [] dst in
  r_refused r = true /\ exit_status c r = 1.
Proof. vm_compute. split; reflexivity. Qed.

(* Observation (not a violation of C07): exactly at the threshold the float test may refuse although the
   exact ratio does not exceed it *)
Example at_threshold_may_refuse : exceeds 7 100 7 = false /\ refuse false 7 100 7 = true.
Proof. vm_compute. split; reflexivity. Qed.
Example nonvacuous : exceeds 2 3 50 = true /\ refuse false 2 3 50 = true /\ exceeds 1 2 50 = false /\ refuse false 1 2 50 = false.
Proof. vm_compute. repeat split. Qed.
