(* C08 -- Dry-run changes nothing and its plan matches the real run (engine part: the destination tree
   and the plan; the side effects on sy's own state files before the tasks are checked on the binary). *)
From Coq Require Import NArith ZArith List Bool Lia.
From SyModel Require Import Engine.
From SyProofs Require Import Engine_proofs.
From SyModel Require Import Links.
From SyProofs Require Import Links_proofs.
From SyGen Require Import StateGuards.
From SyProofs Require Import StateGuards_proofs.
Import ListNotations.

Theorem C08_dry_run_changes_nothing : forall refuse ds c now U keep src dst,
  c_dry_run c = true -> r_fs (run refuse ds c now U keep src dst) = dst.
Proof. exact dry_run_changes_nothing. Qed.
Print Assumptions C08_dry_run_changes_nothing.

Definition with_dry (c : cfg) (b : bool) : cfg :=
  mk_cfg (c_delete c) (c_force_delete c) (c_threshold c) b (c_ignore_times c) (c_size_only c) (c_checksum c) (c_big c) (c_max_errors c).

(* the plan (actions and paths, deletions included, and the refusal decision) does not depend on --dry-run *)
Theorem C08_plan_independent_of_dry_run : forall c ds dst e,
  plan_entry (with_dry c true) ds dst e = plan_entry (with_dry c false) ds dst e.
Proof. intros. reflexivity. Qed.
Print Assumptions C08_plan_independent_of_dry_run.

(* the dry run reports every planned action as performed: its event list is the whole plan *)
Lemma exec_all_dry_events c now : c_dry_run c = true -> forall ts m errs evs,
  r_events (exec_all c now m ts errs evs) = rev evs ++ map (fun t => (t_action t, t_path t)) ts /\
  r_errors (exec_all c now m ts errs evs) = rev errs.
Proof.
  intros Hdry. induction ts as [|t ts IH]; intros m errs evs.
  - cbn. rewrite app_nil_r. split; reflexivity.
  - cbn [exec_all]. unfold exec_task. rewrite Hdry. destruct (IH m errs ((t_action t, t_path t) :: evs)) as [E1 E2].
    rewrite E1, E2. cbn [rev map]. rewrite <- app_assoc. split; reflexivity.
Qed.

Theorem C08_dry_run_reports_the_plan : forall refuse ds c now U keep src dst,
  c_dry_run c = true -> r_refused (run refuse ds c now U keep src dst) = false ->
  r_events (run refuse ds c now U keep src dst) =
    map (fun t => (t_action t, t_path t))
        (map (plan_entry c ds dst) src ++ (if c_delete c then plan_deletions (keep ++ src) (filter (fun p => match dst p with Some _ => true | None => false end) U) else []))
  /\ r_errors (run refuse ds c now U keep src dst) = [].
Proof.
  intros refuse ds c now U keep src dst Hdry Href. unfold run in *. cbv zeta in *.
  match type of Href with context [if ?b then _ else _] => destruct b end; [cbn in Href; discriminate|].
  destruct (exec_all_dry_events c now Hdry (map (plan_entry c ds dst) src ++ (if c_delete c then plan_deletions (keep ++ src) (filter (fun p => match dst p with Some _ => true | None => false end) U) else [])) dst [] []) as [E1 E2].
  rewrite E1, E2. split; reflexivity.
Qed.
Print Assumptions C08_dry_run_reports_the_plan.

(* symbolic link entries (Model/Links.v): for every link mode, every link and every prior destination entry, what the dry run announces
   for the entry is what the real run reports, unless the real run fails there (a dry run cannot foresee EEXIST)
   (`fix: a dry run reports a followed symbolic link as it would be copied`; before it, followed links were announced as skipped) *)
Theorem C08_dry_run_announces_link_events : forall m s d,
  link_event m s d <> EvError -> dry_link_event m s d = link_event m s d.
Proof. exact dry_run_announces_the_real_event. Qed.
Print Assumptions C08_dry_run_announces_link_events.

(* sy's own state files.  coq/gen/StateGuards.v is TRANSLATED from /repo/src/main.rs and src/sync/mod.rs on every run
   (py/gen_stateguards.py): for each call that creates, rewrites or removes the resume state, the directory cache or the checksum
   database -- eleven sites -- the flag conditions of the enclosing `if` blocks.  With --dry-run none of them can run, for every
   combination of the other flags; and every site the translator knows was found in the source as it is now.  (The three
   repairs abb537a, 7fce564 and 858b5e0 each added one of these conditions; removing one changes the generated guard and this
   theorem no longer checks.) *)
Theorem C08_dry_run_touches_no_state_file : forall f,
  f_dry_run f = true -> forallb (fun g => negb (snd g f)) all_guards = true.
Proof. exact dry_run_no_state_file. Qed.
Print Assumptions C08_dry_run_touches_no_state_file.

Theorem C08_all_state_sites_found : List.length all_guards = expected_sites.
Proof. exact all_sites_found. Qed.
Print Assumptions C08_all_state_sites_found.

(* non-vacuity: without --dry-run every one of the guards can hold (they are not constantly false), with it none does *)
Example C08_state_guards_not_vacuous :
  forallb (fun g => snd g (sflags_all true false false)) all_guards = true /\
  existsb (fun g => snd g (sflags_all true true false)) all_guards = false.
Proof. vm_compute. split; reflexivity. Qed.
