(* C09 -- Crash safety: killing sy at any instant loses nothing and a re-run converges.
   The model follows the repaired code (`fix: replace a large existing destination atomically on the sparse and
   full-copy fallbacks too`; on the pinned commit those two branches wrote a destination of 10 MiB or more in
   place -- recorded as fixed in known_findings.json).

   A crash point is a boundary between two file-system mutating calls: `crash_state e now p k s` is the state after
   the first k calls of the file's program p (Model/Crash.v), for EVERY k and every program of the class the code
   uses (the recognisers inplace_class / temp_class are executable and are applied, by the check, to the call
   sequences observed on the real binary).  Whole runs: tasks have disjoint footprints (C05), so a crash state of an
   interleaved run with any number of workers is, path by path, a crash state of one task's own program
   (C09_crash_decomposes). *)
From Coq Require Import NArith ZArith List Bool.
From SyModel Require Import Engine Temp Crash Inodes.
From SyProofs Require Import Temp_proofs Crash_proofs Inodes_proofs.
Import ListNotations.

(* every destination file not being written at that instant is intact: whatever the interleaving and the crash point,
   a path owned by task i is exactly where task i's own program left it after some prefix (none of it: untouched;
   all of it: finished); a path no task owns -- other destination files, a user's files -- is untouched *)
Theorem C09_crash_decomposes : forall ps l s k,
  disjoint_feet ps -> is_interleaving l ps ->
  (forall i q, In q (foot (nth i ps [])) -> exists m, texec (firstn k l) s q = run_ops (firstn m (nth i ps [])) s q) /\
  (forall q, (forall i, ~ In q (foot (nth i ps []))) -> texec (firstn k l) s q = s q).
Proof. exact crash_state_decomposes. Qed.
Print Assumptions C09_crash_decomposes.

(* an existing destination at or above the gate that is being updated holds exactly its old or exactly its new
   content at every crash point *)
Theorem C09_big_update_old_or_new : forall c e now p s k,
  uses_temp c (cs_dest s) = true -> program_ok c e (cs_dest s) p = true ->
  cs_dest (crash_state e now p k s) = cs_dest s \/ holds_source e (cs_dest (crash_state e now p k s)) = true.
Proof. exact big_update_old_or_new. Qed.
Print Assumptions C09_big_update_old_or_new.

(* no interrupted state is ever accepted as up to date by a later run, under any comparison mode (default size+mtime,
   --size-only, --ignore-times, --checksum): if the planner would skip the file, it holds the source's bytes *)
Theorem C09_never_accepted_torn : forall c e now p s k,
  program_ok c e (cs_dest s) p = true -> replans c e (cs_dest s) = true ->
  replans c e (cs_dest (crash_state e now p k s)) = false -> holds_source e (cs_dest (crash_state e now p k s)) = true.
Proof. exact never_accepted_torn. Qed.
Print Assumptions C09_never_accepted_torn.

(* a subsequent uninterrupted run of the same command ends with the file equal to its source and no working file *)
Theorem C09_recovery_converges : forall c e now now' p p' s k,
  cs_temp s = CAbsent -> program_ok c e (cs_dest s) p = true -> replans c e (cs_dest s) = true ->
  program_ok c e (cs_dest (crash_state e now p k s)) p' = true ->
  holds_source e (cs_dest (rerun c e now' p' (crash_state e now p k s))) = true /\
  cs_temp (rerun c e now' p' (crash_state e now p k s)) = CAbsent.
Proof. exact recovery_converges. Qed.
Print Assumptions C09_recovery_converges.

(* the pass that moves the names of a multiply-linked source file back onto one inode after their updates (-H): each re-link is a
   hard link under the working name followed by a rename over the name (Model/Inodes.v relink_prog, anchor HL_RELINK_SHAPE).  Killed
   before ANY of its calls the name exists and is on its old or on the kept inode -- both hold complete files --, every other name
   is untouched, and the completed program is the model's link_to *)
Theorem C09_relink_old_or_new : forall k q i s j,
  r_names s q = Some j ->
  (r_names (rprefix k (relink_prog q i) s) q = Some j \/ r_names (rprefix k (relink_prog q i) s) q = Some i) /\
  (forall p, p <> q -> r_names (rprefix k (relink_prog q i) s) p = r_names s p).
Proof. exact relink_prog_old_or_new. Qed.
Print Assumptions C09_relink_old_or_new.

Theorem C09_relink_refines_link_to : forall q i s (ds : dstate),
  r_tmp s = None -> (forall p, r_names s p = d_names ds p) ->
  forall p, r_names (rprefix 2 (relink_prog q i) s) p = d_names (link_to ds q i) p.
Proof. exact relink_prog_is_link_to. Qed.
Print Assumptions C09_relink_refines_link_to.

(* the variant "unlink the name, then link it" (seed C09-4): killed between the two calls the name does not exist *)
Theorem C09_relink_unlink_first_refuted : forall q i s, r_names (rprefix 1 (relink_prog_unlink_first q i) s) q = None.
Proof. exact relink_unlink_first_refuted. Qed.
Print Assumptions C09_relink_unlink_first_refuted.

(* non-vacuity of the re-link statements: name 2 on inode 7, re-linked onto inode 5 *)
Example ex_relink : let s := mk_rstate (fun p => if N.eqb p 2 then Some 7%N else if N.eqb p 1 then Some 5%N else None) None in
  map (fun k => r_names (rprefix k (relink_prog 2 5) s) 2%N) [0; 1; 2]%nat = [Some 7%N; Some 7%N; Some 5%N] /\
  r_names (rprefix 2 (relink_prog 2 5) s) 1%N = Some 5%N.
Proof. vm_compute. split; reflexivity. Qed.

(* non-vacuity: the call sequences observed on the real binary are in the classes, for a 200000-byte source *)
Definition ex_e : sentry := mk_sentry [1%N] false 200000 1600000000000000000 7 false.
Definition ex_cfg : cfg := mk_cfg false false 50 false false false false 98304 100.
Definition ex_inplace : list cstep := [SOpen false; SMeta false; SWrite false 0; SWriteLast false; SUtime].
Definition ex_delta : list cstep := [SOpen true; SSetLen true; SMeta true; SWrite true 0; SWrite true 0; SWrite true 0; SWriteLast true; SRename; SUtime].
Example ex_programs_ok :
  program_ok ex_cfg ex_e CAbsent ex_inplace = true /\ program_ok ex_cfg ex_e (CFile 3 true 200002 5) ex_delta = true /\
  replans ex_cfg ex_e (CFile 3 true 200002 5) = true.
Proof. vm_compute. repeat split. Qed.
Example ex_crash_states :
  map (fun k => cs_dest (crash_state ex_e 9 ex_delta k (mk_cstate (CFile 3 true 200002 5) CAbsent))) [0; 3; 7; 8; 9]%nat =
  [CFile 3 true 200002 5; CFile 3 true 200002 5; CFile 3 true 200002 5; CFile 7 true 200000 9; CFile 7 true 200000 1600000000000000000].
Proof. vm_compute. reflexivity. Qed.
