(* C10 -- I/O faults are contained and truthfully reported (engine part).
   "the exit status is non-zero whenever a planned operation did not complete ... Exit status 0 therefore
   implies the postcondition of C01": proved for the model, which follows the repaired main.rs
   (`fix: exit with a non-zero status ...`; before it a run with per-file errors exited 0) and the repaired planner. *)
From Coq Require Import NArith ZArith List Bool Lia.
From SyModel Require Import Engine EngineFaults.
From SyProofs Require Import Engine_proofs EngineFaults_proofs.
Import ListNotations.

(* failure is visible: whenever some planned operation did not complete, the exit status is non-zero,
   for every error budget (0 = unlimited included) *)
Theorem C10_failure_visible : forall c r, r_errors r <> [] -> exit_status c r <> 0%Z.
Proof. intros c r Hne E. destruct (exit0_no_errors c r E) as [_ H]. contradiction. Qed.
Print Assumptions C10_failure_visible.

(* exit status 0 implies the postcondition of C01 *)
Theorem C10_exit0_implies_C01 : forall refuse ds c now U keep src dst,
  src_wf src -> c_dry_run c = false -> dst [] = None ->
  exit_status c (run refuse ds c now U keep src dst) = 0%Z ->
  forall e, In e src -> post c ds now dst (r_fs (run refuse ds c now U keep src dst)) e.
Proof.
  intros refuse ds c now U keep src dst Hwf Hdry Hroot Hex e He.
  destruct (exit0_no_errors c _ Hex) as [Href Herr]. apply run_post; assumption.
Qed.
Print Assumptions C10_exit0_implies_C01.

(* containment: a task that fails leaves the destination exactly as it was, so entries of other tasks are
   not affected by the fault *)
Theorem C10_failed_task_changes_nothing : forall c now ts m errs evs t x,
  exec_task c now m t = inr x ->
  exec_all c now m (t :: ts) errs evs = exec_all c now m ts ((t_path t, t_action t, x) :: errs) evs.
Proof. intros c now ts m errs evs t x E. cbn [exec_all]. rewrite E. reflexivity. Qed.
Print Assumptions C10_failed_task_changes_nothing.

(* "files not affected by the fault still end up correct": Model/EngineFaults.v lets ANY set of tasks fail for reasons outside the
   model (an errno at some system call: [flt]) -- the transfer of a source entry, leaving anything at the failing file's own path
   ([junk]: the old file, a partial one, nothing), or the DELETION of a stale entry, which leaves the entry and, below a directory
   whose removal stopped half-way, an arbitrary part of its contents.  Whatever fails -- injected or for the reasons Engine.v knows --
   every selected entry for which no error is recorded satisfies the C01 postcondition, and with no fault injected the run is
   Engine.run *)
Theorem C10_unaffected_entries_correct : forall flt junk refuse ds c now U keep src dst,
  src_wf src -> c_dry_run c = false -> dst [] = None ->
  let r := run_f flt junk refuse ds c now U keep src dst in
  r_refused r = false ->
  forall e, In e src -> (forall a x, ~ In (se_path e, a, x) (r_errors r)) -> post c ds now dst (r_fs r) e.
Proof. exact run_f_post. Qed.
Print Assumptions C10_unaffected_entries_correct.

(* "the failure is visible": an injected fault on the path of any task of the run -- a selected source entry, or an entry planned
   for deletion -- is in the error list, and the exit status is 1 *)
Theorem C10_injected_fault_is_visible : forall flt junk refuse ds c now U keep src dst p x,
  c_dry_run c = false ->
  let r := run_f flt junk refuse ds c now U keep src dst in
  r_refused r = false ->
  flt p = Some x ->
  (In p (map se_path src) \/ (c_delete c = true /\ In p (map t_path (plan_deletions (keep ++ src) (filter (fun q => match dst q with Some _ => true | None => false end) U))))) ->
  (exists a y, In (p, a, y) (r_errors r)) /\ exit_status c r = 1%Z.
Proof. exact run_f_fault_visible. Qed.
Print Assumptions C10_injected_fault_is_visible.

(* a failing deletion: the removal of the stale directory [9] stops half-way (its entry [9;1] is gone, [9;2] is left), the
   selected file is still transferred, the failure is recorded, the exit status is 1; the later task of [9;2] removes it *)
Example C10_injected_deletion_fault :
  let c := mk_cfg true true 50 false false false false 100 100 in
  let src := [mk_sentry [1%N] false 5 1000%Z 7 false] in
  let dst : fs := fun p => if peqb p [9%N] then Some Dir else if peqb p [9%N; 1%N] then Some (File 1 1 1%Z) else if peqb p [9%N; 2%N] then Some (File 2 2 2%Z) else None in
  let flt := fun p => if peqb p [9%N] then Some E_NoEnt else None in
  let junk := fun p => if peqb p [9%N; 2%N] then Some (File 2 2 2%Z) else None in
  let r := run_f flt junk (fun _ _ _ => false) (fun _ => (0%N, 0%Z)) c 9%Z [[9%N]; [9%N; 1%N]; [9%N; 2%N]] [] src dst in
  r_errors r = [([9%N], ADelete, E_NoEnt)] /\ r_fs r [1%N] = Some (File 7 5 1000%Z) /\ r_fs r [9%N] = Some Dir /\
  r_fs r [9%N; 1%N] = None /\ r_fs r [9%N; 2%N] = None /\ exit_status c r = 1%Z.
Proof. vm_compute. repeat split. Qed.

Theorem C10_no_fault_is_the_engine : forall junk refuse ds c now U keep src dst,
  run_f (fun _ => None) junk refuse ds c now U keep src dst = run refuse ds c now U keep src dst.
Proof. exact run_f_no_faults. Qed.
Print Assumptions C10_no_fault_is_the_engine.

(* two of three files hit by injected faults (one left truncated, one left as it was): the third is transferred, both failures are
   recorded, the exit status is 1 *)
Example C10_injected_faults :
  let c := mk_cfg false false 50 false false false false 100 100 in
  let src := [mk_sentry [1%N] false 5 1000%Z 7 false; mk_sentry [2%N] false 6 1000%Z 8 false; mk_sentry [3%N] false 4 1000%Z 9 false] in
  let dst : fs := fun p => if peqb p [3%N] then Some (File 1 1 1%Z) else None in
  let flt := fun p => if peqb p [1%N] then Some E_NoEnt else if peqb p [3%N] then Some E_NoEnt else None in
  let junk := fun p => if peqb p [1%N] then Some (File 0 0 9%Z) else dst p in
  let r := run_f flt junk (fun _ _ _ => false) (fun _ => (0%N, 0%Z)) c 9%Z [[3%N]] [] src dst in
  length (r_errors r) = 2 /\ r_fs r [2%N] = Some (File 8 6 1000%Z) /\ r_fs r [1%N] = Some (File 0 0 9%Z) /\ r_fs r [3%N] = Some (File 1 1 1%Z) /\
  exit_status c r = 1%Z.
Proof. vm_compute. repeat split. Qed.

(* (was known finding C10-KF1) an entry of the wrong kind in the destination -- a regular file where the source has a directory, a
   directory where the source has a file -- used to be planned Skip: exit status 0 with the wrong kind left in place.  Since
   `fix: an entry of the wrong kind in the destination is reported, not skipped` such an entry makes its task fail, so a run that
   reports no error met none: C01's postcondition and this one hold for EVERY destination, with no side condition *)
Theorem C10_no_error_means_no_type_conflict : forall refuse ds c now U keep src dst,
  src_wf src -> c_dry_run c = false ->
  let r := run refuse ds c now U keep src dst in
  r_refused r = false -> r_errors r = [] ->
  forall e, In e src ->
    (se_is_dir e = true -> forall cc s t, dst (se_path e) <> Some (File cc s t)) /\
    (se_is_dir e = false -> dst (se_path e) <> Some Dir).
Proof. exact run_no_conflicts. Qed.
Print Assumptions C10_no_error_means_no_type_conflict.

(* the two shapes that used to be skipped silently are reported now *)
Example C10_dir_over_file_reported :
  let c := mk_cfg false false 50 false false false false 100 100 in
  let r := run (fun _ _ _ => false) (fun _ => (0%N, 0%Z)) c 9%Z [] [] [mk_sentry [1%N] true 0 0%Z 0 false] (fun p => if peqb p [1%N] then Some (File 3 3 3%Z) else None) in
  r_errors r = [([1%N], ACreate, E_NotDir)] /\ exit_status c r = 1%Z.
Proof. vm_compute. split; reflexivity. Qed.
Example C10_file_over_dir_reported :
  let c := mk_cfg false false 50 false false true false 100 100 in
  let r := run (fun _ _ _ => false) (fun _ => (4096%N, 0%Z)) c 9%Z [] [] [mk_sentry [1%N] false 4096 1000%Z 7 false] (fun p => if peqb p [1%N] then Some Dir else None) in
  r_errors r = [([1%N], AUpdate, E_IsDir)] /\ exit_status c r = 1%Z.
Proof. vm_compute. split; reflexivity. Qed.

(* a type-conflicting path: the error is recorded, the other file is still transferred, and the run does not exit 0 *)
Example C10_type_conflict :
  let c := mk_cfg false false 50 false false false false 100 100 in
  let src := [mk_sentry [1%N] false 5 1000%Z 7 false; mk_sentry [2%N] false 6 1000%Z 8 false] in
  let dst : fs := fun p => if peqb p [1%N] then Some Dir else None in
  let r := run (fun _ _ _ => false) (fun _ => (0%N, 0%Z)) c 9%Z [[1%N]] [] src dst in
  r_errors r = [([1%N], AUpdate, E_IsDir)] /\ r_fs r [2%N] = Some (File 8 6 1000%Z) /\ exit_status c r = 1%Z.
Proof. vm_compute. repeat split. Qed.
