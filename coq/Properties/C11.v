(* C11 -- Bidirectional sync converges and never silently loses a version.
   The full statement is false of the faithful model (C11_refuted_same_size, known
   finding C11-KF1); what is proved is the statement outside that class. *)
From Coq Require Import NArith ZArith List Bool Lia.
From SyModel Require Import Bisync.
From SyProofs Require Import Bisync_proofs.
Import ListNotations.

Definition conflict_names_outside (U : list N) : Prop :=
  forall p q sd, In p U -> In q U -> cname sd q <> p.

Lemma others_dont_touch U st w p q :
  conflict_names_outside U -> In p U -> (q = p \/ q = cname Source p \/ q = cname Dest p) ->
  forall p' a', In p' U -> p' <> p -> action_of st w p' = Some a' -> ~ touches a' p' p /\ ~ touches a' p' q.
Proof.
  intros Hout Hp Hq p' a' Hp' Hne _. split.
  - intros [E|[_ [E|E]]]; [congruence | apply (Hout p p' Source Hp Hp'); congruence | apply (Hout p p' Dest Hp Hp'); congruence].
  - intros [E|[_ [E|E]]]; destruct Hq as [-> | [-> | ->]]; try congruence;
      try (apply (Hout p' p Source Hp' Hp); congruence); try (apply (Hout p' p Dest Hp' Hp); congruence);
      try (apply (Hout p p' Source Hp Hp'); congruence); try (apply (Hout p p' Dest Hp Hp'); congruence);
      try (apply cname_inj in E; destruct E; congruence).
Qed.

(* Full-strength statement (kept visible): for every pair of sides and every strategy the sides agree after the sync.
   It is refuted by the model: *)
Theorem C11_refuted_same_size :
  exists U st w w', bisync U st 0 1000 w = Some w' /\ (forall p, In p U -> no_rows w p) /\ converged U w' = false.
Proof.
  exists [4%N], Newer,
    (mk_world (fun p => if N.eqb p 4 then Some (mk_fent 3 10 111) else None)
              (fun p => if N.eqb p 4 then Some (mk_fent 3 20 222) else None) (fun _ => None) (fun _ => None)).
  eexists. split; [vm_compute; reflexivity|]. split; [intros p _; split; reflexivity | vm_compute; reflexivity].
Qed.
Print Assumptions C11_refuted_same_size.

(* Outside the known class (no path present on both sides with equal size and different content),
   the first sync of any two trees under any of the six strategies leaves the sides equal on every path
   of the universe (a renamed conflict leaves the path absent on both sides, its two versions under the conflict names). *)
Theorem C11_first_sync_converges : forall U st now w w',
  NoDup U -> conflict_names_outside U ->
  (forall p, In p U -> no_rows w p /\ sizes_tell w p) ->
  bisync U st 0 now w = Some w' ->
  forall p, In p U -> same_content (w_src w' p) (w_dst w' p) = true.
Proof.
  intros U st now w w' Hnd Hout Hhyp Hb p Hp. unfold bisync in Hb. cbn [limit_exceeded N.eqb] in Hb. inversion Hb; subst w'. clear Hb.
  pose proof (fold_at st now w U w p Hnd Hp) as Hat.
  assert (Hat' : at_ (fold_left (sync_step st now w) U w) p = at_ (sync_step st now w w p) p).
  { apply Hat. intros p' a' Hp' Hne Ea. eapply (others_dont_touch U st w p p Hout Hp (or_introl eq_refl)); eassumption. }
  unfold at_ in Hat'. inversion Hat' as [[E1 E2 E3 E4]]. rewrite E1, E2.
  destruct (Hhyp p Hp) as [Hn Hs]. apply first_sync_path; assumption.
Qed.
Print Assumptions C11_first_sync_converges.

(* Every version present before the first sync is present afterwards -- at its path, or under a conflict name --
   unless the path was a conflict (both sides present, different sizes) settled by a strategy other than rename,
   which names the loser explicitly. *)
Theorem C11_first_sync_no_silent_loss : forall U st now w w' p c,
  NoDup U -> conflict_names_outside U -> In p U -> p <> 0%N -> no_rows w p ->
  bisync U st 0 now w = Some w' -> holds w c p ->
  holds w' c p \/ holds w' c (cname Source p) \/ holds w' c (cname Dest p) \/
  (exists s d, w_src w p = Some s /\ w_dst w p = Some d /\ f_size s <> f_size d /\ st <> RenameBoth).
Proof.
  intros U st now w w' p c Hnd Hout Hp Hp0 Hn Hb Hh. unfold bisync in Hb. cbn [limit_exceeded N.eqb] in Hb. inversion Hb; subst w'. clear Hb.
  assert (Hq : forall q, (q = p \/ q = cname Source p \/ q = cname Dest p) ->
               at_ (fold_left (sync_step st now w) U w) q = at_ (sync_step st now w w p) q).
  { intros q Hq. apply (fold_at2 st now w U w p q Hnd Hp). intros p' a' Hp' Hne Ea. eapply others_dont_touch; eassumption. }
  pose proof (first_sync_no_loss st now w p c Hp0 Hn Hh) as Hl. cbv zeta in Hl.
  assert (Hholds : forall q, (q = p \/ q = cname Source p \/ q = cname Dest p) ->
                   holds (sync_step st now w w p) c q -> holds (fold_left (sync_step st now w) U w) c q).
  { intros q Hq' Hh'. specialize (Hq q Hq'). unfold at_ in Hq. inversion Hq as [[E1 E2 E3 E4]]. unfold holds. rewrite E1, E2. exact Hh'. }
  destruct Hl as [Hl|[Hl|[Hl|Hl]]].
  - left. apply Hholds; [left; reflexivity | exact Hl].
  - right. left. apply Hholds; [right; left; reflexivity | exact Hl].
  - right. right. left. apply Hholds; [right; right; reflexivity | exact Hl].
  - right. right. right. exact Hl.
Qed.
Print Assumptions C11_first_sync_no_silent_loss.

(* the six strategies, on a genuine conflict, drop only the side they name *)
Theorem C11_strategy_loser_explicit : forall s d,
  f_size s <> f_size d ->
  resolve_conflict PreferSource (Some s) (Some d) = CopyToDest /\
  resolve_conflict PreferDest (Some s) (Some d) = CopyToSource /\
  resolve_conflict RenameBoth (Some s) (Some d) = RenameConflict /\
  (resolve_conflict Larger (Some s) (Some d) = if N.ltb (f_size d) (f_size s) then CopyToDest else CopyToSource) /\
  (resolve_conflict Smaller (Some s) (Some d) = if N.ltb (f_size s) (f_size d) then CopyToDest else CopyToSource) /\
  (resolve_conflict Newer (Some s) (Some d) =
     if Z.ltb (f_mtime d) (f_mtime s) then CopyToDest else if Z.ltb (f_mtime s) (f_mtime d) then CopyToSource else RenameConflict).
Proof.
  intros s d Hne. repeat split; cbn.
  - destruct (N.ltb (f_size d) (f_size s)); [reflexivity|]. destruct (N.eqb_spec (f_size s) (f_size d)); [contradiction | reflexivity].
  - destruct (N.ltb (f_size s) (f_size d)); [reflexivity|]. destruct (N.eqb_spec (f_size s) (f_size d)); [contradiction | reflexivity].
Qed.
Print Assumptions C11_strategy_loser_explicit.

(* ---- non-vacuity: two non-trivial trees meet the hypotheses; rename then one further sync converges ---- *)
Definition wA : world :=
  mk_world (fun p => if N.eqb p 4 then Some (mk_fent 3 10 111) else if N.eqb p 8 then Some (mk_fent 5 11 333) else None)
           (fun p => if N.eqb p 4 then Some (mk_fent 7 20 222) else if N.eqb p 12 then Some (mk_fent 1 12 444) else None)
           (fun _ => None) (fun _ => None).
Example ex_hyps : NoDup [4;8;12]%N /\ conflict_names_outside [4;8;12]%N /\ (forall p, In p [4;8;12]%N -> no_rows wA p /\ sizes_tell wA p).
Proof.
  split; [repeat constructor; cbn; intuition lia|]. split.
  - intros p q sd Hp Hq. cbn in Hp, Hq. destruct sd; intuition (subst; vm_compute; discriminate).
  - intros p Hp. split; [split; reflexivity|]. intros s d Es Ed Esz. cbn in Hp.
    destruct Hp as [<-|[<-|[<-|[]]]]; vm_compute in Es, Ed; inversion Es; inversion Ed; subst; vm_compute in Esz; discriminate.
Qed.
Example ex_rename_then_converges :
  let U2 := [4; 8; 12; cname Source 4; cname Dest 4]%N in
  match bisync U2 RenameBoth 0 100 wA with
  | Some w1 => converged U2 w1 = false /\
               match bisync U2 RenameBoth 0 200 w1 with
               | Some w2 => converged U2 w2 = true /\ actions_of U2 RenameBoth w2 = []
               | None => False
               end
  | None => False
  end.
Proof. vm_compute. repeat split. Qed.
