(* C11 -- Bidirectional sync converges and never silently loses a version.
   The model follows the repaired code (`fix: bisync compares the bytes of equally long files ...`, `fix: bisync records the
   synchronised state of both sides after every run`).  On the pinned commit equally long files were taken for identical
   and the state database described versions that never were the common one (recorded as fixed in known_findings.json).

   [rows_ok w p]: when the prior state at p has a row for both sides, a side that is not modified with respect to its row
   still holds the recorded common version (no condition on prior states with no row or a row for one side only).  [C12_history_invariant] shows that every
   history of edits and syncs keeps it. *)
From Coq Require Import NArith ZArith List Bool Lia.
From SyModel Require Import Bisync.
From SyProofs Require Import Bisync_proofs.
Import ListNotations.

(* After a bidirectional sync that is not refused, for every strategy and every such prior state, both roots hold the same
   file with the same content at every path of the universe (or the path is absent on both sides; rename conflicts leave the
   two versions under their conflict names, which the next sync copies across), and the database rows are those of the two
   sides' current files *)
Theorem C11_sync_converges : forall U st maxdel t w w' p,
  NoDup U -> conflict_names_outside U -> In p U -> good t w p -> bisync U st maxdel (t + 1) w = Some w' ->
  in_sync w' p /\ rows_fresh w' p.
Proof. intros U st maxdel t w w' p Hnd Hc Hp Hg Hb. destruct (bisync_keeps_good U st maxdel t w w' p Hnd Hc Hp Hg Hb) as (_ & A & B). split; assumption. Qed.
Print Assumptions C11_sync_converges.

(* Every version present before the run still exists afterwards -- as the path's content or as a conflict copy -- unless it
   was the previously synchronised version superseded by a one-sided change (unmodified with respect to its row), or the path
   was a conflict and the selected (non-rename) strategy chose the other side, or -- a prior state with a row for the other
   side only, which says the path was synchronised -- the other side has deleted the file since.
   [rows_ok] admits every prior state: no rows, both rows, or a row for one side only. *)
Theorem C11_source_version_accounted : forall st now w p s,
  rows_ok w p -> w_src w p = Some s ->
  let w' := path_sync st now w p in
  w_src w' p = Some s \/ (exists k, w_src w' (cname_k Source p k) = Some s) \/
  (exists rs, w_dbs w p = Some rs /\ is_modified s rs = false) \/
  (exists c, classify (w_src w p) (w_dst w p) (w_dbs w p) (w_dbd w p) = Some c /\ is_conflict c = true /\ st <> RenameBoth) \/
  (w_dbs w p = None /\ (exists rd, w_dbd w p = Some rd) /\ w_dst w p = None).
Proof. exact source_version_accounted. Qed.
Print Assumptions C11_source_version_accounted.

Theorem C11_dest_version_accounted : forall st now w p d,
  rows_ok w p -> w_dst w p = Some d ->
  let w' := path_sync st now w p in
  w_dst w' p = Some d \/ (exists k, w_dst w' (cname_k Dest p k) = Some d) \/
  (exists rd, w_dbd w p = Some rd /\ is_modified d rd = false) \/
  (exists c, classify (w_src w p) (w_dst w p) (w_dbs w p) (w_dbd w p) = Some c /\ is_conflict c = true /\ st <> RenameBoth) \/
  (w_dbd w p = None /\ (exists rs, w_dbs w p = Some rs) /\ w_src w p = None).
Proof. exact dest_version_accounted. Qed.
Print Assumptions C11_dest_version_accounted.

(* ... and no action at a path destroys a file at ANOTHER path -- in particular a conflict copy made by an earlier run, even
   within the same second: the rename takes the first conflict name that is not in use (`fix: bisync never renames a
   conflicting file onto an existing conflict copy`; premise: one of the four names the model tries is free -- the code's
   search is unbounded).  Before that repair the rename went onto the plain name and silently destroyed what was there. *)
Theorem C11_other_paths_survive : forall now w p a q,
  q <> p -> slot_free (w_src w) (w_dst w) Source p -> slot_free (w_dst w) (w_src w) Dest p ->
  (forall v, w_src w q = Some v -> w_src (exec now w p a) q = Some v) /\
  (forall v, w_dst w q = Some v -> w_dst (exec now w p a) q = Some v).
Proof. exact exec_keeps_other_paths. Qed.
Print Assumptions C11_other_paths_survive.

(* prior states with a row for one side only are covered: [rows_ok] holds of them outright *)
Example ex_partial_rows_ok : forall w p r, w_dbs w p = Some r -> w_dbd w p = None -> rows_ok w p.
Proof. intros w p r A B. unfold rows_ok. rewrite A, B. exact I. Qed.

(* a first sync of two arbitrary trees -- any sizes, contents and time stamps, equal ones included -- starts from a good state *)
Theorem C11_first_sync_is_covered : forall t w p, w_dbs w p = None -> w_dbd w p = None ->
  (forall f, w_src w p = Some f -> (f_mtime f <= t)%Z) -> (forall f, w_dst w p = Some f -> (f_mtime f <= t)%Z) -> good t w p.
Proof. exact rowless_good. Qed.
Print Assumptions C11_first_sync_is_covered.

(* the effect of a whole sync at a path of the universe is the per-path step used above *)
Theorem C11_sync_is_per_path : forall U st maxdel now w w' p,
  NoDup U -> conflict_names_outside U -> In p U -> bisync U st maxdel now w = Some w' ->
  (w_src w' p, w_dst w' p, w_dbs w' p, w_dbd w' p) =
  (w_src (path_sync st now w p) p, w_dst (path_sync st now w p) p, w_dbs (path_sync st now w p) p, w_dbd (path_sync st now w p) p).
Proof. exact bisync_at. Qed.
Print Assumptions C11_sync_is_per_path.

(* equal sizes with different contents, equal mtimes: a conflict, not "already in sync" *)
Example ex_same_size_is_a_conflict :
  classify (Some (mk_fent 5 10 1)) (Some (mk_fent 5 10 2)) None None = Some CreateCreateConflict.
Proof. reflexivity. Qed.

Definition wA : world :=
  mk_world (fun p => if N.eqb p 4 then Some (mk_fent 3 1 7) else if N.eqb p 8 then Some (mk_fent 5 2 1) else None)
           (fun p => if N.eqb p 8 then Some (mk_fent 5 2 2) else if N.eqb p 12 then Some (mk_fent 9 3 5) else None)
           (fun _ => None) (fun _ => None).
Example ex_first_sync : match bisync [4; 8; 12]%N RenameBoth 0 100 wA with
  | Some w' => converged [4; 8; 12]%N w' = true /\ w_src w' 129%N = Some (mk_fent 5 2 1) /\ w_dst w' 130%N = Some (mk_fent 5 2 2)
  | None => False end.
Proof. vm_compute. repeat split. Qed.

(* equal sizes, equal mtimes, different contents, under `newer`: a tie, both kept *)
Example ex_equal_mtimes :
  let w := mk_world (fun p => if N.eqb p 4 then Some (mk_fent 5 10 1) else None) (fun p => if N.eqb p 4 then Some (mk_fent 5 10 2) else None)
                    (fun _ => None) (fun _ => None) in
  match bisync [4]%N Newer 0 100 w with
  | Some w' => w_src w' 65%N = Some (mk_fent 5 10 1) /\ w_dst w' 66%N = Some (mk_fent 5 10 2) /\ w_src w' 4%N = None /\ w_dst w' 4%N = None
  | None => False end.
Proof. vm_compute. repeat split. Qed.

(* two rename conflicts on one path: the second takes the next name, the first conflict copies stay (they used to be overwritten
   when both fell into one second) *)
Example ex_second_conflict_keeps_first_copies :
  let h := [Edit Source 4 (Create 3 7); Edit Dest 4 (Create 3 9); Sync RenameBoth 0;
            Edit Source 4 (Create 3 11); Edit Dest 4 (Create 3 13); Sync RenameBoth 0] in
  let w := snd (run_history [4]%N h) in
  option_map f_content (w_src w 65%N) = Some 7%N /\ option_map f_content (w_dst w 66%N) = Some 9%N /\
  option_map f_content (w_src w 69%N) = Some 11%N /\ option_map f_content (w_dst w 70%N) = Some 13%N.
Proof. vm_compute. repeat split. Qed.

(* ---------- files that an ignore rule hides on one side ---------- *)
(* "Every file version present before the run still exists afterwards": a file that the scan of one side does not list although it
   is there (.ignore, .gitignore) is left alone on BOTH sides by the whole run, under every strategy -- it is not "deleted" on the
   other side, not overwritten, not thrown away in a conflict (`fix: bisync leaves a file alone that an ignore rule hides on one
   side`); and without ignore rules the run is the one of the theorems above. *)
Theorem C11_hidden_files_left_alone : forall U st now hs hd w p,
  hidden_somewhere hs hd w p = true -> (forall q, In q U -> ~ is_cname q p) ->
  at_ (sync_files_h U st now hs hd w) p = at_ w p.
Proof. exact hidden_left_alone. Qed.
Print Assumptions C11_hidden_files_left_alone.

Theorem C11_no_ignore_rules_is_the_plain_run : forall U st now w,
  sync_files_h U st now (fun _ => false) (fun _ => false) w = fold_left (sync_step st now w) U w.
Proof. exact sync_files_h_no_rules. Qed.
Print Assumptions C11_no_ignore_rules_is_the_plain_run.

(* non-vacuity: path 4 synchronised, then edited on both sides and hidden on the source side; path 8 only on the destination and
   hidden on the source side where another file of that name sits.  Under `dest` (which would overwrite the source) both stay. *)
Example ex_hidden :
  let w := mk_world (fun p => if N.eqb p 4 then Some (mk_fent 3 7 1) else if N.eqb p 8 then Some (mk_fent 2 1 5) else None)
                    (fun p => if N.eqb p 4 then Some (mk_fent 6 8 2) else if N.eqb p 8 then Some (mk_fent 9 1 6) else None)
                    (fun p => if N.eqb p 4 then Some (mk_srec 1 3) else None) (fun p => if N.eqb p 4 then Some (mk_srec 1 3) else None) in
  let hs := fun p => N.eqb p 4 || N.eqb p 8 in
  let w' := sync_files_h [4; 8]%N PreferDest 100 hs (fun _ => false) w in
  (w_src w' 4, w_dst w' 4, w_src w' 8, w_dst w' 8)%N = (w_src w 4, w_dst w 4, w_src w 8, w_dst w 8)%N
  /\ w_src (fold_left (sync_step PreferDest 100 w) [4; 8]%N w) 4%N = Some (mk_fent 6 100 2).
Proof. vm_compute. split; reflexivity. Qed.
