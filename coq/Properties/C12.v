(* C12 -- Bidirectional sync is a correct three-way merge across any history.
   The model follows the repaired state recording (see C11.v). *)
From Coq Require Import NArith ZArith List Bool Lia.
From SyModel Require Import Bisync.
From SyProofs Require Import Bisync_proofs.
Import ListNotations.

(* Across ANY sequence of edits (create / overwrite with any size and content, delete, touch, on either side, on any path) and
   syncs (any strategy, any deletion limit, refused or not) the database stays truthful at every path of the universe: a side that is unmodified with respect to its row still holds the recorded common version.  Times are a logical
   clock: every edit and every sync is later than everything before it. *)
Theorem C12_history_invariant : forall U, NoDup U -> conflict_names_outside U -> forall h p, In p U ->
  good (fst (run_history U h)) (snd (run_history U h)) p.
Proof. exact history_good. Qed.
Print Assumptions C12_history_invariant.

(* ... and never leave a row for one side only *)
Theorem C12_rows_come_in_pairs : forall U, NoDup U -> conflict_names_outside U -> forall h p, In p U ->
  paired (snd (run_history U h)) p.
Proof. exact history_paired. Qed.
Print Assumptions C12_rows_come_in_pairs.

(* the invariant survives the loss of rows (a database written by an interrupted run or by an earlier version of sy, which
   recorded one side per action); excluded are only files written with a time stamp of the writer's choosing, which can make
   an edited file look like the recorded one *)
Theorem C12_history_invariant_with_row_loss : forall U, NoDup U -> conflict_names_outside U ->
  forall h, (forall x, In x h -> no_backdated_write x) ->
  forall p, In p U -> good (fst (run_xhistory U h)) (snd (run_xhistory U h)) p.
Proof. exact xhistory_good. Qed.
Print Assumptions C12_history_invariant_with_row_loss.

(* A change made on exactly one side since the last sync -- the other side still is the recorded version -- is propagated to
   the other side whatever the conflict strategy: an edit is not reverted, a deleted file is not resurrected *)
Theorem C12_source_change_propagates : forall st now w p, changed_on_source_only w p ->
  w_src (path_sync st now w p) p = w_src w p /\ same_content (w_dst (path_sync st now w p) p) (w_src w p) = true.
Proof. exact source_change_propagates. Qed.
Print Assumptions C12_source_change_propagates.

Theorem C12_dest_change_propagates : forall st now w p, changed_on_dest_only w p ->
  w_dst (path_sync st now w p) p = w_dst w p /\ same_content (w_src (path_sync st now w p) p) (w_dst w p) = true.
Proof. exact dest_change_propagates. Qed.
Print Assumptions C12_dest_change_propagates.

(* ... spelled out over whole syncs: sync, then ANY edit on the source side of p (create, overwrite, delete, touch), then a sync
   with any strategy: afterwards both sides hold what the source held *)
Theorem C12_edit_after_sync_propagates : forall U st1 m1 st2 m2 t w w1 w3 p e,
  NoDup U -> conflict_names_outside U -> In p U -> good t w p ->
  bisync U st1 m1 (t + 1) w = Some w1 ->
  let w2 := mk_world (apply_edit (t + 2) (w_src w1) p e) (w_dst w1) (w_dbs w1) (w_dbd w1) in
  (w_src w1 p = None -> e <> Touch /\ e <> Delete) ->
  bisync U st2 m2 (t + 3) w2 = Some w3 ->
  w_src w3 p = w_src w2 p /\ same_content (w_dst w3 p) (w_src w2 p) = true.
Proof. exact edit_after_sync_propagates. Qed.
Print Assumptions C12_edit_after_sync_propagates.

(* Only paths changed on BOTH sides are treated as conflicts *)
Theorem C12_conflict_needs_both_sides : forall s d rs rd c,
  classify s d (Some rs) (Some rd) = Some c -> is_conflict c = true ->
  (match s with Some x => is_modified x rs = true | None => True end) /\
  (match d with Some y => is_modified y rd = true | None => True end) /\ (s <> None \/ d <> None).
Proof. exact conflict_needs_both_sides. Qed.
Print Assumptions C12_conflict_needs_both_sides.

(* A sync with no intervening change performs no action, whatever the strategy *)
Theorem C12_idle_is_noop : forall U st maxdel st2 t w w' p,
  NoDup U -> conflict_names_outside U -> In p U -> good t w p -> bisync U st maxdel (t + 1) w = Some w' ->
  action_of st2 w' p = None.
Proof.
  intros U st maxdel st2 t w w' p Hnd Hc Hp Hg Hb. destruct (bisync_keeps_good U st maxdel t w w' p Hnd Hc Hp Hg Hb) as (_ & Hf & _).
  apply fresh_no_action. exact Hf.
Qed.
Print Assumptions C12_idle_is_noop.

(* non-vacuity: the two histories that went wrong on the pinned commit *)
Example ex_deleted_file_is_not_resurrected :
  let h := [Edit Source 4 (Create 3 7); Sync Newer 0; Edit Source 4 Delete; Sync PreferDest 0] in
  let w := snd (run_history [4]%N h) in w_src w 4%N = None /\ w_dst w 4%N = None.
Proof. vm_compute. split; reflexivity. Qed.
Example ex_one_sided_edit_is_not_reverted :
  let h := [Edit Source 4 (Create 3 7); Sync Newer 0; Edit Dest 4 (Create 3 9); Sync PreferSource 0] in
  let w := snd (run_history [4]%N h) in
  match w_src w 4%N, w_dst w 4%N with Some a, Some b => f_content a = 9%N /\ f_content b = 9%N | _, _ => False end.
Proof. vm_compute. split; reflexivity. Qed.

(* Known finding C12-KF4: no checksum of the common version is kept, so a touch -- or a rewrite with the same bytes -- is a
   modification for the classifier; with a real edit on the other side the path is a conflict and `source` keeps the touched,
   content-wise unchanged, version: the other side's edit is discarded *)
Theorem C12_touch_is_a_modification :
  let h := [Edit Source 4 (Create 3 7); Sync PreferSource 0; Edit Source 4 Touch; Edit Dest 4 (Create 3 9); Sync PreferSource 0] in
  let w := snd (run_history [4]%N h) in
  match w_src w 4%N, w_dst w 4%N with Some a, Some b => f_content a = 7%N /\ f_content b = 7%N | _, _ => False end.
Proof. vm_compute. split; reflexivity. Qed.
Print Assumptions C12_touch_is_a_modification.
