(* C12 -- Bidirectional sync is a correct three-way merge across any history.
   The full statement is false of the faithful model: C12_resurrects and C12_reverts_edit are
   witnesses of length 4 (known findings C12-KF1, C12-KF2).  Proved: the idle sync is a no-op, and a
   deletion on the side that received the copy propagates. *)
From Coq Require Import NArith ZArith List Bool Lia.
From SyModel Require Import Bisync.
From SyProofs Require Import Bisync_proofs.
From SyProps Require Import C11.
Import ListNotations.

Lemma action_of_at st w1 w2 p : at_ w1 p = at_ w2 p -> action_of st w1 p = action_of st w2 p.
Proof. unfold at_, action_of. intro E. inversion E as [[E1 E2 E3 E4]]. rewrite E1, E2, E3, E4. reflexivity. Qed.

(* a deleted file is resurrected: create on the left, sync, delete on the left, sync *)
Theorem C12_resurrects :
  exists h, h = [Edit Source 4 (Create 3 111); Sync Newer 0; Edit Source 4 Delete; Sync Newer 0] /\
            w_src (snd (run_history [4%N] h)) 4%N <> None.
Proof. eexists. split; [reflexivity|]. vm_compute. discriminate. Qed.
Print Assumptions C12_resurrects.

(* a one-sided edit is reverted under --conflict-resolve source *)
Theorem C12_reverts_edit :
  exists h, h = [Edit Source 4 (Create 3 111); Sync Newer 0; Edit Dest 4 (Create 5 222); Sync PreferSource 0] /\
            option_map f_content (w_dst (snd (run_history [4%N] h)) 4%N) = Some 111%N.
Proof. eexists. split; [reflexivity|]. vm_compute. reflexivity. Qed.
Print Assumptions C12_reverts_edit.

(* "a sync with no intervening change performs no action": for every pair of trees, every strategy pair,
   the sync that follows a first sync plans nothing on every path that was not renamed as a conflict *)
Theorem C12_idle_is_noop : forall U st st2 now w w',
  NoDup U -> conflict_names_outside U -> (forall p, In p U -> no_rows w p) ->
  bisync U st 0 now w = Some w' ->
  forall p, In p U -> action_of st w p <> Some RenameConflict -> action_of st2 w' p = None.
Proof.
  intros U st st2 now w w' Hnd Hout Hhyp Hb p Hp Hnr. unfold bisync in Hb. cbn [limit_exceeded N.eqb] in Hb. inversion Hb; subst w'. clear Hb.
  assert (Hat : at_ (fold_left (sync_step st now w) U w) p = at_ (sync_step st now w w p) p).
  { apply (fold_at st now w U w p Hnd Hp). intros p' a' Hp' Hne Ea. eapply (others_dont_touch U st w p p Hout Hp (or_introl eq_refl)); eassumption. }
  rewrite (action_of_at st2 _ _ p Hat). apply idle_after_first_sync_path; [apply Hhyp; exact Hp | exact Hnr].
Qed.
Print Assumptions C12_idle_is_noop.

(* a deletion made on the side that received the copy is propagated (not resurrected), whatever the strategy *)
Theorem C12_delete_on_receiving_side_propagates : forall st now s r,
  let w1 := mk_world (fun p => if N.eqb p 4 then Some s else None) (fun _ => None) (fun _ => None)
                     (fun p => if N.eqb p 4 then Some r else None) in
  action_of st w1 4%N = Some DeleteFromSource /\
  w_src (exec now w1 4%N DeleteFromSource) 4%N = None.
Proof. intros st now s r. split; [destruct st; reflexivity | reflexivity]. Qed.
Print Assumptions C12_delete_on_receiving_side_propagates.

(* non-vacuity of C12_idle_is_noop: a mixed tree *)
Example ex_idle : match bisync [4;8;12]%N Larger 0 100 wA with
                  | Some w1 => actions_of [4;8;12]%N Smaller w1 = [] /\ actions_of [4;8;12]%N Larger wA <> []
                  | None => False end.
Proof. vm_compute. split; [reflexivity | discriminate]. Qed.
