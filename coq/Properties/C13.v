(* C13 -- Hard-link structure is preserved and link coordination always terminates.
   The model follows the repaired code (`fix: hard-link waiters register for the completion notice before re-checking
   the inode state`, `fix: a failed first copy of a hard-link group releases the inode instead of leaving it in
   progress`).  On the pinned commit two deadlocks existed -- a failed first copy left the inode InProgress for ever,
   and a completion landing between a waiter's read of the map and the creation of its Notified future was missed
   (recorded as fixed in known_findings.json; the second one made the repository's own
   test_hard_link_update_both_files_same_content hang now and then).

   Proved for link groups of up to 3 concurrent workers, for EVERY schedule of any length, WITH failing operations at
   every fallible point and WITH preemption between reading the map and registering for the wake-up (multi-thread
   runtime): finite reachable sets enumerated by the kernel, lifted to all schedules by a closure lemma. *)
From Coq Require Import List Bool Arith Lia.
From SyModel Require Import Hardlink.
From SyProofs Require Import Hardlink_proofs.
Import ListNotations.

(* never stuck: in every reachable state either all workers have returned or some worker can move *)
Theorem C13_no_deadlock_bounded : forall n sched,
  In n [1; 2; 3] -> deadlocked false (run_sched false (init n) sched) = false.
Proof. exact no_deadlock_bounded. Qed.
Print Assumptions C13_no_deadlock_bounded.

(* whenever all workers have returned: the worker recorded as owner copied the file, every other successful worker
   hard-linked to the owner's destination (one inode), failed workers created nothing, and if no copy succeeded nobody
   reports success *)
Theorem C13_structure_bounded : forall n sched,
  In n [1; 2; 3] -> structure_ok (run_sched false (init n) sched) = true.
Proof. exact structure_bounded. Qed.
Print Assumptions C13_structure_bounded.

(* the two schedules that dead-locked the pinned code now run to completion *)
Example ex_owner_failure_recovers :
  let s := run_sched false (init 2) [(0,false);(0,false);(1,false);(1,false);(1,false);(1,false);(0,true);(0,false);(0,false);
                                     (1,false);(1,false);(1,false);(1,false);(1,false);(1,false)] in
  all_terminal s = true /\ s_pcs s = [PErr; POkOwner].
Proof. vm_compute. split; reflexivity. Qed.

Example ex_gap_is_harmless :
  let s := run_sched false (init 2) [(0,false);(0,false);(1,false);(0,false);(0,false);(0,false);(1,false);(1,false);(1,false);(1,false)] in
  all_terminal s = true /\ s_pcs s = [POkOwner; POkLinked 0].
Proof. vm_compute. split; reflexivity. Qed.
