(* C13 -- Hard-link structure is preserved and link coordination always terminates.
   The model follows the repaired code (`fix: hard-link waiters register for the completion notice before re-checking
   the inode state`, `fix: a failed first copy of a hard-link group releases the inode instead of leaving it in
   progress`).  On the pinned commit two deadlocks existed -- a failed first copy left the inode InProgress for ever,
   and a completion landing between a waiter's read of the map and the creation of its Notified future was missed
   (recorded as fixed in known_findings.json; the second one made the repository's own
   test_hard_link_update_both_files_same_content hang now and then).

   Proved for link groups of ANY number of concurrent workers, for EVERY schedule of any length, WITH failing operations
   at every fallible point, with and without preemption between reading the map and registering for the wake-up
   (multi-thread / single-thread runtime): an inductive invariant of the reachable states (Proofs/Hardlink_unbounded.v)
   gives deadlock-freedom and the link structure; a measure that every step decreases gives termination with an explicit
   bound.  The earlier bounded statements (reachable sets of up to 3 workers enumerated by the kernel) are kept as an
   independent cross-check of the model. *)
From Coq Require Import List Bool Arith NArith Lia.
From SyModel Require Import Hardlink Inodes.
From SyProofs Require Import Hardlink_proofs Hardlink_unbounded Inodes_proofs.
Import ListNotations.

(* never stuck: in every reachable state either all workers have returned or some worker can move -- any number of workers *)
Theorem C13_no_deadlock : forall fused n sched, deadlocked fused true (run_sched fused true (init n) sched) = false.
Proof. exact no_deadlock_any. Qed.
Print Assumptions C13_no_deadlock.

(* whenever all workers have returned: the worker recorded as owner copied the file, every other successful worker
   hard-linked to the owner's destination (one inode), failed workers created nothing, and if no copy succeeded nobody
   reports success -- any number of workers *)
Theorem C13_structure : forall fused n sched, structure_ok (run_sched fused true (init n) sched) = true.
Proof. exact structure_any. Qed.
Print Assumptions C13_structure.

(* the coordination terminates: whatever the schedule -- a worker that cannot move is simply not scheduled -- a group of n
   workers takes at most 15 n^2 + 4 n steps altogether (every step decreases a measure); with C13_no_deadlock: every
   maximal run is finite and ends with all workers returned *)
Theorem C13_terminates : forall fused n sched, steps_taken fused true (init n) sched <= 15 * n * n + 4 * n.
Proof. exact steps_bounded_init. Qed.
Print Assumptions C13_terminates.

Theorem C13_every_step_decreases : forall fused s i f s', step fused true s i f = Some s' -> measure s' < measure s.
Proof. exact step_decreases. Qed.
Print Assumptions C13_every_step_decreases.

(* the invariant itself, for the record: one owner at a time and only while the inode is in progress; a waiter that has not
   been woken still has somebody who will wake it; links only to the recorded owner *)
Theorem C13_invariant : forall fused n sched, Inv (run_sched fused true (init n) sched).
Proof. exact reachable_inv. Qed.
Print Assumptions C13_invariant.

(* cross-check by enumeration for up to 3 workers *)
Theorem C13_no_deadlock_bounded : forall n sched,
  In n [1; 2; 3] -> deadlocked false true (run_sched false true (init n) sched) = false.
Proof. exact no_deadlock_bounded. Qed.
Print Assumptions C13_no_deadlock_bounded.

(* whenever all workers have returned: the worker recorded as owner copied the file, every other successful worker
   hard-linked to the owner's destination (one inode), failed workers created nothing, and if no copy succeeded nobody
   reports success *)
Theorem C13_structure_bounded : forall n sched,
  In n [1; 2; 3] -> structure_ok (run_sched false true (init n) sched) = true.
Proof. exact structure_bounded. Qed.
Print Assumptions C13_structure_bounded.

(* Before the third repair a waiter that registered with a notice that had ALREADY fired -- its owner failed and gave the
   inode up while the waiter sat between reading the map and registering -- still went to sleep when another worker had
   claimed the inode meanwhile, and nobody would ever wake it (`fix: a hard-link waiter only waits on the notice of the copy
   that is in progress now`, recorded as fixed in known_findings.json): worker 0 claims and fails, worker 1 reads the map in
   between, worker 2 claims; 1 registers late, sees "in progress", waits for notice 0 for ever *)
Definition stale_notice_schedule : list (nat * bool) :=
  [(0,false);(0,false);(1,false);(0,true);(0,false);(0,false);(2,false);(2,false);(1,false);(1,false);(2,false);(2,false);(2,false)].
Theorem C13_stale_notice_refuted :
  let s := run_sched false false (init 3) stale_notice_schedule in
  deadlocked false false s = true /\ s_pcs s = [PErrOwner; PWait 0 true; POkOwner].
Proof. vm_compute. split; reflexivity. Qed.
Example ex_stale_notice_now_completes :
  let s := run_sched false true (init 3) (stale_notice_schedule ++ [(1,false);(1,false);(1,false);(1,false)]) in
  all_terminal s = true /\ s_pcs s = [PErrOwner; POkLinked 2; POkOwner].
Proof. vm_compute. split; reflexivity. Qed.

(* the two schedules that dead-locked the pinned code run to completion *)
Example ex_owner_failure_recovers :
  let s := run_sched false true (init 2) [(0,false);(0,false);(1,false);(1,false);(1,false);(1,false);(0,true);(0,false);(0,false);
                                     (1,false);(1,false);(1,false);(1,false);(1,false);(1,false)] in
  all_terminal s = true /\ s_pcs s = [PErrOwner; POkOwner].
Proof. vm_compute. split; reflexivity. Qed.

Example ex_gap_is_harmless :
  let s := run_sched false true (init 2) [(0,false);(0,false);(1,false);(0,false);(0,false);(0,false);(1,false);(1,false);(1,false);(1,false)] in
  all_terminal s = true /\ s_pcs s = [POkOwner; POkLinked 0].
Proof. vm_compute. split; reflexivity. Qed.

Example ex_five_workers_with_failures :
  let sched := flat_map (fun k => [(k mod 5, Nat.eqb (k mod 7) 3)]) (seq 0 400) in
  let s := run_sched false true (init 5) sched in
  all_terminal s = true /\ structure_ok s = true /\ steps_taken false true (init 5) sched <= 15 * 5 * 5 + 4 * 5.
Proof. vm_compute. repeat split. repeat constructor. Qed.

(* ---------- updates and shared inodes (Model/Inodes.v) ---------- *)
(* "each group's content equals the source ... after later updates": any sequence of updates of distinct names leaves every updated
   name with its own source's content and every other name of the destination -- a former hard link whose source is a file of
   its own now, a snapshot made with cp -al -- with the content it had: a file that has further links is replaced through a
   working file, never rewritten in place (`fix: a destination file that has further hard links is replaced ...`; before it two
   such files overwrote each other on alternate runs: in_place_refuted) *)
Theorem C13_updates_do_not_leak : forall U, NoDup U -> forall l s,
  wf U s -> NoDup (map fst l) -> (forall pc, In pc l -> In (fst pc) U) ->
  let s' := updates true U s l in
  (forall p c, In (p, c) l -> content_of s' p = Some c) /\ (forall q, ~ In q (map fst l) -> content_of s' q = content_of s q).
Proof. exact updates_correct. Qed.
Print Assumptions C13_updates_do_not_leak.

(* ---------- names that were already in the destination (Model/Inodes.v relink_group) ---------- *)
(* "two destination files share an inode exactly when their source files do ... after creation and after later updates":
   -H links names while they are CREATED; names that already exist (a name added to an old group, files that became links of
   each other, a group whose members were each rebuilt through a working file) are brought together by the pass that runs after
   the transfers (`fix: -H brings names that already exist in the destination onto their group's inode`).  For the destination
   names of one multiply-linked source file, in any order and from any state: afterwards two names that hold the same file share
   an inode; no name of the destination changed content; names outside the group kept their inode. *)
Theorem C13_relink_joins_the_group : forall names s,
  NoDup names ->
  let s' := relink_group s [] names in
  (forall p q i j, In p names -> In q names -> d_names s' p = Some i -> d_names s' q = Some j ->
                   content_of s' p = content_of s' q -> i = j)
  /\ (forall p, content_of s' p = content_of s p)
  /\ (forall p, ~ In p names -> d_names s' p = d_names s p).
Proof. exact relink_group_correct. Qed.
Print Assumptions C13_relink_joins_the_group.

(* the link structure after a run: once the transfers have left the source file's bytes [c] under every name of the group that is
   there (C01 / C13_updates_do_not_leak), the pass puts all of them on ONE inode -- whatever inodes they had before *)
Theorem C13_group_ends_on_one_inode : forall names s c,
  NoDup names -> (forall p i, In p names -> d_names s p = Some i -> d_store s i = c) ->
  let s' := relink_group s [] names in
  forall p q i j, In p names -> In q names -> d_names s' p = Some i -> d_names s' q = Some j -> i = j.
Proof. exact relink_group_one_inode. Qed.
Print Assumptions C13_group_ends_on_one_inode.

(* ... and a name of the group is only ever pointed at an inode that a name of the same group had before: the pass creates no
   link between two groups, nor between a group and a file outside it *)
Theorem C13_relink_stays_inside_the_group : forall names s q i,
  d_names (relink_group s [] names) q = Some i ->
  d_names s q = Some i \/ exists r, In r names /\ d_names s r = Some i.
Proof.
  intros names s q i H. destruct (relink_group_stays_inside names s [] q i H) as [A|[[]|B]]; [left; exact A | right; exact B].
Qed.
Print Assumptions C13_relink_stays_inside_the_group.

(* non-vacuity: names 1 2 3 on three inodes with the same content (a group after an update of its 10 MB members), name 4 of the
   group with stale content (its transfer failed), name 9 outside the group on name 1's old inode *)
Example ex_relink :
  let s := mk_dstate (fun p => if N.eqb p 1 then Some 10 else if N.eqb p 2 then Some 11 else if N.eqb p 3 then Some 12
                               else if N.eqb p 4 then Some 13 else if N.eqb p 9 then Some 12 else None)%N
                     (fun i => if N.eqb i 13 then 7 else 5)%N 14%N in
  let s' := relink_group s [] [1; 2; 3; 4]%N in
  (d_names s' 1, d_names s' 2, d_names s' 3, d_names s' 4, d_names s' 9)%N = (Some 10, Some 10, Some 10, Some 13, Some 12)%N.
Proof. vm_compute. reflexivity. Qed.

(* the other direction (`separate_foreign_links`): a name that shares its inode with names of another source group gets a copy of
   its own.  No name changes content; the separated name ends on an inode that no other name has; every other name keeps its inode *)
Theorem C13_separation_keeps_contents : forall U s q, wf U s -> forall p, content_of (separate s q) p = content_of s p.
Proof. exact separate_contents. Qed.
Print Assumptions C13_separation_keeps_contents.

Theorem C13_separated_name_is_alone : forall U s q c, wf U s -> content_of s q = Some c ->
  d_names (separate s q) q = Some (d_next s) /\
  (forall p, p <> q -> d_names (separate s q) p = d_names s p /\ d_names (separate s q) p <> Some (d_next s)).
Proof. exact separate_alone. Qed.
Print Assumptions C13_separated_name_is_alone.
