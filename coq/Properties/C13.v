(* C13 -- Hard-link structure is preserved and link coordination always terminates.
   The full termination statement is false of the faithful model: two deadlock witnesses
   (owner failure = known finding C13-KF1; lost wake-up in the read/register gap = C13-KF2).
   Proved: without faults and without the gap, no reachable state of up to 4 workers is stuck and every
   finished run has the right link structure (finite state spaces enumerated by the kernel and lifted to
   every schedule by a closure argument). *)
From Coq Require Import List Bool Arith Lia.
From SyModel Require Import Hardlink.
From SyProofs Require Import Hardlink_proofs.
Import ListNotations.

(* a failed first copy of a link group leaves InProgress behind: the other worker waits forever *)
Theorem C13_owner_failure_deadlock :
  exists sched, deadlocked true (run_sched true (init 2) sched) = true /\
                nth_error (s_pcs (run_sched true (init 2) sched)) 0 = Some PErr.
Proof. exists [(0, false); (0, false); (1, false); (0, true)]. vm_compute. split; reflexivity. Qed.
Print Assumptions C13_owner_failure_deadlock.

(* no fault at all: the waiter read InProgress, the owner completed and notified, then the waiter
   created its Notified future -- nobody will ever wake it *)
Theorem C13_lost_wakeup_deadlock :
  exists sched, no_faults sched /\ deadlocked false (run_sched false (init 2) sched) = true.
Proof.
  exists [(0, false); (0, false); (1, false); (0, false); (0, false); (0, false); (1, false)].
  split; [repeat constructor | vm_compute; reflexivity].
Qed.
Print Assumptions C13_lost_wakeup_deadlock.

(* every schedule (any length, any interleaving) of up to 4 workers of one link group, no failing operation,
   no preemption between reading the map and registering for the wake-up: never stuck *)
Theorem C13_no_deadlock_without_faults_bounded : forall n sched,
  In n [1; 2; 3; 4] -> no_faults sched -> deadlocked true (run_sched true (init n) sched) = false.
Proof. exact no_deadlock_bounded. Qed.
Print Assumptions C13_no_deadlock_without_faults_bounded.

(* ... and whenever all workers have returned, exactly the claimer copied the file and every other worker
   hard-linked to the claimer's destination: the destination files share one inode *)
Theorem C13_structure_bounded : forall n sched,
  In n [1; 2; 3; 4] -> no_faults sched -> structure_ok (run_sched true (init n) sched) = true.
Proof. exact structure_bounded. Qed.
Print Assumptions C13_structure_bounded.

(* non-vacuity: a complete run of three workers *)
Example ex_three : let s := run_sched true (init 3) [(1,false);(1,false);(0,false);(2,false);(1,false);(1,false);(1,false);(0,false);(0,false);(0,false);(2,false);(2,false);(2,false)] in
  all_terminal s = true /\ s_pcs s = [POkLinked 1; POkOwner; POkLinked 1].
Proof. vm_compute. split; reflexivity. Qed.
