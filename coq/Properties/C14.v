(* C14 -- Compression and remote-helper wire formats are byte-transparent.
   zstd / lz4 themselves are external libraries: the codec law decompress (compress x) = x is a hypothesis
   here (exercised on generated payloads by the check, not proved). *)
From Coq Require Import ZArith List Bool Lia.
From SyGen Require Import SrcConstants.
From SyModel Require Import Delta Wire Sparse.
From SyProofs Require Import Sparse_proofs.
Import ListNotations.
Open Scope Z_scope.

(* the sender never selects LZ4 -- the helper only recognises the zstd magic, so this is what keeps
   the two sites consistent *)
Theorem C14_decision_never_lz4 : forall is_local mode size ext s,
  should_compress_smart is_local mode size ext s <> CLz4.
Proof.
  intros is_local mode size ext s. unfold should_compress_smart.
  destruct is_local; [discriminate|]. destruct mode; try discriminate;
    destruct (size <? SMALL_FILE_LIMIT); try discriminate; destruct ext; try discriminate; destruct s; discriminate.
Qed.
Print Assumptions C14_decision_never_lz4.

(* whatever the compression decision (size, extension, content sample, override), the helper / SFTP
   pipeline delivers exactly the original bytes -- including empty x, incompressible x and x that itself
   begins with the zstd magic (it is then compressed again, or sent by SFTP) -- relative to the zstd laws *)
Theorem C14_pipeline_transparent_partial :
  forall (zc lc : list Z -> list Z) (zd : list Z -> option (list Z)),
  (forall x, zd (zc x) = Some x) -> (forall x, sniff_receive_file (zc x) = true) ->
  forall is_local mode size ext s x,
    deliver zd (send zc lc (should_compress_smart is_local mode size ext s) x) = Some x.
Proof.
  intros zc lc zd Hz Hm is_local mode size ext s x.
  pose proof (C14_decision_never_lz4 is_local mode size ext s) as Hn.
  destruct (should_compress_smart is_local mode size ext s); [reflexivity | congruence|].
  cbn [send deliver]. unfold helper_receive_file. rewrite Hm. apply Hz.
Qed.
Print Assumptions C14_pipeline_transparent_partial.

(* the helper used directly with a raw payload: bytes that do not begin with the magic are written as they are *)
Theorem C14_helper_raw_ok : forall zd p, sniff_receive_file p = false -> helper_receive_file zd p = Some p.
Proof. intros zd p H. unfold helper_receive_file. rewrite H. reflexivity. Qed.
Print Assumptions C14_helper_raw_ok.

(* ... while a raw payload that begins with the magic is handed to the decompressor (observation on the
   helper's interface: it cannot tell raw from compressed; sy itself never sends such a payload raw) *)
Theorem C14_helper_raw_magic : forall zd p, sniff_receive_file p = true -> helper_receive_file zd p = zd p.
Proof. intros zd p H. unfold helper_receive_file. rewrite H. reflexivity. Qed.
Print Assumptions C14_helper_raw_magic.

(* sparse transfers: for every layout of holes and data (all hole, leading/trailing hole, many small regions,
   unaligned boundaries) the file rebuilt from the detected regions and the packed data equals the source,
   given that holes read as zeros *)
Theorem C14_sparse_roundtrip : forall ext f,
  matches ext f -> receive_sparse (length f) (detect ext) (pack f (detect ext)) = Some f.
Proof. exact sparse_roundtrip. Qed.
Print Assumptions C14_sparse_roundtrip.

Theorem C14_sparse_short_stream_rejected : forall total o l rs stream,
  (length stream < l)%nat -> receive_sparse total ((o, l) :: rs) stream = None.
Proof. exact short_stream_rejected. Qed.
Print Assumptions C14_sparse_short_stream_rejected.

(* ---- non-vacuity ---- *)
Example ex_sparse : let ext := [(false, 3%nat); (true, 2%nat); (false, 1%nat); (true, 1%nat); (false, 2%nat)] in
  let f := [0;0;0;7;8;0;9;0;0] in
  matches ext f /\ detect ext = [(3%nat, 2%nat); (6%nat, 1%nat)] /\ pack f (detect ext) = [7;8;9] /\
  receive_sparse 9 (detect ext) [7;8;9] = Some f.
Proof. cbn. repeat split; try reflexivity; try discriminate; intros; repeat constructor. Qed.
Example ex_decisions :
  should_compress_smart false DAuto 2000000 false SCompressible = CZstd /\
  should_compress_smart false DAuto 2000000 false SIncompressible = CNone /\
  should_compress_smart false DAuto 1000 false SCompressible = CNone /\
  should_compress_smart false DAlways 10 true SIncompressible = CZstd /\
  should_compress_smart true DAlways 2000000 false SCompressible = CNone.
Proof. vm_compute. repeat split. Qed.
Example ex_magic_prefixed_payload : sniff_receive_file [40; 181; 47; 253; 1; 2] = true /\ sniff_receive_file [40; 181; 47] = false.
Proof. vm_compute. split; reflexivity. Qed.
