(* C15 -- Verify-only reports exactly the differences and is read-only.
   The model follows the repaired code (`fix: --verify-only compares file contents in every verification mode`,
   `fix: --verify-only reports a file/directory type conflict instead of missing it`); on the pinned commit --mode fast
   never compared content and a source directory vs a destination file of the same name was not reported (recorded as
   fixed in known_findings.json). *)
From Coq Require Import NArith ZArith List Bool Lia.
From SyModel Require Import Engine Verify.
From SyProofs Require Import Verify_proofs.
From SyGen Require Import StateGuards.
From SyProofs Require Import StateGuards_proofs.
Import ListNotations.

(* every verification mode, any pair of trees (type conflicts included): exit 0 iff both trees hold the same files with
   identical contents *)
Theorem C15_exit0_iff_same : forall m src dst,
  trees_wf src dst -> (verify_exit (verify m None None src dst) = 0%Z <-> same_files src dst).
Proof. exact verify_exit0_iff. Qed.
Print Assumptions C15_exit0_iff_same.

(* the lists of source-only, destination-only and mismatched paths are exactly the true sets, in every mode *)
Theorem C15_lists_exact : forall m mn mx src dst p,
  (In p (vr_only_src (verify m mn mx src dst)) <->
     exists e, In e src /\ v_path e = p /\ v_is_dir e = false /\ size_filtered mn mx (v_size e) = false /\ lookup dst p = None) /\
  (In p (vr_only_dst (verify m mn mx src dst)) <->
     exists d, In d dst /\ v_path d = p /\ v_is_dir d = false /\ forall e, In e src -> v_path e = p -> v_is_dir e = true) /\
  (In p (vr_mismatched (verify m mn mx src dst)) <->
     exists e d, In e src /\ v_path e = p /\ v_is_dir e = false /\ size_filtered mn mx (v_size e) = false /\ lookup dst p = Some d /\
                 (v_is_dir d = true \/ v_content e <> v_content d \/ v_size e <> v_size d)).
Proof. exact verify_lists_exact. Qed.
Print Assumptions C15_lists_exact.

(* exit 2 only when some file could not be read; exit status is 0, 1 or 2 *)
Theorem C15_exit_codes : forall r,
  (verify_exit r = 2%Z <-> vr_errors r <> []) /\ (verify_exit r = 0%Z \/ verify_exit r = 1%Z \/ verify_exit r = 2%Z).
Proof.
  intro r. unfold verify_exit. destruct (vr_errors r), (vr_mismatched r), (vr_only_src r), (vr_only_dst r);
    (split; [split; [intro H; try discriminate; try congruence | intro H; try congruence; try reflexivity] | auto]).
Qed.
Print Assumptions C15_exit_codes.

(* the comparison itself never produces a read error (exit 2 is left to files that cannot be opened) *)
Theorem C15_no_spurious_errors : forall m mn mx src dst, vr_errors (verify m mn mx src dst) = [].
Proof. exact verify_no_errors. Qed.
Print Assumptions C15_no_spurious_errors.

(* the two shapes that went unreported on the pinned commit *)
Example ex_fast_mode_detects : verify_exit (verify CkNone None None [mk_ventry [1%N] false 3 7] [mk_ventry [1%N] false 3 8]) = 1%Z.
Proof. vm_compute. reflexivity. Qed.
Example ex_type_conflicts :
  let r := verify CkContent None None [mk_ventry [1%N] true 0 0; mk_ventry [2%N] false 1 5] [mk_ventry [1%N] false 3 8; mk_ventry [2%N] true 0 0] in
  vr_only_dst r = [[1%N]] /\ vr_mismatched r = [[2%N]] /\ verify_exit r = 1%Z.
Proof. vm_compute. repeat split. Qed.

Example ex_verify :
  let src := [mk_ventry [1%N] true 0 0; mk_ventry [1%N; 2%N] false 3 7; mk_ventry [3%N] false 4 9; mk_ventry [4%N] false 1 1] in
  let dst := [mk_ventry [1%N] true 0 0; mk_ventry [1%N; 2%N] false 3 8; mk_ventry [3%N] false 4 9; mk_ventry [5%N] false 1 1] in
  let r := verify CkContent None None src dst in
  vr_matched r = 1 /\ vr_mismatched r = [[1%N; 2%N]] /\ vr_only_src r = [[4%N]] /\ vr_only_dst r = [[5%N]] /\ verify_exit r = 1%Z.
Proof. vm_compute. repeat split. Qed.

(* "It never modifies either tree" -- sy's own files in the destination included: of the state-file sites translated from the source
   (coq/gen/StateGuards.v) the two in main.rs cannot run under --verify-only, whatever the other flags (858b5e0 added the
   condition); the engine-side sites are out of reach: main.rs handles --verify-only and leaves the process before
   SyncEngine::sync can be called (anchor VERIFY_EXITS_BEFORE_SYNC), and `verify` itself contains no such call (the translator
   finds each site exactly where it expects it) *)
Theorem C15_verify_only_clears_no_state_file : forall f,
  f_verify_only f = true -> forallb (fun g => negb (snd g f)) main_guards = true.
Proof. exact verify_only_main_no_state_file. Qed.
Print Assumptions C15_verify_only_clears_no_state_file.
