(* C16 -- Filters select exactly the documented set.  Only property theorems here. *)
From Coq Require Import NArith List Bool.
From SyGen Require SizeFilter.
From SyModel Require Import Filter.
From SyProofs Require Import Filter_proofs.
Import ListNotations.
Open Scope N_scope.

(* the glob matcher used by every rule agrees with the declarative glob semantics *)
Theorem C16_glob_spec : forall p s, glob_match p s = true <-> gmatch p s.
Proof. exact glob_match_spec. Qed.
Print Assumptions C16_glob_spec.

(* "patterns without '/' match the base name" *)
Theorem C16_basename_rule : forall r p d,
  r_dir_only r = false -> r_has_slash r = false ->
  rule_matches r p d = match basename p with Some b => glob_match (r_toks r) b | None => false end.
Proof. exact basename_rule. Qed.
Print Assumptions C16_basename_rule.

(* patterns with an embedded '/' match the whole relative path *)
Theorem C16_slash_rule : forall r p d,
  r_dir_only r = false -> r_has_slash r = true -> rule_matches r p d = glob_match (r_toks r) (join p).
Proof. exact slash_rule. Qed.
Print Assumptions C16_slash_rule.

(* "patterns ending in '/' match directories together with their whole subtree"
   (the README's "*/" idiom -- directories only -- is the one documented carve-out) *)
Theorem C16_dir_rule_subtree : forall r p q d,
  r_dir_only r = true -> r_star_only r = false ->
  rule_matches r p true = true -> proper_prefix p q -> rule_matches r q d = true.
Proof. exact dir_rule_subtree. Qed.
Print Assumptions C16_dir_rule_subtree.

(* "the first matching rule of the ordered rule list includes it or no rule matches" *)
Theorem C16_first_match : forall rules p d,
  should_include rules p d =
  match find (fun r => rule_matches r p d) rules with
  | Some r => match r_action r with Include => true | Exclude => false end
  | None => true
  end.
Proof. exact first_match_spec. Qed.
Print Assumptions C16_first_match.

(* the rule list is the concatenation, in order, of what each group of options contributes
   (main.rs adds --filter rules, then --include, then --exclude patterns) *)
Theorem C16_cli_order : forall fs incs excs,
  build_rules (fs ++ incs ++ excs) =
  match build_rules fs, build_rules incs, build_rules excs with
  | Some x, Some y, Some z => Some (x ++ y ++ z)
  | _, _, _ => None
  end.
Proof.
  intros fs incs excs. rewrite !build_rules_app.
  destruct (build_rules fs), (build_rules incs), (build_rules excs); reflexivity.
Qed.
Print Assumptions C16_cli_order.

(* the composition the tests never reach: an entry is selected for transfer iff
   its own first match includes it, no ancestor directory is excluded, and (for
   non-directories) its size is within the bounds -- for every rule list, every
   size bound and every parent-first listing *)
Theorem C16_engine_select : forall rules mn mx l e,
  listing_wf l ->
  (In e (engine_select rules mn mx l) <-> In e l /\ selected rules mn mx e).
Proof. exact engine_select_spec. Qed.
Print Assumptions C16_engine_select.

(* the size clause against the SOURCE: `SizeFilter.should_filter_by_size` is translated from the current body of
   `SyncEngine::should_filter_by_size` on every run (py/gen_sizefilter.py); it is the model's `size_filtered`, used by
   `engine_select` above, for every pair of bounds and every size ... *)
Theorem C16_size_filter_is_the_source : forall mn mx sz,
  SizeFilter.should_filter_by_size mn mx sz = size_filtered mn mx sz.
Proof.
  intros mn mx sz. unfold SizeFilter.should_filter_by_size, SizeFilter.size_stmt_0, SizeFilter.size_stmt_1, size_filtered.
  destruct mn as [m1|]; destruct mx as [m2|]; cbn [orb]; rewrite ?orb_false_r; reflexivity.
Qed.
Print Assumptions C16_size_filter_is_the_source.
(* ... and both bounds are inclusive: a file passes exactly when min <= size <= max for the bounds that are given *)
Theorem C16_size_bounds_inclusive : forall mn mx sz,
  SizeFilter.should_filter_by_size mn mx sz = false <->
  (forall m, mn = Some m -> (m <= sz)%N) /\ (forall m, mx = Some m -> (sz <= m)%N).
Proof.
  intros mn mx sz. unfold SizeFilter.should_filter_by_size, SizeFilter.size_stmt_0, SizeFilter.size_stmt_1.
  rewrite !orb_false_iff. split.
  - intros [[H1 H2] _]. split; intros m E; subst.
    + apply N.ltb_ge in H1. exact H1.
    + apply N.ltb_ge in H2. exact H2.
  - intros [H1 H2]. repeat split.
    + destruct mn as [m|]; [apply N.ltb_ge; apply H1; reflexivity | reflexivity].
    + destruct mx as [m|]; [apply N.ltb_ge; apply H2; reflexivity | reflexivity].
Qed.
Print Assumptions C16_size_bounds_inclusive.
Example ex_size_bounds : map (SizeFilter.should_filter_by_size (Some 10%N) (Some 20%N)) [9; 10; 15; 20; 21]%N = [true; false; false; false; true].
Proof. vm_compute. reflexivity. Qed.

(* the hypothesis is decidable; the harness evaluates listing_ok on every real scan *)
Theorem C16_listing_ok_sound : forall l, listing_ok l = true -> listing_wf l.
Proof. exact listing_ok_wf. Qed.
Print Assumptions C16_listing_ok_sound.

(* ---- non-vacuity ---- *)
Definition s (l : list N) := l.
Definition A := [97]. Definition B := [98]. Definition LOG := [120; 46; 108; 111; 103]. (* "x.log" *)
Example ex_rules : exists rs, build_rules [(0, [43; 32; 42; 47]); (2, [42; 46; 108; 111; 103]); (2, [98; 47])] = Some rs /\
  should_include rs [A; LOG] false = false /\ should_include rs [A] true = true /\
  should_include rs [B; A] false = false /\ should_include rs [A; B] true = true.
Proof. eexists. split; [vm_compute; reflexivity|]. vm_compute. repeat split. Qed.
Example ex_select :
  let rs := match build_rules [(2, [98; 47])] with Some r => r | None => [] end in
  let l := [mk_entry [A] true 0; mk_entry [A; LOG] false 5; mk_entry [B] true 0; mk_entry [B; A] false 1; mk_entry [LOG] false 100] in
  map e_path (engine_select rs (Some 2) (Some 50) l) = [[A]; [A; LOG]].
Proof. vm_compute. reflexivity. Qed.
Example ex_wf : listing_wf [mk_entry [A] true 0; mk_entry [A; LOG] false 5].
Proof. apply listing_ok_wf. vm_compute. reflexivity. Qed.
