(* C17 -- Symlinks and extended attributes are reproduced per the selected mode.
   The model follows the repaired code (`fix: compare and replace symlink entries as links ...`); on the pinned
   commit a re-sync wrote through the destination link, dangling links failed with EEXIST on every run and a
   retargeted link was never re-created (recorded as fixed in known_findings.json). *)
From Coq Require Import NArith List Bool.
From SyModel Require Import Links.
From SyProofs Require Import Links_proofs.
Import ListNotations.

(* preserve mode: after any number of re-syncs -- with the source link retargeted arbitrarily in between, from any
   prior destination entry that is not a directory (absent, another link incl. dangling, a regular file) -- the
   destination entry is a symlink with exactly the source link's current target text *)
Theorem C17_preserve_exact_and_stable : forall hist s d,
  d <> DDir -> resync LPreserve (hist ++ [s]) d = DLink (l_target s).
Proof. exact preserve_stable. Qed.
Print Assumptions C17_preserve_exact_and_stable.

(* follow mode: the linked file's content is copied as a regular file (when the raw target resolves), over any
   prior destination entry that is not a directory -- an identical or different link left by an earlier
   preserve-mode run is replaced by the copy, not written through *)
Theorem C17_follow_copies_content : forall s d c,
  l_cwd s = RFile c -> d <> DDir -> sync_link LFollow s d = DFile c.
Proof. exact follow_result. Qed.
Print Assumptions C17_follow_copies_content.

(* skip mode: nothing is created, whatever the history *)
Theorem C17_skip_creates_nothing : forall hist d, resync LSkip hist d = d.
Proof. exact skip_creates_nothing. Qed.
Print Assumptions C17_skip_creates_nothing.

(* a link that does not resolve (dangling) has nothing to copy in follow mode: nothing is created.  (On the pinned commit a
   RELATIVE target was resolved against the process's working directory -- `fix: resolve a relative symlink target
   against the link's directory ...`, recorded as fixed in known_findings.json; [l_cwd] now is the resolution from the
   link's own directory.) *)
Theorem C17_follow_dangling_copies_nothing : forall s, l_cwd s = RMissing -> sync_link LFollow s DAbsent = DAbsent.
Proof. intros s H. unfold sync_link, exec_link, plan_link. cbn. rewrite H. reflexivity. Qed.
Print Assumptions C17_follow_dangling_copies_nothing.

Example ex_history : resync LPreserve [mk_slink 1 RMissing; mk_slink 1 RMissing; mk_slink 2 (RFile 9)] (DFile 3) = DLink 2.
Proof. reflexivity. Qed.
