(* C17 -- Symlinks and extended attributes are reproduced per the selected mode.
   The model follows the repaired code (`fix: compare and replace symlink entries as links ...`); on the pinned
   commit a re-sync wrote through the destination link, dangling links failed with EEXIST on every run and a
   retargeted link was never re-created (recorded as fixed in known_findings.json). *)
From Coq Require Import NArith List Bool.
From SyModel Require Import Links Xattr.
From SyProofs Require Import Links_proofs Xattr_proofs.
Import ListNotations.

(* preserve mode: after any number of re-syncs -- with the source link retargeted arbitrarily in between, from any
   prior destination entry that is not a directory (absent, another link incl. dangling, a regular file) -- the
   destination entry is a symlink with exactly the source link's current target text *)
Theorem C17_preserve_exact_and_stable : forall hist s d,
  d <> DDir -> resync LPreserve (hist ++ [s]) d = DLink (l_target s).
Proof. exact preserve_stable. Qed.
Print Assumptions C17_preserve_exact_and_stable.

(* follow mode: the linked file's content is copied as a regular file (when the raw target resolves), over any
   prior destination entry that is not a directory -- an identical or different link left by an earlier
   preserve-mode run is replaced by the copy, not written through *)
Theorem C17_follow_copies_content : forall s d c,
  l_cwd s = RFile c -> d <> DDir -> sync_link LFollow s d = DFile c.
Proof. exact follow_result. Qed.
Print Assumptions C17_follow_copies_content.

(* skip mode: nothing is created, whatever the history *)
Theorem C17_skip_creates_nothing : forall hist d, resync LSkip hist d = d.
Proof. exact skip_creates_nothing. Qed.
Print Assumptions C17_skip_creates_nothing.

(* a link that does not resolve (dangling) has nothing to copy in follow mode: nothing is created.  (On the pinned commit a
   RELATIVE target was resolved against the process's working directory -- `fix: resolve a relative symlink target
   against the link's directory ...`, recorded as fixed in known_findings.json; [l_cwd] now is the resolution from the
   link's own directory.) *)
Theorem C17_follow_dangling_copies_nothing : forall s, l_cwd s = RMissing -> sync_link LFollow s DAbsent = DAbsent.
Proof. intros s H. unfold sync_link, exec_link, plan_link. cbn. rewrite H. reflexivity. Qed.
Print Assumptions C17_follow_dangling_copies_nothing.

Example ex_history : resync LPreserve [mk_slink 1 RMissing; mk_slink 1 RMissing; mk_slink 2 (RFile 9)] (DFile 3) = DLink 2.
Proof. reflexivity. Qed.

(* ---------- extended attributes (Model/Xattr.v) ---------- *)
(* With -X the destination file's attributes equal the source's: after ANY history of attribute changes on the source
   and on the destination, content changes and runs with or without -X, from any state, a run with -X leaves the
   destination file with the source's content and exactly the source's attributes -- whether the run created the file,
   rewrote it in place, replaced it through a working file, or skipped it as up to date *)
Theorem C17_xattrs_equal_after_X : forall ops big st,
  let st' := xrun (ops ++ [XSync true big]) st in
  exists d, xs_dst st' = Some d /\ xf_content d = xf_content (xs_src st') /\ forall k, xf_attrs d k = xf_attrs (xs_src st') k.
Proof. exact history_x_equal. Qed.
Print Assumptions C17_xattrs_equal_after_X.

(* Without -X none are copied: an attribute found on the destination file after such a run was on it before the run
   with that value (on a file the run skipped as up to date); a file the run created or rewrote has none *)
Theorem C17_no_X_copies_none : forall ros big st d' k v,
  xs_dst (sync_file ros false big st) = Some d' -> xf_attrs d' k = Some v ->
  exists d, xs_dst st = Some d /\ xf_attrs d k = Some v /\ xf_content d = xf_content (xs_src st).
Proof. exact sync_nox_copies_none. Qed.
Print Assumptions C17_no_X_copies_none.

(* On the pinned commit a file skipped as up to date was not looked at: an attribute changed on the source alone (size
   and mtime unchanged) never reached the destination (`fix: refresh extended attributes of up-to-date files under -X`,
   recorded as fixed in known_findings.json) *)
Theorem C17_pinned_skip_refuted :
  let st' := xrun_pinned [XSync true false; SrcSet 1 5; XSync true false] (xinit 7) in
  match xs_dst st' with Some d => xf_attrs d 1%N = None /\ xf_attrs (xs_src st') 1%N = Some 5%N | None => False end.
Proof. vm_compute. split; reflexivity. Qed.

Example ex_xattr_history :
  let st' := xrun [SrcSet 1 5; SrcSet 2 6; XSync true false; SrcDel 2; SrcWrite 9; DstSet 3 1; XSync true false] (xinit 7) in
  match xs_dst st' with Some d => observe_attrs [1; 2; 3]%N (xf_attrs d) = [Some 5; None; None]%N /\ xf_content d = 9%N | None => False end.
Proof. vm_compute. split; reflexivity. Qed.
