(* C18 -- Caches and databases never change the outcome.
   What a run consults (Model/Caches.v) and why the plan -- hence, the executor never looking at these files, the
   outcome -- is the one of a run without them. *)
From Coq Require Import NArith ZArith List Bool.
From SyModel Require Import Engine Caches.
From SyProofs Require Import Caches_proofs.
Import ListNotations.

(* Checksum database.  For every history of source edits that change a file's size or mtime ([history_ok]: two
   versions of a path with equal mtime and size have equal content), every database whose rows were stored from
   versions the paths really had ([db_truthful]) and every current source listing: planning with the database
   yields exactly the task list of planning without it. *)
Theorem C18_checksum_db_same_plan : forall versions c ds dst d src,
  history_ok versions -> db_truthful versions d -> (forall e, In e src -> current versions e) ->
  map (plan_entry_db c ds dst d) src = map (plan_entry c ds dst) src.
Proof. exact plan_all_db_same. Qed.
Print Assumptions C18_checksum_db_same_plan.

(* ... and that invariant holds for every database runs leave behind: the empty one (also what a corrupt or unreadable
   file yields) is truthful, storing a run's rows keeps it truthful, and it stays truthful as the history grows *)
Theorem C18_checksum_db_invariant : forall versions,
  db_truthful versions [] /\
  (forall d src, db_truthful versions d -> (forall e, In e src -> current versions e) -> db_truthful versions (db_store_all d src)) /\
  (forall versions' d, (forall p x, In x (versions p) -> In x (versions' p)) -> db_truthful versions d -> db_truthful versions' d).
Proof.
  intro v. split; [apply db_empty_truthful|]. split; [intros d src; apply db_store_all_truthful|].
  intros v' d. apply db_truthful_mono.
Qed.
Print Assumptions C18_checksum_db_invariant.

(* Directory cache.  Whatever sequence of earlier runs wrote it (starting from no file, a corrupt file or another
   version's file -- all loaded as the empty cache), the cache never holds the root entry the engine asks for, so the
   listing a run plans from is always the real scan, whatever stale entries the cache holds *)
Theorem C18_dir_cache_never_substituted : forall ls root_mtime cached real,
  Forall listing_nonroot ls -> scan_with_cache (fold_left dc_update ls dc_empty) root_mtime cached real = real.
Proof. exact scan_with_cache_is_scan. Qed.
Print Assumptions C18_dir_cache_never_substituted.

(* Resume.  No run writes a state file (the engine loads, and on success deletes, .sy-state.json but never saves one), so the
   completed set a run sees is empty and planning is unchanged ... *)
Theorem C18_resume_without_state : forall src, plan_resume [] src = src.
Proof. exact plan_resume_nil. Qed.
Print Assumptions C18_resume_without_state.

(* ... and with ANY state file (e.g. one another build left through the public ResumeState API): a file is kept out of the plan
   only if the state records exactly its current size and checksum, and an edited file -- another size or another content -- is
   planned again whatever the state says (`fix: a path recorded as completed in the resume state is skipped only while the source
   file is unchanged`; on the pinned commit every listed path was skipped unseen, recorded as fixed) *)
Theorem C18_resume_skips_only_unchanged : forall comp src e,
  In e src -> se_is_dir e = false -> ~ In e (plan_resume comp src) ->
  exists r, In r comp /\ cp_path r = se_path e /\ cp_size r = se_size e /\ cp_sum r = se_content e.
Proof. exact plan_resume_skips_only_unchanged. Qed.
Print Assumptions C18_resume_skips_only_unchanged.

Theorem C18_resume_replans_edited : forall comp src e,
  In e src -> se_is_dir e = false ->
  (forall r, In r comp -> cp_path r = se_path e -> cp_size r <> se_size e \/ cp_sum r <> se_content e) ->
  In e (plan_resume comp src).
Proof. exact plan_resume_replans_edited. Qed.
Print Assumptions C18_resume_replans_edited.

(* The state file says nothing about the destination: it survives runs made with --resume=false, and files may have been removed
   since.  Since `fix: resume skips a completed path only while the destination still holds it` an entry is kept out of the plan
   only if the destination entry is what the planner itself would skip (default comparison): leaving it out changes nothing.  An
   entry whose destination is missing or differs in size or time stamp is planned whatever the state says. *)
Theorem C18_resume_skip_is_a_planner_skip : forall c ds comp dst src e,
  c_checksum c = false -> c_ignore_times c = false ->
  In e src -> ~ In e (plan_resume_d comp dst src) ->
  t_action (plan_entry c ds dst e) = ASkip.
Proof. exact plan_resume_d_harmless. Qed.
Print Assumptions C18_resume_skip_is_a_planner_skip.

Theorem C18_resume_replans_when_destination_differs : forall comp dst src e,
  In e src -> dest_holds dst e = false -> In e (plan_resume_d comp dst src).
Proof. exact plan_resume_d_replans_when_destination_differs. Qed.
Print Assumptions C18_resume_replans_when_destination_differs.

(* THE TWIN STATEMENT for --resume, for the whole run: with ANY state file, the run that leaves the completed entries out of the plan
   (they still count for the deletion plan: the code hands the whole scan to plan_deletions) ends with the same destination, the
   same errors and the same refusal as the run without resume -- under --delete or not, with any filter, default comparison. *)
Theorem C18_resume_run_same_outcome : forall refuse ds c now U keep src dst comp,
  c_checksum c = false -> c_ignore_times c = false ->
  let out := filter (resumed_out comp dst) src in
  let r1 := run refuse ds c now U keep src dst in
  let r2 := run refuse ds c now U (keep ++ out) (plan_resume_d comp dst src) dst in
  r_fs r2 = r_fs r1 /\ r_errors r2 = r_errors r1 /\ r_refused r2 = r_refused r1.
Proof. exact resume_run_same_outcome. Qed.
Print Assumptions C18_resume_run_same_outcome.

(* non-vacuity: a history in which a file was edited twice, a database with the row of the older version *)
Definition ex_versions (p : path) : list (Z * N * N) := if peqb p [1%N] then [(100%Z, 5%N, 7%N); (200%Z, 5%N, 8%N)] else [].
Example ex_history : history_ok ex_versions /\ db_truthful ex_versions [mk_row [1%N] 100 5 7] /\
                     current ex_versions (mk_sentry [1%N] false 5 200 8 false).
Proof.
  split; [|split].
  - intros p mt sz c1 c2. unfold ex_versions. destruct (peqb p [1%N]); cbn; intuition congruence.
  - intros r [<-|[]]. cbn. auto.
  - cbn. auto.
Qed.

(* non-vacuity of the twin statement: three source files; the state lists [1] (still in the destination: left out), [2] (the
   destination lost it: planned and created) and [3] (the destination holds other bytes with another time stamp: planned and
   updated); a stale file [9] is deleted in both runs *)
Example ex_resume_twin :
  let c := mk_cfg true true 100 false false false false 1000000 0 in
  let src := [mk_sentry [1%N] false 5 10 71 false; mk_sentry [2%N] false 6 20 72 false; mk_sentry [3%N] false 7 30 73 false] in
  let dst := fun p => if peqb p [1%N] then Some (File 71 5 10) else if peqb p [3%N] then Some (File 99 7 555000000000) else
                      if peqb p [9%N] then Some (File 1 1 1) else None in
  let comp := [mk_completed [1%N] 5 71; mk_completed [2%N] 6 72; mk_completed [3%N] 7 73] in
  let U := [[1%N]; [2%N]; [3%N]; [9%N]] in
  let r2 := run (fun _ _ _ => false) (fun _ => (0%N, 0%Z)) c 0 U (filter (resumed_out comp dst) src) (plan_resume_d comp dst src) dst in
  length (plan_resume_d comp dst src) = 2 /\
  map (r_fs r2) U = [Some (File 71 5 10); Some (File 72 6 20); Some (File 73 7 30); None].
Proof. vm_compute. split; reflexivity. Qed.
