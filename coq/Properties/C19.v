(* C19 -- The machine-readable report is well-formed and truthful (engine part).
   The model follows the repaired code (`fix: keep standard output machine-readable in --json mode ...`): on the
   pinned commit log lines were interleaved with the JSON objects on stdout and failures were never emitted as
   events (recorded as fixed in known_findings.json). *)
From Coq Require Import NArith ZArith List Bool Lia.
From SyModel Require Import Engine Links.
From SyProofs Require Import Engine_proofs Links_proofs.
Import ListNotations.

(* what the run prints in --json mode after the start event: one object per completed action, one error object
   per failed action, one summary whose counters are the numbers of completed actions of each kind *)
Inductive jline : Type := JAction (a : eaction) (p : path) | JError (p : path) | JSummary (created updated skipped deleted : nat).

Definition count (a : eaction) (evs : list (eaction * path)) : nat :=
  length (filter (fun ev => match fst ev, a with ASkip, ASkip | ACreate, ACreate | AUpdate, AUpdate | ADelete, ADelete => true | _, _ => false end) evs).

Definition json_lines (r : report) : list jline :=
  map (fun ev => JAction (fst ev) (snd ev)) (r_events r) ++
  map (fun e => JError (fst (fst e))) (r_errors r) ++
  [JSummary (count ACreate (r_events r)) (count AUpdate (r_events r)) (count ASkip (r_events r)) (count ADelete (r_events r))].

(* every create / update / skip / delete event of a successful run states a change that is observable by comparing
   the destination before and after: created paths were absent and exist, updated files existed and are files,
   skipped entries are unchanged, deleted paths existed and are gone *)
Theorem C19_events_truthful : forall refuse ds c now U keep src dst,
  src_wf src -> c_dry_run c = false -> dst [] = None ->
  (forall p, dst p <> None -> In p U) ->
  let r := run refuse ds c now U keep src dst in
  r_refused r = false -> r_errors r = [] ->
  forall ev, In ev (r_events r) -> event_true dst (r_fs r) ev.
Proof. exact events_truthful. Qed.
Print Assumptions C19_events_truthful.

(* conversely, a selected path whose destination entry changed has a create or update event (never only a skip) *)
Theorem C19_changed_entry_has_event : forall refuse ds c now U keep src dst,
  src_wf src -> c_dry_run c = false -> dst [] = None ->
  (forall p, dst p <> None -> In p U) ->
  let r := run refuse ds c now U keep src dst in
  r_refused r = false -> r_errors r = [] ->
  forall e, In e src -> r_fs r (se_path e) <> dst (se_path e) ->
  In (ACreate, se_path e) (r_events r) \/ In (AUpdate, se_path e) (r_events r).
Proof.
  intros refuse ds c now U keep src dst Hwf Hdry Hroot HU r Href Herr e He Hch.
  assert (Hevs : In (t_action (plan_entry c ds dst e), se_path e) (r_events r)).
  { subst r. unfold run in *. cbv zeta in *.
    match type of Href with context [if ?b then _ else _] => destruct b eqn:Eb end; [cbn in Href; discriminate|].
    rewrite (exec_all_events c now _ dst [] [] Herr). cbn [rev app]. rewrite map_app. apply in_or_app. left.
    rewrite map_map. apply in_map_iff. exists e. split; [|exact He]. destruct (plan_entry_ok c ds dst e) as (_ & _ & Hp). rewrite Hp. reflexivity. }
  destruct (plan_entry_ok c ds dst e) as (_ & Hnd & _).
  destruct (t_action (plan_entry c ds dst e)) eqn:Ea; [| left; exact Hevs | right; exact Hevs | congruence].
  exfalso. apply Hch. exact (events_truthful refuse ds c now U keep src dst Hwf Hdry Hroot HU Href Herr _ Hevs).
Qed.
Print Assumptions C19_changed_entry_has_event.

(* failures are represented in the output: every failed action has an error object naming its path, and the
   summary counters are exactly the numbers of action objects of each kind *)
Theorem C19_failures_represented : forall r p a x,
  In (p, a, x) (r_errors r) -> In (JError p) (json_lines r).
Proof.
  intros r p a x H. unfold json_lines. apply in_or_app. right. apply in_or_app. left.
  apply in_map_iff. exists (p, a, x). split; [reflexivity | exact H].
Qed.
Print Assumptions C19_failures_represented.

Theorem C19_summary_counts : forall r a,
  count a (r_events r) = length (filter (fun l => match l with JAction b _ => match b, a with ASkip, ASkip | ACreate, ACreate | AUpdate, AUpdate | ADelete, ADelete => true | _, _ => false end | _ => false end) (json_lines r)).
Proof.
  intros r a. unfold json_lines, count. rewrite !filter_app, !app_length.
  assert (E1 : forall evs, length (filter (fun l => match l with JAction b _ => match b, a with ASkip, ASkip | ACreate, ACreate | AUpdate, AUpdate | ADelete, ADelete => true | _, _ => false end | _ => false end) (map (fun ev : eaction * path => JAction (fst ev) (snd ev)) evs)) =
                           length (filter (fun ev : eaction * path => match fst ev, a with ASkip, ASkip | ACreate, ACreate | AUpdate, AUpdate | ADelete, ADelete => true | _, _ => false end) evs)).
  { induction evs as [|ev evs IH]; [reflexivity|]. cbn [map filter]. destruct (fst ev), a; cbn [length]; rewrite ?IH; reflexivity. }
  rewrite E1.
  assert (E2 : forall es : list (path * eaction * err), filter (fun l => match l with JAction b _ => match b, a with ASkip, ASkip | ACreate, ACreate | AUpdate, AUpdate | ADelete, ADelete => true | _, _ => false end | _ => false end) (map (fun e => JError (fst (fst e))) es) = []).
  { induction es as [|e es IH]; [reflexivity|]. cbn [map filter]. exact IH. }
  rewrite E2. cbn. lia.
Qed.
Print Assumptions C19_summary_counts.

Example ex_report :
  let c := mk_cfg true true 50 false false false false 100 100 in
  let src := [mk_sentry [1%N] false 5 1000%Z 7 false; mk_sentry [2%N] false 6 1000%Z 8 false] in
  let dst : fs := fun p => if peqb p [1%N] then Some Dir else if peqb p [3%N] then Some (File 1 1 1%Z) else None in
  json_lines (run (fun _ _ _ => false) (fun _ => (0%N, 0%Z)) c 9%Z [[1%N]; [3%N]] [] src dst)
  = [JAction ACreate [2%N]; JAction ADelete [3%N]; JError [1%N]; JSummary 1 0 0 1].
Proof. vm_compute. reflexivity. Qed.

(* ---------- symbolic-link entries (Model/Links.v; outside Engine.v) ---------- *)
(* what the run reports for a symlink entry states a change that really happened: a create event -- nothing was there and
   something is now; a skip event -- the destination entry is what it was (skip mode; an identical link; a link that is not
   copied because it does not resolve).  On the pinned commit entries that were not copied were reported as created (`fix: a
   symlink entry that is not copied is reported as skipped ...`, recorded as fixed in known_findings.json). *)
Theorem C19_link_create_event_true : forall m s d, link_event m s d = EvCreate -> d = DAbsent /\ sync_link m s d <> DAbsent.
Proof. exact create_event_true. Qed.
Print Assumptions C19_link_create_event_true.

Theorem C19_link_skip_event_true : forall m s d, link_event m s d = EvSkip -> sync_link m s d = d.
Proof. exact skip_event_true. Qed.
Print Assumptions C19_link_skip_event_true.

(* an update event: the entry existed, and exists afterwards -- except in follow mode over a destination LINK when the source link
   does not resolve to a file: the update path removes the destination link first (kept visible in the statement) *)
Theorem C19_link_update_event_partial : forall m s d, link_event m s d = EvUpdate ->
  d <> DAbsent /\ (sync_link m s d <> DAbsent \/ (m = LFollow /\ produced m s = false /\ exists t, d = DLink t)).
Proof. exact update_event_true. Qed.
Print Assumptions C19_link_update_event_partial.
