(* C20 -- Watch mode eventually propagates every change.
   The model follows the repaired start-up order (`fix: start watching before the initial sync in --watch mode`); on
   the pinned commit the watcher was registered after the initial sync, so a change made while that sync ran was never
   propagated (C20_pinned_order_refuted; recorded as fixed in known_findings.json).

   Time is counted in iterations of the event loop (each sleeps 10 ms and then waits up to 100 ms for an event);
   `acts` is ANY sequence of changes, ignored events and loop iterations -- changes before, between and after
   iterations and syncs in every order and number. *)
From Coq Require Import Arith List Bool.
From SyModel Require Import Watch.
From SyProofs Require Import Watch_proofs.
Import ListNotations.

(* after any watched history, once the source is quiet the destination reflects the final source version within
   (events still queued) + debounce + 1 further iterations -- a bound linear in the size of the last burst *)
Theorem C20_eventually_propagates : forall d v acts n,
  forallb watched acts = true ->
  length (w_queue (wrun d acts (start v))) + d + 1 <= n ->
  w_dst (wrun d (acts ++ repeat Iter n) (start v)) = w_src (wrun d acts (start v)).
Proof. exact eventually_propagates. Qed.
Print Assumptions C20_eventually_propagates.

(* the invariant behind it, for every reachable state: an unpropagated change always leaves a trace in the channel or
   in the pending list, so it cannot be forgotten by a sync that started before it *)
Theorem C20_no_change_forgotten : forall d v acts,
  forallb watched acts = true ->
  let s := wrun d acts (start v) in w_dst s < w_src s -> w_pending s = true \/ existsb (fun b => b) (w_queue s) = true.
Proof. intros d v acts Hw s. destruct (winv_run d acts (start v) Hw (winv_start v)) as (_ & _ & H). exact H. Qed.
Print Assumptions C20_no_change_forgotten.

(* the pinned start-up order: a change during the initial sync produces no event and is never propagated *)
Theorem C20_pinned_order_refuted : forall d v n,
  w_dst (wrun d (Unwatched :: repeat Iter n) (start v)) < w_src (wrun d (Unwatched :: repeat Iter n) (start v)).
Proof. exact unwatched_change_never_propagates. Qed.
Print Assumptions C20_pinned_order_refuted.

(* non-vacuity: a change before, one "during" (right after) a sync and a burst; debounce 5 *)
Example ex_watch :
  let acts := [Change; Iter; Iter; Iter; Iter; Iter; Iter; Iter; Change; Noise; Change; Change; Iter] in
  forallb watched acts = true /\ w_src (wrun 5 acts (start 0)) = 4 /\ w_dst (wrun 5 acts (start 0)) = 1 /\
  w_dst (wrun 5 (acts ++ repeat Iter 9) (start 0)) = 4.
Proof. vm_compute. repeat split. Qed.
