//! C11/C12 correspondence.
//!  K <s> <d> <ps> <pd>     s,d = size:mtime | -   ps,pd = mtime:size | -
//!      -> chg=<change|none> acts=<six actions, one per strategy>
//!  H <steps>               steps separated by ';'
//!      e:<S|D>:<id>:<c|d|t>:<size>:<content>     edit (create/delete/touch) at logical time = step index + 1
//!      s:<strategy>:<maxdel>                      bidirectional sync through BisyncEngine::sync on real directories
//!      -> after every sync:  [ok|err] src{id=size/content/mtime,...} dst{...} db{id=S:mtime/size|-,D:mtime/size|-} ;
use std::collections::{BTreeMap, HashMap};
use std::path::{Path, PathBuf};
use std::time::{Duration, SystemTime, UNIX_EPOCH};
use sy::bisync::{
    classify_changes, resolve_changes, BisyncEngine, BisyncOptions, BisyncStateDb, ChangeType,
    ConflictResolution, Side, SyncAction, SyncState,
};
use sy::sync::scanner::FileEntry;
use syvh::for_each_case;

const T0: u64 = 1_600_000_000;

fn entry(size: u64, mtime: u64) -> FileEntry {
    FileEntry {
        path: PathBuf::from("f"),
        relative_path: PathBuf::from("f"),
        size,
        modified: UNIX_EPOCH + Duration::from_secs(T0 + mtime),
        is_dir: false,
        is_symlink: false,
        symlink_target: None,
        is_sparse: false,
        allocated_size: size,
        xattrs: None,
        inode: None,
        nlink: 1,
        acls: None,
        bsd_flags: None,
    }
}

fn parse_e(t: &str) -> Option<FileEntry> {
    if t == "-" {
        return None;
    }
    let (a, b) = t.split_once(':').unwrap();
    Some(entry(a.parse().unwrap(), b.parse().unwrap()))
}

fn parse_r(t: &str, side: Side) -> Option<SyncState> {
    if t == "-" {
        return None;
    }
    let (a, b) = t.split_once(':').unwrap();
    Some(SyncState {
        path: PathBuf::from("f"),
        side,
        mtime: UNIX_EPOCH + Duration::from_secs(T0 + a.parse::<u64>().unwrap()),
        size: b.parse().unwrap(),
        checksum: None,
        last_sync: UNIX_EPOCH,
    })
}

fn strat(s: &str) -> ConflictResolution {
    ConflictResolution::from_str(s).unwrap()
}

fn act_name(a: &SyncAction) -> &'static str {
    match a {
        SyncAction::CopyToSource(_) => "CopyToSource",
        SyncAction::CopyToDest(_) => "CopyToDest",
        SyncAction::DeleteFromSource(_) => "DeleteFromSource",
        SyncAction::DeleteFromDest(_) => "DeleteFromDest",
        SyncAction::RenameConflict { .. } => "RenameConflict",
    }
}

fn chg_name(c: &ChangeType) -> &'static str {
    match c {
        ChangeType::NewInSource => "NewInSource",
        ChangeType::NewInDest => "NewInDest",
        ChangeType::ModifiedInSource => "ModifiedInSource",
        ChangeType::ModifiedInDest => "ModifiedInDest",
        ChangeType::DeletedFromSource => "DeletedFromSource",
        ChangeType::DeletedFromDest => "DeletedFromDest",
        ChangeType::ModifiedBoth => "ModifiedBoth",
        ChangeType::CreateCreateConflict => "CreateCreateConflict",
        ChangeType::ModifyDeleteConflict => "ModifyDeleteConflict",
    }
}

/// Name tables chosen by H_BISYNC_NAMES: the model is indifferent to names, the implementation must be too.  The adversarial
/// tables put names side by side that a name-derived working file, backup or conflict name could collide with.
fn adv_table() -> Option<[&'static str; 5]> {
    match std::env::var("H_BISYNC_NAMES").ok().as_deref() {
        Some("adv1") => Some(["r.txt", "r.tmp", "sub/r", "sub/r.tmp", "r"]),
        Some("adv2") => Some(["r.txt", "r.txt.tmp", "sub/r", "sub/.r.tmp", ".r.txt.tmp"]),
        Some("adv3") => Some(["r.txt", "r.txt~", "sub/r.bak", "sub/r", "r.txt.sy.tmp"]),
        // paths that are not valid UTF-8 (here in bstr form: one char per byte), pairwise equal in their lossy form.  The invalid
        // bytes sit in the directory part: conflict_filename gives a file whose own name is not UTF-8 the stem "file"
        Some("adv4") => Some(["d\u{fe}/r.txt", "d\u{ff}/r.txt", "d\u{fe}/r", "d\u{ff}/r", "e\u{fe}/r.txt"]),
        _ => None,
    }
}

/// a path as a string in which every BYTE is one char (names that are not valid UTF-8 stay distinct, unlike in their lossy form)
fn bstr(p: &Path) -> String {
    use std::os::unix::ffi::OsStrExt;
    p.as_os_str().as_bytes().iter().map(|b| *b as char).collect()
}

/// the inverse of bstr
fn unb(s: &str) -> PathBuf {
    use std::os::unix::ffi::OsStringExt;
    PathBuf::from(std::ffi::OsString::from_vec(s.chars().map(|c| c as u32 as u8).collect()))
}

fn name_of(id: u64) -> String {
    // model ids: base paths are multiples of 4; 16 p + 4 k + 1 / + 2 are the conflict names of p
    if id % 4 == 1 || id % 4 == 2 {
        unreachable!("edits never address conflict names");
    }
    if let Some(t) = adv_table() {
        if id >= 4 && id <= 20 && id % 4 == 0 {
            return t[(id / 4 - 1) as usize].to_string();
        }
    }
    let base = if id % 8 == 0 { format!("f{}", id) } else { format!("f{}.txt", id) };
    if id % 3 == 0 {
        format!("sub/{}", base)
    } else {
        base
    }
}

/// one ".conflict-<ts>[-<n>]-source|dest" segment at the start of `s`: (ts, n, side, rest)
fn parse_segment(s: &str) -> Option<(u64, u64, u64, &str)> {
    let s = s.strip_prefix(".conflict-")?;
    let d1 = s.find(|c: char| !c.is_ascii_digit())?;
    let ts: u64 = s[..d1].parse().ok()?;
    let mut rest = &s[d1..];
    let mut n = 0u64;
    if let Some(r) = rest.strip_prefix('-') {
        let d2 = r.find(|c: char| !c.is_ascii_digit()).unwrap_or(r.len());
        if d2 > 0 {
            n = r[..d2].parse().ok()?;
            rest = &r[d2..];
        }
    }
    if let Some(r) = rest.strip_prefix("-source") {
        Some((ts, n, 1, r))
    } else if let Some(r) = rest.strip_prefix("-dest") {
        Some((ts, n, 2, r))
    } else {
        None
    }
}

/// a real relative name: base id and the chain of conflict suffixes (time stamp, counter, side)
fn parse_name(rel: &str) -> Option<(u64, Vec<(u64, u64, u64)>)> {
    if let Some(t) = adv_table() {
        // <stem>(.conflict-..)*[.<ext>] : cut the segments out, what remains is the base name
        let (head, mut tail) = match rel.find(".conflict-") {
            Some(i) => (&rel[..i], &rel[i..]),
            None => (rel, ""),
        };
        let mut chain = Vec::new();
        while tail.starts_with(".conflict-") {
            let (ts, n, side, rest) = parse_segment(tail)?;
            chain.push((ts, n, side));
            tail = rest;
        }
        let base = format!("{}{}", head, tail);
        let j = t.iter().position(|x| *x == base)?;
        return Some((4 * (j as u64 + 1), chain));
    }

    let base = rel.rsplit('/').next().unwrap();
    let base = base.strip_suffix(".txt").unwrap_or(base);
    let mut parts = base.split(".conflict-");
    let first = parts.next()?;
    let id: u64 = first.strip_prefix('f')?.parse().ok()?;
    let mut chain = Vec::new();
    for p in parts {
        // <ts>-source | <ts>-<n>-source | <ts>-dest | <ts>-<n>-dest
        let (rest, side) = if let Some(r) = p.strip_suffix("-source") {
            (r, 1u64)
        } else if let Some(r) = p.strip_suffix("-dest") {
            (r, 2u64)
        } else {
            return None;
        };
        let mut it = rest.split('-');
        let ts: u64 = it.next()?.parse().ok()?;
        let n: u64 = match it.next() {
            Some(x) => x.parse().ok()?,
            None => 0,
        };
        chain.push((ts, n, side));
    }
    Some((id, chain))
}

/// Model ids of conflict copies: the k-th conflict name of p on side sd is 16 p + 4 k + sd, where k is the RANK of the copy
/// among all copies of p with that side tag that ever existed in either root, ordered by (time stamp, counter) -- the order in
/// which they were made.  This does not depend on whether two conflicts fell into the same wall-clock second.
struct Namer {
    all: Vec<(u64, Vec<(u64, u64, u64)>)>,
}

impl Namer {
    fn new(roots: &[&Path]) -> Namer {
        let mut all = Vec::new();
        for root in roots {
            let mut stack = vec![root.to_path_buf()];
            while let Some(d) = stack.pop() {
                if let Ok(rd) = std::fs::read_dir(&d) {
                    for e in rd.flatten() {
                        let p = e.path();
                        if std::fs::symlink_metadata(&p).map(|m| m.is_dir()).unwrap_or(false) {
                            stack.push(p);
                        } else if let Some(x) = parse_name(&bstr(p.strip_prefix(root).unwrap())) {
                            all.push(x);
                        }
                    }
                }
            }
        }
        Namer { all }
    }

    fn id_of(&self, rel: &str) -> Option<u64> {
        let (base, chain) = parse_name(rel)?;
        let mut id = base;
        for i in 0..chain.len() {
            let (ts, n, side) = chain[i];
            let mut sibs: Vec<(u64, u64)> = self
                .all
                .iter()
                .filter(|(b, c)| *b == base && c.len() > i && c[..i] == chain[..i] && c[i].2 == side)
                .map(|(_, c)| (c[i].0, c[i].1))
                .collect();
            sibs.sort();
            sibs.dedup();
            let k = sibs.iter().position(|x| *x == (ts, n))? as u64;
            id = 16 * id + 4 * k + side;
        }
        Some(id)
    }
}

/// the state database keys are relative names too
fn id_of(namer: &Namer, rel: &str) -> Option<u64> {
    namer.id_of(rel)
}

fn set_mtime(p: &Path, t: u64) {
    filetime::set_file_mtime(p, filetime::FileTime::from_unix_time((T0 + t) as i64, 0)).unwrap();
}

fn snap(root: &Path, namer: &Namer) -> BTreeMap<u64, (u64, u64, i64)> {
    let mut m = BTreeMap::new();
    let mut stack = vec![root.to_path_buf()];
    while let Some(d) = stack.pop() {
        if let Ok(rd) = std::fs::read_dir(&d) {
            for e in rd.flatten() {
                let p = e.path();
                let md = std::fs::symlink_metadata(&p).unwrap();
                if md.is_dir() {
                    stack.push(p);
                } else {
                    let rel = bstr(p.strip_prefix(root).unwrap());
                    let data = std::fs::read(&p).unwrap();
                    let content = data.first().copied().unwrap_or(0) as u64;
                    let mt = md.modified().unwrap().duration_since(UNIX_EPOCH).unwrap().as_secs() as i64 - T0 as i64;
                    match namer.id_of(&rel) {
                        Some(id) => {
                            m.insert(id, (data.len() as u64, content, mt));
                        }
                        None => {
                            m.insert(u64::MAX, (0, 0, 0));
                        }
                    }
                }
            }
        }
    }
    m
}

fn fmt_side(m: &BTreeMap<u64, (u64, u64, i64)>) -> String {
    m.iter().map(|(k, (s, c, t))| format!("{}={}/{}/{}", k, s, c, t)).collect::<Vec<_>>().join(",")
}

fn normalise_fresh(root: &Path, boundary: SystemTime, t: u64) {
    let mut stack = vec![root.to_path_buf()];
    while let Some(d) = stack.pop() {
        if let Ok(rd) = std::fs::read_dir(&d) {
            for e in rd.flatten() {
                let p = e.path();
                let md = std::fs::symlink_metadata(&p).unwrap();
                if md.is_dir() {
                    stack.push(p);
                } else if md.modified().unwrap() >= boundary {
                    set_mtime(&p, t);
                }
            }
        }
    }
}

fn main() {
    for_each_case(|t| match t[0] {
        "K" => {
            let s = parse_e(t[1]);
            let d = parse_e(t[2]);
            let ps = parse_r(t[3], Side::Source);
            let pd = parse_r(t[4], Side::Dest);
            let mut prior: HashMap<PathBuf, (Option<SyncState>, Option<SyncState>)> = HashMap::new();
            if ps.is_some() || pd.is_some() {
                prior.insert(PathBuf::from("f"), (ps, pd));
            }
            let sv: Vec<FileEntry> = s.into_iter().collect();
            let dv: Vec<FileEntry> = d.into_iter().collect();
            let ch = classify_changes(&sv, &dv, &prior).unwrap();
            if ch.is_empty() {
                return "chg=none acts=-".into();
            }
            let mut acts = Vec::new();
            for st in ["newer", "larger", "smaller", "source", "dest", "rename"] {
                let r = resolve_changes(ch.clone(), strat(st)).unwrap();
                acts.push(r.actions.iter().map(act_name).collect::<Vec<_>>().join("+"));
            }
            format!("chg={} acts={}", chg_name(&ch[0].change_type), acts.join(","))
        }
        "H" => {
            let dir = tempfile::Builder::new().prefix("syvh-bisync.").tempdir_in("/var/tmp").unwrap();
            let src = dir.path().join("L");
            let dst = dir.path().join("R");
            std::fs::create_dir_all(&src).unwrap();
            std::fs::create_dir_all(&dst).unwrap();
            let mut out = Vec::new();
            for (i, step) in t[1].split(';').enumerate() {
                let now = (i + 1) as u64;
                let f: Vec<&str> = step.split(':').collect();
                match f[0] {
                    "e" => {
                        let root = if f[1] == "S" { &src } else { &dst };
                        let p = root.join(unb(&name_of(f[2].parse().unwrap())));
                        match f[3] {
                            "c" => {
                                std::fs::create_dir_all(p.parent().unwrap()).unwrap();
                                let size: usize = f[4].parse().unwrap();
                                let c: u8 = f[5].parse::<u64>().unwrap() as u8;
                                std::fs::write(&p, vec![c; size]).unwrap();
                                set_mtime(&p, now);
                            }
                            "d" => {
                                let _ = std::fs::remove_file(&p);
                            }
                            _ => {
                                if p.exists() {
                                    set_mtime(&p, now);
                                }
                            }
                        }
                    }
                    "w" => {
                        // a file written with a time stamp of the writer's choosing (cp -p, rsync -t, an archive)
                        let root = if f[1] == "S" { &src } else { &dst };
                        let p = root.join(unb(&name_of(f[2].parse().unwrap())));
                        std::fs::create_dir_all(p.parent().unwrap()).unwrap();
                        let size: usize = f[3].parse().unwrap();
                        let c: u8 = f[4].parse::<u64>().unwrap() as u8;
                        std::fs::write(&p, vec![c; size]).unwrap();
                        set_mtime(&p, f[5].parse().unwrap());
                    }
                    "x" => {
                        // the state database loses the row of one side at this path
                        let rel = unb(&name_of(f[2].parse().unwrap()));
                        let mut sdb = BisyncStateDb::open(&src, &dst).unwrap();
                        let all = sdb.load_all().unwrap();
                        if let Some((a, b)) = all.get(&rel) {
                            let keep = if f[1] == "S" { b.clone() } else { a.clone() };
                            sdb.delete(&rel).unwrap();
                            if let Some(k) = keep {
                                sdb.store(&k).unwrap();
                            }
                        }
                    }
                    _ => {
                        let boundary = SystemTime::now() - Duration::from_millis(5);
                        let opts = BisyncOptions {
                            conflict_resolution: strat(f[1]),
                            max_delete_percent: f[2].parse().unwrap(),
                            dry_run: false,
                            clear_state: false,
                        };
                        let r = BisyncEngine::new().sync(&src, &dst, opts);
                        let status = match &r {
                            Ok(res) if res.errors.is_empty() => "ok".to_string(),
                            Ok(res) => format!("errs{}", res.errors.len()),
                            Err(_) => "refused".to_string(),
                        };
                        normalise_fresh(&src, boundary, now);
                        normalise_fresh(&dst, boundary, now);
                        // rows written by this sync carry the wall-clock mtime of fresh copies: bring them onto the
                        // logical clock too, exactly like the files they describe
                        {
                            let mut sdb = BisyncStateDb::open(&src, &dst).unwrap();
                            let all = sdb.load_all().unwrap();
                            for (_p, (a, b)) in all.iter() {
                                for row in [a, b].into_iter().flatten() {
                                    if row.mtime >= boundary {
                                        let mut r2 = row.clone();
                                        r2.mtime = UNIX_EPOCH + Duration::from_secs(T0 + now);
                                        sdb.store(&r2).unwrap();
                                    }
                                }
                            }
                        }
                        let namer = Namer::new(&[&src, &dst]);
                        let db = BisyncStateDb::open(&src, &dst).unwrap().load_all().unwrap();
                        let mut rows: BTreeMap<u64, String> = BTreeMap::new();
                        for (p, (a, b)) in db.iter() {
                            let f = |x: &Option<SyncState>| match x {
                                Some(s) => format!(
                                    "{}/{}",
                                    s.mtime.duration_since(UNIX_EPOCH).unwrap().as_secs() as i64 - T0 as i64,
                                    s.size
                                ),
                                None => "-".into(),
                            };
                            rows.insert(id_of(&namer, &bstr(p)).unwrap_or(u64::MAX), format!("S:{}|D:{}", f(a), f(b)));
                        }
                        out.push(format!(
                            "{} src{{{}}} dst{{{}}} db{{{}}}",
                            status,
                            fmt_side(&snap(&src, &namer)),
                            fmt_side(&snap(&dst, &namer)),
                            rows.iter().map(|(k, v)| format!("{}={}", k, v)).collect::<Vec<_>>().join(",")
                        ));
                    }
                }
            }
            // the state DB lives under XDG_CACHE_HOME keyed by the pair of roots; remove it so runs do not accumulate
            if let Ok(db) = BisyncStateDb::open(&src, &dst) {
                let mut db = db;
                let _ = db.clear_all();
            }
            if out.is_empty() { "-".into() } else { out.join(" ; ") }
        }
        _ => "BADCASE".into(),
    });
}
