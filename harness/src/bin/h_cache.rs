//! C18 correspondence: the persistent helpers behind --checksum-db / --use-cache / --resume.
//!  DB <dirhex> <ops>   ops = s:pathid:mt_ns:size:sum | g:pathid:mt_ns:size , comma separated; a fresh database in <dir>
//!                      -> one item per g: h<sum> | m
//!  DC <ops>            ops = u:pathid:mt_ns | q:pathid:mt_ns   (update / needs_rescan); pathid 0 = "."
//!                      -> one item per q: 1 (needs rescan) | 0
//!  RS <dirhex> <delete 0|1> <paths hex,..|->   writes a VALID .sy-state.json listing the paths as completed -> ok
use std::path::{Path, PathBuf};
use std::time::{Duration, SystemTime, UNIX_EPOCH};
use sy::integrity::Checksum;
use sy::sync::checksumdb::ChecksumDatabase;
use sy::sync::dircache::DirectoryCache;
use sy::sync::resume::{CompletedFile, ResumeState, SyncFlags};
use syvh::{for_each_case, unhex};

fn t(ns: i64) -> SystemTime {
    let a = ns.unsigned_abs();
    let d = Duration::new(a / 1_000_000_000, (a % 1_000_000_000) as u32);
    if ns >= 0 { UNIX_EPOCH + d } else { UNIX_EPOCH - d }
}

fn main() {
    for_each_case(|tk| match tk[0] {
        "DB" => {
            let dir = String::from_utf8(unhex(tk[1])).unwrap();
            let _ = std::fs::remove_file(Path::new(&dir).join(".sy-checksums.db"));
            let db = match ChecksumDatabase::open(Path::new(&dir)) {
                Ok(d) => d,
                Err(_) => return "OPENERR".into(),
            };
            let mut out = Vec::new();
            for op in tk[2].split(',') {
                let f: Vec<&str> = op.split(':').collect();
                // ids from 100: names that are not valid UTF-8 and differ only in the invalid byte (their lossy forms are equal)
                let id: u32 = f[1].parse().unwrap();
                let path = if id >= 100 {
                    use std::os::unix::ffi::OsStringExt;
                    let mut b = b"/src/n".to_vec();
                    b.push(0xF0 + (id - 100) as u8);
                    b.extend_from_slice(b".bin");
                    PathBuf::from(std::ffi::OsString::from_vec(b))
                } else {
                    PathBuf::from(format!("/src/p{}", id))
                };
                let mt = t(f[2].parse().unwrap());
                let sz: u64 = f[3].parse().unwrap();
                match f[0] {
                    "s" => {
                        let sum: u64 = f[4].parse().unwrap();
                        db.store_checksum(&path, mt, sz, &Checksum::Fast(sum.to_le_bytes().to_vec())).unwrap();
                    }
                    _ => match db.get_checksum(&path, mt, sz, "fast") {
                        Ok(Some(Checksum::Fast(v))) => {
                            let mut b = [0u8; 8];
                            b.copy_from_slice(&v[..8]);
                            out.push(format!("h{}", u64::from_le_bytes(b)));
                        }
                        Ok(_) => out.push("m".into()),
                        Err(_) => out.push("e".into()),
                    },
                }
            }
            if out.is_empty() { "-".into() } else { out.join(",") }
        }
        "DC" => {
            let mut c = DirectoryCache::new();
            let mut out = Vec::new();
            for op in tk[1].split(',') {
                let f: Vec<&str> = op.split(':').collect();
                let path = if f[1] == "0" { PathBuf::from(".") } else { PathBuf::from(format!("d{}", f[1])) };
                let mt = t(f[2].parse().unwrap());
                match f[0] {
                    "u" => c.update(path, mt),
                    _ => out.push(if c.needs_rescan(&path, mt) { "1".to_string() } else { "0".to_string() }),
                }
            }
            if out.is_empty() { "-".into() } else { out.join(",") }
        }
        "RS" => {
            let dir = String::from_utf8(unhex(tk[1])).unwrap();
            let flags = SyncFlags { delete: tk[2] == "1", exclude: vec![], min_size: None, max_size: None };
            let mut st = ResumeState::new(PathBuf::from("/s"), PathBuf::from(&dir), flags, 10);
            if tk[3] != "-" {
                // what an interrupted run records for a file it completed: the size and xxhash3 of what it transferred,
                // read here from the copy that is in the destination
                let verifier = sy::integrity::IntegrityVerifier::new(sy::integrity::ChecksumType::Fast, false);
                for h in tk[3].split(',') {
                    let rel = String::from_utf8(unhex(h)).unwrap();
                    let full = Path::new(&dir).join(&rel);
                    let size = std::fs::metadata(&full).map(|m| m.len()).unwrap_or(1);
                    let sum = verifier.compute_file_checksum(&full).map(|c| c.to_hex()).unwrap_or_else(|_| "0".into());
                    st.add_completed_file(
                        CompletedFile { relative_path: PathBuf::from(rel), action: "create".into(), size, checksum: format!("xxhash3:{}", sum), completed_at: tk.get(4).map(|x| x.to_string()).unwrap_or_else(|| "2020-01-01T00:00:00+00:00".into()) },
                        size,
                    );
                }
            }
            match st.save(Path::new(&dir)) { Ok(_) => "ok".into(), Err(e) => format!("ERR {}", e).replace(' ', "_") }
        }
        _ => "BADCASE".into(),
    });
}
