//! C04 correspondence: runs the implementation's delta pipeline on the cases
//! of a case file (same format as ocaml/driver.ml) and prints canonical lines.
use std::io::Write;
use std::process::{Command, Stdio};
use sy::delta::{
    apply_delta, compute_checksums, generate_delta, generate_delta_streaming, Adler32,
    BlockChecksum, Delta, DeltaOp,
};
use syvh::{classes, for_each_case, hex, unhex};

fn ops_str(d: &Delta) -> String {
    if d.ops.is_empty() {
        return "-".into();
    }
    d.ops
        .iter()
        .map(|o| match o {
            DeltaOp::Copy { offset, size } => format!("C{}:{}", offset, size),
            DeltaOp::Data(v) => format!("D{}", hex(v)),
        })
        .collect::<Vec<_>>()
        .join(",")
}

fn cks_str(c: &[BlockChecksum]) -> String {
    if c.is_empty() {
        return "-".into();
    }
    let cls = classes(&c.iter().map(|x| x.strong).collect::<Vec<_>>());
    c.iter()
        .zip(cls)
        .map(|(x, k)| format!("{}:{}:{}:{}", x.offset, x.size, x.weak, k))
        .collect::<Vec<_>>()
        .join(",")
}

fn main() {
    let dir = tempfile::tempdir().unwrap();
    let remote = std::env::var("SY_REMOTE_BIN").unwrap_or_default();
    for_each_case(|t| {
        let p_old = dir.path().join("old");
        let p_new = dir.path().join("new");
        let p_out = dir.path().join("out");
        match t[0] {
            "D" => {
                let bs: usize = t[1].parse().unwrap();
                std::fs::write(&p_old, unhex(t[3])).unwrap();
                std::fs::write(&p_new, unhex(t[4])).unwrap();
                let cks = compute_checksums(&p_old, bs).unwrap();
                let m = generate_delta(&p_new, &cks, bs).unwrap();
                let s = generate_delta_streaming(&p_new, &cks, bs).unwrap();
                let app = |d: &Delta| -> String {
                    // a leftover of an interrupted earlier transfer sits at the output path: longer than anything
                    // reconstructed here and non-zero everywhere -- the result must not contain any of it
                    std::fs::write(&p_out, vec![0xEEu8; 3 * (unhex(t[3]).len() + unhex(t[4]).len()) + 777]).unwrap();
                    match apply_delta(&p_old, d, &p_out) {
                        Ok(_) => hex(&std::fs::read(&p_out).unwrap()),
                        Err(_) => "ERR".into(),
                    }
                };
                format!(
                    "cks={} mem={} str={} app={} apps={}",
                    cks_str(&cks),
                    ops_str(&m),
                    ops_str(&s),
                    app(&m),
                    app(&s)
                )
            }
            "DS" => {
                let bs: usize = t[1].parse().unwrap();
                std::fs::write(&p_old, unhex(t[3])).unwrap();
                std::fs::write(&p_new, unhex(t[4])).unwrap();
                let cks = compute_checksums(&p_old, bs).unwrap();
                let s = generate_delta_streaming(&p_new, &cks, bs).unwrap();
                // a leftover of an interrupted earlier transfer sits at the output path: longer than anything
                    // reconstructed here and non-zero everywhere -- the result must not contain any of it
                    std::fs::write(&p_out, vec![0xEEu8; 3 * (unhex(t[3]).len() + unhex(t[4]).len()) + 777]).unwrap();
                let a = match apply_delta(&p_old, &s, &p_out) {
                    Ok(_) => hex(&std::fs::read(&p_out).unwrap()),
                    Err(_) => "ERR".into(),
                };
                format!("str={} apps={}", ops_str(&s), a)
            }
            "B" => {
                let n: u64 = t[1].parse().unwrap();
                format!("bsz={}", sy::delta::calculate_block_size(n))
            }
            "R" => {
                let bs: usize = t[1].parse().unwrap();
                let data = unhex(t[2]);
                let mut rolled = Vec::new();
                let mut direct = Vec::new();
                if data.len() >= bs {
                    let mut a = Adler32::new(bs);
                    a.update_block(&data[..bs]);
                    rolled.push(a.digest());
                    for i in 0..data.len() - bs {
                        a.roll(data[i], data[i + bs]);
                        rolled.push(a.digest());
                    }
                    for i in 0..=data.len() - bs {
                        let mut d = Adler32::new(bs);
                        d.update_block(&data[i..i + bs]);
                        direct.push(d.digest());
                    }
                } else {
                    let mut a = Adler32::new(bs);
                    a.update_block(&data);
                    rolled.push(a.digest());
                }
                let f = |v: &Vec<u32>| v.iter().map(|x| x.to_string()).collect::<Vec<_>>().join(",");
                format!("hash={} rolled={} direct={}", Adler32::hash(&data), f(&rolled), f(&direct))
            }
            "W" => {
                // wire path of ssh.rs: remote checksums -> streaming delta -> JSON [-> zstd] -> sy-remote apply-delta
                let bs: usize = t[1].parse().unwrap();
                let mode = t[2];
                std::fs::write(&p_old, unhex(t[3])).unwrap();
                std::fs::write(&p_new, unhex(t[4])).unwrap();
                let out = Command::new(&remote)
                    .arg("checksums")
                    .arg(&p_old)
                    .arg("--block-size")
                    .arg(bs.to_string())
                    .output()
                    .unwrap();
                let cks: Vec<BlockChecksum> = match serde_json::from_slice(&out.stdout) {
                    Ok(c) => c,
                    Err(_) => return "ckw=ERR wire=ERR".into(),
                };
                let d = generate_delta_streaming(&p_new, &cks, bs).unwrap();
                let json = serde_json::to_string(&d).unwrap();
                let payload = if mode == "z" {
                    sy::compress::compress(json.as_bytes(), sy::compress::Compression::Zstd).unwrap()
                } else {
                    json.into_bytes()
                };
                // a leftover of an interrupted earlier transfer sits at the output path: longer than anything
                    // reconstructed here and non-zero everywhere -- the result must not contain any of it
                    std::fs::write(&p_out, vec![0xEEu8; 3 * (unhex(t[3]).len() + unhex(t[4]).len()) + 777]).unwrap();
                let mut ch = Command::new(&remote)
                    .arg("apply-delta")
                    .arg(&p_old)
                    .arg(&p_out)
                    .stdin(Stdio::piped())
                    .stdout(Stdio::piped())
                    .stderr(Stdio::null())
                    .spawn()
                    .unwrap();
                ch.stdin.take().unwrap().write_all(&payload).unwrap();
                let o = ch.wait_with_output().unwrap();
                let w = if o.status.success() {
                    hex(&std::fs::read(&p_out).unwrap())
                } else {
                    "ERR".into()
                };
                format!("ckw={} wire={}", cks_str(&cks), w)
            }
            _ => "BADCASE".into(),
        }
    });
}
