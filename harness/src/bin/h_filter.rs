//! C16 correspondence: FilterEngine decisions and scanner listings.
//!  F <k:hex,k:hex,...|-> <d|f:hexpath,...>   -> bits (one per entry) or rules=ERR
//!  L <hexdir>                                 -> scanner listing: d|f|l:hexpath:size,...
use std::path::Path;
use sy::filter::FilterEngine;
use syvh::{for_each_case, hex, unhex};

fn build(spec: &str) -> Option<FilterEngine> {
    let mut fe = FilterEngine::new();
    if spec == "-" {
        return Some(fe);
    }
    for item in spec.split(',') {
        let (k, h) = item.split_once(':').unwrap();
        let text = String::from_utf8(unhex(h)).unwrap();
        let r = match k {
            "0" => fe.add_rule(&text),
            "1" => fe.add_include(&text),
            _ => fe.add_exclude(&text),
        };
        if r.is_err() {
            return None;
        }
    }
    Some(fe)
}

fn main() {
    for_each_case(|t| match t[0] {
        "F" => {
            let fe = match build(t[1]) {
                Some(f) => f,
                None => return "rules=ERR".into(),
            };
            let mut out = String::new();
            for e in t[2].split(',') {
                let (k, h) = e.split_once(':').unwrap();
                // the bytes as they are: names that are not valid UTF-8 included
                let p = {
                    use std::os::unix::ffi::OsStringExt;
                    std::path::PathBuf::from(std::ffi::OsString::from_vec(unhex(h)))
                };
                out.push(if fe.should_include(&p, k == "d") { '1' } else { '0' });
            }
            out
        }
        "L" => {
            let dir = String::from_utf8(unhex(t[1])).unwrap();
            let sc = sy::sync::scanner::Scanner::new(Path::new(&dir));
            match sc.scan() {
                Ok(v) => {
                    let items: Vec<String> = v
                        .iter()
                        .map(|e| {
                            format!(
                                "{}:{}:{}",
                                if e.is_dir { "d" } else if e.is_symlink { "l" } else { "f" },
                                hex({
                                    use std::os::unix::ffi::OsStrExt;
                                    e.relative_path.as_os_str().as_bytes()
                                }),
                                e.size
                            )
                        })
                        .collect();
                    if items.is_empty() { "-".into() } else { items.join(",") }
                }
                Err(_) => "ERR".into(),
            }
        }
        _ => "BADCASE".into(),
    });
}
