//! C05 / C09 correspondence: working-file naming.
//!  TN <hexname>            -> file name (hex) of sy::temp_file::temp_path_for("/d/<name>"), and whether the parent is kept
//!  WX <hexname> <hexext>   -> file name (hex) of std's Path::with_extension (validates the model of the pinned naming)
use std::ffi::OsStr;
use std::os::unix::ffi::OsStrExt;
use std::path::Path;
use syvh::{for_each_case, hex, unhex};

fn main() {
    for_each_case(|t| match t[0] {
        "TN" => {
            let name = unhex(t[1]);
            let dest = Path::new("/d/sub").join(OsStr::from_bytes(&name));
            let tp = sy::temp_file::temp_path_for(&dest);
            let same_dir = tp.parent() == dest.parent();
            format!(
                "name={} samedir={}",
                hex(tp.file_name().map(|n| n.as_bytes()).unwrap_or(b"")),
                same_dir as u8
            )
        }
        "WX" => {
            let name = unhex(t[1]);
            let ext = unhex(t[2]);
            let dest = Path::new("/d/sub").join(OsStr::from_bytes(&name));
            let tp = dest.with_extension(OsStr::from_bytes(&ext));
            format!("name={}", hex(tp.file_name().map(|n| n.as_bytes()).unwrap_or(b"")))
        }
        _ => "BADCASE".into(),
    });
}
