//! C14 correspondence: the real sy-remote helper, sy::compress and sy::sparse.
use std::io::Write;
use std::os::unix::fs::FileExt;
use std::path::Path;
use std::process::{Command, Stdio};
use sy::compress::{compress, decompress, is_compressed_extension, should_compress_smart, Compression, CompressionDetection};
use syvh::{for_each_case, hex, unhex};

fn run_helper(args: &[String], payload: &[u8]) -> (bool, String) {
    let remote = std::env::var("SY_REMOTE_BIN").unwrap();
    let mut ch = Command::new(remote)
        .args(args)
        .stdin(Stdio::piped())
        .stdout(Stdio::piped())
        .stderr(Stdio::null())
        .spawn()
        .unwrap();
    {
        let mut si = ch.stdin.take().unwrap();
        let _ = si.write_all(payload);
    }
    let o = ch.wait_with_output().unwrap();
    (o.status.success(), String::from_utf8_lossy(&o.stdout).to_string())
}

fn main() {
    let dir = tempfile::Builder::new().prefix("syvh-wire.").tempdir_in("/var/tmp").unwrap();
    for_each_case(|t| {
        let out = dir.path().join("out");
        // whatever the destination contained before: every other case starts from a longer file of non-zero bytes
        let _ = std::fs::remove_file(&out);
        if t[0] == "SP" || (t.len() > 1 && (t[1].len() + t.last().map(|x| x.len()).unwrap_or(0)) % 2 == 0) {
            let _ = std::fs::write(&out, vec![0xEEu8; 300_000]);
        }
        match t[0] {
            "RF" => {
                let x = unhex(t[2]);
                let payload = match t[1] {
                    "z" => compress(&x, Compression::Zstd).unwrap(),
                    "l" => compress(&x, Compression::Lz4).unwrap(),
                    _ => x.clone(),
                };
                let (ok, _) = run_helper(
                    &["receive-file".into(), out.to_string_lossy().to_string(), "--mtime".into(), "1234567".into()],
                    &payload,
                );
                let (data, mt) = match std::fs::read(&out) {
                    Ok(d) => {
                        let m = std::fs::metadata(&out).unwrap().modified().unwrap();
                        (hex(&d), m.duration_since(std::time::UNIX_EPOCH).unwrap().as_secs().to_string())
                    }
                    Err(_) => ("NOFILE".into(), "-".into()),
                };
                format!("rc={} out={} mtime={} magic={}", if ok { 0 } else { 1 }, data, mt,
                        if payload.len() >= 4 && payload[..4] == [0x28, 0xB5, 0x2F, 0xFD] { 1 } else { 0 })
            }
            "CR" => {
                let x = unhex(t[1]);
                let z = decompress(&compress(&x, Compression::Zstd).unwrap(), Compression::Zstd).map(|y| y == x).unwrap_or(false);
                let l = decompress(&compress(&x, Compression::Lz4).unwrap(), Compression::Lz4).map(|y| y == x).unwrap_or(false);
                let n = decompress(&compress(&x, Compression::None).unwrap(), Compression::None).map(|y| y == x).unwrap_or(false);
                format!("z={} l={} n={}", z as u8, l as u8, n as u8)
            }
            "CD" => {
                let local = t[1] == "1";
                let mode = match t[2] {
                    "auto" => CompressionDetection::Auto,
                    "extension" => CompressionDetection::Extension,
                    "always" => CompressionDetection::Always,
                    _ => CompressionDetection::Never,
                };
                let size: u64 = t[3].parse().unwrap();
                let fname = String::from_utf8(unhex(t[4])).unwrap();
                let sample = dir.path().join("sample");
                let path: Option<&Path> = match t[5] {
                    "c" => {
                        std::fs::write(&sample, "the quick brown fox jumps over the lazy dog\n".repeat(5000)).unwrap();
                        Some(&sample)
                    }
                    "i" => {
                        let mut s: u64 = 0x9E3779B97F4A7C15;
                        let v: Vec<u8> = (0..200_000).map(|_| { s ^= s << 13; s ^= s >> 7; s ^= s << 17; (s >> 24) as u8 }).collect();
                        std::fs::write(&sample, v).unwrap();
                        Some(&sample)
                    }
                    "e" => Some(Path::new("/nonexistent/verif/sample")),
                    _ => None,
                };
                let d = should_compress_smart(path, &fname, size, local, mode);
                format!("dec={} ext={}", d.as_str(), is_compressed_extension(&fname) as u8)
            }
            "SP" => {
                let total: u64 = t[1].parse().unwrap();
                let regs: Vec<(u64, u64)> = if t[2] == "-" { vec![] } else {
                    t[2].split(';').map(|r| { let (a, b) = r.split_once(':').unwrap(); (a.parse().unwrap(), b.parse().unwrap()) }).collect()
                };
                let json = format!("[{}]", regs.iter().map(|(o, l)| format!("{{\"offset\":{},\"length\":{}}}", o, l)).collect::<Vec<_>>().join(","));
                let (ok, _) = run_helper(
                    &["receive-sparse-file".into(), out.to_string_lossy().to_string(), "--total-size".into(), total.to_string(), "--regions".into(), json],
                    &unhex(t[3]),
                );
                let data = std::fs::read(&out).map(|d| hex(&d)).unwrap_or("NOFILE".into());
                format!("rc={} out={}", if ok { 0 } else { 1 }, data)
            }
            "DR" => {
                // build a sparse file: total size, data extents o:l;... filled with non-zero bytes; then detect
                let total: u64 = t[1].parse().unwrap();
                let p = if t.len() > 3 { std::path::PathBuf::from(String::from_utf8(unhex(t[3])).unwrap()) } else { dir.path().join("sparse") };
                let _ = std::fs::remove_file(&p);
                let f = std::fs::File::create(&p).unwrap();
                f.set_len(total).unwrap();
                if t[2] != "-" {
                    for r in t[2].split(';') {
                        let (a, b) = r.split_once(':').unwrap();
                        let (o, l): (u64, usize) = (a.parse().unwrap(), b.parse().unwrap());
                        let v: Vec<u8> = (0..l).map(|i| ((o as usize + i) % 251 + 1) as u8).collect();
                        f.write_all_at(&v, o).unwrap();
                    }
                }
                f.sync_all().unwrap();
                drop(f);
                let regs = match sy::sparse::detect_data_regions(&p) {
                    Ok(r) => {
                        if r.is_empty() { "-".to_string() } else { r.iter().map(|x| format!("{}:{}", x.offset, x.length)).collect::<Vec<_>>().join(";") }
                    }
                    Err(_) => "ERR".into(),
                };
                format!("regs={} file={}", regs, p.display())
            }
            _ => "BADCASE".into(),
        }
    });
}
