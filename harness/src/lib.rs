//! Shared helpers of the correspondence harness bins.
use std::io::BufRead;

pub fn unhex(s: &str) -> Vec<u8> {
    if s == "-" {
        return Vec::new();
    }
    let b = s.as_bytes();
    let v = |c: u8| -> u8 {
        match c {
            b'0'..=b'9' => c - b'0',
            b'a'..=b'f' => c - b'a' + 10,
            b'A'..=b'F' => c - b'A' + 10,
            _ => panic!("bad hex"),
        }
    };
    (0..b.len() / 2).map(|i| v(b[2 * i]) * 16 + v(b[2 * i + 1])).collect()
}

pub fn hex(d: &[u8]) -> String {
    if d.is_empty() {
        return "-".to_string();
    }
    let mut s = String::with_capacity(d.len() * 2);
    for b in d {
        s.push_str(&format!("{:02x}", b));
    }
    s
}

/// equality classes by first occurrence
pub fn classes<T: PartialEq + Clone>(xs: &[T]) -> Vec<usize> {
    let mut seen: Vec<T> = Vec::new();
    xs.iter()
        .map(|x| match seen.iter().position(|y| y == x) {
            Some(i) => i,
            None => {
                seen.push(x.clone());
                seen.len() - 1
            }
        })
        .collect()
}

/// Run `f` on every non-empty stdin line (split on spaces); a panic inside `f`
/// prints `PANIC` for that case instead of aborting the batch.
pub fn for_each_case<F: Fn(&[&str]) -> String + std::panic::RefUnwindSafe>(f: F) {
    std::panic::set_hook(Box::new(|_| {}));
    let stdin = std::io::stdin();
    for line in stdin.lock().lines() {
        let line = line.unwrap();
        let toks: Vec<&str> = line.trim().split(' ').filter(|t| !t.is_empty()).collect();
        if toks.is_empty() {
            continue;
        }
        let r = std::panic::catch_unwind(|| f(&toks));
        match r {
            Ok(s) => println!("{}", s),
            Err(_) => println!("PANIC"),
        }
    }
}
