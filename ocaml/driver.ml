(* Driver for the extracted Gallina model.  Reads one case per line on stdin,
   prints one canonical result line per case on stdout.  The same case file is
   fed to the Rust harness (harness/src/bin/*.rs); py/ compares the outputs. *)
open Model

let rec pos_of_int n = if n = 1 then XH else if n land 1 = 0 then XO (pos_of_int (n lsr 1)) else XI (pos_of_int (n lsr 1))
let z_of_int n = if n = 0 then Z0 else if n > 0 then Zpos (pos_of_int n) else Zneg (pos_of_int (-n))
let rec int_of_pos = function XH -> 1 | XO p -> 2 * int_of_pos p | XI p -> 2 * int_of_pos p + 1
let int_of_z = function Z0 -> 0 | Zpos p -> int_of_pos p | Zneg p -> - (int_of_pos p)
let rec nat_of_int n = let rec go acc n = if n = 0 then acc else go (S acc) (n - 1) in go O n

let hexval c = match c with
  | '0'..'9' -> Char.code c - 48 | 'a'..'f' -> Char.code c - 87 | 'A'..'F' -> Char.code c - 55
  | _ -> failwith "hex"

(* bytes <-> hex; "-" is the empty string *)
let bytes_of_hex (s : string) : z list =
  if s = "-" then [] else begin
    let n = String.length s / 2 in
    let r = ref [] in
    for i = n - 1 downto 0 do
      r := z_of_int (hexval s.[2*i] * 16 + hexval s.[2*i+1]) :: !r
    done; !r end

let hex_of_bytes (l : z list) : string =
  match l with [] -> "-" | _ ->
  let b = Buffer.create 1024 in
  List.iter (fun z -> Buffer.add_string b (Printf.sprintf "%02x" (int_of_z z))) l;
  Buffer.contents b

let str_of_ops (ops : op list) : string =
  match ops with [] -> "-" | _ ->
  String.concat "," (List.map (function
    | Copy (o, s) -> Printf.sprintf "C%d:%d" (int_of_z o) (int_of_z s)
    | Data d -> "D" ^ hex_of_bytes d) ops)

let str_of_ops_opt = function None -> "FUEL" | Some ops -> str_of_ops ops

(* strong hashes are printed as equality classes by first occurrence *)
let classes (eq : 'a -> 'a -> bool) (xs : 'a list) : int list =
  let seen = ref [] in
  List.map (fun x ->
    let rec find i = function [] -> None | y :: t -> if eq x y then Some i else find (i+1) t in
    match find 0 (List.rev !seen) with
    | Some i -> i
    | None -> seen := x :: !seen; List.length !seen - 1) xs

let str_of_cks (cks : z list cksum list) : string =
  match cks with [] -> "-" | _ ->
  let cls = classes list_eqb (List.map (fun c -> c.c_strong) cks) in
  String.concat "," (List.map2 (fun c k ->
    Printf.sprintf "%d:%d:%d:%d" (int_of_z c.c_off) (int_of_z c.c_size) (int_of_z c.c_weak) k) cks cls)


(* ---- strings as code-point lists (N) ---- *)
let rec n_of_int n = if n = 0 then N0 else Npos (pos_of_int n)
let int_of_n = function N0 -> 0 | Npos p -> int_of_pos p
let raw_of_hex (s : string) : int list =
  if s = "-" then [] else List.init (String.length s / 2) (fun i -> hexval s.[2*i] * 16 + hexval s.[2*i+1])
(* UTF-8 decode (inputs are valid UTF-8 produced by the generators) *)
let rec utf8 (b : int list) : int list = match b with
  | [] -> []
  | c :: t when c >= 0xF8 -> 0xFFFD :: utf8 t          (* a byte that no UTF-8 sequence contains: the lossy form has one U+FFFD for it *)
  | c :: t when c < 0x80 -> c :: utf8 t
  | c :: d :: t when c < 0xE0 -> (((c land 0x1F) lsl 6) lor (d land 0x3F)) :: utf8 t
  | c :: d :: e :: t when c < 0xF0 -> (((c land 0x0F) lsl 12) lor ((d land 0x3F) lsl 6) lor (e land 0x3F)) :: utf8 t
  | c :: d :: e :: f :: t -> (((c land 0x07) lsl 18) lor ((d land 0x3F) lsl 12) lor ((e land 0x3F) lsl 6) lor (f land 0x3F)) :: utf8 t
  | _ -> []
let str_of_hex h : n list = List.map n_of_int (utf8 (raw_of_hex h))
let split_path (s : n list) : n list list =
  let rec go cur acc = function
    | [] -> List.rev (if cur = [] then acc else List.rev cur :: acc)
    | c :: t -> if int_of_n c = 47 then go [] (if cur = [] then acc else List.rev cur :: acc) t else go (c :: cur) acc t in
  go [] [] s
let rules_of_spec spec =
  if spec = "-" then Some [] else
  build_rules (List.map (fun item ->
    match String.split_on_char ':' item with
    | [k; h] -> (n_of_int (int_of_string k), str_of_hex h)
    | _ -> failwith "rule") (String.split_on_char ',' spec))
let optn s = if s = "-" then None else Some (n_of_int (int_of_string s))


(* ---- bisync ---- *)
let fent_of t = if t = "-" then None else match String.split_on_char ':' t with
  | [a; b] -> Some { f_size = n_of_int (int_of_string a); f_mtime = z_of_int (int_of_string b); f_content = N0 } | _ -> failwith "fent"
let srec_of t = if t = "-" then None else match String.split_on_char ':' t with
  | [a; b] -> Some { s_mtime = z_of_int (int_of_string a); s_size = n_of_int (int_of_string b) } | _ -> failwith "srec"
let chg_name = function
  | NewInSource -> "NewInSource" | NewInDest -> "NewInDest" | ModifiedInSource -> "ModifiedInSource"
  | ModifiedInDest -> "ModifiedInDest" | DeletedFromSource -> "DeletedFromSource" | DeletedFromDest -> "DeletedFromDest"
  | ModifiedBoth -> "ModifiedBoth" | CreateCreateConflict -> "CreateCreateConflict" | ModifyDeleteConflict -> "ModifyDeleteConflict"
let act_name = function
  | CopyToSource -> "CopyToSource" | CopyToDest -> "CopyToDest" | DeleteFromSource -> "DeleteFromSource"
  | DeleteFromDest -> "DeleteFromDest" | RenameConflict -> "RenameConflict"
let strat_of = function
  | "newer" -> Newer | "larger" -> Larger | "smaller" -> Smaller | "source" -> PreferSource | "dest" -> PreferDest | _ -> RenameBoth
let all_strats = [Newer; Larger; Smaller; PreferSource; PreferDest; RenameBoth]
let bisync_universe (ids : int list) : int list =
  let cn p = List.concat_map (fun k -> [16*p + 4*k + 1; 16*p + 4*k + 2]) [0; 1; 2; 3] in
  let l1 = List.concat_map cn ids in
  let l2 = List.concat_map cn l1 in
  List.sort_uniq compare (ids @ l1 @ l2)
let fmt_side (u : int list) (m : n -> fent option) =
  String.concat "," (List.filter_map (fun p -> match m (n_of_int p) with
    | Some f -> Some (Printf.sprintf "%d=%d/%d/%d" p (int_of_n f.f_size) (int_of_n f.f_content) (int_of_z f.f_mtime))
    | None -> None) u)
let fmt_db (u : int list) (w : world) =
  let f = function Some r -> Printf.sprintf "%d/%d" (int_of_z r.s_mtime) (int_of_n r.s_size) | None -> "-" in
  String.concat "," (List.filter_map (fun p ->
    match w.w_dbs (n_of_int p), w.w_dbd (n_of_int p) with
    | None, None -> None
    | a, b -> Some (Printf.sprintf "%d=S:%s|D:%s" p (f a) (f b))) u)


(* ---- engine ---- *)
let path_of_str (t : string) : n list = if t = "" then [] else List.map (fun c -> n_of_int (int_of_string c)) (String.split_on_char '.' t)
let str_of_path (p : n list) : string = String.concat "." (List.map (fun c -> string_of_int (int_of_n c)) p)
let kv_of (t : string) : (string * string) list =
  List.filter_map (fun kv -> match String.split_on_char '=' kv with [k; v] -> Some (k, v) | _ -> None) (String.split_on_char ',' t)
let zint s = z_of_int (int_of_string s)
let nint s = n_of_int (int_of_string s)
let act_str = function ASkip -> "skip" | ACreate -> "create" | AUpdate -> "update" | ADelete -> "delete"
let err_str = function E_NotDir -> "ENOTDIR" | E_IsDir -> "EISDIR" | E_NoEnt -> "ENOENT"
let dirstat : (string, (n * z)) Hashtbl.t = Hashtbl.create 64
let fs_of_entries (ents : string) : (n list -> node option) * n list list =
  let items = if ents = "-" then [] else String.split_on_char ',' ents in
  let tbl = Hashtbl.create 64 in
  let order = ref [] in
  Hashtbl.reset dirstat;
  List.iter (fun it -> match String.split_on_char ':' it with
    | ["d"; p] -> Hashtbl.replace tbl p Dir; order := path_of_str p :: !order
    | ["d"; p; sz; mt] -> Hashtbl.replace tbl p Dir; Hashtbl.replace dirstat p (nint sz, zint mt); order := path_of_str p :: !order
    | ["f"; p; sz; mt; c] -> Hashtbl.replace tbl p (File (nint c, nint sz, zint mt)); order := path_of_str p :: !order
    | _ -> failwith "dst entry") items;
  ((fun p -> Hashtbl.find_opt tbl (str_of_path p)), List.rev !order)
let str_of_fs (m : n list -> node option) (u : n list list) : string =
  let items = List.filter_map (fun p -> match m p with
    | Some Dir -> Some ("d:" ^ str_of_path p)
    | Some (File (c, sz, mt)) -> Some (Printf.sprintf "f:%s:%d:%d:%d" (str_of_path p) (int_of_n sz) (int_of_z mt) (int_of_n c))
    | None -> None) u in
  if items = [] then "-" else String.concat "," (List.sort compare items)

let app_str old = function
  | None -> "NOOPS"
  | Some ops -> (match apply old ops with None -> "ERR" | Some l -> hex_of_bytes l)

let handle (toks : string list) : string =
  match toks with
  | ["D"; bs; chunk; oldh; newh] ->
      (* delta: checksums, in-memory ops, streaming ops, both applied *)
      (* the chunk of the streaming generator holds at least one block (Delta.stream_chunk) *)
      let bs = z_of_int (int_of_string bs) in let chunk = Z.max (z_of_int (int_of_string chunk)) bs in
      let old = bytes_of_hex oldh and nw = bytes_of_hex newh in
      let cks = cks_id bs old in
      let m = gen_mem_id bs old nw in
      let s = gen_stream_id chunk bs old nw in
      Printf.sprintf "cks=%s mem=%s str=%s app=%s apps=%s"
        (str_of_cks cks) (str_of_ops_opt m) (str_of_ops_opt s) (app_str old m) (app_str old s)
  | ["DS"; bs; chunk; oldh; newh] ->
      (* streaming generator only (large inputs) *)
      (* the chunk of the streaming generator holds at least one block (Delta.stream_chunk) *)
      let bs = z_of_int (int_of_string bs) in let chunk = Z.max (z_of_int (int_of_string chunk)) bs in
      let old = bytes_of_hex oldh and nw = bytes_of_hex newh in
      let s = gen_stream_id chunk bs old nw in
      Printf.sprintf "str=%s apps=%s" (str_of_ops_opt s) (app_str old s)
  | ["W"; bs; _mode; oldh; newh] ->
      (* wire path: model = streaming generator with the source's CHUNK_SIZE, applied (codecs are oracles) *)
      let bs = z_of_int (int_of_string bs) in
      let old = bytes_of_hex oldh and nw = bytes_of_hex newh in
      Printf.sprintf "ckw=%s wire=%s" (str_of_cks (cks_id bs old)) (app_str old (gen_stream_impl bs old nw))
  | ["B"; n] -> Printf.sprintf "bsz=%d" (int_of_z (block_size_for (zint n)))
  | ["R"; bs; datah] ->
      let bsn = int_of_string bs in
      let data = bytes_of_hex datah in
      let rolled = roll_run (nat_of_int bsn) data in
      let direct = List.map (fun w -> digest (state_of w)) (windows (nat_of_int (List.length data + 1)) (nat_of_int bsn) data) in
      let h = hash data in
      let f l = String.concat "," (List.map (fun z -> string_of_int (int_of_z z)) l) in
      Printf.sprintf "hash=%d rolled=%s direct=%s" (int_of_z h) (f rolled) (f direct)
  | ["F"; spec; ents] ->
      (match rules_of_spec spec with
       | None -> "rules=ERR"
       | Some rules ->
         String.concat "" (List.map (fun e ->
           match String.split_on_char ':' e with
           | [k; h] -> if should_include rules (split_path (str_of_hex h)) (k = "d") then "1" else "0"
           | _ -> "?") (String.split_on_char ',' ents)))
  | ["S"; spec; mn; mx; ents] ->
      (* engine selection over a scanner listing: prints the indexes of the selected entries *)
      (match rules_of_spec spec with
       | None -> "rules=ERR"
       | Some rules ->
         let es = if ents = "-" then [] else List.mapi (fun i e ->
           match String.split_on_char ':' e with
           | [k; h; sz] -> (i, { e_path = split_path (str_of_hex h); e_is_dir = (k = "d"); e_size = n_of_int (int_of_string sz) })
           | _ -> failwith "entry") (String.split_on_char ',' ents) in
         let sel = engine_select rules (optn mn) (optn mx) (List.map snd es) in
         (* entries are distinct by path, recover indexes by physical position *)
         let idx = List.filter_map (fun (i, e) -> if List.exists (fun s -> s == e) sel then Some (string_of_int i) else None) es in
         Printf.sprintf "wf=%d sel=%s" (if listing_ok (List.map snd es) then 1 else 0) (if idx = [] then "-" else String.concat "," idx))
  | ["K"; s; d; ps; pd] ->
      let s = fent_of s and d = fent_of d and ps = srec_of ps and pd = srec_of pd in
      (match classify s d ps pd with
       | None -> "chg=none acts=-"
       | Some c ->
         let acts = List.map (fun st -> match resolve st c s d with Some a -> act_name a | None -> "") all_strats in
         Printf.sprintf "chg=%s acts=%s" (chg_name c) (String.concat "," acts))
  | ["H"; steps] ->
      let steps = String.split_on_char ';' steps in
      let ids = List.sort_uniq compare (List.filter_map (fun st -> match String.split_on_char ':' st with
        | "e" :: _ :: id :: _ -> Some (int_of_string id) | "w" :: _ :: id :: _ -> Some (int_of_string id) | _ -> None) steps) in
      let u = bisync_universe ids in
      let un = List.map n_of_int u in
      let out = ref [] in
      let _ = List.fold_left (fun (t, w) st ->
        let t' = t + 1 in
        match String.split_on_char ':' st with
        | ["e"; sd; id; kind; size; content] ->
            let e = (match kind with "c" -> Create (n_of_int (int_of_string size), n_of_int (int_of_string content)) | "d" -> Delete | _ -> Touch) in
            let stp = Edit ((if sd = "S" then Source else Dest), n_of_int (int_of_string id), e) in
            let (_, w') = run_step un (z_of_int t, w) stp in (t', w')
        | ["w"; sd; id; size; content; mt] ->
            (t', write_at (if sd = "S" then Source else Dest) (n_of_int (int_of_string id))
                   { f_size = n_of_int (int_of_string size); f_mtime = z_of_int (int_of_string mt); f_content = n_of_int (int_of_string content) } w)
        | ["x"; sd; id] ->
            (t', drop_row (if sd = "S" then Source else Dest) (n_of_int (int_of_string id)) w)
        | ["s"; stname; maxdel] ->
            let r = bisync un (strat_of stname) (n_of_int (int_of_string maxdel)) (z_of_int t') w in
            let (status, w') = (match r with Some w' -> ("ok", w') | None -> ("refused", w)) in
            out := Printf.sprintf "%s src{%s} dst{%s} db{%s}" status (fmt_side u w'.w_src) (fmt_side u w'.w_dst) (fmt_db u w') :: !out;
            (t', w')
        | _ -> failwith "step") (0, empty_world) steps in
      if !out = [] then "-" else String.concat " ; " (List.rev !out)
  | ["EF"; flags; now; srcs; dsts; extra; keepstr; faults; junks] ->
      (* the engine with injected faults (Model/EngineFaults.v): faults = source paths whose transfer failed, junks = what was left
         at those paths (dst-entry format; a path not listed is left absent) *)
      let kv = kv_of flags in
      let g k = List.assoc k kv in
      let b k = g k = "1" in
      let c = { c_delete = b "delete"; c_force_delete = b "force"; c_threshold = zint (g "thr"); c_dry_run = b "dry";
                c_ignore_times = b "it"; c_size_only = b "so"; c_checksum = b "ck"; c_big = nint (g "big"); c_max_errors = nint (g "maxerr") } in
      let src = if srcs = "-" then [] else List.map (fun it -> match String.split_on_char ':' it with
        | [k; p; sz; mt; ct; sp] -> { se_path = path_of_str p; se_is_dir = (k = "d"); se_size = nint sz; se_mtime = zint mt; se_content = nint ct; se_sparse = (sp = "1") }
        | _ -> failwith "src entry") (String.split_on_char ',' srcs) in
      let (junk, _) = fs_of_entries junks in            (* parsed first: fs_of_entries resets the directory-stat table *)
      let (dst, dorder) = fs_of_entries dsts in
      let ex = if extra = "-" then [] else List.map path_of_str (String.split_on_char ',' extra) in
      let u = List.fold_left (fun acc p -> if List.mem p acc then acc else acc @ [p]) [] (dorder @ List.map (fun e -> e.se_path) src @ ex) in
      let refuse d n t = Z.ltb (Z.mul t n) (Z.mul (z_of_int 100) d) in
      let ds p = (match Hashtbl.find_opt dirstat (str_of_path p) with Some x -> x | None -> (n_of_int 4096, Z0)) in
      let keep = if keepstr = "-" then [] else List.map (fun p ->
        { se_path = path_of_str p; se_is_dir = false; se_size = N0; se_mtime = Z0; se_content = N0; se_sparse = false }) (String.split_on_char ',' keepstr) in
      let fl = if faults = "-" then [] else List.map path_of_str (String.split_on_char ',' faults) in
      let flt p = if List.mem p fl then Some E_NoEnt else None in
      let r = run_f flt junk refuse ds c (zint now) u keep src dst in
      Printf.sprintf "refused=%d exit=%d errs=%s evs=%s dst=%s"
        (if r.r_refused then 1 else 0) (int_of_z (exit_status c r))
        (if r.r_errors = [] then "-" else String.concat "," (List.map (fun ((p, a), e) -> Printf.sprintf "%s:%s:%s" (str_of_path p) (act_str a) (err_str e)) r.r_errors))
        (if r.r_events = [] then "-" else String.concat "," (List.map (fun (a, p) -> Printf.sprintf "%s:%s" (act_str a) (str_of_path p)) r.r_events))
        (str_of_fs r.r_fs u)
  | "E" :: flags :: now :: srcs :: dsts :: extra :: keeprest ->
      (* one run of the one-way engine; extra = further universe paths (parents the run may create);
         optional 7th token: paths the scan found but a filter / size bound / resume state kept out of the run *)
      let keepstr = (match keeprest with [k] -> k | _ -> "-") in
      let kv = kv_of flags in
      let g k = List.assoc k kv in
      let b k = g k = "1" in
      let c = { c_delete = b "delete"; c_force_delete = b "force"; c_threshold = zint (g "thr"); c_dry_run = b "dry";
                c_ignore_times = b "it"; c_size_only = b "so"; c_checksum = b "ck"; c_big = nint (g "big"); c_max_errors = nint (g "maxerr") } in
      let src = if srcs = "-" then [] else List.map (fun it -> match String.split_on_char ':' it with
        | [k; p; sz; mt; ct; sp] -> { se_path = path_of_str p; se_is_dir = (k = "d"); se_size = nint sz; se_mtime = zint mt; se_content = nint ct; se_sparse = (sp = "1") }
        | _ -> failwith "src entry") (String.split_on_char ',' srcs) in
      let (dst, dorder) = fs_of_entries dsts in
      let ex = if extra = "-" then [] else List.map path_of_str (String.split_on_char ',' extra) in
      let u = List.fold_left (fun acc p -> if List.mem p acc then acc else acc @ [p]) [] (dorder @ List.map (fun e -> e.se_path) src @ ex) in
      let refuse d n t = Z.ltb (Z.mul t n) (Z.mul (z_of_int 100) d) in
      let ds p = (match Hashtbl.find_opt dirstat (str_of_path p) with Some x -> x | None -> (n_of_int 4096, Z0)) in
      let keep = if keepstr = "-" then [] else List.map (fun p ->
        { se_path = path_of_str p; se_is_dir = false; se_size = N0; se_mtime = Z0; se_content = N0; se_sparse = false }) (String.split_on_char ',' keepstr) in
      let r = run refuse ds c (zint now) u keep src dst in
      Printf.sprintf "refused=%d exit=%d errs=%s evs=%s dst=%s"
        (if r.r_refused then 1 else 0) (int_of_z (exit_status c r))
        (if r.r_errors = [] then "-" else String.concat "," (List.map (fun ((p, a), e) -> Printf.sprintf "%s:%s:%s" (str_of_path p) (act_str a) (err_str e)) r.r_errors))
        (if r.r_events = [] then "-" else String.concat "," (List.map (fun (a, p) -> Printf.sprintf "%s:%s" (act_str a) (str_of_path p)) r.r_events))
        (str_of_fs r.r_fs u)
  | ["CD"; local; mode; size; ext; sample] ->
      let m = (match mode with "auto" -> DAuto | "extension" -> DExtension | "always" -> DAlways | _ -> DNever) in
      let sm = (match sample with "c" -> SCompressible | "i" -> SIncompressible | "e" -> SError | _ -> SNoPath) in
      (match should_compress_smart (local = "1") m (zint size) (ext = "1") sm with CNone -> "dec=none" | CLz4 -> "dec=lz4" | CZstd -> "dec=zstd")
  | ["SN"; h] -> if sniff_receive_file (bytes_of_hex h) then "magic=1" else "magic=0"
  | ["SP"; total; regs; stream] ->
      let rs = if regs = "-" then [] else List.map (fun r -> match String.split_on_char ':' r with
        | [a; b] -> (nat_of_int (int_of_string a), nat_of_int (int_of_string b)) | _ -> failwith "reg") (String.split_on_char ';' regs) in
      (match receive_sparse (nat_of_int (int_of_string total)) rs (bytes_of_hex stream) with
       | Some f -> "rc=0 out=" ^ hex_of_bytes f | None -> "rc=1")
  | ["DX"; ext] ->
      (* extent map isdata:len,... -> detected regions *)
      let e = if ext = "-" then [] else List.map (fun r -> match String.split_on_char ':' r with
        | [a; b] -> ((a = "1"), nat_of_int (int_of_string b)) | _ -> failwith "run") (String.split_on_char ',' ext) in
      let rec int_of_nat = function O -> 0 | S n -> 1 + int_of_nat n in
      let rs = detect e in
      if rs = [] then "regs=-" else "regs=" ^ String.concat ";" (List.map (fun (o, l) -> Printf.sprintf "%d:%d" (int_of_nat o) (int_of_nat l)) rs)
  | ["V"; mode; mn; mx; srcs; dsts] ->
      (* verify-only: entries kind:path:size:content *)
      let parse t = if t = "-" then [] else List.map (fun it -> match String.split_on_char ':' it with
        | [k; p; sz; c] -> { v_path = path_of_str p; v_is_dir = (k = "d"); v_size = nint sz; v_content = nint c }
        | _ -> failwith "ventry") (String.split_on_char ',' t) in
      let r = verify (if mode = "fast" then CkNone else CkContent) (optn mn) (optn mx) (parse srcs) (parse dsts) in
      let rec int_of_nat = function O -> 0 | S n -> 1 + int_of_nat n in
      let f l = if l = [] then "-" else String.concat "," (List.sort compare (List.map str_of_path l)) in
      Printf.sprintf "exit=%d matched=%d mismatched=%s only_src=%s only_dst=%s errors=%s" (int_of_z (verify_exit r)) (int_of_nat r.vr_matched)
        (f r.vr_mismatched) (f r.vr_only_src) (f r.vr_only_dst) (f r.vr_errors)
  | ["LK"; mode; dinit; hist] ->
      (* link entry history: dinit = a | l<t> | f<c> | d ; hist = t:cwd,... with cwd = m | d | f<c> *)
      let m = (match mode with "preserve" -> LPreserve | "follow" -> LFollow | _ -> LSkip) in
      let num t = n_of_int (int_of_string (String.sub t 1 (String.length t - 1))) in
      let dent t = (match t.[0] with 'a' -> DAbsent | 'l' -> DLink (num t) | 'f' -> DFile (num t) | _ -> DDir) in
      let show = function DAbsent -> "a" | DLink t -> "l" ^ string_of_int (int_of_n t) | DFile c -> "f" ^ string_of_int (int_of_n c) | DDir -> "d" in
      let steps = String.split_on_char ',' hist in
      let (_, outs) = List.fold_left (fun (d, acc) st ->
        match String.split_on_char ':' st with
        | [t; cw] ->
            let s = { l_target = nint t; l_cwd = (match cw.[0] with 'm' -> RMissing | 'd' -> RDir | _ -> RFile (num cw)) } in
            let d' = sync_link m s d in
            (d', (show d' ^ (if wrote_through m s d then "!" else "")) :: acc)
        | [k] when k.[0] = 'F' || k.[0] = 'D' ->
            (* the source entry is a regular file (F<content>) or a real directory (D) in this run *)
            let e = if k.[0] = 'F' then SAFile (num k) else SADir in
            let (d', w) = sync_any true m e d in
            (d', (show d' ^ (if w then "!" else "")) :: acc)
        | _ -> failwith "lk step") (dent dinit, []) steps in
      String.concat "," (List.rev outs)
  | ["XA"; c0; hist] ->
      (* extended attributes of one file: ops ss:k:v sd:k sw:c ds:k:v dd:k y:<x>:<big>; prints the destination after every run *)
      let n t = n_of_int (int_of_string t) in
      let names = List.map n_of_int [1; 2; 3; 4] in
      let show st = (match st.xs_dst with
        | None -> "absent"
        | Some d -> Printf.sprintf "c=%d a=%s" (int_of_n d.xf_content)
            (String.concat ";" (List.filter_map (fun x -> x) (List.map2 (fun k v -> match v with Some v -> Some (Printf.sprintf "%d:%d" (int_of_n k) (int_of_n v)) | None -> None)
               names (observe_attrs names d.xf_attrs))))) in
      let (_, outs) = List.fold_left (fun (st, acc) o ->
        match String.split_on_char ':' o with
        | ["ss"; k; v] -> (xstep true st (SrcSet (n k, n v)), acc)
        | ["sd"; k] -> (xstep true st (SrcDel (n k)), acc)
        | ["sw"; c] -> (xstep true st (SrcWrite (n c)), acc)
        | ["st"] -> (xstep true st SrcTouch, acc)
        | ["ds"; k; v] -> (xstep true st (DstSet (n k, n v)), acc)
        | ["dd"; k] -> (xstep true st (DstDel (n k)), acc)
        | ["y"; x; big] -> let st' = xstep true st (XSync ((x = "1"), (big = "1"))) in (st', show st' :: acc)
        | _ -> failwith "xa op") (xinit (n c0), []) (String.split_on_char ',' hist) in
      String.concat " | " (List.rev outs)
  | ["LE"; mode; dinit; st] ->
      (* the event reported for one symlink entry: dinit = a | l<t> | f<c> | d ; st = t:cwd with cwd = m | d | f<c> *)
      let m = (match mode with "preserve" -> LPreserve | "follow" -> LFollow | _ -> LSkip) in
      let num t = n_of_int (int_of_string (String.sub t 1 (String.length t - 1))) in
      let dent t = (match t.[0] with 'a' -> DAbsent | 'l' -> DLink (num t) | 'f' -> DFile (num t) | _ -> DDir) in
      (match String.split_on_char ':' st with
       | [t; cw] ->
           let s = { l_target = nint t; l_cwd = (match cw.[0] with 'm' -> RMissing | 'd' -> RDir | _ -> RFile (num cw)) } in
           (match link_event m s (dent dinit) with EvSkip -> "skip" | EvCreate -> "create" | EvUpdate -> "update" | EvError -> "error")
       | _ -> failwith "le step")
  | ["LD"; mode; dinit; st] ->
      (* what a DRY run announces for one symlink entry (same encoding as LE) *)
      let m = (match mode with "preserve" -> LPreserve | "follow" -> LFollow | _ -> LSkip) in
      let num t = n_of_int (int_of_string (String.sub t 1 (String.length t - 1))) in
      let dent t = (match t.[0] with 'a' -> DAbsent | 'l' -> DLink (num t) | 'f' -> DFile (num t) | _ -> DDir) in
      (match String.split_on_char ':' st with
       | [t; cw] ->
           let s = { l_target = nint t; l_cwd = (match cw.[0] with 'm' -> RMissing | 'd' -> RDir | _ -> RFile (num cw)) } in
           (match dry_link_event m s (dent dinit) with EvSkip -> "skip" | EvCreate -> "create" | EvUpdate -> "update" | EvError -> "error")
       | _ -> failwith "ld step")
  | ["TN"; name] ->
      let n = List.map n_of_int (raw_of_hex name) in
      let out = temp_name n in
      let h l = if l = [] then "-" else String.concat "" (List.map (fun c -> Printf.sprintf "%02x" (int_of_n c)) l) in
      "name=" ^ h out ^ " samedir=" ^ (if fst (temp_path (N0, n)) = N0 then "1" else "0")
  | ["WX"; name; ext] ->
      let n = List.map n_of_int (raw_of_hex name) and e = List.map n_of_int (raw_of_hex ext) in
      let h l = if l = [] then "-" else String.concat "" (List.map (fun c -> Printf.sprintf "%02x" (int_of_n c)) l) in
      "name=" ^ h (with_extension n e)
  | ["TS"; naming; tasks; sched; world] ->
      (* tasks: kind(d|c):dir:hexname,...  sched: i.i.i or -  world: dir:hexname,... (pre-existing paths) -> final state on the universe *)
      let tn = if naming = "pinned" then pinned_temp_path else temp_path in
      let pth d nm = (n_of_int (int_of_string d), List.map n_of_int (raw_of_hex nm)) in
      let ts = List.mapi (fun i it -> match String.split_on_char ':' it with
        | [k; d; nm] -> { tk_id = n_of_int (i + 1); tk_dest = pth d nm; tk_kind = (if k = "d" then KDelta else if k = "x" then KDelete else KDirect) }
        | _ -> failwith "task") (String.split_on_char ',' tasks) in
      let sc = if sched = "-" then [] else List.map (fun x -> nat_of_int (int_of_string x)) (String.split_on_char '.' sched) in
      let pre = if world = "-" then [] else List.map (fun it -> match String.split_on_char ':' it with
        | [d; nm] -> pth d nm | _ -> failwith "world") (String.split_on_char ',' world) in
      let s0 q = (let rec find i = function [] -> None | p :: r -> if fpath_eqb q p then Some (TOld (n_of_int i)) else find (i + 1) r in find 1 pre) in
      let uni = List.sort_uniq compare (pre @ List.map (fun t -> t.tk_dest) ts @ List.map (fun t -> tn t.tk_dest) ts) in
      let fin = run_tasks tn ts sc s0 in
      let h l = if l = [] then "-" else String.concat "" (List.map (fun c -> Printf.sprintf "%02x" (int_of_n c)) l) in
      String.concat "," (List.map (fun q -> Printf.sprintf "%d:%s=%s" (int_of_n (fst q)) (h (snd q))
        (match fin q with None -> "none" | Some (TOld i) -> "old" ^ string_of_int (int_of_n i) | Some (TTorn t) -> "torn" ^ string_of_int (int_of_n t)
                        | Some (TNew t) -> "new" ^ string_of_int (int_of_n t))) uni)
  | ["CP"; flags; srcs; dinit; now; steps] ->
      (* crash states of one file's program: flags so,it,ck,big ; src size:mtime:content ; dest a | content:complete:size:mtime ;
         steps o0 o1 r1 l0 l1 w0:n w1:n W0 W1 m0 m1 R U separated by ',' -> class membership and the state after every prefix *)
      let kv = kv_of flags in
      let g k = List.assoc k kv in
      let c = { c_delete = false; c_force_delete = false; c_threshold = z_of_int 50; c_dry_run = false;
                c_ignore_times = (g "it" = "1"); c_size_only = (g "so" = "1"); c_checksum = (g "ck" = "1");
                c_big = nint (g "big"); c_max_errors = n_of_int 100 } in
      let e = (match String.split_on_char ':' srcs with
        | [sz; mt; ct] -> { se_path = []; se_is_dir = false; se_size = nint sz; se_mtime = zint mt; se_content = nint ct; se_sparse = false }
        | _ -> failwith "cp src") in
      let d0 = (if dinit = "a" then CAbsent else match String.split_on_char ':' dinit with
        | [ct; k; sz; mt] -> CFile (nint ct, (k = "1"), nint sz, zint mt) | _ -> failwith "cp dest") in
      let step t = (match String.split_on_char ':' t with
        | ["o0"] -> SOpen false | ["o1"] -> SOpen true | ["r1"] -> SRemove true | ["r0"] -> SRemove false | ["l0"] -> SSetLen false | ["l1"] -> SSetLen true
        | ["w0"; n] -> SWrite (false, nint n) | ["w1"; n] -> SWrite (true, nint n) | ["W0"] -> SWriteLast false | ["W1"] -> SWriteLast true
        | ["m0"] -> SMeta false | ["m1"] -> SMeta true | ["R"] -> SRename | ["U"] -> SUtime | ["T"] -> SUtimeT | _ -> failwith "cp step") in
      let p = if steps = "-" then [] else List.map step (String.split_on_char ',' steps) in
      let s0 = { cs_dest = d0; cs_temp = CAbsent } in
      let show = function CAbsent -> "a" | CFile (ct, k, sz, mt) -> Printf.sprintf "%d:%d:%d:%d" (int_of_n ct) (if k then 1 else 0) (int_of_n sz) (int_of_z mt) in
      let n = List.length p in
      let states = List.init (n + 1) (fun k ->
        let s = crash_state e (zint now) p (nat_of_int k) s0 in
        Printf.sprintf "%s;%s;%d" (show s.cs_dest) (show s.cs_temp) (if replans c e s.cs_dest then 1 else 0)) in
      Printf.sprintf "ok=%d temp=%d states=%s" (if program_ok c e d0 p then 1 else 0) (if uses_temp c d0 then 1 else 0) (String.concat "|" states)
  | ["DB"; _dir; ops] ->
      let items = String.split_on_char ',' ops in
      let (_, outs) = List.fold_left (fun (d, acc) op -> match String.split_on_char ':' op with
        | ["s"; p; mt; sz; sum] -> (db_store d { se_path = [nint p]; se_is_dir = false; se_size = nint sz; se_mtime = zint mt; se_content = nint sum; se_sparse = false }, acc)
        | ["g"; p; mt; sz] -> (d, (match db_lookup d [nint p] (zint mt) (nint sz) with Some h -> "h" ^ string_of_int (int_of_n h) | None -> "m") :: acc)
        | _ -> failwith "db op") ([], []) items in
      if outs = [] then "-" else String.concat "," (List.rev outs)
  | ["DC"; ops] ->
      let items = String.split_on_char ',' ops in
      let pth p = if p = "0" then [] else [nint p] in
      let (_, outs) = List.fold_left (fun (c, acc) op -> match String.split_on_char ':' op with
        | ["u"; p; mt] -> (dc_update c [{ se_path = pth p; se_is_dir = true; se_size = N0; se_mtime = zint mt; se_content = N0; se_sparse = false }], acc)
        | ["q"; p; mt] -> (c, (match dc_dir_mtime c (pth p) with Some m -> if mtime_matches m (zint mt) then "0" else "1" | None -> "1") :: acc)
        | _ -> failwith "dc op") (dc_empty, []) items in
      if outs = [] then "-" else String.concat "," (List.rev outs)
  | _ -> "BADCASE"

let () =
  try
    while true do
      let line = input_line stdin in
      let toks = String.split_on_char ' ' (String.trim line) in
      (match toks with
       | [] | [""] -> ()
       | _ -> print_string (handle toks); print_newline ())
    done
  with End_of_file -> ()
