(* Driver for the extracted Gallina model.  Reads one case per line on stdin,
   prints one canonical result line per case on stdout.  The same case file is
   fed to the Rust harness (harness/src/bin/*.rs); py/ compares the outputs. *)
open Model

let rec pos_of_int n = if n = 1 then XH else if n land 1 = 0 then XO (pos_of_int (n lsr 1)) else XI (pos_of_int (n lsr 1))
let z_of_int n = if n = 0 then Z0 else if n > 0 then Zpos (pos_of_int n) else Zneg (pos_of_int (-n))
let rec int_of_pos = function XH -> 1 | XO p -> 2 * int_of_pos p | XI p -> 2 * int_of_pos p + 1
let int_of_z = function Z0 -> 0 | Zpos p -> int_of_pos p | Zneg p -> - (int_of_pos p)
let rec nat_of_int n = let rec go acc n = if n = 0 then acc else go (S acc) (n - 1) in go O n

let hexval c = match c with
  | '0'..'9' -> Char.code c - 48 | 'a'..'f' -> Char.code c - 87 | 'A'..'F' -> Char.code c - 55
  | _ -> failwith "hex"

(* bytes <-> hex; "-" is the empty string *)
let bytes_of_hex (s : string) : z list =
  if s = "-" then [] else begin
    let n = String.length s / 2 in
    let r = ref [] in
    for i = n - 1 downto 0 do
      r := z_of_int (hexval s.[2*i] * 16 + hexval s.[2*i+1]) :: !r
    done; !r end

let hex_of_bytes (l : z list) : string =
  match l with [] -> "-" | _ ->
  let b = Buffer.create 1024 in
  List.iter (fun z -> Buffer.add_string b (Printf.sprintf "%02x" (int_of_z z))) l;
  Buffer.contents b

let str_of_ops (ops : op list) : string =
  match ops with [] -> "-" | _ ->
  String.concat "," (List.map (function
    | Copy (o, s) -> Printf.sprintf "C%d:%d" (int_of_z o) (int_of_z s)
    | Data d -> "D" ^ hex_of_bytes d) ops)

let str_of_ops_opt = function None -> "FUEL" | Some ops -> str_of_ops ops

(* strong hashes are printed as equality classes by first occurrence *)
let classes (eq : 'a -> 'a -> bool) (xs : 'a list) : int list =
  let seen = ref [] in
  List.map (fun x ->
    let rec find i = function [] -> None | y :: t -> if eq x y then Some i else find (i+1) t in
    match find 0 (List.rev !seen) with
    | Some i -> i
    | None -> seen := x :: !seen; List.length !seen - 1) xs

let str_of_cks (cks : z list cksum list) : string =
  match cks with [] -> "-" | _ ->
  let cls = classes list_eqb (List.map (fun c -> c.c_strong) cks) in
  String.concat "," (List.map2 (fun c k ->
    Printf.sprintf "%d:%d:%d:%d" (int_of_z c.c_off) (int_of_z c.c_size) (int_of_z c.c_weak) k) cks cls)

let app_str old = function
  | None -> "NOOPS"
  | Some ops -> (match apply old ops with None -> "ERR" | Some l -> hex_of_bytes l)

let handle (toks : string list) : string =
  match toks with
  | ["D"; bs; chunk; oldh; newh] ->
      (* delta: checksums, in-memory ops, streaming ops, both applied *)
      let bs = z_of_int (int_of_string bs) and chunk = z_of_int (int_of_string chunk) in
      let old = bytes_of_hex oldh and nw = bytes_of_hex newh in
      let cks = cks_id bs old in
      let m = gen_mem_id bs old nw in
      let s = gen_stream_id chunk bs old nw in
      Printf.sprintf "cks=%s mem=%s str=%s app=%s apps=%s"
        (str_of_cks cks) (str_of_ops_opt m) (str_of_ops_opt s) (app_str old m) (app_str old s)
  | ["W"; bs; _mode; oldh; newh] ->
      (* wire path: model = streaming generator with the source's CHUNK_SIZE, applied (codecs are oracles) *)
      let bs = z_of_int (int_of_string bs) in
      let old = bytes_of_hex oldh and nw = bytes_of_hex newh in
      Printf.sprintf "ckw=%s wire=%s" (str_of_cks (cks_id bs old)) (app_str old (gen_stream_impl bs old nw))
  | ["R"; bs; datah] ->
      let bsn = int_of_string bs in
      let data = bytes_of_hex datah in
      let rolled = roll_run (nat_of_int bsn) data in
      let direct = List.map (fun w -> digest (state_of w)) (windows (nat_of_int (List.length data + 1)) (nat_of_int bsn) data) in
      let h = hash data in
      let f l = String.concat "," (List.map (fun z -> string_of_int (int_of_z z)) l) in
      Printf.sprintf "hash=%d rolled=%s direct=%s" (int_of_z h) (f rolled) (f direct)
  | _ -> "BADCASE"

let () =
  try
    while true do
      let line = input_line stdin in
      let toks = String.split_on_char ' ' (String.trim line) in
      (match toks with
       | [] | [""] -> ()
       | _ -> print_string (handle toks); print_newline ())
    done
  with End_of_file -> ()
