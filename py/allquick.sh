#!/bin/bash
# usage: allquick.sh <seed>...   -- runs every quick check with each seed, prints rc and VIOLATION lines
cd "$(dirname "$0")/.."
for sd in "$@"; do
  for i in $(seq -w 1 20); do
    t0=$(date +%s)
    out=$(VERIF_SEED=$sd ./check C$i --tier quick 2>&1); rc=$?
    echo "seed=$sd C$i rc=$rc $(( $(date +%s) - t0 ))s $(echo "$out" | grep -c '^VIOLATION') violations"
    echo "$out" | grep '^VIOLATION\|Traceback' | head -3
  done
done
