#!/bin/bash
# usage: allseeds.sh  -- applies every seeded change in turn, runs the check(s) of its property (quick tier), prints caught / MISSED
cd "$(dirname "$0")/.."
for d in seeded/*/; do
  s=$(basename $d); p=${s%%-*}
  [ -f $d/patch.diff ] || continue
  if ! git -C /repo apply --check $PWD/$d/patch.diff 2>/dev/null; then echo "$s does-not-apply"; continue; fi
  out=$(python3 py/seedtest.py $s $p 2>&1 | grep -v conda)
  if echo "$out" | grep -q "rc=1"; then echo "$s caught $(echo "$out" | grep -c no-failing-input-found | sed 's/^0$//; s/^[1-9].*/(no-failing-input-found)/')"; else echo "$s MISSED"; fi
done
