#!/bin/bash
# usage: allthorough.sh [ids...]  -- runs thorough checks, prints rc, seconds and VIOLATION lines
cd "$(dirname "$0")/.."
ids="$@"; [ -z "$ids" ] && ids=$(seq -w 1 20 | sed 's/^/C/')
for id in $ids; do
  t0=$(date +%s)
  out=$(./check $id --tier thorough 2>&1); rc=$?
  echo "$id rc=$rc $(( $(date +%s) - t0 ))s $(echo "$out" | grep -c '^VIOLATION') violations"
  echo "$out" | grep '^VIOLATION\|Traceback' | head -3
done
