"""Real-size worlds (no threshold hook) around the 10 MiB gate in which destination names share an inode and the size class of a
file changes with the update (seeds C01-4 and C03-4: two gates keyed on different sizes -- the replace-through-a-working-file rule of
Transferrer::update and the delta gate of LocalTransport::sync_file_with_delta -- agree only while both mean the DESTINATION size).
Shared by the checks of C01 (contents after a successful run), C03 (the re-run is quiet and changes nothing) and C13 (an update does
not leak into another name)."""
import json, os, shutil
import world

MIB = 1024 * 1024
VARIANTS = ["grow-linked-pair", "shrink-tiny-with-twin", "shrink-small-with-twin", "grow-with-twin", "exact-gate-with-twin"]


def _put(path, data, mt):
    with open(path, "wb") as f:
        f.write(data); f.flush(); os.fsync(f.fileno())
    os.utime(path, ns=((world.T0 + mt) * 10**9,) * 2)


def run_variant(sc, seed, vi):
    """-> (variant name, list of failure strings)"""
    name = VARIANTS[vi % len(VARIANTS)]
    base = os.path.join(sc.dir, "biglinks%d" % vi)
    src, dst = base + "/src", base + "/dst"
    os.makedirs(src); os.makedirs(dst)
    big = 10 * MIB + 4096 * (3 + vi)
    fails = []
    if name == "grow-linked-pair":
        # two destination names on one inode, below the gate; their sources are separate files at or above it
        _put(dst + "/a.bin", world.pbytes(seed + 1, 1 * MIB + 17), 100); os.link(dst + "/a.bin", dst + "/b.bin")
        _put(src + "/a.bin", world.pbytes(seed + 2, big), 200); _put(src + "/b.bin", world.pbytes(seed + 3, big + 4096), 201)
        unchanged = []
    else:
        # a destination file with a second name (twin) whose own source is unchanged; the first name's source changes size class
        # (seed C13-5: `<` against `<=` at the gate) exact-gate: the destination is EXACTLY 10 MiB, where the two gates have to meet
        old_size, new_size = {"shrink-tiny-with-twin": (big, 100 + vi), "shrink-small-with-twin": (big, 1 * MIB + 5), "grow-with-twin": (2 * MIB + 9, big),
                              "exact-gate-with-twin": (10 * MIB, 10 * MIB)}[name]
        old = world.pbytes(seed + 4, old_size)
        _put(dst + "/a.bin", old, 100); os.link(dst + "/a.bin", dst + "/twin.bin")
        _put(src + "/twin.bin", old, 100)
        _put(src + "/a.bin", world.pbytes(seed + 5, new_size), 200)
        unchanged = ["twin.bin"]
    world.sync_fs()
    env_old = dict(sc.env)
    sc.env.pop("SY_VERIF_DELTA_THRESHOLD", None)          # real sizes: the hook cannot express a gate keyed on the SOURCE size
    try:
        twin_before = {n: (world.sha(dst + "/" + n), os.stat(dst + "/" + n).st_mtime_ns) for n in unchanged}
        r1 = world.run_sy([src, dst, "--json", "-j2"], sc, timeout=120)
        if r1["rc"] != 0:
            fails.append("the run failed: rc=%s %s" % (r1["rc"], r1["err"][-200:]))
        for n in sorted(os.listdir(src)):
            if not os.path.isfile(dst + "/" + n) or world.sha(dst + "/" + n) != world.sha(src + "/" + n):
                fails.append("exit status %s, but %s is not byte-identical to its source (%s)" % (r1["rc"], n, name))
        for n, (sha, mt) in twin_before.items():
            if (world.sha(dst + "/" + n), os.stat(dst + "/" + n).st_mtime_ns) != (sha, mt):
                fails.append("%s, whose source did not change, was changed by the update of a.bin (its other name was rewritten through the shared inode)" % n)
        snap1 = world.snapshot(dst)
        r2 = world.run_sy([src, dst, "--json", "-j2"], sc, timeout=120)
        sm = [json.loads(l) for l in r2["out"].split("\n") if l.startswith("{") and '"summary"' in l]
        if sm and (sm[0]["files_created"], sm[0]["files_updated"], sm[0]["files_deleted"], sm[0]["bytes_transferred"]) != (0, 0, 0, 0):
            fails.append("the immediate re-run reports created=%d updated=%d deleted=%d bytes=%d (%s)" % (sm[0]["files_created"], sm[0]["files_updated"], sm[0]["files_deleted"], sm[0]["bytes_transferred"], name))
        d = world.diff_snap(snap1, world.snapshot(dst), ignore=())
        if d:
            fails.append("the immediate re-run changed destination entries %r (%s)" % (d[:4], name))
    finally:
        sc.env.clear(); sc.env.update(env_old)
        shutil.rmtree(base, ignore_errors=True)
    return name, fails
