"""One-way engine worlds (regular files + directories): generator, real run through the sy binary,
canonicalisation to the line format of the model driver's `E` case, and comparison helpers.
Used by C01 C03 C06 C08 (and others)."""
import json, os, re, stat, subprocess, time
import vlib, world

BIG = 98304                 # SY_VERIF_DELTA_THRESHOLD used in the runs (hook H1): 96 KiB
T0NS = world.T0 * 10**9
NOW1 = (world.T0 + 10**8) * 10**9      # canonical "time of run 1"; run k uses NOW1 + (k-1)*10**9*1000


def now_of(k):
    return NOW1 + (k - 1) * 10**12


class Ids:
    """names <-> component ids, contents <-> content ids"""

    def __init__(self):
        self.names, self.contents = {}, {}

    def comp(self, name):
        if name not in self.names:
            self.names[name] = len(self.names) + 1
        return self.names[name]

    def path(self, rel):
        return ".".join(str(self.comp(c)) for c in rel.split("/"))

    def content(self, sha, size):
        if size == 0:
            return 0
        if sha not in self.contents:
            self.contents[sha] = len(self.contents) + 1
        return self.contents[sha]


def is_sparse(e):
    return e["size"] > 4096 and e["blocks"] * 512 < e["size"] - 4096


def canon_mtime(ns, run_start_ns, k):
    return now_of(k) if ns >= run_start_ns else ns


def listing(root):
    """scanner order of a tree: list of (kind, rel, size)"""
    out = vlib.run_sharded([os.path.join(vlib.BIN, "h_filter")], ["L " + root.encode().hex()], shards=1)[0]
    if out in ("-", "ERR", "PANIC") or out.startswith("CRASH"):
        return []
    res = []
    for it in out.split(","):
        k, h, sz = it.split(":")
        res.append((k, bytes.fromhex(h).decode(), int(sz)))
    return res


def flags_str(fl):
    return "delete=%d,force=%d,thr=%d,dry=%d,it=%d,so=%d,ck=%d,big=%d,maxerr=%d" % (
        fl.get("delete", 0), fl.get("force", 0), fl.get("thr", 50), fl.get("dry", 0), fl.get("it", 0), fl.get("so", 0), fl.get("ck", 0),
        fl.get("big", BIG), fl.get("maxerr", 100))


def cli_of(fl):
    a = ["-j%d" % fl.get("j", 1), "--json", "--max-errors=%d" % fl.get("maxerr", 100)]
    if fl.get("delete"):
        a += ["--delete", "--delete-threshold=%d" % fl.get("thr", 50)]
    if fl.get("force"):
        a.append("--force-delete")
    if fl.get("dry"):
        a.append("--dry-run")
    if fl.get("it"):
        a.append("--ignore-times")
    if fl.get("so"):
        a.append("--size-only")
    if fl.get("ck"):
        a.append("--checksum")
    return a


# sy's own files in a destination root: not part of the mirrored tree (never planned for deletion, not counted by the guard)
SY_META = (".sy-dir-cache.json", ".sy-checksums.db", ".sy-checksums.db-journal", ".sy-state.json", ".sy-state.json.tmp")


def dst_line(snap, ids, run_start_ns, k):
    items = []
    for rel, e in snap.items():
        if rel in SY_META:
            continue
        if e["kind"] == "d":
            items.append("d:%s" % ids.path(rel))
        elif e["kind"] == "f":
            items.append("f:%s:%d:%d:%d" % (ids.path(rel), e["size"], canon_mtime(e["mtime_ns"], run_start_ns, k), ids.content(e["sha"], e["size"])))
        else:
            # a symlink entry is an opaque leaf for the engine model: a file whose content is the link text
            items.append("f:%s:%d:%d:%d" % (ids.path(rel), len(e["target"].encode()), canon_mtime(e["mtime_ns"], run_start_ns, k), ids.content("L:" + e["target"], 1)))
    return ",".join(sorted(items)) or "-"


def run_once(sc, src, dst, fl, ids, k=1, extra_env=None, extra_args=(), select=None):
    """run the real binary once; returns (model_case_line, impl_observation_line, raw)"""
    world.sync_fs()
    ssnap = world.snapshot(src)
    dsnap = world.snapshot(dst)
    slist = listing(src)
    dlist = listing(dst) if os.path.isdir(dst) else []
    # model inputs (the engine model takes the source listing AFTER filtering)
    kept = slist if select is None else select(slist)
    srcs = []
    for kind, rel, _sz in kept:
        e = ssnap[rel]
        if kind == "d":
            srcs.append("d:%s:0:0:0:0" % ids.path(rel))
        elif kind == "f":
            srcs.append("f:%s:%d:%d:%d:%d" % (ids.path(rel), e["size"], e["mtime_ns"], ids.content(e["sha"], e["size"]), 1 if is_sparse(e) else 0))
        else:
            srcs.append("l:%s:0:0:0:0" % ids.path(rel))
    dsts = []
    for kind, rel, _sz in dlist:
        if rel in SY_META:
            continue
        e = dsnap[rel]
        if kind == "d":
            dsts.append("d:%s:%d:%d" % (ids.path(rel), e.get("size", 4096), e["mtime_ns"]))
        elif kind == "f":
            dsts.append("f:%s:%d:%d:%d" % (ids.path(rel), e["size"], e["mtime_ns"], ids.content(e["sha"], e["size"])))
        elif kind == "l" and e["kind"] == "l":
            dsts.append("f:%s:%d:%d:%d" % (ids.path(rel), len(e["target"].encode()), e["mtime_ns"], ids.content("L:" + e["target"], 1)))
    env = {"SY_VERIF_DELTA_THRESHOLD": str(fl.get("big", BIG))}
    if extra_env:
        env.update(extra_env)
    old_env = dict(sc.env)
    sc.env.update(env)
    run_start = time.time_ns() - 50_000_000
    rr = world.run_sy([src, dst] + cli_of(fl) + list(extra_args), sc)
    sc.env.clear(); sc.env.update(old_env)
    after = world.snapshot(dst)
    evs, nerr, badlines, errpaths, summary, fatal = [], 0, 0, [], None, None
    for line in rr["out"].split("\n"):
        line = line.strip()
        if not line:
            continue
        try:
            ev = json.loads(line)
        except ValueError:
            badlines += 1
            if "Sync error" in line:
                nerr += 1
            continue
        t = ev.get("type")
        if t == "error":
            if os.path.relpath(ev.get("path", ""), dst) == ".":
                fatal = ev.get("error", "")          # the whole run failed (refusal, unusable state file ...): not a per-file error
                continue
            nerr += 1
            errpaths.append(os.path.relpath(ev.get("path", ""), dst))
        if t == "summary":
            summary = ev
        if t in ("create", "update", "skip", "delete"):
            rel = os.path.relpath(ev["path"], dst)
            if rel in SY_META and t == "delete":
                badlines += 0        # would be a deletion of sy's own metadata: kept visible through the event list
            evs.append("%s:%s" % (t, ids.path(rel)))
    refused = 1 if ("deletion threshold exceeded" in (rr["err"] + rr["out"]).lower() and rr["rc"] not in (0, None)) else 0
    # universe extras: every path that exists afterwards
    extra = sorted(set(ids.path(rel) for rel in after if rel not in SY_META) | set(ids.path(rel) for rel in ssnap))
    kept_rels = set(rel for _k, rel, _s in kept)
    keepout = [ids.path(rel) for _k, rel, _s in slist if rel not in kept_rels]      # scanned, but not part of this run's transfers
    case = "E %s %d %s %s %s %s" % (flags_str(fl), now_of(k), ",".join(srcs) or "-", ",".join(dsts) or "-", ",".join(extra) or "-", ",".join(keepout) or "-")
    obs = "refused=%d exit=%s nerr=%d evs=%s dst=%s" % (refused, rr["rc"], nerr, ",".join(evs) or "-", dst_line(after, ids, run_start, k))
    raw = {"rc": rr["rc"], "stderr": rr["err"][-400:], "badlines": badlines, "before": dsnap, "after": after, "src": ssnap, "events": evs,
           "timeout": rr["timeout"], "stdout_tail": rr["out"][-300:], "kept": [rel for _, rel, _ in kept],
           "errpaths": errpaths, "summary": summary, "fatal": fatal}
    return case, obs, raw


def model_obs(model_line):
    """bring the model's output line into the shape of the observation line (error list -> count)"""
    kv = dict(x.split("=", 1) for x in model_line.split(" ") if "=" in x)
    nerr = 0 if kv.get("errs", "-") == "-" else len(kv["errs"].split(","))
    return "refused=%s exit=%s nerr=%d evs=%s dst=%s" % (kv.get("refused"), kv.get("exit"), nerr, kv.get("evs"), kv.get("dst"))


# ------------------------------------------------------------------ generator
NAMES_D = ["a", "b", "sub", "deep", "x y", "ü"]
NAMES_F = ["f.txt", "g.bin", "data", "n1", "n2", "a.txt", "a.bin", "x.sy.tmp", ".hid", "ü.dat", "with space"]
SIZES = [0, 1, 100, 4095, 4096, 5000, BIG - 1, BIG, BIG + 1, 65536 * 2 + 17, BIG * 2, 150000]


def gen_tree(r, nfiles, with_big=True):
    dirs = set()
    for _ in range(r.randrange(0, 4)):
        depth = r.randrange(1, 4)
        p = "/".join(r.choice(NAMES_D) for _ in range(depth))
        for i in range(1, depth + 1):
            dirs.add("/".join(p.split("/")[:i]))
    files = {}
    for _ in range(nfiles):
        d = r.choice(sorted(dirs) + ["", ""])
        p = (d + "/" if d else "") + r.choice(NAMES_F)
        if p in dirs or p in files:
            continue
        sizes = SIZES if with_big else SIZES[:6]
        files[p] = {"size": r.choice(sizes), "seed": r.randrange(1 << 30), "mt_ns": r.randrange(1000, 5000) * 10**9 + r.choice([0, 0, 500_000_000, 999_999_999])}
        if r.random() < 0.07:
            # a time stamp before 1970 (restored archives, cameras with a dead clock): 1 s, 200 days, 31 years before the epoch
            files[p]["mt_ns"] = -T0NS - r.choice([1, 86400 * 200, 86400 * 365 * 31]) * 10**9 - r.choice([0, 500_000_000])
    return sorted(dirs), files


def spec_of(dirs, files):
    spec = [{"p": d, "k": "d"} for d in dirs]
    for p, f in files.items():
        e = {"p": p, "k": "f", "data": ("rand", f["seed"], f["size"]), "mt_ns": f["mt_ns"]}
        spec.append(e)
    return spec


def mk(root, spec):
    """like world.mk_tree but with exact ns mtimes"""
    world.mk_tree(root, [{k: v for k, v in e.items() if k != "mt_ns"} for e in spec])
    for e in sorted(spec, key=lambda x: -x["p"].count("/")):
        if "mt_ns" in e:
            ns = T0NS + e["mt_ns"]
            os.utime(os.path.join(root, e["p"]), ns=(ns, ns), follow_symlinks=False)


def gen_world(r, with_big=True):
    """source tree + a destination derived from it by per-file prior-state classes + extras"""
    dirs, files = gen_tree(r, r.randrange(1, 9), with_big)
    ddirs = set(d for d in dirs if r.random() < 0.6)
    dfiles = {}
    for p, f in files.items():
        cls = r.choice(["absent", "identical", "identical", "mtime", "mtime", "size", "stale", "longer", "shorter"])
        if cls == "absent":
            continue
        g = dict(f)
        if cls == "mtime":
            g["mt_ns"] = f["mt_ns"] + r.choice([-1, 1]) * r.choice([500_000_000, 1_000_000_000, 1_999_999_999, 2_000_000_000, 3_000_000_000, 86_400_000_000_000])
            if g["mt_ns"] < 0:
                g["mt_ns"] = f["mt_ns"] + 2_000_000_000
        elif cls == "size":
            g["size"] = r.choice([s for s in SIZES if s != f["size"]] if with_big else [s for s in SIZES[:6] if s != f["size"]])
            g["seed"] = r.randrange(1 << 30)
        elif cls == "stale":
            g["seed"] = f["seed"] + 1          # same size and mtime, different content
        elif cls == "longer":
            g["size"] = f["size"] + r.choice([1, 4096, 70000])
            g["seed"] = r.randrange(1 << 30)
            g["mt_ns"] = f["mt_ns"] + 5_000_000_000
        elif cls == "shorter":
            g["size"] = max(0, f["size"] - r.choice([1, 100, 4096]))
            g["seed"] = r.randrange(1 << 30)
            g["mt_ns"] = f["mt_ns"] - 5_000_000_000 if f["mt_ns"] > 6_000_000_000 else f["mt_ns"] + 5_000_000_000
        dfiles[p] = g
        parts = p.split("/")[:-1]
        for i in range(1, len(parts) + 1):
            ddirs.add("/".join(parts[:i]))
    # extras in the destination: files, nested stale directories, names that look like working files
    for _ in range(r.randrange(0, 5)):
        kind = r.random()
        if kind < 0.3:
            base = r.choice(["old", "stale/inner", "stale"])
            for i in range(1, len(base.split("/")) + 1):
                ddirs.add("/".join(base.split("/")[:i]))
            dfiles[base + "/" + r.choice(["e1", "e2.txt"])] = {"size": r.choice([0, 10, 5000]), "seed": r.randrange(1 << 30), "mt_ns": 7000 * 10**9}
        else:
            d = r.choice(sorted(ddirs) + [""])
            p = (d + "/" if d else "") + r.choice(["extra.dat", "keep.log", "zz.sy.tmp", "f.txt.bak"])
            if p not in files and p not in dirs:
                dfiles[p] = {"size": r.choice([0, 3, 4096]), "seed": r.randrange(1 << 30), "mt_ns": 7001 * 10**9}
    return spec_of(dirs, files), spec_of(sorted(ddirs), dfiles)


def norm_events(line):
    """order-insensitive form of an observation / model line (runs with several workers finish tasks in any order)"""
    kv = dict(x.split("=", 1) for x in line.split(" "))
    kv["evs"] = ",".join(sorted(kv.get("evs", "-").split(",")))
    return " ".join("%s=%s" % (k, kv[k]) for k in ("refused", "exit", "nerr", "evs", "dst"))


def gen_flags(r, allow_delete=True, jobs=False):
    fl = {"j": r.choice([1, 1, 4, 8]) if jobs else 1}
    m = r.choice(["default", "default", "default", "it", "so", "ck"])
    if m != "default":
        fl[m] = 1
    if allow_delete and r.random() < 0.5:
        fl["delete"] = 1
        fl["thr"] = r.choice([50, 100, 100, 0, 30])
        if r.random() < 0.3:
            fl["force"] = 1
    return fl
