#!/usr/bin/env python3
"""Regenerate coq/gen/SrcConstants.v from /repo's *current* sources.

Every literal that a proof side-condition or the executable model depends on is
extracted by an anchored regular expression.  An anchor that no longer matches
is a broken correspondence: the constant is reported in `missing` (the caller
turns that into a VIOLATION ... no-failing-input-found unless a failing input
is found) and the previous/default value is NOT silently substituted -- the
.v file is still written with the pinned value so that the rest of the
development keeps building, but the check for the owning property fails.
"""
import os, re, sys, json

REPO = os.environ.get("SY_REPO", "/repo")
OUT = os.path.join(os.path.dirname(os.path.abspath(__file__)), "..", "coq", "gen", "SrcConstants.v")


def rd(p):
    try:
        return open(os.path.join(REPO, p), encoding="utf-8", errors="replace").read()
    except OSError:
        return ""


def ev(expr):
    """evaluate a rust integer literal expression like `256 * 1024` or `10_000`."""
    e = expr.replace("_", "").strip()
    e = re.sub(r"(?<=\d)(u8|u16|u32|u64|usize|i32|i64|isize)\b", "", e)
    if not re.fullmatch(r"[0-9xXa-fA-F\s\*\+\-\(\)]+", e):
        raise ValueError(expr)
    return int(eval(e, {"__builtins__": {}}))


# name, file, regex (group 1 = expression), pinned value at the base commit, kind, owners
SPECS = [
    ("MOD_ADLER", "src/delta/rolling.rs", r"const MOD_ADLER: u32 = ([0-9_]+);", 65521, "Z", ["C04"]),
    ("ROLL_A_GUARD", "src/delta/rolling.rs", r"self\.a = \(self\.a \+ MOD_ADLER \* ([0-9]+) - old \+ new\) % MOD_ADLER;", 2, "Z", ["C04"]),
    ("ROLL_B_GUARD", "src/delta/rolling.rs", r"self\.b = \(self\.b \+ MOD_ADLER \* ([0-9]+) - n_old \+ self\.a - 1\) % MOD_ADLER;", 3, "Z", ["C04"]),
    ("DIGEST_SHIFT", "src/delta/rolling.rs", r"pub fn digest\(&self\) -> u32 \{\s*\(self\.b << ([0-9]+)\) \| self\.a", 16, "Z", ["C04"]),
    ("HASH_SHIFT", "src/delta/rolling.rs", r"\(b << ([0-9]+)\) \| a\s*\}", 16, "Z", ["C04"]),
    ("CHUNK_SIZE", "src/delta/generator.rs", r"const CHUNK_SIZE: usize = ([0-9_ \*]+);", 262144, "Z", ["C04"]),
    # the chunk holds at least one block (Delta.stream_chunk = Z.max CHUNK_SIZE bs)
    ("CHUNK_AT_LEAST_BLOCK", "src/delta/generator.rs", r"let chunk_size = CHUNK_SIZE\.max\(block_size\);\s*let mut window = Vec::with_capacity\(block_size \+ chunk_size\);\s*let mut chunk_buf = vec!\[0u8; chunk_size\];()", 1, "Z", ["C04"]),
    ("MIN_BLOCK", "src/delta/mod.rs", r"size\.clamp\(([0-9_ \*]+),", 512, "Z", ["C04"]),
    ("MAX_BLOCK", "src/delta/mod.rs", r"size\.clamp\([0-9_ \*]+,\s*([0-9_ \*]+)\)", 131072, "Z", ["C04"]),
    # calculate_block_size returns the clamped value itself (Delta.calculate_block_size), and the only caller that
    # chooses a block size for the rolling generator takes it from there
    ("BLOCK_SIZE_IS_CLAMPED", "src/delta/mod.rs", r"pub fn calculate_block_size\(file_size: u64\) -> usize \{\s*let size = [^;]+;\s*size\.clamp\([0-9_ \*]+,\s*[0-9_ \*]+\)\s*\}()", 1, "Z", ["C04"]),
    ("SSH_BLOCK_FROM_CLAMP", "src/transport/ssh.rs", r"let block_size = calculate_block_size\(dest_size\);()", 1, "Z", ["C04"]),
]

EXTRA = []  # filled by register() calls from other modules of this file (below)


def register(name, file, regex, pinned, kind, owners):
    SPECS.append((name, file, regex, pinned, kind, owners))


# ---- C14 / wire
register("ZSTD_MAGIC_0", "src/bin/sy-remote.rs", r"Commands::ReceiveFile[\s\S]*?stdin_data\[0\] == (0x[0-9A-Fa-f]+)", 0x28, "Z", ["C14", "C04"])
register("ZSTD_MAGIC_1", "src/bin/sy-remote.rs", r"Commands::ReceiveFile[\s\S]*?stdin_data\[1\] == (0x[0-9A-Fa-f]+)", 0xB5, "Z", ["C14", "C04"])
register("ZSTD_MAGIC_2", "src/bin/sy-remote.rs", r"Commands::ReceiveFile[\s\S]*?stdin_data\[2\] == (0x[0-9A-Fa-f]+)", 0x2F, "Z", ["C14", "C04"])
register("ZSTD_MAGIC_3", "src/bin/sy-remote.rs", r"Commands::ReceiveFile[\s\S]*?stdin_data\[3\] == (0x[0-9A-Fa-f]+)", 0xFD, "Z", ["C14", "C04"])
register("AD_MAGIC_0", "src/bin/sy-remote.rs", r"Commands::ApplyDelta[\s\S]*?stdin_data\[0\] == (0x[0-9A-Fa-f]+)", 0x28, "Z", ["C04"])
register("AD_MAGIC_1", "src/bin/sy-remote.rs", r"Commands::ApplyDelta[\s\S]*?stdin_data\[1\] == (0x[0-9A-Fa-f]+)", 0xB5, "Z", ["C04"])
register("AD_MAGIC_2", "src/bin/sy-remote.rs", r"Commands::ApplyDelta[\s\S]*?stdin_data\[2\] == (0x[0-9A-Fa-f]+)", 0x2F, "Z", ["C04"])
register("AD_MAGIC_3", "src/bin/sy-remote.rs", r"Commands::ApplyDelta[\s\S]*?stdin_data\[3\] == (0x[0-9A-Fa-f]+)", 0xFD, "Z", ["C04"])
register("AD_MAGIC_MINLEN", "src/bin/sy-remote.rs", r"Commands::ApplyDelta[\s\S]*?stdin_data\.len\(\) >= ([0-9]+)", 4, "Z", ["C04"])
register("RF_MAGIC_MINLEN", "src/bin/sy-remote.rs", r"Commands::ReceiveFile[\s\S]*?stdin_data\.len\(\) >= ([0-9]+)", 4, "Z", ["C14"])


register("SMALL_FILE_LIMIT", "src/compress/mod.rs", r"pub fn should_compress_smart[\s\S]*?if file_size < ([0-9_ \*]+) \{", 1048576, "Z", ["C14"])
register("SAMPLE_RATIO_PCT", "src/compress/mod.rs", r"Ok\(ratio\) if ratio < 0\.([0-9]+) =>", 9, "Z", ["C14"])

# ---- C07
register("THRESHOLD_DEFAULT", "src/cli.rs", r'#\[arg\(long, default_value = "([0-9]+)"\)\]\s*pub delete_threshold: u8', 50, "Z", ["C07"])
register("THRESHOLD_MAX", "src/cli.rs", r"if self\.delete_threshold > ([0-9]+)", 100, "Z", ["C07"])


# ---- C15: `--verify-only` is handled, and the process left, before SyncEngine::sync can be reached (so the engine-side state-file
# sites of coq/gen/StateGuards.v are out of its reach; the main.rs sites carry !cli.verify_only)
register("VERIFY_EXITS_BEFORE_SYNC", "src/main.rs", r"if cli\.verify_only \{[\s\S]*?std::process::exit\(exit_code\);\s*\}\s*(?://[^\n]*\s*)*if cli\.watch \{()", 1, "Z", ["C15"])

# ---- C05 / C09: working-file naming
register("TEMP_SUFFIX", "src/temp_file.rs", r'pub fn temp_path_for\(dest: &Path\) -> PathBuf \{[\s\S]*?name\.push\("([^"\\]*)"\);\s*dest\.with_file_name\(name\)', ".sy.tmp", "bytes", ["C05", "C09"])
register("TEMP_CALLSITE", "src/transport/local.rs", r"let temp_dest = crate::temp_file::temp_path_for\(&dest\);\s*(?://[^\n]*\s*)*let _ = fs::remove_file\(&temp_dest\);\s*let temp_guard = TempFileGuard::new\(&temp_dest\);()", 1, "Z", ["C05", "C09"])


# ---- C13: shape of the hard-link hand-off (Model/Hardlink.v, strict = true)
# a waiter creates and enables its Notified future, THEN looks at the map again, and awaits only if the map still holds the
# very notice it registered with
register("HL_REGISTER_THEN_RECHECK", "src/sync/transfer.rs",
         r"let notified = notify\.notified\(\);\s*tokio::pin!\(notified\);\s*notified\.as_mut\(\)\.enable\(\);\s*(?://[^\n]*\s*)*"
         r"let still_in_progress = \{\s*let map = self\.hardlink_map\.lock\(\)\.unwrap\(\);\s*"
         r"matches!\(map\.get\(&inode\), Some\(InodeState::InProgress\(current\)\) if Arc::ptr_eq\(current, &notify\)\)\s*\};\s*"
         r"if still_in_progress \{\s*notified\.await;\s*\}\s*(?://[^\n]*\s*)*continue;()", 1, "Z", ["C13"])
# claim: under one lock, re-check and insert InProgress with a NEW notice
register("HL_CLAIM_DOUBLE_CHECK", "src/sync/transfer.rs",
         r"let notify = Arc::new\(Notify::new\(\)\);\s*\{\s*let mut map = self\.hardlink_map\.lock\(\)\.unwrap\(\);\s*(?://[^\n]*\s*)*"
         r"if map\.contains_key\(&inode\) \{\s*continue;[^\n]*\s*\}\s*map\.insert\(inode, InodeState::InProgress\(Arc::clone\(&notify\)\)\);\s*\}()", 1, "Z", ["C13"])
# failed copy: remove the inode, wake ALL waiters, return the error
register("HL_FAIL_RELEASE_NOTIFY", "src/sync/transfer.rs",
         r"Err\(e\) => \{\s*(?://[^\n]*\s*)*\{\s*let mut map = self\.hardlink_map\.lock\(\)\.unwrap\(\);\s*map\.remove\(&inode\);\s*\}\s*"
         r"notify\.notify_waiters\(\);\s*return Err\(e\);\s*\}()", 1, "Z", ["C13"])
# completed copy: record Completed, wake ALL waiters
register("HL_DONE_NOTIFY", "src/sync/transfer.rs",
         r"map\.insert\(\s*inode,\s*InodeState::Completed\(dest_path\.to_path_buf\(\)\),\s*\);\s*\}\s*notify\.notify_waiters\(\);\s*(?://[^\n]*\s*)*return Ok\(Some\(result\)\);()", 1, "Z", ["C13"])
# after the transfers, before the results are judged: the names that already existed are brought onto their group's inode; the shape
# of the pass (first name with the same file is kept, link under the working name, rename) is Model/Inodes.v relink_group
register("HL_RELINK_AFTER_TRANSFERS", "src/sync/mod.rs",
         # (88672a3, 3b1f2c2) names whose transfer failed are left out of the pass; a failure of the pass itself is recorded as an error
         r"let results = futures::future::join_all\(handles\)\.await;\s*(?://[^\n]*\s*)*\{\s*let stats = stats\.lock\(\)\.unwrap\(\);\s*for names in link_groups\.values_mut\(\) \{\s*"
         r"names\.retain\(\|name\| !stats\.errors\.iter\(\)\.any\(\|e\| &e\.path == name\)\);\s*\}\s*\}\s*(?://[^\n]*\s*)*\{\s*let stats = stats\.lock\(\)\.unwrap\(\);\s*planned_names\.retain\(\|\(name, _\)\| !stats\.errors\.iter\(\)\.any\(\|e\| &e\.path == name\)\);\s*\}\s*"
         r"let mut link_failures = relink_hard_link_groups\(&link_groups\);\s*link_failures\.extend\(separate_foreign_links\(&planned_names\)\);\s*for \(path, e\) in link_failures \{()", 1, "Z", ["C13"])
register("HL_RELINK_SHAPE", "src/sync/mod.rs",
         r"let Some\(\(keep, keep_meta\)\) = kept\.iter\(\)\.find\(\|\(_, k\)\| same_file\(k\)\) else \{\s*kept\.push\(\(name, meta\)\);\s*continue;\s*\};\s*"
         r"if keep_meta\.ino\(\) == meta\.ino\(\) \{\s*continue;\s*\}\s*let working = crate::temp_file::temp_path_for\(name\);\s*"
         r"let _ = std::fs::remove_file\(&working\);\s*let linked =\s*std::fs::hard_link\(keep, &working\)\.and_then\(\|\(\)\| std::fs::rename\(&working, name\)\);()", 1, "Z", ["C13"])

# ---- C20: watch loop
register("WATCH_TICK_MS", "src/sync/watch.rs", r"_ = tokio::time::sleep\(Duration::from_millis\(([0-9]+)\)\) =>", 10, "Z", ["C20"])
register("WATCH_RECV_MS", "src/sync/watch.rs", r"match rx\.recv_timeout\(Duration::from_millis\(([0-9]+)\)\)", 100, "Z", ["C20"])
register("WATCH_DEBOUNCE_MS", "src/main.rs", r"Duration::from_millis\(([0-9]+)\), // [0-9]+ms debounce", 500, "Z", ["C20"])
# the watcher is registered before the initial sync
register("WATCH_ORDER", "src/sync/watch.rs", r"watcher\.watch\(&self\.source, RecursiveMode::Recursive\)\?;\s*(?://[^\n]*\s*)*tracing::info!\(\"Running initial sync\.\.\.\"\);\s*self\.engine\.sync\(&self\.source, &self\.destination\)\.await\?;()", 1, "Z", ["C20"])
# shape of the loop: events are pushed when they pass the filter; on a timeout with pending events and elapsed debounce a
# sync runs; afterwards ONLY the pending list is cleared and the clock reset (nothing is taken from the channel)
register("WATCH_LOOP_SHAPE", "src/sync/watch.rs",
         r"Ok\(Ok\(event\)\) => \{\s*(?://[^\n]*\s*)*if self\.should_sync_event\(&event\) \{\s*pending_changes\.push\(event\);\s*\}\s*\}[\s\S]*?"
         r"Err\(RecvTimeoutError::Timeout\) => \{\s*(?://[^\n]*\s*)*if !pending_changes\.is_empty\(\) && last_sync\.elapsed\(\) >= self\.debounce \{[\s\S]*?"
         r"match self\.engine\.sync\(&self\.source, &self\.destination\)\.await \{\s*Ok\(_\) => \{(?:(?!rx\.|pending_changes)[\s\S])*?\}\s*Err\(e\) => \{(?:(?!rx\.|pending_changes)[\s\S])*?\}\s*\}\s*"
         r"pending_changes\.clear\(\);\s*last_sync = Instant::now\(\);\s*\}\s*\}()", 1, "Z", ["C20"])
register("WATCH_EVENT_KINDS", "src/sync/watch.rs", r"match event\.kind \{\s*(?://[^\n]*\s*)*EventKind::Create\(_\) \| EventKind::Modify\(_\) \| EventKind::Remove\(_\) => true,\s*(?://[^\n]*\s*)*_ => false,\s*\}()", 1, "Z", ["C20"])


def generate():
    vals, missing = {}, []
    cache = {}
    for (name, file, rx, pinned, kind, owners) in SPECS:
        src = cache.setdefault(file, rd(file))
        m = re.search(rx, src)
        v = None
        if m:
            try:
                v = m.group(1) if kind == "bytes" else (1 if m.group(1) == "" else ev(m.group(1)))
            except Exception:
                v = None
        if v is None:
            missing.append({"name": name, "file": file, "regex": rx, "owners": owners})
            v = pinned
        vals[name] = (v, pinned, kind, owners, file)
    lines = ["(* GENERATED by py/gen_constants.py from %s -- do not edit. *)" % REPO,
             "From Coq Require Import ZArith NArith List.", "Open Scope Z_scope.", ""]
    for name, (v, pinned, kind, owners, file) in vals.items():
        if kind == "Z":
            lines.append("Definition %s : Z := %d.  (* %s; pinned %d; used by %s *)" % (name, v, file, pinned, ",".join(owners)))
        elif kind == "bytes":
            lines.append("Definition %s : list N := (%s)%%N.  (* %s; %r; pinned %r; used by %s *)" % (
                name, " :: ".join("%d" % b for b in v.encode()) + " :: nil", file, v, pinned, ",".join(owners)))
        elif kind == "N":
            lines.append("Definition %s : N := %d%%N.  (* %s; pinned %d; used by %s *)" % (name, v, file, pinned, ",".join(owners)))
    text = "\n".join(lines) + "\n"
    os.makedirs(os.path.dirname(OUT), exist_ok=True)
    old = None
    try:
        old = open(OUT).read()
    except OSError:
        pass
    if old != text:
        with open(OUT, "w") as f:
            f.write(text)
    # the translated guards of the state-file sites (py/gen_stateguards.py -> coq/gen/StateGuards.v): a site that is no longer found
    # is a broken tie of C08 / C15, like an anchor that no longer matches
    import gen_stateguards
    for b in gen_stateguards.generate()["broken"]:
        missing.append({"name": b, "file": "src/main.rs, src/sync/mod.rs", "regex": "", "owners": ["C08", "C15"]})
    # the translated size filter (py/gen_sizefilter.py -> coq/gen/SizeFilter.v): a body outside the translated fragment is a broken tie of C16
    import gen_sizefilter
    for b in gen_sizefilter.generate()["broken"]:
        missing.append({"name": b, "file": "src/sync/mod.rs", "regex": "fn should_filter_by_size: body outside the translated fragment", "owners": ["C16"]})
    changed = {n: {"now": v, "pinned": p, "owners": o, "file": fl} for n, (v, p, k, o, fl) in vals.items() if v != p}
    return {"values": {n: v for n, (v, p, k, o, fl) in vals.items()}, "missing": missing, "changed": changed,
            "rewritten": old != text}


if __name__ == "__main__":
    r = generate()
    json.dump(r, sys.stdout, indent=1)
    print()
