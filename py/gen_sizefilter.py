#!/usr/bin/env python3
"""Translator: `SyncEngine::should_filter_by_size` of /repo/src/sync/mod.rs  ->  coq/gen/SizeFilter.v.

The body is translated statement by statement from the CURRENT source (comments blanked), for the fragment
    body := stmt* `false`
    stmt := `if let Some(V) = self.F {` `if` cmp `{ return true; }` `}`          F in {min_size, max_size}
    cmp  := (`file_size` | V) (`<` | `<=` | `>` | `>=`) (`file_size` | V)
Each statement returns true early, so the function is the disjunction of the statements' conditions.  Properties/C16.v proves
that the translated function IS the model's `Filter.size_filtered` and that its bounds are inclusive; a changed comparison
re-runs those proofs against the new text.  A body outside the fragment is reported as a broken tie (the pinned translation is
written so that the rest of the development still builds)."""
import os, re
REPO = os.environ.get("VERIF_REPO", "/repo")
HERE = os.path.dirname(os.path.dirname(os.path.abspath(__file__)))
OUT_V = os.path.join(HERE, "coq", "gen", "SizeFilter.v")
PINNED = [("min_size", "min", "file_size", "<", "min"), ("max_size", "max", "file_size", ">", "max")]
OPS = {"<": "N.ltb %s %s", "<=": "N.leb %s %s", ">": "N.ltb %s %s", ">=": "N.leb %s %s"}


def strip_comments(s):
    s = re.sub(r"//[^\n]*", "", s)
    return re.sub(r"/\*[\s\S]*?\*/", "", s)


def parse(src):
    m = re.search(r"fn should_filter_by_size\(&self, file_size: u64\) -> bool \{", src)
    if not m:
        return None
    i, depth = m.end(), 1
    while i < len(src) and depth:
        depth += {"{": 1, "}": -1}.get(src[i], 0)
        i += 1
    body = strip_comments(src[m.end():i - 1])
    stmt = re.compile(r"\s*if let Some\((\w+)\) = self\.(min_size|max_size) \{\s*if (\w+) (<=|>=|<|>) (\w+) \{\s*return true;\s*\}\s*\}")
    out, pos = [], 0
    while True:
        mm = stmt.match(body, pos)
        if not mm:
            break
        v, f, a, op, b = mm.groups()
        if {a, b} != {"file_size", v}:
            return None
        out.append((f, v, a, op, b))
        pos = mm.end()
    if body[pos:].strip() != "false" or not out:
        return None
    return out


def coq_of(stmts):
    L = ["(* GENERATED on every run by py/gen_sizefilter.py from %s/src/sync/mod.rs (should_filter_by_size) -- do not edit. *)" % REPO,
         "From Coq Require Import NArith Bool.", "Open Scope N_scope.", ""]
    names = []
    for k, (f, v, a, op, b) in enumerate(stmts):
        x, y = (a, b) if op in ("<", "<=") else (b, a)      # a > b  is  b < a
        cond = OPS[op] % (x, y)
        n = "size_stmt_%d" % k
        names.append(n)
        L.append("(* if let Some(%s) = self.%s { if %s %s %s { return true; } } *)" % (v, f, a, op, b))
        L.append("Definition %s (min_size max_size : option N) (file_size : N) : bool :=\n  match %s with Some %s => %s | None => false end." % (n, f, v, cond))
    L.append("(* the statements in source order; each returns true early, the function ends with `false` *)")
    L.append("Definition should_filter_by_size (min_size max_size : option N) (file_size : N) : bool :=\n  %s false." %
             "".join("(%s min_size max_size file_size) || " % n for n in names))
    return "\n".join(L) + "\n"


def generate():
    try:
        src = open(os.path.join(REPO, "src/sync/mod.rs"), encoding="utf-8", errors="replace").read()
        st = parse(src)
    except OSError:
        st = None
    broken = st is None
    text = coq_of(PINNED if broken else st)
    try:
        old = open(OUT_V).read()
    except OSError:
        old = None
    if old != text:
        os.makedirs(os.path.dirname(OUT_V), exist_ok=True)
        open(OUT_V, "w").write(text)
    return {"broken": ["SIZE_FILTER_TRANSLATION"] if broken else [], "stmts": PINNED if broken else st}


if __name__ == "__main__":
    print(generate())
