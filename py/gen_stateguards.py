#!/usr/bin/env python3
"""Translator: /repo/src/main.rs and /repo/src/sync/mod.rs  ->  coq/gen/StateGuards.v  (+ a python-evaluable copy for the search).

For every call that creates, rewrites or removes one of sy's own state files (resume state, directory cache, checksum database)
the translator finds the call in the CURRENT source, collects the conditions of all enclosing `if` blocks, keeps the conjuncts that
are command-line flags (`cli.x`, `self.x`, with `!`, `&&`, `||`) and drops every other conjunct -- so the generated guard is implied
by the real one ("the call MAY run only if the guard holds").  The theorems of Properties/C08.v / C15.v are re-checked against the
regenerated guards on every run: removing a `!dry_run` from the source changes the guard and breaks the proof.

Nothing here is hand-copied from the source except the names of the mutating calls (SITES)."""
import json, os, re, sys

REPO = os.environ.get("VERIF_REPO", "/repo")
HERE = os.path.dirname(os.path.dirname(os.path.abspath(__file__)))
OUT_V = os.path.join(HERE, "coq", "gen", "StateGuards.v")
OUT_JSON = os.path.join(HERE, "coq", "gen", "stateguards.json")

# name, file, regex of the mutating call (first match inside the named function), what it does to which file
SITES = [
    ("main_clean_state", "src/main.rs", r"ResumeState::delete\(destination\.path\(\)\)", "removes .sy-state.json"),
    ("main_clear_cache", "src/main.rs", r"DirectoryCache::delete\(destination\.path\(\)\)", "removes .sy-dir-cache.json"),
    ("engine_clear_cache", "src/sync/mod.rs", r"DirectoryCache::delete\(destination\)", "removes .sy-dir-cache.json"),
    ("engine_open_db", "src/sync/mod.rs", r"checksumdb::ChecksumDatabase::open\(destination\)", "creates / rewrites .sy-checksums.db"),
    ("engine_clear_db", "src/sync/mod.rs", r"db\.clear\(\)", "empties .sy-checksums.db"),
    ("engine_state_incompatible", "src/sync/mod.rs", r"ResumeState::delete\(destination\)\?;", "removes .sy-state.json (flags changed)"),
    ("engine_state_cleanup", "src/sync/mod.rs", r"if let Err\(e\) = ResumeState::delete\(destination\)", "removes .sy-state.json (run complete)"),
    ("engine_save_cache", "src/sync/mod.rs", r"cache\.save\(destination\)", "writes .sy-dir-cache.json"),
    ("engine_store_db", "src/sync/mod.rs", r"db\.store_checksum\(&file\.path", "writes rows of .sy-checksums.db"),
    ("engine_prune_db", "src/sync/mod.rs", r"db\.prune\(&existing_paths\)", "removes rows of .sy-checksums.db"),
]
# a call whose ARGUMENT is the permission to remove an unusable state file: load_with(destination, <expr>)
ARG_SITES = [("engine_state_invalid", "src/sync/mod.rs", r"ResumeState::load_with\(destination,\s*([^)]*)\)", "removes an unusable .sy-state.json")]

FLAG = re.compile(r"^(!?)\s*(?:cli|self|opts)\.([a-z_]+)$")


def strip_code(src):
    """blank out comments, string and char literals (same length), so that braces and `if` inside them do not count"""
    out = list(src)
    i, n = 0, len(src)
    while i < n:
        c = src[i]
        if src.startswith("//", i):
            j = src.find("\n", i)
            j = n if j < 0 else j
            for k in range(i, j):
                out[k] = " "
            i = j
        elif src.startswith("/*", i):
            j = src.find("*/", i + 2)
            j = n if j < 0 else j + 2
            for k in range(i, j):
                if out[k] != "\n":
                    out[k] = " "
            i = j
        elif c == '"':
            j = i + 1
            while j < n and src[j] != '"':
                j += 2 if src[j] == "\\" else 1
            for k in range(i + 1, min(j, n)):
                if out[k] != "\n":
                    out[k] = " "
            i = j + 1
        elif c == "'":
            m = re.match(r"'(\\.|[^\\'])'", src[i:i + 4])
            if m:
                for k in range(i + 1, i + len(m.group(0)) - 1):
                    out[k] = " "
                i += len(m.group(0))
            else:
                i += 1          # a lifetime
        else:
            i += 1
    return "".join(out)


def enclosing_headers(code, pos):
    """headers (text before each `{`) of the blocks that enclose position pos"""
    stack = []
    last_break = 0
    for i, c in enumerate(code[:pos]):
        if c == "{":
            stack.append(code[last_break:i].strip())
            last_break = i + 1
        elif c == "}":
            if stack:
                stack.pop()
            last_break = i + 1
        elif c == ";":
            last_break = i + 1
    return stack


def split_top(expr, op):
    parts, depth, cur, i = [], 0, "", 0
    while i < len(expr):
        if expr[i] in "([{":
            depth += 1
        elif expr[i] in ")]}":
            depth -= 1
        if depth == 0 and expr.startswith(op, i):
            parts.append(cur); cur = ""; i += len(op); continue
        cur += expr[i]; i += 1
    parts.append(cur)
    return [p.strip() for p in parts]


def flag_expr(cond):
    """the conjuncts of cond that are built from flags only -> expression tree ('and', [...]) of ('or', [...]) of (neg, name)"""
    conj = []
    for c in split_top(cond, "&&"):
        while c.startswith("(") and c.endswith(")") and split_top(c[1:-1], "||") is not None and c.count("(") == c.count(")") and _balanced(c[1:-1]):
            c = c[1:-1].strip()
        dis = []
        for d in split_top(c, "||"):
            m = FLAG.match(d)
            if not m:
                dis = None
                break
            dis.append((m.group(1) == "!", m.group(2)))
        if dis:
            conj.append(dis)
    return conj


def _balanced(s):
    d = 0
    for ch in s:
        d += ch == "("
        d -= ch == ")"
        if d < 0:
            return False
    return d == 0


def guard_of(code, pos):
    conj = []
    for h in enclosing_headers(code, pos):
        h = re.sub(r"\s+", " ", h)
        m = re.search(r"(?:^|[\s=])(?:else )?if (?!let )(.*)$", h)
        if m:
            conj += flag_expr(m.group(1))
    return conj


def generate():
    guards, broken = {}, []
    cache = {}
    for name, rel, rx, what in SITES:
        src = cache.setdefault(rel, open(os.path.join(REPO, rel), encoding="utf-8", errors="replace").read())
        code = cache.setdefault(rel + "#", strip_code(src))
        m = re.search(rx, code)
        if not m:
            broken.append("state-file site %s no longer found in %s" % (name, rel))
            continue
        guards[name] = {"what": what, "file": rel, "line": src[:m.start()].count("\n") + 1, "conj": guard_of(code, m.start())}
    for name, rel, rx, what in ARG_SITES:
        src = cache.setdefault(rel, open(os.path.join(REPO, rel), encoding="utf-8", errors="replace").read())
        code = cache.setdefault(rel + "#", strip_code(src))
        m = re.search(rx, code)
        if not m:
            broken.append("state-file site %s no longer found in %s" % (name, rel))
            continue
        guards[name] = {"what": what, "file": rel, "line": src[:m.start()].count("\n") + 1, "conj": guard_of(code, m.start()) + flag_expr(m.group(1))}
    flags = sorted({f for g in guards.values() for dis in g["conj"] for _n, f in dis} | {"dry_run", "verify_only"})
    lines = ["(* GENERATED on every run by py/gen_stateguards.py from %s/src/main.rs and src/sync/mod.rs -- do not edit." % REPO,
             "   For each call that creates, rewrites or removes one of sy's own state files: the flag conditions of the enclosing `if` blocks",
             "   (conjuncts that are not flags are dropped: the real condition implies the guard). *)",
             "From Coq Require Import Bool List String.", "Import ListNotations.", "Open Scope string_scope.", "",
             "Record sflags : Type := mk_sflags { %s }." % "; ".join("f_%s : bool" % f for f in flags), ""]
    for name, g in guards.items():
        terms = []
        for dis in g["conj"]:
            ds = [("negb (f_%s f)" % fl) if neg else ("f_%s f" % fl) for neg, fl in dis]
            terms.append(ds[0] if len(ds) == 1 else "(" + " || ".join(ds) + ")")
        body = " && ".join(terms) if terms else "true"
        lines.append("(* %s:%d -- %s *)" % (g["file"], g["line"], g["what"]))
        lines.append("Definition g_%s (f : sflags) : bool := %s." % (name, body))
    lines.append("")
    lines.append("(* every flag set to [b], except --dry-run and --verify-only (used by the non-vacuity examples) *)")
    lines.append("Definition sflags_all (b dry verify : bool) : sflags := mk_sflags %s." % " ".join("dry" if f == "dry_run" else ("verify" if f == "verify_only" else "b") for f in flags))
    lines.append("Definition main_guards : list (string * (sflags -> bool)) := [%s]." % "; ".join('("%s", g_%s)' % (n, n) for n in guards if n.startswith("main_")))
    lines.append("Definition engine_guards : list (string * (sflags -> bool)) := [%s]." % "; ".join('("%s", g_%s)' % (n, n) for n in guards if n.startswith("engine_")))
    lines.append("Definition all_guards : list (string * (sflags -> bool)) := main_guards ++ engine_guards.")
    lines.append("Definition expected_sites : nat := %d.   (* every site of py/gen_stateguards.py was found *)" % (len(SITES) + len(ARG_SITES)))
    text = "\n".join(lines) + "\n"
    os.makedirs(os.path.dirname(OUT_V), exist_ok=True)
    if not os.path.exists(OUT_V) or open(OUT_V).read() != text:
        open(OUT_V, "w").write(text)
    json.dump({"flags": flags, "guards": guards, "broken": broken}, open(OUT_JSON, "w"), indent=1)
    return {"flags": flags, "guards": guards, "broken": broken}


def holds(g, assignment):
    return all(any((not assignment[f]) if neg else assignment[f] for neg, f in dis) for dis in g["conj"])


if __name__ == "__main__":
    r = generate()
    for n, g in r["guards"].items():
        print(n, g["line"], " && ".join("(" + " || ".join(("!" if neg else "") + f for neg, f in dis) + ")" for dis in g["conj"]))
    print("broken:", r["broken"])
