#!/usr/bin/env python3
"""Writes MANIFEST.json from the registry below (kept in one place so the file stays valid)."""
import json, os
HERE = os.path.dirname(os.path.dirname(os.path.abspath(__file__)))
COMMON_NOTE = ("Trusted: Coq 8.16.1 kernel; extraction (ExtrOcamlBasic only) + ocaml/driver.ml; harness crate and python "
               "generators/comparators; py/gen_constants.py; rustc/cargo. ")
REG = {
 "C04": dict(
   text="Theorems in coq/Properties/C04.v about a Gallina model of rolling.rs/checksum.rs/generator.rs/applier.rs: rolling checksum = direct checksum after any roll sequence (u32 arithmetic modelled), copy ops in range (unconditional), reconstruction for both generators for all old/new/block sizes (relative to a non-colliding strong hash; closed for the identity instance), wire transparency relative to codec round-trip laws. Tied to the code by differential runs of the extracted model against the real library and sy-remote, and by constants regenerated from the source.",
   note="xxh3/serde_json/zstd are oracles with stated laws; full reads on regular files. All theorems closed under the global context.",
   technique="Rocq proof (loop invariants by induction) + extracted-model differential correspondence"),
 "C16": dict(
   text="Theorems in coq/Properties/C16.v: the glob matcher equals the declarative glob relation; basename/full-path/directory-subtree rule semantics; first-match decision; CLI rule order; and engine_select (the fold with excluded-directory pruning and size bounds) selects exactly {own first match includes, no excluded ancestor, size in bounds} for every rule list, bound and parent-first listing. Tied to the code by comparing FilterEngine::should_include with the extracted model over rule lists x a path universe and by running the real binary on generated trees/flags and comparing the transferred set with the proved selection; the listing hypothesis is evaluated on every real scan.",
   note="glob crate re-implemented for the grammar literal|?|* (validated by comparison, `**` and [..] outside the model); scanner walk order is a checked hypothesis. All theorems closed under the global context.",
   technique="Rocq proof (induction over the listing with an invariant) + differential correspondence (library and binary)"),
}
ORDER = ["C%02d" % i for i in range(1, 21)]


def main():
    props = [json.loads(l) for l in open(os.path.join(HERE, "properties.jsonl"))]
    na_path = os.path.join(HERE, "py", "not_applicable.json")
    na = json.load(open(na_path)) if os.path.exists(na_path) else {}
    checks = []
    for pid in ORDER:
        if pid not in REG:
            continue
        r = REG[pid]
        checks.append({
            "property_id": pid, "quick_cmd": "./check %s --tier quick" % pid, "thorough_cmd": "./check %s --tier thorough" % pid,
            "evidence_file": "evidence/%s.json" % pid, "replay_cmd_template": "./check %s --replay {path}" % pid, "engine": "rocq-model",
            "level_claimed": {"category": r.get("category", "proof"), "text": r["text"], "design_ref": "DESIGN.md section 9, " + pid},
            "level_note": COMMON_NOTE + r["note"], "technique": r["technique"]})
    m = {
        "version": 1, "setup_cmd": "./setup.sh",
        "hooks": {"guard": "nijaru_sy_verif",
                  "enable": "RUSTFLAGS=\"--cfg nijaru_sy_verif\" set by py/vlib.py:build_impl for the harness crate, which compiles /repo/src by path (lib, sy, sy-remote)",
                  "baseline_off_cmd": "cd /repo && cargo test --workspace --no-fail-fast --offline",
                  "source_commits": json.load(open(os.path.join(HERE, "py", "hook_commits.json"))) if os.path.exists(os.path.join(HERE, "py", "hook_commits.json")) else [],
                  "add_only": True},
        "engines": [{"name": "rocq-model", "path": "coq/", "serves_properties": [c["property_id"] for c in checks],
                     "kind_free_text": "Gallina model + theorems (Coq 8.16.1) under coq/, extracted to OCaml (ocaml/driver.ml) for differential correspondence against the Rust implementation built from /repo's working tree (harness/)"}],
        "checks": checks,
        "not_applicable": [{"property_id": p["id"], "reason": na.get(p["id"], "not yet claimed: check under construction (DESIGN.md section 9)")}
                           for p in props if p["id"] not in REG],
        "notes": "See DESIGN.md. Known findings: known_findings.json.",
    }
    json.dump(m, open(os.path.join(HERE, "MANIFEST.json"), "w"), indent=1)


if __name__ == "__main__":
    main()
