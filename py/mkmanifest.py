#!/usr/bin/env python3
"""Writes MANIFEST.json from the registry below (kept in one place so the file stays valid)."""
import json, os
HERE = os.path.dirname(os.path.dirname(os.path.abspath(__file__)))
COMMON_NOTE = ("Trusted: Coq 8.16.1 kernel; extraction (ExtrOcamlBasic only) + ocaml/driver.ml; harness crate and python "
               "generators/comparators; py/gen_constants.py; rustc/cargo. ")
REG = {
 "C01": dict(
   text="Theorem C01_postcondition (coq/Properties/C01.v) over Model/Engine.v -- a Gallina model of SyncEngine::sync (plan, deletion plan, mass-deletion guard, sequential task execution, error budget), StrategyPlanner and the local transfer paths for regular files and directories: for every well-formed filtered source listing, prior destination, comparison mode and --delete setting, a run that is not refused and reports no error leaves every selected entry present with its kind, every file that was absent or differed byte-identical (content identity) with the source's size and mtime -- except the explicitly carried disjunct for updates over a destination >= the delta gate (mtime = time of the run), which is refuted as a theorem (C01_refuted_big_update_mtime = known finding C01-KF1). Tie: generated worlds through the real binary (-j1 --json, hook-scaled gate) compared with the extracted Engine.run on refusal, exit status, error count, event sequence and final destination snapshot; statement-level oracle on the implementation's snapshots.",
   note="Partial: symbolic links, hard links and xattrs are outside Engine.v (C17/C13); byte-level equality of each transfer path rests on content identity (Delta/Sparse models give the byte-level lemmas for the delta/sparse codecs); single-file mode and -j>1 are exercised by runs only. Hook H1 scales the 10 MiB gate.",
   technique="Rocq proof (frame lemmas + induction over the task list) + binary-level differential correspondence"),
 "C02": dict(
   text="coq/Properties/C02.v: in Model/Engine.v the source is immutable input and every write lands on a destination path; the only channel out of the destination root is a symbolic link inside the destination, and Model/Links.v (the repaired planner/update path for symlink entries) proves that no step of any link mode over any destination entry -- for every history of runs -- writes through a destination link; dry-run and refused runs leave even the destination untouched. Tie: link histories (relative, absolute into the source, absolute into a sentinel outside both roots, dangling, directory-targeting incl. absolute, chained) x modes x prior entries x 2-3 runs with --delete / --dry-run / --verify-only on later runs through the real binary, with recursive snapshots of the source and of the sentinel before/after every run.",
   note="Partial: 'the source is never written' is a structural property of the model (no source state) and is validated on the implementation by snapshots; hard links between source and destination and cache files beside the source are covered by the snapshots only.",
   technique="Rocq proof (case analysis of the link state machine, history induction) + snapshot-based runs of the real binary"),
 "C03": dict(
   text="coq/Properties/C03.v: every transfer path that restores the source mtime leaves an entry the next plan skips (all modes except --ignore-times); after a successful run the re-run plans Skip for every selected entry outside the known class (C03_rerun_plans_skip); the block-delta paths are refuted as a theorem (C03_refuted_big_update = known finding C03-KF1). Tie: every C01 world is run twice through the real binary and both runs are compared with the model; oracle: second run reports only skips and leaves content, mtime and inode of every destination entry unchanged.",
   note="Partial: links/hard links are C17/C13; the remote half (ssh.rs) cannot be executed (no sshd). Same trusted base as C01.",
   technique="Rocq proof (corollary of the C01 invariant + planner case analysis, refutation witness) + two-run binary correspondence"),
 "C04": dict(
   text="Theorems in coq/Properties/C04.v about a Gallina model of rolling.rs/checksum.rs/generator.rs/applier.rs: rolling checksum = direct checksum after any roll sequence (u32 arithmetic modelled), copy ops in range (unconditional), reconstruction for both generators for all old/new/block sizes (relative to a non-colliding strong hash; closed for the identity instance), wire transparency relative to codec round-trip laws. Tied to the code by differential runs of the extracted model against the real library and sy-remote, and by constants regenerated from the source.",
   note="xxh3/serde_json/zstd are oracles with stated laws; full reads on regular files. All theorems closed under the global context.",
   technique="Rocq proof (loop invariants by induction) + extracted-model differential correspondence"),
 "C13": dict(
   text="coq/Properties/C13.v over Model/Hardlink.v, a small-step interleaving machine of the owner/waiter hand-off in Transferrer::create (map states, Notify as an epoch counter, every `?` exit): the full termination claim is refuted by two deadlock witnesses (failed first copy leaves InProgress behind = C13-KF1; lost wake-up between reading InProgress and creating the Notified future = C13-KF2); proved: for every schedule of any length of up to 4 workers, without failing operations and without the read/register gap, no state is stuck and every finished run has exactly one copier with all others hard-linked to it (reachable sets enumerated by the kernel, closure checked by computation, lifted to all schedules by a closure lemma). Tie: end-to-end runs of the real binary with -H over link-group partitions and -j1..16 (create, re-run, update), inode classes vs the source, termination by a wall-clock bound, and a natural owner-failure fault.",
   note="Partial: the interleaving model is not driven against the implementation step by step (schedule-point hooks H3/H4 were not built), so the tie is end-to-end only; tokio's Notify semantics and scheduler fairness are hypotheses; the bound of 4 workers is part of the theorem statements.",
   technique="Rocq proof (finite reachable-set enumeration by vm_compute + closure lemma; deadlock witnesses) + end-to-end runs"),
 "C14": dict(
   text="coq/Properties/C14.v: the sender's decision function never selects LZ4 (the helper only recognises the zstd magic); for every decision (size, extension, content sample, override) the SFTP/helper pipeline delivers exactly the original bytes, incl. empty, incompressible and magic-prefixed inputs -- relative to the zstd laws (theorem named _partial); raw helper payloads without the magic are written as they are; sparse transfers: for every extent layout whose holes read as zeros, receive_sparse(len, detect ext, pack f (detect ext)) = f (induction over the layout), short streams rejected. Tie: real `sy-remote receive-file`/`receive-sparse-file` over stdin with payload families (over pre-existing non-zero destination content), both codecs round-tripped, should_compress_smart vs the model's table, detect_data_regions vs the model fed with the kernel's extent map read by SEEK_DATA/SEEK_HOLE.",
   note="Partial: decompress(compress x) = x for zstd/lz4 is a hypothesis (external C/Rust libraries; exercised on the payload corpus only); the SSH transport itself cannot run (no sshd) -- only the helper binary and the sender's pure logic are covered.",
   technique="Rocq proof (decision-table case analysis; layout induction for sparse reconstruction) + helper-binary differential correspondence"),
 "C15": dict(
   text="coq/Properties/C15.v over Model/Verify.v (SyncEngine::verify + main.rs exit mapping): for content-comparing modes and trees without directory/file conflicts, exit 0 iff both trees hold the same regular files with identical contents; the mismatched / source-only / destination-only lists are exactly the true sets (for every size bound); exit 2 iff some file could not be read; the full statement is refuted for --mode fast (C15_refuted_fast_mode = C15-KF1) and for a source directory vs a destination file (C15_refuted_type_conflict = C15-KF2). Tie: pairs of trees x all modes through `sy --verify-only --json` (exit status, lists, matched count) vs Verify.verify; true sets from snapshots as the oracle; both trees snapshotted before/after.",
   note="Read-only is validated by snapshots only (the model is a pure function of the two listings); symbolic links are outside the model; hash collision-freedom assumed.",
   technique="Rocq proof (filter characterisations, exit-code equivalence, refutation witnesses) + binary-level differential correspondence"),
 "C16": dict(
   text="Theorems in coq/Properties/C16.v: the glob matcher equals the declarative glob relation; basename/full-path/directory-subtree rule semantics; first-match decision; CLI rule order; and engine_select (the fold with excluded-directory pruning and size bounds) selects exactly {own first match includes, no excluded ancestor, size in bounds} for every rule list, bound and parent-first listing. Tied to the code by comparing FilterEngine::should_include with the extracted model over rule lists x a path universe and by running the real binary on generated trees/flags and comparing the transferred set with the proved selection; the listing hypothesis is evaluated on every real scan.",
   note="glob crate re-implemented for the grammar literal|?|* (validated by comparison, `**` and [..] outside the model); scanner walk order is a checked hypothesis. All theorems closed under the global context.",
   technique="Rocq proof (induction over the listing with an invariant) + differential correspondence (library and binary)"),
 "C06": dict(
   text="coq/Properties/C06.v over Model/Engine.v: without --delete no destination entry lacking a source counterpart is removed or altered (for every run, errors included); the deletion plan is exactly the destination entries absent from the list handed to the planner, so listed entries are never deleted; selected entries survive the deletions of a successful run; spurious ENOENT errors on a stale directory with contents are a theorem about the model (C06_stale_dir_spurious_error = known finding C06-KF1); the engine hands the FILTERED list to the planner (known finding C06-KF2). Tie: worlds with extras/nested stale directories/--exclude through the real binary vs Engine.run, plus one 10 050-entry world for the Bloom-filter path.",
   note="Partial: the full mirror equality (destination paths = source paths) is checked by the oracle on runs, its model-level proof covers the 'selected entries survive' half and the exact plan; fastbloom is an oracle (no false negatives); worker counts > 1 are C05's subject.",
   technique="Rocq proof (plan characterisation, frame lemma, refutation witness) + binary-level differential correspondence"),
 "C07": dict(
   text="Decision half proved in coq/Properties/C07.v: the guard exactly as coded in binary64 (Coq primitive floats, kernel-evaluated) refuses whenever the planned deletions exceed t percent of the destination entries, for every destination of up to 200 entries, every d, every t in 0..100 (finite sweep lifted by forallb_forall); for unbounded sizes the same statement is proved relative to the standard model of rounding (theorem named _partial); default threshold protects against an empty source; CLI range 0..100. Placement half (refusal before any change, non-zero status, destination untouched) is checked on the real binary over generated worlds whose ratios sit just below/at/above the threshold, and the binary's decision is compared with the model evaluated inside coqc.",
   note="Partial: the unbounded theorem assumes the standard model |fl x - x| <= 2^-53 |x| and exact int->f64 conversion (instantiation trusted; Flocq bridge not built); refusal-before-any-change is validated by runs, its engine-level theorem is part of C06's engine model. Stdlib real axioms (sig_forall_dec, functional_extensionality_dep) under the _partial theorem; primitive float/int63 operations listed by Print Assumptions are kernel primitives.",
   technique="Rocq proof (kernel float evaluation on a finite domain + real-analysis lemma under the standard rounding model) + binary-level differential runs"),
 "C08": dict(
   text="coq/Properties/C08.v over Model/Engine.v: with --dry-run the destination after the run equals the destination before, for every source listing, destination and flag set; the plan does not depend on the flag; the dry run's event list is exactly the plan (create/update/skip/delete incl. the deletion plan) with no errors. The side effects on sy's own state files that happen before the engine's dry-run guard are not in Engine.v: they are checked on the real binary and are known findings C08-KF1..KF4 (checksum DB created, cache file cleared, corrupt resume state deleted, bisync DB created). Tie: twin worlds (dry run vs real run) through the binary with recursive snapshots of source, destination and a private HOME, event multisets compared, dry run compared with Engine.run.",
   note="Partial: state-file side effects are validated by runs only (no model of main.rs option handling); bisync dry-run covered by snapshots only.",
   technique="Rocq proof (dry-run execution is the identity; plan independence) + twin-run binary correspondence"),
 "C10": dict(
   text="coq/Properties/C10.v over Model/Engine.v (with the repaired exit mapping of main.rs): whenever a planned operation did not complete the exit status is non-zero, for every error budget; exit status 0 implies the C01 postcondition (for destinations without unseen type conflicts); a failing task leaves the destination exactly as it was (containment); the two type-conflict shapes the planner does not see are refuted as theorems (C10_refuted_type_conflict_skip, C10_refuted_dir_stat_skip = known finding C10-KF1). Tie: C01 worlds with natural faults (directory where the source has a file -> EISDIR, file where the source has a directory with children -> ENOTDIR for every descendant) x error budgets through the real binary vs Engine.run; oracle: failure visible, unaffected files correct, exit 0 implies C01.",
   note="Partial: only natural faults are injected in the registered quick check (EIO/ENOSPC/EACCES injection at the k-th system call needs the LD_PRELOAD shim; the sandbox runs as root so permission faults cannot arise naturally); verification failures (silent corruption under verifying modes) are not modelled.",
   technique="Rocq proof (exit-status case analysis + corollary of the C01 invariant, refutation witnesses) + binary-level differential correspondence under faults"),
 "C17": dict(
   text="coq/Properties/C17.v over Model/Links.v (plan/create/update of a symlink entry against the destination entry kinds, following the repaired code): preserve mode -- after any number of re-syncs with arbitrary retargeting in between, from any prior non-directory entry, the destination is a symlink with exactly the source link's current target text (induction over the history); follow mode -- the linked file's content becomes a regular file over any prior non-directory entry (links replaced, not written through); skip mode -- nothing is created for any history; follow-mode resolution of relative targets against the working directory is refuted as a theorem (C17_follow_relative_refuted = known finding C17-KF1). Tie: link-kind x mode x prior-entry x 1-3-run histories through the real binary vs Links.sync_link (readlink / kind after every run), user xattrs with and without -X checked on the files.",
   note="Partial: extended attributes have no Gallina model (copy_file strips, write_xattrs re-applies): validated by runs only; chained/directory-targeting links are compared by target text only.",
   technique="Rocq proof (state-machine case analysis + induction over re-sync histories) + binary-level differential correspondence"),
 "C11": dict(
   text="Theorems in coq/Properties/C11.v over a Gallina model of classifier.rs/resolver.rs/engine.rs/state.rs: for every pair of trees, every strategy, the first sync converges on every path outside the known class (equal size, different content) and loses no version except the loser a non-rename strategy names; the full statement is refuted by a vm_compute witness (C11_refuted_same_size = known finding C11-KF1). Tie: classify_changes/resolve_changes compared with the extracted model exhaustively over an ordered (size,mtime) domain, BisyncEngine::sync compared on edit/sync histories over real directories incl. state-DB rows; specification oracle (convergence, no silent loss) evaluated on the implementation's snapshots; failures count as known only inside a listed class and only while the implementation still equals the model of the pinned code.",
   note="Partial: convergence is proved for first syncs (empty state); with prior state the recorded rows are partial/stale (known findings C11-KF2, C12-KF1/KF2) and the statement is false. SQLite and fs::copy/rename are oracles.",
   technique="Rocq proof (frame lemmas + per-path case analysis, refutation witnesses) + exhaustive/differential correspondence"),
 "C12": dict(
   text="Theorems in coq/Properties/C12.v: the sync following a first sync plans no action on every non-renamed path (idle sync is a no-op) for all trees and strategy pairs; a deletion on the receiving side propagates; the full three-way-merge statement is refuted by two length-4 histories (C12_resurrects, C12_reverts_edit = known finding C12-KF1). Tie: all histories (edit)*sync(edit)*sync sync up to a bounded depth plus random histories executed on real directories and compared with the extracted model after every sync; three-way-merge reference oracle on the implementation's snapshots.",
   note="Partial: the positive theorems cover histories with one prior sync; beyond that the statement is false of the code (known findings). SQLite and fs::copy/rename are oracles.",
   technique="Rocq proof (frame lemmas, case analysis, vm_compute refutation witnesses) + exhaustive bounded-depth history correspondence"),
}
ORDER = ["C%02d" % i for i in range(1, 21)]


def main():
    props = [json.loads(l) for l in open(os.path.join(HERE, "properties.jsonl"))]
    na_path = os.path.join(HERE, "py", "not_applicable.json")
    na = json.load(open(na_path)) if os.path.exists(na_path) else {}
    checks = []
    for pid in ORDER:
        if pid not in REG:
            continue
        r = REG[pid]
        checks.append({
            "property_id": pid, "quick_cmd": "./check %s --tier quick" % pid, "thorough_cmd": "./check %s --tier thorough" % pid,
            "evidence_file": "evidence/%s.json" % pid, "replay_cmd_template": "./check %s --replay {path}" % pid, "engine": "rocq-model",
            "level_claimed": {"category": r.get("category", "proof"), "text": r["text"], "design_ref": "DESIGN.md section 9, " + pid},
            "level_note": COMMON_NOTE + r["note"], "technique": r["technique"]})
    m = {
        "version": 1, "setup_cmd": "./setup.sh",
        "hooks": {"guard": "nijaru_sy_verif",
                  "enable": "RUSTFLAGS=\"--cfg nijaru_sy_verif\" set by py/vlib.py:build_impl for the harness crate, which compiles /repo/src by path (lib, sy, sy-remote)",
                  "baseline_off_cmd": "cd /repo && cargo test --workspace --no-fail-fast --offline",
                  "source_commits": json.load(open(os.path.join(HERE, "py", "hook_commits.json"))) if os.path.exists(os.path.join(HERE, "py", "hook_commits.json")) else [],
                  "add_only": True},
        "engines": [{"name": "rocq-model", "path": "coq/", "serves_properties": [c["property_id"] for c in checks],
                     "kind_free_text": "Gallina model + theorems (Coq 8.16.1) under coq/, extracted to OCaml (ocaml/driver.ml) for differential correspondence against the Rust implementation built from /repo's working tree (harness/)"}],
        "checks": checks,
        "not_applicable": [{"property_id": p["id"], "reason": na.get(p["id"], "not yet claimed: check under construction (DESIGN.md section 9)")}
                           for p in props if p["id"] not in REG],
        "notes": "See DESIGN.md. Known findings: known_findings.json.",
    }
    json.dump(m, open(os.path.join(HERE, "MANIFEST.json"), "w"), indent=1)


if __name__ == "__main__":
    main()
