"""Shared by C11 and C12: generators of classifier cases and edit/sync histories, runner (implementation
through h_bisync on real directories vs the extracted model), parsers, and the two specification-level
oracles (convergence / no silent loss, three-way merge) evaluated on the implementation's snapshots."""
import itertools, os, re
import vlib

STRATS = ["newer", "larger", "smaller", "source", "dest", "rename"]


# ------------------------------------------------------------------ classifier / resolver, exhaustive over an order domain
def gen_classify_cases():
    dom = [(1, 10), (1, 20), (1, 30), (2, 10), (2, 20), (2, 30), (3, 20)]        # (size, mtime) from a 3x3 ordered domain (pruned)
    ents = ["-"] + ["%d:%d" % (s, m) for s, m in dom]
    recs = ["-"] + ["%d:%d" % (m, s) for s, m in dom]
    out = []
    for s in ents:
        for d in ents:
            for ps in recs:
                for pd in recs:
                    out.append("K %s %s %s %s" % (s, d, ps, pd))
    return out


# ------------------------------------------------------------------ histories
IDS = [4, 8, 12]


def rand_history(r, maxlen, strategies=STRATS, maxdel_choices=(0, 0, 0, 50)):
    steps = []
    n = r.randrange(2, maxlen + 1)
    for _ in range(n):
        if steps and r.random() < 0.3:
            steps.append("s:%s:%d" % (r.choice(strategies), r.choice(maxdel_choices)))
        else:
            sd = r.choice("SD")
            pid = r.choice(IDS)
            kind = r.choice("ccccdt")
            size = r.choice([1, 2, 3, 3, 5])
            steps.append("e:%s:%d:%s:%d:%d" % (sd, pid, kind, size, r.randrange(1, 250)))
    steps.append("s:%s:0" % r.choice(strategies))
    if r.random() < 0.7:
        steps.append("s:%s:0" % r.choice(strategies))
    return ";".join(steps)


def exhaustive_histories(depth, ids=(4,), strategies=STRATS):
    """all histories  (edit)* sync (edit)* sync  with up to `depth` edits over the edit alphabet, one strategy per history"""
    alpha = []
    for sd in "SD":
        for pid in ids:
            alpha += ["e:%s:%d:c:3:7" % (sd, pid), "e:%s:%d:c:5:9" % (sd, pid), "e:%s:%d:c:3:11" % (sd, pid),
                      "e:%s:%d:d:0:0" % (sd, pid), "e:%s:%d:t:0:0" % (sd, pid)]
    out = []
    for k1 in range(1, depth):
        for k2 in range(0, depth - k1 + 1):
            for e1 in itertools.product(alpha, repeat=k1):
                for e2 in itertools.product(alpha, repeat=k2):
                    out.append((e1, e2))
    hs = []
    for i, (e1, e2) in enumerate(out):
        st = strategies[i % len(strategies)]
        hs.append(";".join(list(e1) + ["s:%s:0" % st] + list(e2) + ["s:%s:0" % st, "s:%s:0" % st]))
    return hs


def run_pair(lines, scratch):
    env = dict(scratch.env)
    impl = vlib.run_sharded([os.path.join(vlib.BIN, "h_bisync")], lines, env=env)
    model = vlib.run_model(lines)
    return impl, model


# ------------------------------------------------------------------ parsing snapshots
SIDE = re.compile(r"(\w+) src\{([^}]*)\} dst\{([^}]*)\} db\{([^}]*)\}")


def parse_side(t):
    m = {}
    for kv in filter(None, t.split(",")):
        k, v = kv.split("=")
        s, c, mt = v.split("/")
        m[int(k)] = (int(s), int(c), int(mt))
    return m


def parse_db(t):
    m = {}
    for kv in filter(None, t.split(",")):
        k, v = kv.split("=")
        m[int(k)] = v
    return m


def parse_out(line):
    """-> list of (status, src, dst, db) one per sync"""
    res = []
    if line in ("-", "PANIC", "BADCASE") or line.startswith("CRASH"):
        return res
    for part in line.split(" ; "):
        m = SIDE.match(part.strip())
        if not m:
            return None
        res.append((m.group(1), parse_side(m.group(2)), parse_side(m.group(3)), parse_db(m.group(4))))
    return res


def repeated_rename_conflict(line):
    """does a conflict copy (model ids 16 p + 4 k + side) get REPLACED during this run?  Before the repair `fix: bisync never renames
    a conflicting file onto an existing conflict copy` this happened whenever two rename conflicts on one path fell into one
    second; now every conflict takes the first unused name and the harness numbers the copies by their rank, so no history
    depends on the wall clock any more.  A replaced copy is reported as a lost version."""
    snaps = parse_out(line)
    if not snaps:
        return False
    for side in (1, 2):
        prev = None
        for sn in snaps:
            cur = {k: v[:2] for k, v in sn[side].items() if k % 4 in (1, 2)}
            if prev is not None and any(k in prev and prev[k] != v for k, v in cur.items()):
                return True
            prev = cur
    return False


def replay_states(history):
    """the pre-sync states of both sides as the harness builds them, given post-sync snapshots are fed back in"""
    return history.split(";")


def cont(e):
    return None if e is None else (e[0], e[1])


def apply_edits(S, D, steps, t0):
    """apply edit steps (python mirror of the harness' edits) to snapshots"""
    t = t0
    for st in steps:
        t += 1
        f = st.split(":")
        side = S if f[1] == "S" else D
        pid = int(f[2])
        if f[3] == "c":
            side[pid] = (int(f[4]), int(f[5]) % 256, t)
        elif f[3] == "d":
            side.pop(pid, None)
        elif pid in side:
            side[pid] = (side[pid][0], side[pid][1], t)
    return t


def walk(history, snaps):
    """yield per sync: (index, strategy, maxdel, preS, preD, preDB, status, postS, postD, postDB)"""
    S, D, DB = {}, {}, {}
    t = 0
    k = 0
    for st in history.split(";"):
        f = st.split(":")
        if f[0] == "e":
            t = apply_edits(S, D, [st], t)
        elif f[0] == "w":
            t += 1
            (S if f[1] == "S" else D)[int(f[2])] = (int(f[3]), int(f[4]) % 256, int(f[5]))
        elif f[0] == "x":
            t += 1
            pid = int(f[2])
            if pid in DB:
                a, b_ = DB[pid].split("|")
                if f[1] == "S":
                    a = "S:-"
                else:
                    b_ = "D:-"
                if (a, b_) == ("S:-", "D:-"):
                    DB.pop(pid)
                else:
                    DB[pid] = a + "|" + b_
        else:
            t += 1
            if k >= len(snaps):
                return
            status, pS, pD, pDB = snaps[k]
            yield (k, f[1], int(f[2]), dict(S), dict(D), dict(DB), status, pS, pD, pDB)
            S, D, DB = dict(pS), dict(pD), dict(pDB)
            k += 1


def expected_conflict(strategy, s, d):
    """documented outcome of a genuine conflict: 'S' (source's version everywhere), 'D', or 'R' (both kept under conflict names)"""
    if strategy == "source":
        return "S"
    if strategy == "dest":
        return "D"
    if strategy == "rename" and s is not None and d is not None:
        return "R"
    if s is None or d is None:          # modify/delete under newer/larger/smaller/rename: the surviving version is kept (nothing to rename)
        return "S" if d is None else "D"
    if strategy == "newer":
        return "S" if s[2] > d[2] else "D" if d[2] > s[2] else "R"
    if strategy == "larger":
        return "S" if s[0] > d[0] else "D" if d[0] > s[0] else "R"
    return "S" if s[0] < d[0] else "D" if d[0] < s[0] else "R"


def merge_oracle(history, snaps):
    """three-way merge specification evaluated on observed snapshots.
    returns list of failures: dict(sync, path, why, klass)"""
    fails = []
    base, base_mt = {}, {}
    for (k, strat, maxdel, S, D, DB, status, pS, pD, pDB) in walk(history, snaps):
        if status == "refused":
            if (pS, pD) != (S, D):
                fails.append({"sync": k, "path": None, "why": "refused sync changed the trees", "klass": None})
            continue
        ids = sorted(set(S) | set(D) | set(base))
        for p in ids:
            s, d, b = S.get(p), D.get(p), base.get(p)
            sc, dc = cont(s) != b, cont(d) != b
            ps_, pd_ = pS.get(p), pD.get(p)
            why = None
            if sc and not dc:
                if cont(ps_) != cont(s) or cont(pd_) != cont(s):
                    why = "one-sided change on source not propagated (source %s, dest %s, base %s -> %s / %s)" % (cont(s), cont(d), b, cont(ps_), cont(pd_))
            elif dc and not sc:
                if cont(ps_) != cont(d) or cont(pd_) != cont(d):
                    why = "one-sided change on dest not propagated (source %s, dest %s, base %s -> %s / %s)" % (cont(s), cont(d), b, cont(ps_), cont(pd_))
            elif not sc and not dc:
                if cont(ps_) != cont(s) or cont(pd_) != cont(d):
                    why = "no change since last sync, yet the sync acted (%s / %s -> %s / %s)" % (cont(s), cont(d), cont(ps_), cont(pd_))
            else:
                if cont(s) == cont(d):
                    if cont(ps_) != cont(s) or cont(pd_) != cont(d):
                        why = "both sides changed to the same version, yet the sync acted"
                else:
                    exp = expected_conflict(strat, s, d)
                    if exp == "S" and not (cont(ps_) == cont(s) and cont(pd_) == cont(s)):
                        why = "conflict not resolved as the %s strategy prescribes (expected source's version)" % strat
                    elif exp == "D" and not (cont(ps_) == cont(d) and cont(pd_) == cont(d)):
                        why = "conflict not resolved as the %s strategy prescribes (expected dest's version)" % strat
                    elif exp == "R" and not (ps_ is None and pd_ is None and any(cont(pS.get(16 * p + 4 * k_ + 1)) == cont(s) for k_ in range(4))
                                             and any(cont(pD.get(16 * p + 4 * k_ + 2)) == cont(d) for k_ in range(4))):
                        why = "conflict not resolved as the %s strategy prescribes (expected both kept under conflict names)" % strat
            if why:
                # the side whose CONTENT is the last common version may still have been touched or rewritten with the same
                # bytes: sy sees a newer mtime and counts that as a modification (it keeps no checksum of the common version)
                klass = None
                bm = base_mt.get(p, (None, None))
                touched_s = (not sc) and s is not None and bm[0] is not None and s[2] != bm[0]
                touched_d = (not dc) and d is not None and bm[1] is not None and d[2] != bm[1]
                if touched_s or touched_d:
                    klass = "touch-counts"
                fails.append({"sync": k, "path": p, "why": why, "klass": klass})
        for p in set(pS) | set(pD) | set(base):
            if cont(pS.get(p)) == cont(pD.get(p)):
                if pS.get(p) is None:
                    base.pop(p, None); base_mt.pop(p, None)
                else:
                    base[p] = cont(pS.get(p))
                    base_mt[p] = (pS[p][2], pD[p][2])
    return fails


def rows_of(DB, p):
    """-> (source row, dest row), each (mtime, size) or None"""
    v = DB.get(p)
    if not v:
        return (None, None)
    out = []
    for part in v.split("|"):
        x = part.split(":", 1)[1]
        out.append(None if x == "-" else tuple(int(y) for y in x.split("/")))
    return tuple(out)


def converge_oracle(history, snaps):
    """C11: after a sync that reports no error both roots hold the same files with the same contents
    (one further sync allowed after renames); no version silently lost."""
    fails = []
    rows = list(walk(history, snaps))
    base, base_mt = {}, {}
    for i, (k, strat, maxdel, S, D, DB, status, pS, pD, pDB) in enumerate(rows):
        if status != "ok":
            continue
        renamed = any((q % 4 in (1, 2)) and (q not in S and q not in D) for q in set(pS) | set(pD))
        differing = [p for p in sorted(set(pS) | set(pD)) if cont(pS.get(p)) != cont(pD.get(p))]
        if differing and renamed:
            # allowed iff the very next step of the history is another sync that fixes it
            nxt = rows[i + 1] if i + 1 < len(rows) else None
            if nxt is not None and nxt[3] == pS and nxt[4] == pD:
                pass                     # judged at the next sync
            else:
                differing = []           # history continues with edits: cannot judge
        for p in differing:
            if renamed and p % 4 in (1, 2):
                continue
            fails.append({"sync": k, "path": p, "why": "sides differ after a successful sync: %s vs %s" % (cont(pS.get(p)), cont(pD.get(p))), "klass": None})
        # silent loss: a version present before must survive somewhere unless superseded base or explicit loser
        after = set(cont(e) for e in list(pS.values()) + list(pD.values()))
        for p in sorted(set(S) | set(D)):
            s, d, b = S.get(p), D.get(p), base.get(p)
            rs, rd = rows_of(DB, p)
            bm = base_mt.get(p, (None, None))
            # a side counts as changed since the last sync when its content differs from the common version or it was
            # rewritten/touched (new mtime): C11 leaves the notion of conflict to C12
            ch_s = cont(s) != b or (s is not None and bm[0] is not None and s[2] != bm[0])
            ch_d = cont(d) != b or (d is not None and bm[1] is not None and d[2] != bm[1])
            exp = expected_conflict(strat, s, d)
            for side, e, other, row_x, row_o in (("S", s, d, rs, rd), ("D", d, s, rd, rs)):
                v = cont(e)
                if v is None or v in after:
                    continue
                chosen_other = (exp == ("D" if side == "S" else "S"))
                if (rs is None) != (rd is None):
                    # prior state with a row for one side only: what the database can still tell
                    ok = ((row_x is not None and e[0] == row_x[1] and e[2] <= row_x[0]) or        # still the recorded version: superseded
                          (row_x is None and row_o is not None and other is None) or              # the only row says synchronised, the other side deleted it
                          (other is not None and cont(other) != v and strat != "rename" and chosen_other))
                else:
                    superseded = (v == b and cont(other) != b)             # the synchronised version replaced by a one-sided change
                    conflict = ch_s and ch_d and cont(s) != cont(d) and strat != "rename" and chosen_other
                    ok = superseded or conflict
                if not ok:
                    fails.append({"sync": k, "path": p, "why": "version %s of the %s side silently lost (strategy %s, rows %r/%r)" % (v, "source" if side == "S" else "dest", strat, rs, rd), "klass": None})
        for p in set(pS) | set(pD) | set(base):
            if cont(pS.get(p)) == cont(pD.get(p)):
                if pS.get(p) is None:
                    base.pop(p, None); base_mt.pop(p, None)
                else:
                    base[p] = cont(pS.get(p))
                    base_mt[p] = (pS[p][2], pD[p][2])
    return fails
