"""C01 -- one-way sync makes every selected file byte-identical to its source (and C03's re-run when
called through c03.py).  Theorems: coq/Properties/C01.v, C03.v over Model/Engine.v.
Tie: whole worlds through the real `sy` binary (-j1, --json, hook-scaled delta gate) vs Engine.run of
the extracted model: refusal, exit status, error count, event sequence, final destination snapshot.
Oracle: the statement itself evaluated on the implementation's before/after snapshots."""
import json, os, shutil
import vlib, world, engine_world as ew
from common import proof_phase, TRUSTED_COMMON

PID = "C01"
NS = 10**9


def differs_under_rule(fl, s, d):
    """does the destination file differ from the source under the active comparison rule?
    returns True / False / None (None = the 1..2 s band where the statement's 'more than 1 s' and the
    code's whole-second truncation may legitimately disagree)"""
    if d is None:
        return True
    if fl.get("it"):
        return True
    if fl.get("ck"):
        return s["sha"] != d["sha"] or s["size"] != d["size"]
    if s["size"] != d["size"]:
        return True
    if fl.get("so"):
        return False
    delta = abs(s["mtime_ns"] - d["mtime_ns"])
    if delta >= 2 * NS:
        return True
    if delta <= NS:
        return False
    return None


def c01_oracle(fl, raw, run_start_ns):
    """list of failures (dict path, why, klass) of the C01 postcondition on the observed run"""
    fails = []
    if raw["rc"] != 0 or raw["nerr"] != 0 or fl.get("dry") or raw["refused"]:
        return fails
    src, before, after = raw["src"], raw["before"], raw["after"]
    for rel, s in src.items():
        a = after.get(rel)
        if a is None:
            fails.append({"path": rel, "why": "selected source entry missing in destination after a successful run", "klass": None})
            continue
        if a["kind"] != s["kind"]:
            fails.append({"path": rel, "why": "kind differs (%s vs %s)" % (s["kind"], a["kind"]), "klass": None})
            continue
        if s["kind"] != "f":
            continue
        b = before.get(rel)
        b = b if (b and b["kind"] == "f") else None
        diff = differs_under_rule(fl, s, b)
        if diff is True:
            big = b is not None and b["size"] >= fl.get("big", ew.BIG)
            if a["sha"] != s["sha"] or a["size"] != s["size"]:
                fails.append({"path": rel, "why": "file differed under the active rule but is not byte-identical to its source afterwards", "klass": None})
            elif a["mtime_ns"] != s["mtime_ns"]:
                fails.append({"path": rel, "why": "content right but mtime is not the source's (dest %d vs source %d)%s" % (a["mtime_ns"], s["mtime_ns"], " [update over a destination >= the delta gate]" if big else ""),
                              "klass": None})
    return fails


def run_world(sc, i, sspec, dspec, fl, runs=1, sparse=None):
    base = os.path.join(sc.dir, "w%d" % i)
    src, dst = base + "/src", base + "/dst"
    ew.mk(src, sspec)
    ew.mk(dst, dspec)
    os.makedirs(src, exist_ok=True)
    os.makedirs(dst, exist_ok=True)
    if sparse:
        sparse(src, dst)
    ids = ew.Ids()
    out = []
    for k in range(1, runs + 1):
        import time
        t0 = time.time_ns() - 50_000_000
        case, obs, raw = ew.run_once(sc, src, dst, fl, ids, k=k)
        kv = dict(x.split("=", 1) for x in obs.split(" "))
        raw["nerr"] = int(kv["nerr"])
        raw["refused"] = kv["refused"] == "1"
        raw["run_start_ns"] = t0
        out.append((case, obs, raw))
    return out


def make_sparse(r):
    """adds a sparse source file (holes) over a big stale destination full of non-zero bytes"""
    def f(src, dst):
        size = ew.BIG * 2 + 12345
        with open(os.path.join(src, "sparse.img"), "wb") as fh:
            fh.truncate(size)
            fh.seek(8192); fh.write(b"\x11" * 5000)
            fh.seek(ew.BIG + 4096 * 3); fh.write(b"\x22" * 70000)
            fh.flush(); os.fsync(fh.fileno())
        os.utime(os.path.join(src, "sparse.img"), ns=(ew.T0NS + 1234 * NS, ew.T0NS + 1234 * NS))
        with open(os.path.join(dst, "sparse.img"), "wb") as fh:
            fh.write(b"\xee" * (size + r.choice([0, 4096, -4096])))
            fh.flush(); os.fsync(fh.fileno())
        os.utime(os.path.join(dst, "sparse.img"), ns=(ew.T0NS + 99 * NS, ew.T0NS + 99 * NS))
    return f


def real_gate_worlds(sc, r, runs):
    """thorough tier: the >= 10 MiB paths WITHOUT scaling the gate (hook value = the real 10 MiB): block delta over a
    similar 11 MiB destination, change-ratio fallback over a dissimilar one, sparse source over a large destination"""
    GATE = 10 * 1024 * 1024
    out = []
    base = os.path.join(sc.dir, "real")
    src, dst = base + "/src", base + "/dst"
    os.makedirs(src); os.makedirs(dst)
    data = r.randbytes(GATE + 700001)
    b = bytearray(data)
    for i in range(0, len(b), 1 << 20):
        b[i:i + 4096] = r.randbytes(4096)
    for name, sdata, ddata in (("delta.bin", data, bytes(b) + b"tail"), ("fallback.bin", r.randbytes(GATE + 5), r.randbytes(GATE + 4096)), ("small.txt", b"abc", b"x")):
        for root, blob, mt in ((src, sdata, 1234), (dst, ddata, 99)):
            with open(os.path.join(root, name), "wb") as fh:
                fh.write(blob); fh.flush(); os.fsync(fh.fileno())
            os.utime(os.path.join(root, name), ns=(ew.T0NS + mt * NS, ew.T0NS + mt * NS))
    with open(src + "/sparse.img", "wb") as fh:
        fh.truncate(GATE + 12345); fh.seek(1 << 20); fh.write(b"\x33" * 70000); fh.flush(); os.fsync(fh.fileno())
    os.utime(src + "/sparse.img", ns=(ew.T0NS + 1234 * NS,) * 2)
    with open(dst + "/sparse.img", "wb") as fh:
        fh.write(b"\xee" * (GATE + 4096)); fh.flush(); os.fsync(fh.fileno())
    os.utime(dst + "/sparse.img", ns=(ew.T0NS + 99 * NS,) * 2)
    for root in (src, dst):
        os.utime(root, ns=(ew.T0NS, ew.T0NS))
    world.sync_fs()
    ids = ew.Ids()
    fl = {"j": 1, "big": GATE}
    for k in range(1, runs + 1):
        import time
        t0 = time.time_ns() - 50_000_000
        case, obs, raw = ew.run_once(sc, src, dst, fl, ids, k=k)
        kv = dict(x.split("=", 1) for x in obs.split(" "))
        raw["nerr"] = int(kv["nerr"]); raw["refused"] = kv["refused"] == "1"; raw["run_start_ns"] = t0
        out.append((case, obs, raw, ("real-gate", k, fl)))
    return out


def generic(pid, tier, seed, runs, oracle_fn, extra_worlds=None):
    res = vlib.Result(pid, tier, seed)
    pr = proof_phase(res, pid)
    okm, outm = vlib.build_model()
    oki, outi, _ = vlib.build_impl()
    if not (okm and oki):
        res.violation("build", "build failed:\n" + (outi if not oki else outm)[-3000:], no_input=True)
        return res.finish()
    known = {f["class"]: f for f in vlib.load_known()["findings"] if f["property"] == pid}
    r = vlib.rng_for(seed, pid)
    n = (70 if tier == "quick" else 900)
    cases, obs_l, raws, metas = [], [], [], []
    with vlib.Scratch() as sc:
        for i in range(n):
            sspec, dspec = ew.gen_world(r)
            fl = ew.gen_flags(r, allow_delete=(pid not in ("C01",) or r.random() < 0.3), jobs=True)
            if pid == "C03":
                fl.pop("it", None)
            sparse = make_sparse(r) if i % 9 == 4 else None
            for k, (case, obs, raw) in enumerate(run_world(sc, i, sspec, dspec, fl, runs=runs, sparse=sparse), 1):
                cases.append(case); obs_l.append(obs); raws.append(raw); metas.append((i, k, fl))
        if tier == "thorough" and pid in ("C01", "C03"):
            for w in real_gate_worlds(sc, r, runs):
                cases.append(w[0]); obs_l.append(w[1]); raws.append(w[2]); metas.append(w[3])
        for w in (extra_worlds(sc, r) if extra_worlds else []):
            cases.append(w[0]); obs_l.append(w[1]); raws.append(w[2]); metas.append(w[3])
        # real-size worlds around the 10 MiB gate with destination names that share an inode (seeds C01-4, C03-4)
        big_fails = []
        if pid in ("C01", "C03"):
            import biglinks
            for vi in (range(5) if tier == "quick" else range(10)):
                bname, bf = biglinks.run_variant(sc, seed + 31 * vi, vi)
                want = "re-run" if pid == "C03" else None
                big_fails += [{"world": "biglinks-%d" % vi, "variant": bname, "why": x} for x in bf if (pid == "C01" and "re-run" not in x) or (pid == "C03")]
        if pid == "C03":
            # (7d249a9) symbolic links under each link mode and comparison mode: the immediate re-run reports nothing created or updated
            for li, (lmode, cmp_) in enumerate([(m_, c_) for m_ in ("follow", "preserve", "skip") for c_ in ([], ["--checksum"], ["--size-only"])]):
                lb = os.path.join(sc.dir, "lnkrr%d" % li)
                os.makedirs(lb + "/src/sub"); os.makedirs(lb + "/dst")
                open(lb + "/src/t.txt", "w").write("referent")
                os.symlink("t.txt", lb + "/src/l_file"); os.symlink("nowhere", lb + "/src/l_dangling"); os.symlink("sub", lb + "/src/l_dir")
                world.run_sy([lb + "/src", lb + "/dst", "--links", lmode, "-q"] + cmp_, sc)
                r2_ = world.run_sy([lb + "/src", lb + "/dst", "--links", lmode, "--json"] + cmp_, sc)
                sm_ = [json.loads(l) for l in r2_["out"].split("\n") if l.startswith("{") and '"summary"' in l]
                if sm_ and (sm_[0]["files_created"], sm_[0]["files_updated"], sm_[0]["bytes_transferred"]) != (0, 0, 0):
                    big_fails.append({"world": "link-rerun-%s%s" % (lmode, "".join(cmp_)), "why": "--links %s %s: the immediate re-run reports created=%d updated=%d bytes=%d" % (lmode, " ".join(cmp_), sm_[0]["files_created"], sm_[0]["files_updated"], sm_[0]["bytes_transferred"])})
                shutil.rmtree(lb, ignore_errors=True)
    model = [ew.model_obs(m) for m in vlib.run_model(cases)]
    diffs, viol, hits, nontriv = [], [], {}, set()
    viol += big_fails
    res.cov["real_size_linked_destination_worlds"] = (5 if tier == "quick" else 10) if pid in ("C01", "C03") else 0
    for case, o, m, raw, (i, k, fl) in zip(cases, obs_l, model, raws, metas):
        if raw.get("timeout"):
            viol.append({"world": i, "run": k, "why": "the run did not terminate", "flags": fl})
            continue
        same = (o == m) if fl.get("j", 1) == 1 else (ew.norm_events(o) == ew.norm_events(m))     # several workers: any completion order
        if not same:
            diffs.append({"world": i, "run": k, "flags": fl, "case": case, "impl": o, "model": m, "stderr": raw["stderr"]})
        for f in oracle_fn(fl, raw, k, raws, metas, (i, k)):
            if f["klass"] in known and same:
                hits.setdefault(known[f["klass"]]["id"], []).append((i, k, f))
            else:
                viol.append({"world": i, "run": k, "flags": fl, "failure": f, "case": case, "impl": o, "model": m,
                             "note": "outside every listed known-finding class" if f["klass"] not in known else "in class %s but the implementation no longer behaves as the model of the pinned code" % f["klass"]})
        if "update" in o or "create" in o:
            nontriv.add(o)
    res.cov["evaluations"] = len(cases)
    res.cov["distinct_nontrivial"] = len(nontriv)
    res.cov["model_impl_disagreements"] = len(diffs)
    res.cov["known_finding_hits"] = {k: len(v) for k, v in hits.items()}
    res.cov["rule"] = ("generated source trees (nesting, unicode/space names, sizes 0..2.5 blocks around the hook-scaled 96 KiB delta gate, sub-second mtimes) x per-file prior "
                       "destination classes (absent, identical, mtime +-0.5/1/1.999/2/3 s/1 day, other size, stale content, longer, shorter) x extras x comparison modes "
                       "x --delete/threshold; every 9th world adds a sparse source over a big stale destination; each world run %d time(s) through the real binary with -j1 --json; "
                       "non-trivial = at least one create or update; distinct = distinct observation lines" % runs)
    res.cov["samples"] = [c[:300] for c in cases[:2]] + [o[:300] for o in obs_l[:1]]
    res.cov["trusted_base"] = TRUSTED_COMMON + ["kernel/file-system semantics of fs::copy, rename, remove_dir_all, utimensat (modelled)",
                                                 "xxh3/BLAKE3 collision-freedom for --checksum and verification (content ids)",
                                                 "hook H1: SY_VERIF_DELTA_THRESHOLD scales the 10 MiB gate to 96 KiB (thorough tier also runs real >= 10 MiB cases)"]
    for cls, f in known.items():
        h = hits.get(f["id"], [])
        if h:
            res.known.append("%s %s [%d cases this run, e.g. world %d run %d path %s]" % (f["id"], f["what"], len(h), h[0][0], h[0][1], h[0][2].get("path")))
        else:
            res.notes.append("listed finding %s was not reproduced by this run" % f["id"])
    for v in viol[:3]:
        res.violation("world", v)
    if not viol and (diffs or pr["broken"]):
        what = list(pr["broken"])
        if diffs:
            what.append("the binary differs from Engine.run on %d runs; first: %s" % (len(diffs), json.dumps(diffs[0])[:1500]))
        res.violation("unproved", {"no_failing_input_found": True, "what_no_longer_checks": what, "first_case": diffs[0] if diffs else None}, no_input=True)
    return res.finish()


def run(tier, seed):
    def orc(fl, raw, k, raws, metas, key):
        return c01_oracle(fl, raw, raw["run_start_ns"])
    return generic(PID, tier, seed, 1, orc)


def replay(path):
    d = json.load(open(path))
    print(json.dumps(d, indent=1, default=str)[:5000])
    case = d.get("case") or (d.get("first_case") or {}).get("case")
    if case:
        vlib.build_model()
        print("model now:", ew.model_obs(vlib.run_model([case], shards=1)[0]))
    return 0
