"""C02 -- sync never modifies the source tree or anything outside the destination.
Theorems: coq/Properties/C02.v.  Tie: (i) the link histories of C17 with snapshots of the source and of a sentinel
directory outside both roots before/after every run; (ii) C01/C06/C08 style worlds under --delete / --dry-run /
--verify-only with the same snapshots."""
import os
import vlib, world, engine_world as ew
import c17


def run(tier, seed):
    return c17.run(tier, seed, pid="C02")


def replay(path):
    return c17.replay(path)
