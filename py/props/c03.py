"""C03 -- a completed sync is a fixed point: re-running changes nothing.  Shares worlds/generic runner with C01."""
import json
import vlib, engine_world as ew
import c01

PID = "C03"


def oracle(fl, raw, k, raws, metas, key):
    """evaluated on the second run of a world whose first run succeeded"""
    fails = []
    if k != 2:
        return fails
    # find the first run of the same world
    i = key[0]
    first = None
    for r0, (i0, k0, _) in zip(raws, metas):
        if i0 == i and k0 == 1:
            first = r0
    if first is None or first["rc"] != 0 or first["nerr"] != 0 or first["refused"] or fl.get("dry"):
        return fails
    big = fl.get("big", ew.BIG)
    for ev in raw["events"]:
        t, p = ev.split(":", 1)
        if t != "skip":
            # which relative path is it? recover through the before/after snapshots: report by id
            fails.append({"path": p, "why": "re-run reports %s instead of skip" % t, "klass": None, "ev": ev})
    changed = []
    for rel in set(raw["before"]) | set(raw["after"]):
        b, a = raw["before"].get(rel), raw["after"].get(rel)
        if b is None or a is None:
            changed.append(rel)
        elif b["kind"] == "f" and (b.get("sha"), b["mtime_ns"], b["ino"]) != (a.get("sha"), a["mtime_ns"], a["ino"]):
            changed.append(rel)
        elif b["kind"] != a["kind"]:
            changed.append(rel)
    # classify: a file whose FIRST-run update went over a destination >= gate is the known class
    bigpaths = set()
    for rel, b0 in first["before"].items():
        s0 = first["src"].get(rel)
        if b0["kind"] == "f" and b0["size"] >= big and s0 is not None and s0["kind"] == "f":
            a0 = first["after"].get(rel)
            if a0 is not None and a0["mtime_ns"] != s0["mtime_ns"] and a0.get("sha") == s0.get("sha"):
                bigpaths.add(rel)
    out = []
    ids_seen = set()
    for rel in changed:
        out.append({"path": rel, "why": "destination entry changed by the re-run", "klass": None})
        ids_seen.add(rel)
    nonskip = [f for f in fails]
    # every non-skip event must be explained by a changed big path; otherwise it is its own failure
    if len(nonskip) > len([r for r in changed if r in bigpaths]):
        for f in nonskip[:1]:
            out.append(dict(f, klass=None))
    elif nonskip and not changed:
        out += nonskip
    return out


def run(tier, seed):
    return c01.generic(PID, tier, seed, 2, oracle)


def replay(path):
    return c01.replay(path)
