"""C04 -- delta encoding reconstructs the new file exactly.
Theorems: coq/Properties/C04.v.  Tie: harness/src/bin/h_delta.rs (implementation) vs the
extracted model on the same case file; oracle on the implementation's own output."""
import os, re, sys, json, time
import vlib
from common import proof_phase, TRUSTED_COMMON

PID = "C04"


# ------------------------------------------------------------------ generators
def rb(r, n, alpha=256):
    return bytes(r.randrange(alpha) for _ in range(n))


def edit(r, old, k, alpha=256):
    """k random edits (replace / insert / delete) applied to old"""
    new = bytearray(old)
    for _ in range(k):
        kind = r.randrange(3)
        pos = r.randrange(len(new) + 1)
        if kind == 0 and new:
            new[min(pos, len(new) - 1)] = r.randrange(alpha)
        elif kind == 1:
            new[pos:pos] = rb(r, r.randrange(1, 4), alpha)
        elif new:
            del new[min(pos, len(new) - 1):min(pos, len(new) - 1) + r.randrange(1, 4)]
    return bytes(new)


def D(bs, chunk, old, new):
    return "D %d %d %s %s" % (bs, chunk, vlib.hexs(old), vlib.hexs(new))


def DS(bs, chunk, old, new):
    return "DS %d %d %s %s" % (bs, chunk, vlib.hexs(old), vlib.hexs(new))


def gen_cases(seed, tier, consts):
    r = vlib.rng_for(seed, "C04")
    CH = consts["CHUNK_SIZE"]
    MAXB = consts["MAX_BLOCK"]
    q = tier == "quick"
    cases = []  # (family, line)
    # corpus first: minimised past failures / non-vacuity witnesses
    corpus = os.path.join(vlib.VERIF, "corpus", "C04")
    if os.path.isdir(corpus):
        for f in sorted(os.listdir(corpus)):
            for line in open(os.path.join(corpus, f)):
                line = line.strip()
                if line and not line.startswith("#"):
                    cases.append(("corpus", line.replace("@CHUNK@", str(CH))))
    # (a) small alphabets, tiny blocks: many matches, repeats, collisions of the weak sum
    for _ in range(900 if q else 12000):
        alpha = r.choice([2, 2, 3, 4])
        bs = r.randrange(1, 7)
        old = rb(r, r.randrange(0, 25), alpha)
        new = edit(r, old, r.randrange(0, 4), alpha) if r.random() < 0.6 else rb(r, r.randrange(0, 25), alpha)
        cases.append(("small", D(bs, CH, old, new)))
    # (b) structured edits around block boundaries
    for _ in range(450 if q else 6000):
        bs = r.choice([1, 2, 3, 5, 7, 8, 16, 31, 64])
        nblk = r.randrange(1, 9)
        old = rb(r, nblk * bs + r.choice([0, 0, 1, bs - 1 if bs > 1 else 0, r.randrange(bs)]))
        mode = r.randrange(6)
        if mode == 0:      # unaligned shift
            new = rb(r, r.randrange(1, bs + 2)) + old
        elif mode == 1:    # edit at a block boundary
            p = min(len(old), r.randrange(0, nblk + 1) * bs)
            new = old[:p] + rb(r, r.randrange(0, 3)) + old[p + r.randrange(0, 2):]
        elif mode == 2:    # repeated blocks
            blk = old[:bs]
            new = blk * r.randrange(1, 4) + old[bs:] + blk
            old = old + blk
        elif mode == 3:    # shorter / longer
            new = old[:r.randrange(0, len(old) + 1)] if r.random() < 0.5 else old + rb(r, r.randrange(1, 2 * bs + 2))
        elif mode == 4:    # reordered blocks
            blks = [old[i:i + bs] for i in range(0, len(old), bs)]
            r.shuffle(blks)
            new = b"".join(blks)
        else:
            new = edit(r, old, r.randrange(1, 5))
        cases.append(("struct", D(bs, CH, old, new)))
    # (c) constructed weak-checksum collisions: swap-invariant pairs (a,b sums equal)
    for _ in range(40 if q else 400):
        x = r.randrange(1, 200)
        a = bytes([x, x + 2, x])
        b = bytes([x + 1, x, x + 1])
        pre = rb(r, r.randrange(0, 4))
        cases.append(("weakcoll", D(3, CH, pre + a + b, b + pre + a + a)))
    # (d) empty sides, single bytes
    for old, new in ((b"", b""), (b"", b"a"), (b"a", b""), (b"a", b"a"), (b"ab", b"ba")):
        for bs in (1, 2, 3):
            cases.append(("edge", D(bs, CH, old, new)))
    # (e) window families with the real CHUNK (streaming generator only; the extracted model costs ~30 us per byte and pass)
    big = []
    for bs in ([4096] if q else [512, 4096, 8192, 30000]):
        for mult, d in ([(1, 1), (1, -1)] if q else [(1, 0), (1, 1), (1, -1), (1, bs + 1), (1, -bs - 1), (2, 0), (2, 1), (2, -1), (3, 1)]):
            n = mult * CH + d
            old = rb(r, n)
            new = bytearray(rb(r, r.randrange(1, 4)) + old)
            for _ in range(r.randrange(0, 4)):
                new[r.randrange(len(new))] ^= 0x5A
            big.append(("window", DS(bs, CH, old, bytes(new[:n + r.randrange(0, 3)]))))
    # blocks at the cap: literals pending across a refill, trailing partial block matched
    for bs in ([MAXB] if q else [MAXB, MAXB // 2]):
        for k in ([1] if q else [0, 1, 2, 3, 5]):
            old = rb(r, 2 * bs + r.randrange(0, 900))
            new = rb(r, k) + old + (b"" if k % 2 else rb(r, 1))
            big.append(("cap", DS(bs, CH, old, new)))
    # matches that end exactly on a window boundary: aligned identical files, and shifted matches landing on it
    # (every gate: lengths CHUNK, CHUNK+1, CHUNK+bs; block sizes dividing and not dividing CHUNK)
    plan = [(4096, CH, 0), (4096, CH + 4096, 0), (MAXB, CH, 0), (MAXB, CH + 1, 0), (1000, CH + 1, CH % 1000), (512, CH + 512, 0)] if q else \
           [(bs, n, k) for bs in (512, 1000, 4096, 65536, 100000, MAXB) for n in (CH - 1, CH, CH + 1, CH + bs, 2 * CH, 2 * CH + 1) for k in (0, CH % bs)]
    for bs, n, k in plan:
        old = rb(r, n)
        big.append(("boundary", DS(bs, CH, old, rb(r, k) + old)))
    # (the streaming repair of round 4) a block size ABOVE the chunk: an unchanged file longer than one chunk is one (partial) block of
    # old; the window has to hold it whole.  (Any other input of that length costs minutes here: below one block every literal byte
    # re-hashes the whole rest of the window.)
    for bs, n in ([(300000, CH + 1000)] if q else [(300000, CH + 1000), (CH + 1, CH + 1), (400000, 399999)]):
        old = rb(r, n)
        big.append(("block-above-chunk", DS(bs, CH, old, old)))
    cases += big
    # rolling checksum: random roll sequences, modulo-boundary patterns
    for _ in range(250 if q else 3000):
        bs = r.randrange(1, 40)
        data = rb(r, r.randrange(bs, bs + 200), r.choice([256, 256, 2]))
        cases.append(("roll", "R %d %s" % (bs, vlib.hexs(data))))
    for bs, n, byte in ((300, 700, 0xFF), (5000, 6000, 0xFF), (257, 600, 0x00), (MAXB, MAXB + 50, 0xFF), (65521 % 5000 + 1, 3000, 0xFE)):
        if q and bs == MAXB:
            n = MAXB + 10
        cases.append(("rollmod", "R %d %s" % (bs, vlib.hexs(bytes([byte]) * n))))
    # (seed C04-4, missed by the full re-run of round 4 once the random stream had moved) windows whose A = 1 + sum of bytes, or whose B,
    # is EXACTLY 0 modulo 65521 -- the residue a compare-and-subtract reduction gets wrong: 256 x 0xFF + 0xF0 sums to 65520
    blk = bytes([0xFF]) * 256 + bytes([0xF0])
    cases.append(("rollmod", "R 257 %s" % vlib.hexs(bytes([7]) + blk + bytes([3, 9]))))
    cases.append(("rollmod", "R 257 %s" % vlib.hexs(blk + blk + bytes([1]))))
    cases.append(("rollmod", "R 514 %s" % vlib.hexs(bytes([0]) * 257 + blk + bytes([5]))))
    # B = sum over i of (n - i) * byte_i + n = 0 (mod 65521): searched for once, small n
    for nb in (2, 3):
        found = None
        for x in range(256):
            for y in range(256):
                w = [x, y] if nb == 2 else [x, y, 255]
                a_ = 1; b_ = 0
                for v in w:
                    a_ = (a_ + v) % 65521; b_ = (b_ + a_) % 65521
                if b_ == 0 or a_ == 0:
                    found = bytes(w); break
            if found:
                break
        if found:
            cases.append(("rollmod", "R %d %s" % (nb, vlib.hexs(bytes([1]) + found + bytes([2])))))
    # block-size choice: calculate_block_size against Delta.block_size_for (clamp of the integer root) -- every
    # magnitude, perfect squares and their neighbours, both clamp edges
    bsz = [0, 1, 511 * 511, 512 * 512 - 1, 512 * 512, 512 * 512 + 1, 513 * 513 - 1, 513 * 513, 131072 * 131072 - 1,
           131072 * 131072, 131072 * 131072 + 1, 131071 * 131071, 131071 * 131071 - 1, 2 ** 52, 2 ** 53 + 1, 2 ** 62 - 1]
    for _ in range(150 if q else 3000):
        k = r.randrange(1, 140000)
        bsz += [k * k - 1, k * k, k * k + 1, r.randrange(0, 2 ** r.randrange(1, 62))]
    for n in bsz:
        cases.append(("blocksize", "B %d" % max(0, n)))
    # wire: through the real sy-remote (checksums + apply-delta), compressed and raw
    for _ in range(30 if q else 300):
        bs = r.choice([1, 4, 16, 64, 512])
        old = rb(r, r.randrange(0, 6 * bs + 1))
        new = edit(r, old, r.randrange(0, 4))
        # a literal run that begins with the zstd magic, to cross the sniffer
        if r.random() < 0.3:
            new = bytes([0x28, 0xB5, 0x2F, 0xFD]) + new
        cases.append(("wire", "W %d %s %s %s" % (bs, r.choice("zr"), vlib.hexs(old), vlib.hexs(new))))
    return cases


# ------------------------------------------------------------------ oracle on implementation output
def parse_kv(line):
    return dict(kv.split("=", 1) for kv in line.split(" ") if "=" in kv)


def oracle(case, out):
    """True iff the implementation's own output satisfies C04 on this case."""
    t = case.split(" ")
    if out in ("PANIC", "BADCASE") or out.startswith("CRASH"):
        return False, "implementation crashed: " + out[:80]
    kv = parse_kv(out)
    if t[0] in ("D", "DS"):
        new, old = t[4], t[3]
        oldlen = 0 if old == "-" else len(old) // 2
        for k in (("app", "apps") if t[0] == "D" else ("apps",)):
            if kv.get(k) != new:
                return False, "%s differs from new" % k
        for k in (("mem", "str") if t[0] == "D" else ("str",)):
            for o in (kv.get(k, "-").split(",") if kv.get(k, "-") != "-" else []):
                if o.startswith("C"):
                    off, sz = map(int, o[1:].split(":"))
                    if off < 0 or sz < 0 or off + sz > oldlen:
                        return False, "copy out of range %s" % o
        return True, ""
    if t[0] == "R":
        if kv.get("rolled") != kv.get("direct") and len(t[2]) // 2 >= int(t[1]):
            return False, "rolled digest differs from direct"
        return True, ""
    if t[0] == "B":
        b = int(kv.get("bsz", "-1"))
        if not (0 < b <= 131072 and b * 255 < 2 ** 32):
            return False, "block size %d outside the range the rolling checksum is proved for" % b
        return True, ""
    if t[0] == "W":
        if kv.get("wire") != t[4]:
            return False, "helper output differs from new"
        return True, ""
    return True, ""


def signature(case, out):
    """branch-coverage signature used for distinct_nontrivial"""
    t = case.split(" ")
    if t[0] not in ("D", "DS"):
        return None
    kv = parse_kv(out)
    ops = kv.get("str", "-")
    if ops == "-":
        return None
    kinds = "".join("C" if o.startswith("C") else "D" for o in ops.split(","))
    if "C" not in kinds or "D" not in kinds:
        return None
    n = len(t[4]) // 2
    cls = 0 if n < 64 else 1 if n < 4096 else 2 if n < 262144 else 3
    return (kinds[:24], t[1], cls, kv.get("mem") == kv.get("str"))


def run_cases(cases, res, label=""):
    lines = [c for (_, c) in cases]
    t0 = time.time()
    env = {"SY_REMOTE_BIN": os.path.join(vlib.BIN, "sy-remote")}
    impl = vlib.run_sharded([os.path.join(vlib.BIN, "h_delta")], lines, env=env)
    t1 = time.time()
    model = vlib.run_model(lines)
    t2 = time.time()
    res.cov.setdefault("timing", {})["impl_s" + label] = round(t1 - t0, 1)
    res.cov["timing"]["model_s" + label] = round(t2 - t1, 1)
    return impl, model


def decide(res, cases, impl, model, pr):
    diffs, viols, sigs = [], [], set()
    fam = {}
    for (f, c), i, m in zip(cases, impl, model):
        fam[f] = fam.get(f, 0) + 1
        ok, why = oracle(c, i)
        if not ok:
            viols.append((c, i, m, why))
        if i != m:
            diffs.append((c, i, m))
        s = signature(c, i)
        if s:
            sigs.add(s)
    res.cov["evaluations"] = len(cases)
    res.cov["distinct_nontrivial"] = len(sigs)
    res.cov["families"] = fam
    res.cov["model_impl_disagreements"] = len(diffs)
    # a real violation: the implementation's own output breaks the property
    for (c, i, m, why) in viols[:3]:
        res.violation("impl", "# %s\n# replay: ./check C04 --replay <this file>\n%s\n# implementation: %s\n# model: %s" % (why, short(c), short(i), short(m)))
        # write full case separately (may be large)
    if viols:
        for n, (c, i, m, why) in enumerate(viols[:3]):
            p = res.violations[n][0]
            with open(p, "w") as f:
                f.write("# %s\n%s\n" % (why, c))
        return
    if diffs or pr["broken"]:
        # property not shown to hold; no failing input found by the search above
        what = []
        what += pr["broken"]
        if diffs:
            c, i, m = diffs[0]
            what.append("correspondence h_delta vs extracted model differs on %d cases; first: %s | impl=%s | model=%s" % (len(diffs), short(c), short(i), short(m)))
        payload = "# no failing input found; what no longer checks:\n" + "\n".join("# " + w for w in what) + "\n"
        if diffs:
            payload += diffs[0][0] + "\n"
        res.violation("unproved", payload, no_input=True)


def short(s, n=300):
    s = re.sub(r"[0-9a-f]{64,}", lambda m: m.group(0)[:16] + "..(%d hex)" % len(m.group(0)), s)
    return s[:n]


def run(tier, seed):
    res = vlib.Result(PID, tier, seed)
    pr = proof_phase(res, PID)
    okm, outm = vlib.build_model()
    oki, outi, _ = vlib.build_impl()
    if not oki:
        res.violation("build", "implementation does not build with hooks on:\n" + outi[-3000:], no_input=True)
        return res.finish()
    if not okm:
        res.violation("build", "model does not build/extract:\n" + outm[-3000:], no_input=True)
        return res.finish()
    consts = pr["consts"]["values"]
    cases = gen_cases(seed, tier, consts)
    impl, model = run_cases(cases, res)
    decide(res, cases, impl, model, pr)
    res.cov["rule"] = ("cases generated from one PRNG (seed) in families small/struct/weakcoll/edge/window/cap/roll/wire + corpus; "
                       "a D case is non-trivial when its streaming op list contains both a Copy and a Data op; distinct = distinct "
                       "(op-kind sequence prefix, block size, length class, stream==mem) signatures")
    res.cov["samples"] = [short(c, 200) for (_, c) in cases[:3]] + [short(c, 200) for (f, c) in cases if f in ("window", "wire", "roll", "boundary")][:3]
    res.cov["trusted_base"] = TRUSTED_COMMON + [
        "xxh3 (strong hash): theorems C04_recon_* are relative to collision-freedom between blocks of old and blocks of new; closed for the identity instance (C04_recon_id)",
        "serde_json and zstd round-trip laws (hypotheses of C04_wire_transparent), exercised through the real sy-remote",
        "kernel: read() on a regular file returns min(requested, remaining)",
    ]
    res.assumptions = ["strong hash collision-free on compared blocks", "full reads on regular files", "u32 wrap semantics = release build; debug build agrees for n*255 < 2^32"]
    return res.finish()


def replay(path):
    lines = [l.strip() for l in open(path) if l.strip() and not l.startswith("#")]
    vlib.build_model()
    vlib.build_impl()
    env = {"SY_REMOTE_BIN": os.path.join(vlib.BIN, "sy-remote")}
    impl = vlib.run_sharded([os.path.join(vlib.BIN, "h_delta")], lines, env=env, shards=1)
    model = vlib.run_model(lines, shards=1)
    rc = 0
    for c, i, m in zip(lines, impl, model):
        ok, why = oracle(c, i)
        print("case :", short(c))
        print("impl :", short(i))
        print("model:", short(m))
        print("oracle:", "holds" if ok else "VIOLATED (%s)" % why, "| model==impl:", i == m)
        if not ok:
            rc = 1
    return rc
