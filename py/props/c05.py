"""C05 -- concurrent transfers never interfere; working files are never shared or mistaken; none remain.
Theorems: coq/Properties/C05.v over Model/Temp.v (every interleaving of the per-file programs ends in the
sequential state when working-file names are distinct from each other and from every destination).
Tie:
 (1) naming: sy::temp_file::temp_path_for vs Temp.temp_name on generated names (and std's with_extension vs
     the model of the pinned naming); the suffix literal and the call site are regenerated from the source;
 (2) footprint: the real binary under strace -- every path it mutates below the destination root is a
     planned destination, a directory of the source, or Temp.temp_path of a planned destination; nothing
     below the source root is mutated (the frame the theorem's per-task programs assume);
 (3) twin runs -j1 / -jN of the same world through the real binary, each compared with the sequential
     engine model (Engine.run) and with each other.
Oracle: the statement on the observed snapshots (contents = source, user's files untouched, no extra path)."""
import json, os, shutil, subprocess
import vlib, world, engine_world as ew, strace_fs
from common import proof_phase, TRUSTED_COMMON

PID = "C05"
NS = 10**9


def hx(b):
    return b.hex() if b else "-"


# ------------------------------------------------------------------ naming cases
def gen_names(r, n):
    out = [b"a.txt", b"a.bin", b"a", b".hidden", b".a.b", b"a.sy.tmp", b"x.sy.tmp.sy.tmp", b"a.", b"a..b", b"archive.tar.gz", "ü.dat".encode(), b"with space.txt",
           b"a.b.c.d", b"-", b"sy.tmp", b".sy.tmp", b"a\xff.bin"]
    alpha = [b"a", b"b", b".", b".", b"sy", b"tmp", b"txt", b" ", "é".encode(), b"\xfe", b"-", b"_", b"0"]
    while len(out) < n:
        k = r.randrange(1, 8)
        nm = b"".join(r.choice(alpha) for _ in range(k))
        if nm in (b".", b"..") or nm.startswith(b"..") or not nm:
            continue
        out.append(nm)
    return out[:n]


def naming_phase(res, r, tier):
    names = gen_names(r, 300 if tier == "quick" else 4000)
    exts = [b"sy.tmp", b"x", b"tar.gz", b"t m p"]
    cases = ["TN " + hx(n) for n in names] + ["WX %s %s" % (hx(n), hx(r.choice(exts))) for n in names]
    impl = vlib.run_sharded([os.path.join(vlib.BIN, "h_temp")], cases)
    model = vlib.run_model(cases)
    diffs = [{"case": c, "impl": i, "model": m} for c, i, m in zip(cases, impl, model) if i != m]
    return len(cases), diffs


def model_temp_name(names):
    """Temp.temp_name for a list of byte names -> list of byte names"""
    outs = vlib.run_model(["TN " + hx(n) for n in names], shards=1)
    res = []
    for o in outs:
        h = dict(x.split("=", 1) for x in o.split(" ")).get("name", "-")
        res.append(b"" if h == "-" else bytes.fromhex(h))
    return res


# ------------------------------------------------------------------ worlds
STEMS = ["a", "data", "x.y", "img"]
EXTS = [".txt", ".bin", ".dat", "", ".sy.tmp"]
DIRS = ["", "", "d1", "d2", "d1/in"]


def similar(data, r):
    """a stale version of `data`: a few 4 KiB pieces rewritten, sometimes a changed tail (keeps the sampled change ratio low)"""
    b = bytearray(data)
    n = len(b) // 4096
    for _ in range(max(1, n // 12)):
        i = r.randrange(0, max(1, n)) * 4096
        b[i:i + 4096] = r.randbytes(min(4096, len(b) - i))
    c = r.random()
    if c < 0.3:
        b += r.randbytes(r.choice([1, 4096, 9000]))
    elif c < 0.5 and len(b) > ew.BIG + 8192:
        del b[-r.choice([1, 4096]):]
    return bytes(b)


def gen_world(r, literal_clash=False):
    """returns (src files {rel: (bytes, mt_ns)}, dst files {rel: (bytes, mt_ns)}, user paths [rel])"""
    src, dst, users = {}, {}, []
    nfiles = r.randrange(3, 9)
    dirs = r.sample(DIRS, k=r.randrange(1, 4))
    for _ in range(nfiles):
        d = r.choice(dirs)
        stem = r.choice(STEMS[:2] if r.random() < 0.7 else STEMS)
        name = stem + r.choice(EXTS)
        rel = (d + "/" if d else "") + name
        if rel in src:
            continue
        big = r.random() < 0.8
        size = r.choice([ew.BIG + 5000, ew.BIG * 2, 150000, 250000]) if big else r.choice([0, 10, 5000])
        data = r.randbytes(size)
        mt = r.randrange(1000, 5000) * NS
        src[rel] = (data, mt)
        c = r.random()
        if c < 0.75:
            dst[rel] = (similar(data, r) if big else r.randbytes(size + 1), mt + 10 * NS)
        elif c < 0.85:
            dst[rel] = (data, mt)
    # user's own files in the destination: names that look like working files of the PINNED naming, and others
    for rel in list(src):
        d, name = os.path.split(rel)
        stem = name.split(".")[0] if not name.startswith(".") else name
        for cand in (stem + ".sy.tmp", "." + name + ".tmp", name + ".tmp", name + ".sy-tmp"):
            if r.random() < 0.35:
                p = (d + "/" if d else "") + cand
                if p not in src and p not in dst:
                    dst[p] = (r.randbytes(r.choice([3, 5000])), 7000 * NS)
                    users.append(p)
    if literal_clash:
        bigs = [rel for rel in src if rel in dst and len(dst[rel][0]) >= ew.BIG and dst[rel][0] != src[rel][0] and (rel + ".sy.tmp") not in src]
        if bigs:
            p = r.choice(bigs) + ".sy.tmp"
            dst[p] = (b"user data", 7000 * NS)
            users.append(p)
    else:
        # keep the main family outside the literal-name class (known finding C05-KF1)
        for rel in list(src):
            lit = rel + ".sy.tmp"
            if lit in src:
                del src[lit]
                dst.pop(lit, None)
            if lit in dst:
                del dst[lit]
                users[:] = [u for u in users if u != lit]
    return src, dst, users


def write_tree(root, files):
    os.makedirs(root, exist_ok=True)
    for rel, (data, mt) in files.items():
        p = os.path.join(root, rel)
        os.makedirs(os.path.dirname(p), exist_ok=True)
        with open(p, "wb") as f:
            f.write(data); f.flush(); os.fsync(f.fileno())
    for rel, (data, mt) in files.items():
        ns = ew.T0NS + mt
        os.utime(os.path.join(root, rel), ns=(ns, ns))
    # directory mtimes deterministic
    for dp, dns, fns in os.walk(root, topdown=False):
        os.utime(dp, ns=(ew.T0NS, ew.T0NS))


def norm_obs(o):
    kv = dict(x.split("=", 1) for x in o.split(" "))
    kv["evs"] = ",".join(sorted(kv.get("evs", "-").split(",")))
    return " ".join("%s=%s" % (k, kv[k]) for k in ("refused", "exit", "nerr", "evs", "dst"))


def oracle(raw, users, delete=False):
    fails = []
    src, before, after = raw["src"], raw["before"], raw["after"]
    if raw["rc"] != 0 or raw["nerr"]:
        # a failure whose every error path is a literal <f>.sy.tmp next to a planned <f> (or that <f> itself) is the listed class
        eps = [p for p in raw.get("errpaths", []) if p]
        def lit(p):
            return (p.endswith(".sy.tmp") and p[:-7] in src) or (p + ".sy.tmp") in src or (p + ".sy.tmp") in before
        # (since b6e2492 a failed post-transfer verification alone gives exit status 1, with no error path: then the files that do
        # not hold their source's content say which class it is)
        if not eps and not raw["nerr"]:
            eps = [rel for rel, s_ in src.items() if s_["kind"] == "f" and (after.get(rel) is None or after[rel].get("sha") != s_["sha"])]
        fails.append({"why": "the run failed (exit %s, %d errors): %s" % (raw["rc"], raw["nerr"], raw["stderr"][-200:]),
                      "klass": "literal-temp-name" if eps and all(lit(p) for p in eps) else None})
    for rel, s in src.items():
        a = after.get(rel)
        if s["kind"] != "f":
            continue
        if a is None or a.get("sha") != s["sha"] or a.get("size") != s["size"]:
            lit = (rel.endswith(".sy.tmp") and rel[:-7] in src) or (rel + ".sy.tmp") in src
            fails.append({"path": rel, "why": "destination file does not hold its source's content after the run", "klass": "literal-temp-name" if lit else None})
    for rel, b in before.items():
        if delete:
            break           # with --delete the extras are removed on purpose: judged by the mirror clause below
        if rel in src or b["kind"] != "f":
            continue
        a = after.get(rel)
        lit = rel.endswith(".sy.tmp") and rel[:-7] in src
        if a is None or a.get("sha") != b["sha"] or a["mtime_ns"] != b["mtime_ns"]:
            fails.append({"path": rel, "why": "a user's own file in the destination was %s" % ("removed" if a is None else "modified"),
                          "klass": "literal-temp-name" if lit else None})
    for rel in after:
        if rel not in before and rel not in src:
            fails.append({"path": rel, "why": "a path that is neither a source entry nor a pre-existing file remains after the run (working file left behind?)", "klass": None})
        if delete and rel not in src:
            fails.append({"path": rel, "why": "--delete --force-delete: a destination path without a source counterpart remains after a successful run", "klass": None})
    return fails


def footprint(sc, src_root, dst_root, fl, srcsnap, tag, stale=()):
    """run under strace; returns (failures, n_mutations, n_temp_paths_seen)"""
    log = os.path.join(sc.dir, "strace_%s.log" % tag)
    env = dict(os.environ); env.update(sc.env); env["SY_VERIF_DELTA_THRESHOLD"] = str(ew.BIG)
    rc, out, err = strace_fs.run_traced([world.SY, src_root, dst_root] + ew.cli_of(fl), env, sc.dir, log)
    evs = strace_fs.parse(log)
    files = [rel for rel, e in srcsnap.items() if e["kind"] == "f"]
    names = sorted(set(os.path.basename(rel).encode() for rel in files))
    tmap = dict(zip(names, model_temp_name(names)))
    allowed = {os.path.normpath(dst_root)}
    temps = set()
    for rel in srcsnap:
        allowed.add(os.path.normpath(os.path.join(dst_root, rel)))
    for rel in stale:                       # delete tasks: the stale entries and their directories
        parts = rel.split("/")
        for n in range(1, len(parts) + 1):
            allowed.add(os.path.normpath(os.path.join(dst_root, *parts[:n])))
    for rel in files:
        d = os.path.dirname(rel)
        t = os.path.normpath(os.path.join(dst_root, d, tmap[os.path.basename(rel).encode()].decode("utf-8", "surrogateescape")))
        temps.add(t)
    fails, nmut, seen_t = [], 0, set()
    for e in evs:
        for p in e["paths"]:
            if strace_fs.under(p, src_root):
                fails.append({"path": p, "why": "the run mutates a path below the SOURCE root: " + e["raw"], "klass": None})
            elif strace_fs.under(p, dst_root):
                nmut += 1
                if p in temps:
                    seen_t.add(p)
                elif p not in allowed:
                    fails.append({"path": p, "why": "the run writes a path below the destination that is neither a planned destination nor Temp.temp_path of one: " + e["raw"], "klass": None})
    try:
        os.remove(log)
    except OSError:
        pass
    return fails, nmut, len(seen_t), rc


def run_world(sc, i, seed, reps, known, stats, only_jobs=None):
    """world i of the run with this seed: -j1, `reps` runs with -j in {2,4,8,16} (or exactly only_jobs), one traced run"""
    r = vlib.rng_for(seed, "C05-w%d" % i)
    viol, hits, cases, obs_l, metas = [], {}, [], [], []
    clash = (i % 5 == 4)
    srcf, dstf, users = gen_world(r, literal_clash=clash)
    delete = (i % 3 == 1 and not clash)
    if delete:
        # nested stale directories: with several workers the delete tasks of a directory and of its entries run concurrently
        for d in ("stale", "stale/in", "stale/in/deep", "gone"):
            for n in range(r.randrange(1, 5)):
                dstf["%s/s%d.dat" % (d, n)] = (r.randbytes(r.choice([0, 10, 3000])), 7002 * NS)
    base = os.path.join(sc.dir, "w%d" % i)
    src = base + "/src"
    write_tree(src, srcf)
    world.sync_fs()
    results = []
    jobs = [1] + ([r.choice([2, 4, 8, 16]) for _ in range(reps)] if only_jobs is None else list(only_jobs))
    tag = {"world": i, "seed": seed, "reps": reps}
    for k, j in enumerate(jobs):
        dst = base + "/dst_%d" % k
        write_tree(dst, dstf)
        world.sync_fs()
        fl = {"j": j, "delete": 1, "force": 1} if delete else {"j": j}
        ids = ew.Ids()
        if k == 1:
            ssnap = world.snapshot(src)
            dstt = base + "/dst_t"
            write_tree(dstt, dstf)
            ff, nmut, nt, _rc = footprint(sc, src, dstt, dict(fl), ssnap, "w%d" % i, stale=[p for p in dstf if p not in srcf] if delete else [])
            stats["footprint_mutations"] += nmut; stats["temp_paths_seen"] += nt
            for f in ff[:3]:
                viol.append(dict(tag, jobs=j, failure=f, family="footprint"))
            shutil.rmtree(dstt, ignore_errors=True)
        case, obs, raw = ew.run_once(sc, src, dst, fl, ids)
        kv = dict(x.split("=", 1) for x in obs.split(" "))
        raw["nerr"] = int(kv["nerr"])
        stats["runs"] += 1
        stats["delta_updates"] += sum(1 for rel, s in raw["src"].items() if s["kind"] == "f" and rel in raw["before"] and raw["before"][rel].get("size", 0) >= ew.BIG
                                      and raw["before"][rel].get("sha") != s["sha"])
        results.append((j, obs, raw))
        if not clash:
            cases.append(case); obs_l.append(norm_obs(obs)); metas.append((i, j))
        for f in oracle(raw, users, delete):
            if f["klass"] in known and clash:
                hits.setdefault(known[f["klass"]]["id"], []).append((i, j, f))
            else:
                viol.append(dict(tag, jobs=j, failure=f, family="twin", stderr=raw["stderr"][-300:], src=sorted(srcf), dst_before=sorted(dstf)))
        if k > 0:
            shutil.rmtree(dst, ignore_errors=True)
    j1 = results[0][2]["after"]
    for j, obs, raw in results[1:]:
        stats["twin_pairs"] += 1
        d = world.diff_snap(j1, raw["after"], ignore=("ino", "blocks"))
        d = [p for p in d if not (j1.get(p, {}).get("kind") == "d" and raw["after"].get(p, {}).get("kind") == "d")]
        if d and not clash:
            viol.append(dict(tag, jobs=j, failure={"why": "the destination after -j%d differs from the destination after -j1 at %s" % (j, d[:5]), "klass": None}, family="twin"))
    shutil.rmtree(base, ignore_errors=True)
    return {"viol": viol, "hits": hits, "cases": cases, "obs": obs_l, "metas": metas}


def bytes_names_family(sc, r, idx, reps):
    """file names that are not valid UTF-8 and differ only in the invalid bytes (the working-file name must keep the bytes):
    several concurrent block-delta updates in one directory; judged on contents only (no --json: such paths cannot be JSON strings)"""
    base = os.path.join(sc.dir, "bn%d" % idx).encode()
    src, tpl = base + b"/src", base + b"/tpl"
    os.makedirs(src); os.makedirs(tpl)
    want = {}
    for k in range(r.randrange(3, 7)):
        name = b"data_" + bytes([0xF0 + k]) + b".bin"
        data = r.randbytes(ew.BIG + 20000 + 4096 * k)
        with open(os.path.join(src, name), "wb") as f:
            f.write(data)
        with open(os.path.join(tpl, name), "wb") as f:
            f.write(similar(data, r))
        os.utime(os.path.join(tpl, name), ns=(ew.T0NS + 5 * NS,) * 2)
        want[name] = world.sha(os.path.join(src, name))
    world.sync_fs()
    fails = []
    for k, j in enumerate([1] + [r.choice([4, 8, 16]) for _ in range(reps)]):
        dst = base + b"/dst%d" % k
        subprocess.run([b"cp", b"-a", tpl, dst], check=True)
        env = dict(os.environ); env.update(sc.env); env["SY_VERIF_DELTA_THRESHOLD"] = str(ew.BIG)
        p = subprocess.run([world.SY.encode(), src, dst, b"-j%d" % j, b"-q"], env=env, stdout=subprocess.PIPE, stderr=subprocess.PIPE, timeout=120)
        names = sorted(os.listdir(dst))
        bad = [n for n in want if not os.path.isfile(os.path.join(dst, n)) or world.sha(os.path.join(dst, n)) != want[n]]
        extra = [n for n in names if n not in want]
        if p.returncode != 0 or bad or extra:
            fails.append({"world": "bytes-names-%d" % idx, "jobs": j, "family": "twin",
                          "failure": {"why": "non-UTF-8 names differing only in the invalid byte, -j%d: exit %s, %d files wrong, leftovers %r; %s" % (j, p.returncode, len(bad), [repr(x) for x in extra[:3]], p.stderr.decode("utf-8", "replace")[-200:]), "klass": None}})
        shutil.rmtree(dst, ignore_errors=True)
    shutil.rmtree(base, ignore_errors=True)
    return fails


def kind_change_family(sc, r, idx, reps):
    """(582e492) source entries that used to be symbolic links and are real directories now: the destination still holds the links an
    earlier run made, pointing out of the destination.  The directory's task replaces the link; the tasks of the directory's entries
    must not run before it (they were written THROUGH the link with several workers).  Judged on contents: nothing below the links'
    referents, the destination equal to the source, same result for every -j."""
    base = os.path.join(sc.dir, "kc%d" % idx)
    src, tpl = base + "/src", base + "/tpl"
    n = r.randrange(120, 200)
    os.makedirs(src); os.makedirs(tpl)
    for k in range(n):
        os.makedirs("%s/d%03d/sub" % (src, k))
        for name in ("f", "sub/g"):
            with open("%s/d%03d/%s" % (src, k, name), "wb") as f:
                f.write(b"file %d %s\n" % (k, name.encode()))
    world.sync_fs()
    fails = []
    for k, j in enumerate([1] + [r.choice([8, 16, 64]) for _ in range(reps)]):
        dst, out = base + "/dst%d" % k, base + "/out%d" % k
        os.makedirs(dst); os.makedirs(out)
        for q in range(n):
            os.makedirs("%s/d%03d" % (out, q))
            os.symlink("%s/d%03d" % (out, q), "%s/d%03d" % (dst, q))
        env = dict(os.environ); env.update(sc.env)
        p = subprocess.run([world.SY, src + "/", dst + "/", "-j%d" % j, "-q"], env=env, stdout=subprocess.PIPE, stderr=subprocess.PIPE, timeout=300)
        escaped = sum(len(fs) for _, _, fs in os.walk(out))
        missing = [d for d in sorted(os.listdir(src)) if os.path.islink(os.path.join(dst, d)) or not os.path.isfile(os.path.join(dst, d, "f")) or not os.path.isfile(os.path.join(dst, d, "sub", "g"))]
        if p.returncode != 0 or escaped or missing:
            fails.append({"world": "kind-change-%d" % idx, "jobs": j, "family": "twin",
                          "failure": {"why": "%d directories that replace destination symlinks, -j%d: exit %s, %d files written through the links (outside the destination), %d directories incomplete in the destination (e.g. %r); %s"
                                             % (n, j, p.returncode, escaped, len(missing), missing[:3], p.stderr.decode("utf-8", "replace")[-200:]), "klass": None}})
        shutil.rmtree(dst, ignore_errors=True); shutil.rmtree(out, ignore_errors=True)
    shutil.rmtree(base, ignore_errors=True)
    return fails


def run(tier, seed):
    res = vlib.Result(PID, tier, seed)
    pr = proof_phase(res, PID)
    okm, outm = vlib.build_model()
    oki, outi, _ = vlib.build_impl()
    if not (okm and oki):
        res.violation("build", "build failed:\n" + (outi if not oki else outm)[-3000:], no_input=True)
        return res.finish()
    known = {f["class"]: f for f in vlib.load_known()["findings"] if f["property"] == PID}
    r = vlib.rng_for(seed, PID)
    ncases, ndiffs = naming_phase(res, r, tier)
    nworlds = 25 if tier == "quick" else 120
    reps = 3 if tier == "quick" else 8
    cases, obs_l, metas, viol, hits, diffs = [], [], [], [], {}, []
    stats = {"runs": 0, "delta_updates": 0, "footprint_mutations": 0, "temp_paths_seen": 0, "twin_pairs": 0, "worlds": nworlds, "bytes_name_worlds": 0}
    with vlib.Scratch() as sc:
        for bi in range(2 if tier == "quick" else 12):
            viol += bytes_names_family(sc, vlib.rng_for(seed, "C05-bn%d" % bi), bi, reps)
            stats["bytes_name_worlds"] = bi + 1
        for ki in range(1 if tier == "quick" else 6):
            viol += kind_change_family(sc, vlib.rng_for(seed, "C05-kc%d" % ki), ki, reps)
            stats["kind_change_worlds"] = ki + 1
        for i in range(nworlds):
            out = run_world(sc, i, seed, reps, known, stats)
            viol += out["viol"]
            for k, v in out["hits"].items():
                hits.setdefault(k, []).extend(v)
            cases += out["cases"]; obs_l += out["obs"]; metas += out["metas"]
    model = [norm_obs(ew.model_obs(m)) for m in vlib.run_model(cases)]
    for case, o, m, (i, j) in zip(cases, obs_l, model, metas):
        if o != m:
            diffs.append({"world": i, "jobs": j, "case": case[:2000], "impl": o, "model": m})
    res.cov["evaluations"] = ncases + stats["runs"]
    res.cov["distinct_nontrivial"] = len(set(obs_l))
    res.cov["naming_cases"] = ncases
    res.cov["naming_disagreements"] = len(ndiffs)
    res.cov["model_impl_disagreements"] = len(diffs) + len(ndiffs)
    res.cov["stats"] = stats
    res.cov["known_finding_hits"] = {k: len(v) for k, v in hits.items()}
    res.cov["rule"] = ("naming: %d generated file names (dots anywhere, leading dots, names ending in .sy.tmp, non-UTF-8 bytes) through temp_path_for and Path::with_extension vs the model; "
                       "worlds: 3..8 files over 1..3 directories with stems {a,data,x.y,img} x extensions {.txt,.bin,.dat,'',.sy.tmp} (same stem/different extension and equal base names in "
                       "different directories by construction), 80%% at or above the hook-scaled 96 KiB gate with a mostly-similar stale destination (block-delta path), user files named like "
                       "the pinned naming's working files; each world run with -j1 and %d times with -j in {2,4,8,16}, one extra run under strace; every 5th world adds a user's file literally named "
                       "<destination>.sy.tmp (known finding C05-KF1). OS-level interleavings are whatever the kernel schedules in these runs; the theorem, not the runs, covers all interleavings." % (ncases // 2, reps))
    res.cov["trusted_base"] = TRUSTED_COMMON + ["strace -f -y (path decoding of mutating system calls) for the footprint check",
                                                 "the per-file programs of Model/Temp.v (create/truncate, finish, rename) as an abstraction of sync_file_with_delta / copy_file: the footprint check ties their path sets to the binary, not their internal order",
                                                 "hook H1 (SY_VERIF_DELTA_THRESHOLD) scales the 10 MiB gate to 96 KiB"]
    res.notes.append("Partial: the theorem holds under the side condition that no planned destination or pre-existing file is literally <block-delta destination>.sy.tmp (C05_literal_clash_refuted; known finding C05-KF1). The SSH transport's remote working file (<dest>.sy-tmp) is not exercised: no sshd in the sandbox.")
    for cls, f in known.items():
        h = hits.get(f["id"], [])
        if h:
            res.known.append("%s %s [%d runs this time, e.g. world %d -j%d path %s]" % (f["id"], f["what"], len(h), h[0][0], h[0][1], h[0][2].get("path")))
        else:
            res.notes.append("listed finding %s was not reproduced by this run" % f["id"])
    res.cov["failures_by_family"] = {fam: sum(1 for v in viol if v["family"] == fam) for fam in ("twin", "footprint")}
    viol.sort(key=lambda v: 0 if v["family"] == "twin" else 1)   # observed property failures first, frame breaks after
    for v in viol[:3]:
        res.violation("world", v)
    if not viol and (diffs or ndiffs or pr["broken"]):
        what = list(pr["broken"])
        if ndiffs:
            what.append("temp_path_for differs from Temp.temp_name on %d names; first: %s" % (len(ndiffs), json.dumps(ndiffs[0])))
        if diffs:
            what.append("the binary differs from Engine.run on %d runs; first: %s" % (len(diffs), json.dumps(diffs[0])[:1500]))
        res.violation("unproved", {"no_failing_input_found": True, "what_no_longer_checks": what}, no_input=True)
    return res.finish()


def replay(path):
    """rebuild the world of the replay file from its seed and run it again (5 times for the scheduling-dependent ones)"""
    d = json.load(open(path))
    print(json.dumps(d, indent=1, default=str)[:3000])
    if "world" not in d:
        return 0
    vlib.build_model(); vlib.build_impl()
    known = {f["class"]: f for f in vlib.load_known()["findings"] if f["property"] == PID}
    stats = {"runs": 0, "delta_updates": 0, "footprint_mutations": 0, "temp_paths_seen": 0, "twin_pairs": 0}
    bad = []
    with vlib.Scratch() as sc:
        for _ in range(5):
            bad += run_world(sc, d["world"], d["seed"], d.get("reps", 3), known, stats, only_jobs=[d.get("jobs", 4)] * 2)["viol"]
    print("replay: %d failures now; first: %s" % (len(bad), json.dumps(bad[0])[:800] if bad else None))
    return 1 if bad else 0
