"""C06 -- deletion: extras untouched without --delete, exact mirror with it.
Theorems: coq/Properties/C06.v.  Tie: worlds through the real binary vs Engine.run (incl. the deletion plan
against the filtered list, as coded), plan_deletions on the Bloom path (>10 000 source entries)."""
import json, os, shutil, time
import vlib, world, engine_world as ew
import c01
from common import proof_phase, TRUSTED_COMMON

PID = "C06"


def hx(s):
    return s.encode().hex() or "-"


def select_with(rules):
    """the model's engine_select (proved in C16) decides which source entries reach the planner"""
    def f(slist):
        if not slist:
            return []
        ents = ",".join("%s:%s:%d" % ("d" if k == "d" else "f", hx(rel), sz) for k, rel, sz in slist)
        spec = ",".join("%d:%s" % (k, hx(t)) for k, t in rules)
        out = vlib.run_model(["S %s - - %s" % (spec, ents)], shards=1)[0]
        kv = dict(x.split("=", 1) for x in out.split(" "))
        idx = [] if kv["sel"] == "-" else [int(i) for i in kv["sel"].split(",")]
        return [slist[i] for i in idx]
    return f


def oracle(fl, raw, rules):
    fails = []
    src, before, after = raw["src"], raw["before"], raw["after"]
    if raw.get("timeout"):
        return fails
    if not fl.get("delete"):
        for rel, b in before.items():
            if rel not in src:
                a = after.get(rel)
                if a is None or (b["kind"] == "f" and (a.get("sha"), a.get("mtime_ns")) != (b.get("sha"), b.get("mtime_ns"))) or a["kind"] != b["kind"]:
                    fails.append({"path": rel, "why": "extra entry removed or altered without --delete", "klass": None})
        return fails
    if raw["refused"] or fl.get("dry") or raw["rc"] != 0:
        return fails
    # under any filter: a destination path whose counterpart still exists in the source is never deleted
    for rel, b in before.items():
        if rel in src and rel not in after:
            fails.append({"path": rel, "why": "destination path deleted although its counterpart exists in the source", "klass": "filtered-delete" if rules else None})
    if not rules:
        extra_left = sorted(set(after) - set(src))
        missing = sorted(set(src) - set(after))
        if raw["nerr"] == 0:
            if extra_left or missing:
                fails.append({"path": (extra_left + missing)[0], "why": "successful unfiltered --delete run did not leave a mirror (extra %r, missing %r)" % (extra_left[:3], missing[:3]), "klass": None})
        else:
            # errors: are they only the spurious ENOENTs of children of removed stale directories?
            stale_dirs = [rel for rel, b in before.items() if b["kind"] == "d" and rel not in src]
            nested = [rel for rel in before if rel not in src and any(rel.startswith(d + "/") for d in stale_dirs)]
            spurious = (not extra_left) and (not missing) and len(nested) >= raw["nerr"] and not raw.get("typeconf")
            fails.append({"path": nested[0] if nested else None, "why": "%d error(s) reported while removing stale entries" % raw["nerr"],
                          "klass": None})
    return fails


def bloom_case(sc, r):
    """> 10 000 source entries: plan through the real binary with --delete --force-delete"""
    base = os.path.join(sc.dir, "bloom")
    src, dst = base + "/src", base + "/dst"
    os.makedirs(src); os.makedirs(dst)
    n = 10050
    for i in range(n):
        open(os.path.join(src, "f%05d" % i), "w").close()
        os.link(os.path.join(src, "f%05d" % i), os.path.join(dst, "f%05d" % i)) if False else open(os.path.join(dst, "f%05d" % i), "w").close()
    ns = ew.T0NS + 777 * 10**9
    for d_ in (src, dst):
        for i in range(n):
            os.utime(os.path.join(d_, "f%05d" % i), ns=(ns, ns))
    extras = ["x%04d.dat" % i for i in range(400)] + ["f%05d.sy.tmp" % i for i in range(50)]
    for e in extras:
        with open(os.path.join(dst, e), "w") as f:
            f.write("x")
    rr = world.run_sy([src, dst, "--delete", "--force-delete", "-q"], sc, timeout=300)
    left = sorted(set(os.listdir(dst)) - set(os.listdir(src)))
    missing = sorted(set(os.listdir(src)) - set(os.listdir(dst)))
    return {"rc": rr["rc"], "left": left, "missing": missing, "n": n, "extras": len(extras)}


def ignore_file_worlds(sc, tier):
    """(round 4) a .ignore file in the source hides entries from the source scan; their copies in the destination have their counterparts:
    --delete must not remove them (nor what is below a hidden directory), while entries with no counterpart go"""
    viol = []
    for wi in range(2 if tier == "quick" else 8):
        base = os.path.join(sc.dir, "ign%d" % wi)
        src, dst = base + "/src", base + "/dst"
        os.makedirs(src + "/build/obj"); os.makedirs(dst + "/build/obj"); os.makedirs(dst + "/old")
        open(src + "/.ignore", "w").write("*.log\nbuild/\n")
        keepers = ["trace.log", "build/out.bin", "build/obj/x.o"]
        for rel in ["a.txt"] + keepers:
            open(os.path.join(src, rel), "w").write("source " + rel)
        for rel in keepers + ["stale.txt", "old/gone.txt"]:
            open(os.path.join(dst, rel), "w").write("destination " + rel)
        if wi % 2 == 1:
            shutil.copy(src + "/.ignore", dst + "/.ignore")          # later runs: the destination has the rule file too
        rr = world.run_sy([src, dst, "--delete", "--force-delete", "-q", "-j%d" % (1 if wi % 4 < 2 else 4)], sc)
        lost = [rel for rel in keepers if not os.path.exists(os.path.join(dst, rel))]
        left = [rel for rel in ("stale.txt", "old/gone.txt", "old") if os.path.exists(os.path.join(dst, rel))]
        if rr["rc"] != 0 or lost or left:
            viol.append({"world": "ignore-file-%d" % wi, "failure": {"why": "--delete with a .ignore file in the source (*.log, build/): exit %s; destination entries whose counterparts exist in the source were deleted: %r; stale entries left: %r" % (rr["rc"], lost, left), "klass": None}})
        shutil.rmtree(base, ignore_errors=True)
    return viol


def run(tier, seed):
    res = vlib.Result(PID, tier, seed)
    pr = proof_phase(res, PID)
    okm, outm = vlib.build_model()
    oki, outi, _ = vlib.build_impl()
    if not (okm and oki):
        res.violation("build", "build failed:\n" + (outi if not oki else outm)[-3000:], no_input=True)
        return res.finish()
    known = {f["class"]: f for f in vlib.load_known()["findings"] if f["property"] == PID}
    r = vlib.rng_for(seed, PID)
    n = 80 if tier == "quick" else 900
    cases, obs_l, raws, metas = [], [], [], []
    bloom = None
    case_variant_worlds = 0
    with vlib.Scratch() as sc:
        for i in range(n):
            sspec, dspec = ew.gen_world(r, with_big=(i % 4 == 0))
            if i % 5 == 1:
                # (seed C06-4) extras whose names differ from a live source path only in letter case -- on a case-sensitive file
                # system they are other entries: stale ones
                have = {e["p"] for e in sspec} | {e["p"] for e in dspec}
                for e in [x for x in sspec if x["p"].swapcase() != x["p"]][:3]:
                    alt = e["p"].swapcase() if "/" not in e["p"] else e["p"].rsplit("/", 1)[0] + "/" + e["p"].rsplit("/", 1)[1].swapcase()
                    if alt not in have and not any(h.startswith(alt + "/") or alt.startswith(h + "/") and False for h in have):
                        have.add(alt)
                        if e["k"] == "d":
                            dspec.append({"p": alt, "k": "d"}); dspec.append({"p": alt + "/inside.txt", "k": "f", "data": b"stale", "mt_ns": 10**9})
                        else:
                            dspec.append({"p": alt, "k": "f", "data": b"case variant", "mt_ns": 10**9})
                case_variant_worlds += 1
            fl = ew.gen_flags(r, jobs=True)
            if i % 3 != 2:
                fl["delete"] = 1
                fl["thr"] = r.choice([100, 100, 50])
                if r.random() < 0.5:
                    fl["force"] = 1
            rules = []
            if i % 5 == 3:
                rules = [(2, r.choice(["*.log", "*.txt", "a", "sub/", "*.bak", "n1"]))]
            base = os.path.join(sc.dir, "w%d" % i)
            src, dst = base + "/src", base + "/dst"
            ew.mk(src, sspec); ew.mk(dst, dspec)
            os.makedirs(src, exist_ok=True); os.makedirs(dst, exist_ok=True)
            if i % 4 == 1 and not rules:
                # stale symlinks in the destination: dangling, to another stale entry, to a directory, a loop (each is just an entry to delete)
                stale_files = [e["p"] for e in dspec if e["k"] == "f" and e["p"] not in {x["p"] for x in sspec}]
                links = [("zz_dangling", "nowhere/at/all"), ("zz_loop", "zz_loop"), ("zz_dir", ".")]
                if stale_files:
                    links.append(("zz_to_stale", stale_files[0]))
                for name, target in links:
                    if not os.path.lexists(os.path.join(dst, name)) and name not in {x["p"] for x in sspec}:
                        os.symlink(target, os.path.join(dst, name))
                        os.utime(os.path.join(dst, name), ns=(ew.T0NS + 7003 * 10**9,) * 2, follow_symlinks=False)
            ids = ew.Ids()
            args = ["--exclude=%s" % t for _, t in rules]
            case, obs, raw = ew.run_once(sc, src, dst, fl, ids, extra_args=args, select=select_with(rules) if rules else None)
            kv = dict(x.split("=", 1) for x in obs.split(" "))
            raw["nerr"] = int(kv["nerr"]); raw["refused"] = kv["refused"] == "1"
            cases.append(case); obs_l.append(obs); raws.append(raw); metas.append((i, fl, rules))
        bloom = bloom_case(sc, r)
        ign_viol = ignore_file_worlds(sc, tier)
    model = [ew.model_obs(m) for m in vlib.run_model(cases)]
    diffs, viol, hits, nontriv = [], [], {}, set()
    for case, o, m, raw, (i, fl, rules) in zip(cases, obs_l, model, raws, metas):
        same = (o == m) if fl.get("j", 1) == 1 else (ew.norm_events(o) == ew.norm_events(m))     # several workers: any completion order
        if not same:
            diffs.append({"world": i, "flags": fl, "rules": rules, "case": case, "impl": o, "model": m, "stderr": raw["stderr"]})
        for f in oracle(fl, raw, rules):
            if f["klass"] in known and same:
                hits.setdefault(known[f["klass"]]["id"], []).append((i, f))
            else:
                viol.append({"world": i, "flags": fl, "rules": rules, "failure": f, "case": case, "impl": o, "model": m})
        if "delete:" in o:
            nontriv.add(o)
    viol += ign_viol
    if bloom and (bloom["left"] or bloom["missing"] or bloom["rc"] != 0):
        viol.append({"world": "bloom", "failure": {"why": "Bloom-filter path (10 050 source entries, 450 stale): %d stale entries survived, %d source entries missing, rc=%s" % (len(bloom["left"]), len(bloom["missing"]), bloom["rc"]), "left": bloom["left"][:5]}})
    res.cov["evaluations"] = len(cases) + 1
    res.cov["distinct_nontrivial"] = len(nontriv)
    res.cov["model_impl_disagreements"] = len(diffs)
    res.cov["known_finding_hits"] = {k: len(v) for k, v in hits.items()}
    res.cov["bloom_path"] = bloom
    res.cov["worlds_with_case_variant_extras"] = case_variant_worlds
    res.cov["rule"] = ("worlds as for C01 with extras (files, nested stale directories, names that look like working files), 2/3 with --delete (threshold 50/100, half --force-delete), "
                       "every 5th with an --exclude pattern; one world with 10 050 source entries for the Bloom-filter path; non-trivial = at least one deletion performed")
    res.cov["samples"] = [c[:300] for c in cases[:2]] + [obs_l[0][:300]]
    res.cov["trusted_base"] = TRUSTED_COMMON + ["fastbloom: no false negatives (the exact set test follows every hit)", "remove_dir_all / remove_file semantics (modelled)"]
    for cls, f in known.items():
        h = hits.get(f["id"], [])
        if h:
            res.known.append("%s %s [%d cases this run, e.g. world %d path %s]" % (f["id"], f["what"], len(h), h[0][0], h[0][1].get("path")))
        else:
            res.notes.append("listed finding %s was not reproduced by this run" % f["id"])
    for v in viol[:3]:
        res.violation("world", v)
    if not viol and (diffs or pr["broken"]):
        what = list(pr["broken"])
        if diffs:
            what.append("the binary differs from Engine.run on %d runs; first: %s" % (len(diffs), json.dumps(diffs[0])[:1500]))
        res.violation("unproved", {"no_failing_input_found": True, "what_no_longer_checks": what, "first_case": diffs[0] if diffs else None}, no_input=True)
    return res.finish()


def replay(path):
    return c01.replay(path)
