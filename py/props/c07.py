"""C07 -- mass-deletion guard.  Theorems: coq/Properties/C07.v (decision) -- the placement half
(refusal happens before any change, non-zero status) is checked on the real binary here."""
import os, json
import vlib, world
from common import proof_phase, TRUSTED_COMMON

PID = "C07"


def model_refuse(triples):
    """evaluate Threshold.refuse/exceeds inside Coq (primitive floats, vm_compute)"""
    if not triples:
        return []
    expr = "List.map (fun x => match x with (d, n, t) => (if refuse false d n t then 1 else 0) + (if exceeds d n t then 2 else 0) end) [%s]%%Z" % \
           "; ".join("(%d, %d, %d)" % x for x in triples)
    out = vlib.coq_eval_list("From Coq Require Import ZArith List. Import ListNotations.\nFrom SyModel Require Import Threshold.\nOpen Scope Z_scope.", expr, tag="c07")
    return [(int(x) & 1 == 1, int(x) & 2 == 2) for x in out]


def gen_world(r, force_ratio=None):
    """returns (src spec, dst spec, d, n, t): dst = copy of src (k entries, already in sync) + extras"""
    k_files = r.randrange(0, 7)
    k_dirs = r.randrange(0, 3)
    src, dst = [], []
    for i in range(k_dirs):
        e = {"p": "d%d" % i, "k": "d", "mt": 100 + i}
        src.append(e); dst.append(dict(e))
    for i in range(k_files):
        p = ("d%d/" % r.randrange(k_dirs) if k_dirs and r.random() < 0.4 else "") + "f%d.txt" % i
        e = {"p": p, "k": "f", "data": ("rand", i + 1, 10 + i), "mt": 50 + i}
        src.append(e); dst.append(dict(e))
    extras = r.randrange(1, 8)
    made = 0
    xd = 0
    while made < extras:
        if r.random() < 0.25 and extras - made >= 2:
            dst.append({"p": "xd%d" % xd, "k": "d", "mt": 300})
            dst.append({"p": "xd%d/in.txt" % xd, "k": "f", "data": b"extra", "mt": 301})
            xd += 1
            made += 2
        else:
            dst.append({"p": "x%d.dat" % made, "k": "f", "data": ("rand", 900 + made, 5), "mt": 302})
            made += 1
    n = len(dst)
    d = made
    # thresholds just below / at / above the exact ratio
    exact = 100.0 * d / n
    t = r.choice([int(exact) - 1, int(exact), int(exact) + 1, 0, 50, 100, r.randrange(0, 101)])
    t = max(0, min(100, t))
    return src, dst, d, n, t


def run(tier, seed):
    res = vlib.Result(PID, tier, seed)
    pr = proof_phase(res, PID)
    oki, outi, _ = vlib.build_impl()
    if not oki:
        res.violation("build", "implementation does not build:\n" + outi[-3000:], no_input=True)
        return res.finish()
    r = vlib.rng_for(seed, PID)
    nworlds = 90 if tier == "quick" else 900
    obs = []
    hidden_worlds = 0
    new_source_worlds = 0
    with vlib.Scratch() as sc:
        for i in range(nworlds):
            src_spec, dst_spec, d, n, t = gen_world(r)
            base = os.path.join(sc.dir, "w%d" % i)
            src, dst = os.path.join(base, "src"), os.path.join(base, "dst")
            if i % 5 == 1:
                # (seed C07-5) the mistaken-source case proper: the source does not only lack the destination's entries, it brings entries
                # of its own (new files, a new directory).  They are no part of "the destination's entries": the share stays d/n, and the
                # threshold sits just below it, so the run must be refused however many creations are planned
                m = d + r.randrange(1, d + 4)
                src_spec = list(src_spec) + [{"p": "newdir", "k": "d", "mt": 400}]
                for q in range(m):
                    src_spec.append({"p": ("newdir/" if q % 3 == 2 else "") + "new%d.txt" % q, "k": "f", "data": ("rand", 700 + q, 7), "mt": 401 + q})
                if d * 100 > n:
                    t = max(0, (100 * d) // n - 1 - (1 if (100 * d) % n == 0 else 0))
                new_source_worlds += 1
            world.mk_tree(src, src_spec)
            world.mk_tree(dst, dst_spec)
            if not src_spec:
                os.makedirs(src, exist_ok=True)
            if i % 7 == 3:
                # (seed C07-4) entries the scanner hides (a .git directory): neither planned for deletion nor part of "the destination's
                # entries" the share is taken of -- numerator and denominator must come from the same scan
                os.makedirs(dst + "/.git/objects", exist_ok=True)
                if d * 100 > n:
                    t = max(1, (100 * d) // n - 1 - (1 if (100 * d) % n == 0 else 0))      # just below the exact share: refused ...
                for q in range(4 * n + r.randrange(8, 30)):                               # ... unless the hidden entries were counted
                    with open(dst + "/.git/objects/o%d" % q, "w") as fh:
                        fh.write("object %d" % q)
                hidden_worlds += 1
            force = (i % 11 == 10)
            before = world.snapshot(dst)
            args = [src, dst, "--delete", "--delete-threshold=%d" % t] + (["--force-delete"] if force else []) + (["-j1"] if i % 3 == 0 else [])
            rr = world.run_sy(args, sc)
            after = world.snapshot(dst)
            refused = "threshold" in (rr["err"] + rr["out"]).lower() and rr["rc"] not in (0, None)
            unchanged = world.diff_snap(before, after) == []
            gone = sorted(k for k in before if k not in after)
            obs.append({"i": i, "d": d, "n": n, "t": t, "force": force, "rc": rr["rc"], "refused": refused, "unchanged": unchanged,
                        "deleted": len(gone), "stderr": rr["err"][-200:]})
    triples = [(o["d"], o["n"], o["t"]) for o in obs]
    # the model is also swept exhaustively on small n, to record how often float and exact verdicts differ
    sweep = [(d, n, t) for n in range(1, 13) for d in range(0, n + 1) for t in (0, 1, 7, 20, 25, 33, 50, 51, 66, 67, 75, 99, 100)]
    mr = model_refuse(triples + sweep)
    viol, diffs, nontriv = [], [], set()
    for o, (m_ref, m_exc) in zip(obs, mr[:len(obs)]):
        want = m_ref and not o["force"]
        if o["refused"] != want:
            diffs.append(o)
        # the statement: exceeding the threshold (exactly) without --force-delete => refuse, non-zero status, nothing changed
        if m_exc and not o["force"]:
            if not o["refused"] or not o["unchanged"] or o["rc"] == 0:
                viol.append(dict(o, why="deletions exceed the threshold (exact %d/%d > %d%%) but the run did not stop unchanged with a non-zero status" % (o["d"], o["n"], o["t"])))
        if o["refused"] and not o["unchanged"]:
            viol.append(dict(o, why="refused, yet the destination changed"))
        if (not o["refused"]) and o["rc"] == 0 and o["deleted"] != o["d"]:
            diffs.append(dict(o, note="proceeded but deleted %d of %d extras" % (o["deleted"], o["d"])))
        nontriv.add((o["d"], o["n"], o["t"], o["force"]))
    float_vs_exact = sum(1 for (a, b) in mr[len(obs):] if a != b)
    res.cov["evaluations"] = len(obs) + len(sweep)
    res.cov["distinct_nontrivial"] = len(nontriv)
    res.cov["worlds"] = len(obs)
    res.cov["worlds_with_scanner_hidden_destination_entries"] = hidden_worlds
    res.cov["worlds_whose_source_brings_new_entries"] = new_source_worlds
    res.cov["refusals_observed"] = sum(1 for o in obs if o["refused"])
    res.cov["model_sweep_triples"] = len(sweep)
    res.cov["model_sweep_float_differs_from_exact"] = float_vs_exact
    res.cov["model_impl_disagreements"] = len(diffs)
    res.cov["rule"] = ("worlds: destination = synced copy of the source + 1..7 extra entries (files, directories with content), threshold drawn just below/at/above the exact "
                       "ratio and from {0,50,100,random}, every 11th with --force-delete; the real binary's refusal / exit status / destination snapshot compared with "
                       "Threshold.refuse evaluated by coqc (primitive floats) and with the exact ratio; distinct = distinct (d,n,t,force)")
    res.cov["samples"] = obs[:3]
    res.cov["trusted_base"] = TRUSTED_COMMON + [
        "Print Assumptions lists Coq's primitive int63/float operations (kernel primitives, not axioms of this development)",
        "C07_refuse_sound (unbounded, through Flocq 4.1.0): axioms declared by Coq's standard library only -- FloatAxioms (mul_spec, div_spec, ltb_spec, of_uint63_spec, "
        "Prim2SF_valid, SF2Prim_Prim2SF, Prim2SF_SF2Prim), Uint63 (of_to_Z and the add/sub/lsl/lsr/lor/ltb/leb/eqb specs), ClassicalDedekindReals.sig_forall_dec, "
        "ClassicalDedekindReals.sig_not_dec, Classical_Prop.classic, FunctionalExtensionality.functional_extensionality_dep; the Flocq library itself (compiled, installed with the system)",
        "rustc's f64 division/multiplication/comparison and `as f64` are IEEE-754 binary64 round-to-nearest-even (checked by the differential runs, not proved)",
        "model evaluated inside coqc (vm_compute), no extraction on this path"]
    for v in viol[:3]:
        res.violation("world", v)
    if not viol and (diffs or pr["broken"]):
        what = list(pr["broken"])
        if diffs:
            what.append("refusal decision of the binary differs from Threshold.refuse on %d worlds; first: %r" % (len(diffs), diffs[0]))
        res.violation("unproved", {"no_failing_input_found": True, "what_no_longer_checks": what}, no_input=True)
    return res.finish()


def replay(path):
    print(open(path).read()[:3000])
    return 0
