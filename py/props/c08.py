"""C08 -- dry-run changes nothing and its plan matches the real run.
Theorems: coq/Properties/C08.v.  Tie: twin worlds through the real binary (one with --dry-run, one
without) + the model; recursive snapshots of source, destination and the private HOME/XDG dirs."""
import json, os, shutil
import vlib, world, engine_world as ew
import c01
from common import proof_phase, TRUSTED_COMMON

PID = "C08"
STATE_FLAG_SETS = [[], [], ["--checksum", "--checksum-db=true"], ["--use-cache=true"], ["--use-cache=true", "--clear-cache"], ["--clear-cache"],
                   ["--clean-state"], ["--checksum", "--checksum-db=true", "--clear-checksum-db"], ["--checksum", "--checksum-db=true", "--prune-checksum-db"],
                   ["--bidirectional"], ["--bidirectional", "--clear-bisync-state"], ["--resume=false"]]


def klass_of(where, rel):
    base = os.path.basename(rel)
    if where == "dst" and base == ".sy-checksums.db":
        return "checksum-db"
    if where == "dst" and base == ".sy-dir-cache.json":
        return "clear-cache"
    if where == "dst" and base == ".sy-state.json":
        return "resume-state"
    if where == "home" and "/sy/bisync" in "/" + rel:
        return "bisync-db"
    return None


def changed(before, after):
    out = []
    for rel in sorted(set(before) | set(after)):
        b, a = before.get(rel), after.get(rel)
        if b is None or a is None:
            out.append(rel)
        elif b["kind"] != a["kind"]:
            out.append(rel)
        elif b["kind"] == "f" and (b.get("sha"), b["size"], b["mtime_ns"]) != (a.get("sha"), a["size"], a["mtime_ns"]):
            out.append(rel)
        elif b["kind"] == "f" and b.get("xattr", {}) != a.get("xattr", {}):
            out.append(rel)                      # metadata counts: an attribute created, changed or removed
        elif b["kind"] == "f" and b.get("mode") != a.get("mode"):
            out.append(rel)
        elif b["kind"] == "l" and b["target"] != a["target"]:
            out.append(rel)
    return out


CLI_OF_FLAG = {"clean_state": ["--clean-state"], "clear_cache": ["--clear-cache"], "use_cache": ["--use-cache=true"], "checksum": ["--checksum"],
               "checksum_db": ["--checksum-db=true"], "clear_checksum_db": ["--clear-checksum-db"], "prune_checksum_db": ["--prune-checksum-db"],
               "resume": ["--resume=true"], "verify_only": ["--verify-only"], "dry_run": ["--dry-run"]}


def stateguard_search(sc, must_be_off):
    """the search for a failing input behind C08_dry_run_touches_no_state_file / C15_verify_only_clears_no_state_file: for every translated
    guard (coq/gen/stateguards.json, written by py/gen_stateguards.py from the current source) that can hold although `must_be_off`
    (dry_run / verify_only) is set, build the command line from the guard's own flags, plant the state files and let the binary show the
    modification.  On a tree where the theorems hold no guard qualifies and nothing is run."""
    import json as _json, gen_stateguards
    sg = gen_stateguards.generate()
    out = []
    for name, g in sg["guards"].items():
        if must_be_off == "verify_only" and not name.startswith("main_"):
            continue
        asg = {f: False for f in sg["flags"]}
        asg[must_be_off] = True
        for dis in g["conj"]:
            if not any((not asg[f]) if neg else asg[f] for neg, f in dis):
                free = [(n_, f_) for n_, f_ in dis if f_ != must_be_off]
                if free:
                    asg[free[0][1]] = not free[0][0]
        if not asg[must_be_off] or not gen_stateguards.holds(g, asg):
            continue
        # the guard no longer excludes the mode: a concrete world
        base = os.path.join(sc.dir, "sg-" + name)
        src, dst = base + "/src", base + "/dst"
        os.makedirs(src); os.makedirs(dst)
        open(src + "/a.txt", "w").write("a"); open(src + "/b.txt", "w").write("bb")
        cli = [x for f, on in sorted(asg.items()) if on for x in CLI_OF_FLAG.get(f, [])]
        prior = [x for x in cli if x not in ("--dry-run", "--verify-only", "--clean-state", "--clear-cache", "--clear-checksum-db", "--prune-checksum-db")]
        world.run_sy([src, dst, "-q"] + prior + (["--checksum", "--checksum-db=true"] if "db" in name else []) + (["--use-cache=true"] if "cache" in name else []), sc)
        open(src + "/a.txt", "w").write("a, edited after the earlier run")
        with open(dst + "/.sy-state.json", "w") as fh:
            fh.write("not json at all" if "invalid" in name else '{"version":1}')
        if not os.path.exists(dst + "/.sy-dir-cache.json"):
            open(dst + "/.sy-dir-cache.json", "w").write('{"version":2,"directories":{},"files":{}}')
        world.sync_fs()
        before = world.snapshot(dst)
        rr = world.run_sy([src, dst, "-q"] + cli + (["--checksum", "--checksum-db=true"] if "db" in name and "--checksum" not in cli else []), sc)
        ch = [p for p in changed(before, world.snapshot(dst))]
        out.append({"site": name, "source_line": "%s:%d" % (g["file"], g["line"]), "guard_holds_under": {k: v for k, v in asg.items() if v}, "cli": cli, "modified": ch[:6],
                    "why": ("the guard translated from %s:%d (%s) can hold with %s set; run with %s: %s" % (g["file"], g["line"], g["what"], must_be_off, " ".join(cli),
                                                                                                      ("modified %r" % ch[:4]) if ch else "no modification observed on this world"))})
        shutil.rmtree(base, ignore_errors=True)
    return out


def run(tier, seed):
    res = vlib.Result(PID, tier, seed)
    pr = proof_phase(res, PID)
    okm, outm = vlib.build_model()
    oki, outi, _ = vlib.build_impl()
    if not (okm and oki):
        res.violation("build", "build failed:\n" + (outi if not oki else outm)[-3000:], no_input=True)
        return res.finish()
    known = {f["class"]: f for f in vlib.load_known()["findings"] if f["property"] == PID}
    r = vlib.rng_for(seed, PID)
    n = 60 if tier == "quick" else 700
    cases, obs_l, viol, hits, diffs, nontriv = [], [], [], {}, [], set()
    samples = []
    prior_runs = 0
    with vlib.Scratch() as sc:
        home = sc.env["HOME"]
        for i in range(n):
            sspec, dspec = ew.gen_world(r, with_big=(i % 3 == 0))
            fl = ew.gen_flags(r)
            fl["dry"] = 1
            state = STATE_FLAG_SETS[i % len(STATE_FLAG_SETS)]
            if "--bidirectional" in state:
                fl = {"j": 1, "dry": 1}
            if "--checksum" in state:
                for k in ("it", "so"):
                    fl.pop(k, None)
                fl["ck"] = 1
            # leftovers of earlier runs in the destination
            extra = []
            if i % 4 == 1:
                extra.append({"p": ".sy-dir-cache.json", "k": "f", "data": b'{"version":2,"dir_entries":{},"file_entries":{}}', "mt_ns": 10**9})
            if i % 6 == 2 or "--clean-state" in state:      # --clean-state always meets a state file (7fce564: a dry run deleted it)
                extra.append({"p": ".sy-state.json", "k": "f", "data": b"garbage not json", "mt_ns": 10**9})
            # symbolic links in the source under each link mode: what the dry run announces for them must be what the real run does
            link_args = []
            if i % 7 == 4 and "--bidirectional" not in state:
                link_args = ["--links", ["follow", "skip", "preserve"][(i // 7) % 3]]
                have = {e["p"] for e in sspec} | {e["p"] for e in dspec}
                tfile = next((e["p"] for e in sspec if e["k"] == "f" and "/" not in e["p"]), None)
                for name, tgt in (("zz_lnk_file", tfile), ("zz_lnk_dangling", "nowhere"), ("zz_lnk_dir", ".")):
                    if tgt and name not in have:
                        sspec = sspec + [{"p": name, "k": "l", "target": tgt}]
                if tfile and r.random() < 0.5:
                    dspec = dspec + [{"p": "zz_lnk_file", "k": "f", "data": b"an older copy", "mt_ns": 10**9}]
            base = os.path.join(sc.dir, "w%d" % i)
            A, B = base + "/A", base + "/B"
            for root in (A, B):
                ew.mk(root + "/src", sspec); ew.mk(root + "/dst", dspec + extra)
                os.makedirs(root + "/src", exist_ok=True); os.makedirs(root + "/dst", exist_ok=True)
            # -X with attributes that differ between source and destination, on files that are up to date and on files that are not:
            # a dry run must not create, change or remove an attribute either
            xargs = []
            if i % 5 == 3 and "--bidirectional" not in state:
                xargs = ["-X"]
                for root in (A, B):
                    for e in sspec:
                        if e["k"] == "f":
                            sp, dp = os.path.join(root, "src", e["p"]), os.path.join(root, "dst", e["p"])
                            os.setxattr(sp, "user.review", b"approved"); os.setxattr(sp, "user.only_src", b"1")
                            if os.path.isfile(dp) and not os.path.islink(dp):
                                os.setxattr(dp, "user.review", b"pending"); os.setxattr(dp, "user.only_dst", b"2")
            shutil.rmtree(os.path.join(home, ".cache"), ignore_errors=True); os.makedirs(os.path.join(home, ".cache"))
            # (seed C08-4) the state files of an EARLIER REAL RUN with the same flags: a database, cache or bisync state that exists and is
            # in use must come out of the dry run byte for byte (and with its time stamp) -- then the source moves on, so that the dry
            # run has something to plan
            if i % 3 == 2 and any(x in state for x in ("--checksum-db=true", "--use-cache=true", "--bidirectional")) and not link_args:
                prior_cli = [x for x in state if not x.startswith("--clear") and x not in ("--clean-state", "--prune-checksum-db")]
                for root in (A, B):
                    world.run_sy([root + "/src", root + "/dst"] + prior_cli, sc)
                    victim = next((e["p"] for e in sspec if e["k"] == "f"), None)
                    if victim and os.path.isfile(os.path.join(root, "src", victim)):
                        with open(os.path.join(root, "src", victim), "ab") as fh:
                            fh.write(b"edited after the earlier run\n")
                        os.utime(os.path.join(root, "src", victim), ns=(ew.T0NS + 9000 * 10**9,) * 2)
                    with open(os.path.join(root, "src", "zz_new_after_prior"), "wb") as fh:
                        fh.write(b"new")
                    os.utime(os.path.join(root, "src", "zz_new_after_prior"), ns=(ew.T0NS + 9001 * 10**9,) * 2)
                world.sync_fs()
                prior_runs += 1
            bs, bd, bh = world.snapshot(A + "/src"), world.snapshot(A + "/dst"), world.snapshot(home)
            ids = ew.Ids()
            state_cli = [s for s in state if s != "--checksum"]
            if "--bidirectional" in state:
                rr = world.run_sy([A + "/src", A + "/dst", "--dry-run"] + state_cli, sc)
                case = obs = None
                raw = {"rc": rr["rc"], "events": []}
            else:
                case, obs, raw = ew.run_once(sc, A + "/src", A + "/dst", fl, ids, extra_args=state_cli + xargs + link_args)
            as_, ad, ah = world.snapshot(A + "/src"), world.snapshot(A + "/dst"), world.snapshot(home)
            wfail = []
            for where, b, a in (("src", bs, as_), ("dst", bd, ad), ("home", bh, ah)):
                for rel in changed(b, a):
                    if where == "home" and a.get(rel, b.get(rel))["kind"] == "d":
                        continue        # directory mtimes under the private HOME
                    wfail.append({"where": where, "path": rel, "why": "%s entry created, removed or modified by a --dry-run" % where, "klass": klass_of(where, rel)})
            # plan agreement with the real run on the twin
            if "--bidirectional" not in state:
                fl2 = dict(fl); fl2["dry"] = 0
                ids2 = ew.Ids()
                ids2.names, ids2.contents = dict(ids.names), dict(ids.contents)
                case2, obs2, raw2 = ew.run_once(sc, B + "/src", B + "/dst", fl2, ids2, extra_args=state_cli + xargs + link_args)
                kv2 = dict(x.split("=", 1) for x in obs2.split(" "))
                kv1 = dict(x.split("=", 1) for x in obs.split(" "))
                if kv2["refused"] != kv1["refused"]:
                    wfail.append({"where": "plan", "path": None, "why": "dry run and real run disagree on refusal", "klass": None})
                elif int(kv2["nerr"]) == 0 and sorted(raw["events"]) != sorted(raw2["events"]):
                    wfail.append({"where": "plan", "path": None, "why": "actions reported by the dry run differ from those performed by the real run: %r vs %r" % (raw["events"][:6], raw2["events"][:6]), "klass": None})
                m = ew.model_obs(vlib.run_model([case], shards=1)[0])
                # the model has no state files: drop them from the observation before comparing
                o_cmp = " ".join(x for x in obs.split(" "))
                listing_changed = any(f["klass"] in ("clear-cache", "resume-state") for f in wfail)   # the known side effects alter what the engine scans
                # (Engine.v has no symbolic links: the worlds with links are judged by the twin and the snapshots only)
                if not listing_changed and not link_args and strip_meta(m, ids) != strip_meta(o_cmp, ids):
                    diffs.append({"world": i, "flags": fl, "state": state, "impl": obs, "model": m, "case": case})
                if raw["events"]:
                    nontriv.add(obs)
            for f in wfail:
                if f["klass"] in known:
                    hits.setdefault(known[f["klass"]]["id"], []).append((i, f))
                else:
                    viol.append({"world": i, "flags": fl, "state_flags": state, "failure": f, "case": case})
            if len(samples) < 3:
                samples.append({"flags": fl, "state_flags": state, "events": raw["events"][:8]})
            cases.append(i)
            shutil.rmtree(base, ignore_errors=True)
    res.cov["evaluations"] = len(cases) * 2
    res.cov["distinct_nontrivial"] = len(nontriv)
    res.cov["model_impl_disagreements"] = len(diffs)
    res.cov["known_finding_hits"] = {k: len(v) for k, v in hits.items()}
    res.cov["rule"] = ("twin worlds (as for C01/C06) x comparison/--delete flags x state flag sets %r x leftovers (.sy-dir-cache.json, corrupt .sy-state.json); "
                       "A runs with --dry-run, B without; snapshots of source, destination and private HOME before/after A; event multisets of A and B compared; "
                       "non-trivial = the plan contains at least one action" % (STATE_FLAG_SETS,))
    res.cov["samples"] = samples
    res.cov["worlds_after_an_earlier_real_run_with_the_same_state_flags"] = prior_runs
    res.cov["trusted_base"] = TRUSTED_COMMON + ["sy's cache/database/state locations: <dest>/.sy-* and $XDG_CACHE_HOME/sy (private HOME per run)"]
    for cls, f in known.items():
        h = hits.get(f["id"], [])
        if h:
            res.known.append("%s %s [%d cases this run, e.g. world %d]" % (f["id"], f["what"], len(h), h[0][0]))
        else:
            res.notes.append("listed finding %s was not reproduced by this run" % f["id"])
    # the translated state-file guards: every site found, and -- when one of them can hold under --dry-run -- the world that shows it
    import gen_stateguards
    with vlib.Scratch() as sc3:
        sg_hits = stateguard_search(sc3, "dry_run")
    res.cov["state_file_sites_translated_from_source"] = sorted(gen_stateguards.generate()["guards"])
    res.cov["trusted_base"] = res.cov["trusted_base"] + ["py/gen_stateguards.py: the translator of the state-file sites (brace matching over comment- and string-stripped source; conjuncts that are not flags are dropped, which only weakens a guard); the list of mutating calls it looks for (SITES) is hand-written: a NEW call that touches a state file has to be added there -- the snapshot worlds are the net for those"]
    for h_ in sg_hits:
        if h_["modified"]:
            viol.append({"world": "state-guard-" + h_["site"], "failure": {"why": h_["why"], "klass": None}, "cli": h_["cli"]})
    for v in viol[:3]:
        res.violation("world", v)
    if not viol and (diffs or pr["broken"]):
        what = list(pr["broken"])
        what += [h_["why"] for h_ in sg_hits]
        if diffs:
            what.append("dry run differs from Engine.run on %d worlds; first: %s" % (len(diffs), json.dumps(diffs[0])[:1500]))
        res.violation("unproved", {"no_failing_input_found": True, "what_no_longer_checks": what, "first_case": diffs[0] if diffs else None}, no_input=True)
    return res.finish()


def strip_meta(obs, ids):
    """remove sy's own metadata files from an observation line's dst= list (they are outside the engine model)"""
    meta_ids = set()
    for name in (".sy-dir-cache.json", ".sy-state.json", ".sy-checksums.db"):
        if name in ids.names:
            meta_ids.add(str(ids.names[name]))
    parts = obs.split(" ")
    out = []
    for p in parts:
        if p.startswith("dst="):
            items = [it for it in p[4:].split(",") if it != "-" and it.split(":")[1] not in meta_ids]
            out.append("dst=" + (",".join(items) or "-"))
        elif p.startswith("evs="):
            items = [it for it in p[4:].split(",") if it != "-" and it.split(":")[1] not in meta_ids]
            out.append("evs=" + (",".join(items) or "-"))
        else:
            out.append(p)
    return " ".join(out)


def replay(path):
    return c01.replay(path)
