"""C09 -- crash safety: killing sy at any boundary between file-system mutating calls loses nothing and a re-run converges.
Theorems: coq/Properties/C09.v over Model/Crash.v (per-file programs, every prefix) and Model/Temp.v (crash states
of interleaved runs decompose per task).
Tie: the real binary runs under an LD_PRELOAD shim (shim/crashshim.c) that numbers the mutating libc calls below the
test root and _exit()s the process just before call k -- for every k of the run; the shim's call list is validated
against strace.  For each file the observed call sequence is abstracted to Crash.cstep and must be accepted by the
extracted recognisers (program_ok); the state of the destination and of the working file after the kill, and the
next run's decision to transfer again, are compared with Crash.crash_state / Crash.replans at that prefix.
Oracle: the statement on the snapshots (source unchanged; files not in progress old or final; a destination at or
above the gate old or new; the recovery run exits 0 and ends like an uninterrupted run, with no working file)."""
import json, os, shutil, subprocess, time
import vlib, world, engine_world as ew, strace_fs
from common import proof_phase, TRUSTED_COMMON

PID = "C09"
NS = 10**9
SHIM_SRC = os.path.join(vlib.VERIF, "shim", "crashshim.c")
SHIM = os.path.join(vlib.CACHE, "crashshim.so")


def build_shim():
    os.makedirs(vlib.CACHE, exist_ok=True)
    if os.path.exists(SHIM) and os.path.getmtime(SHIM) >= os.path.getmtime(SHIM_SRC):
        return True, ""
    p = subprocess.run(["gcc", "-O1", "-shared", "-fPIC", "-o", SHIM, SHIM_SRC, "-ldl"], stdout=subprocess.PIPE, stderr=subprocess.STDOUT)
    return p.returncode == 0, p.stdout.decode()


def similar(data, r):
    b = bytearray(data)
    n = len(b) // 4096
    for _ in range(max(1, n // 12)):
        i = r.randrange(0, max(1, n)) * 4096
        b[i:i + 4096] = r.randbytes(min(4096, len(b) - i))
    return bytes(b) + b"xy"


def make_world(base, r, variant):
    """returns (src, dst_template, flags)"""
    src, tpl = base + "/src", base + "/tpl"
    os.makedirs(src + "/sub/deep"); os.makedirs(tpl + "/old")
    B = ew.BIG

    def put(root, rel, data, mt):
        p = os.path.join(root, rel)
        os.makedirs(os.path.dirname(p), exist_ok=True)
        with open(p, "wb") as f:
            f.write(data); f.flush(); os.fsync(f.fileno())
        os.utime(p, ns=(ew.T0NS + mt * NS, ew.T0NS + mt * NS))

    big1 = r.randbytes(B * 2 + r.randrange(0, 9000))
    put(src, "n_small.txt", r.randbytes(700), 1000)
    put(src, "n_empty", b"", 1001)
    put(src, "n_big.bin", r.randbytes(B + 30000), 1002)
    put(src, "u_small.txt", r.randbytes(5000), 1003); put(tpl, "u_small.txt", r.randbytes(3000), 900)
    put(src, "u_same.dat", r.randbytes(4096), 1004); put(tpl, "u_same.dat", r.randbytes(4096), 990)
    put(src, "big_delta.bin", big1, 1005); put(tpl, "big_delta.bin", similar(big1, r), 800)
    put(src, "big_fb.bin", r.randbytes(150000), 1006); put(tpl, "big_fb.bin", r.randbytes(140000), 801)
    put(src, "shrunk.log", r.randbytes(r.choice([1, 1000, 4095])), 1011); put(tpl, "shrunk.log", r.randbytes(B + 4097), 804)   # a tiny source over a large destination
    with open(src + "/big_sparse.img", "wb") as f:
        f.truncate(300000); f.seek(8192); f.write(b"\x11" * 5000); f.seek(200000); f.write(b"\x22" * 9000); f.flush(); os.fsync(f.fileno())
    os.utime(src + "/big_sparse.img", ns=(ew.T0NS + 1007 * NS,) * 2)
    put(tpl, "big_sparse.img", r.randbytes(200000), 802)
    put(src, "sub/deep/n.txt", b"nested", 1008)
    same = r.randbytes(900)
    put(src, "same.txt", same, 1009); put(tpl, "same.txt", same, 1009)
    put(tpl, "old/x", b"x", 700); put(tpl, "stale.txt", b"stale", 701)
    if variant % 2 == 0:
        os.link(tpl + "/big_delta.bin", tpl + "/snap.keep")      # a second name of the large file (e.g. a cp -al snapshot)
    if variant % 2 == 1:
        put(src, "big_two.dat", big1[:B + 777], 1010); put(tpl, "big_two.dat", similar(big1[:B + 777], r), 803)
    fl = [{}, {"delete": 1, "force": 1, "thr": 100}, {"ck": 1}, {"so": 1}, {"it": 1}, {"delete": 1, "thr": 100}][variant % 6]
    fl = dict(fl)
    fl["j"] = 1 if variant % 3 != 2 else 4
    for root in (src, tpl):
        for dp, dns, fns in os.walk(root, topdown=False):
            os.utime(dp, ns=(ew.T0NS, ew.T0NS))
    world.sync_fs()
    return src, tpl, fl


def run_shim(sc, src, dst, fl, at, log):
    env = dict(os.environ); env.update(sc.env)
    env.pop("RUST_LOG", None)
    env.update({"SY_VERIF_DELTA_THRESHOLD": str(ew.BIG), "LD_PRELOAD": SHIM, "SY_CRASH_ROOT": os.path.dirname(src), "SY_CRASH_LOG": log, "SY_CRASH_AT": str(at)})
    if os.path.exists(log):
        os.remove(log)
    p = subprocess.run([world.SY, src, dst] + ew.cli_of(fl), env=env, cwd=sc.dir, stdout=subprocess.PIPE, stderr=subprocess.PIPE, timeout=120)
    calls = []
    killed = False
    if os.path.exists(log):
        for line in open(log, errors="replace"):
            if line.startswith("KILLED"):
                killed = True
                continue
            t = line.rstrip("\n").split("\t")
            if len(t) >= 3:
                calls.append((t[1], t[2], t[3] if len(t) > 3 else "", t[4] if len(t) > 4 else "0", int(t[0])))
    return p.returncode, calls, killed, p.stdout.decode("utf-8", "replace"), p.stderr.decode("utf-8", "replace")


def fresh(tpl, dst):
    shutil.rmtree(dst, ignore_errors=True)
    subprocess.run(["cp", "-a", tpl, dst], check=True)


def owners_of(calls, dst, temp_of):
    """calls -> list of (owner_rel, name, is_temp); temp paths are attributed to their destination"""
    rev = {v: k for k, v in temp_of.items()}
    out = []
    for name, p, q, _tid, _k in calls:
        if not strace_fs.under(p, dst):
            out.append((None, name, False, p)); continue
        rel = os.path.relpath(p, dst)
        if name == "rename" and q:
            relq = os.path.relpath(q, dst)
            out.append((relq, name, False, p)); continue
        if rel in rev:
            out.append((rev[rel], name, True, p))
        else:
            out.append((rel, name, False, p))
    return out


def abstract(seq, src_size):
    """[(name, is_temp)] of one file -> Crash.cstep tokens"""
    toks = []
    data_idx = [i for i, (n, t) in enumerate(seq) if n in ("write", "truncate")]
    # the completing call: the last data call before the rename (working-file programs) / before the end (in place)
    ren = [i for i, (n, t) in enumerate(seq) if n == "rename"]
    limit = ren[0] if ren else len(seq)
    data_before = [i for i in data_idx if i < limit]
    last = data_before[-1] if data_before else None
    for i, (n, t) in enumerate(seq):
        b = "1" if t else "0"
        if n == "open-trunc":
            toks.append("o" + b)
        elif n in ("open-write", "chmod", "xattr"):
            toks.append("m" + b)
        elif n == "unlink":
            toks.append("r" + b)
        elif n == "rename":
            toks.append("R")
        elif n == "utime":
            toks.append("T" if t else "U")          # on the working file (before the rename) or on the destination
        elif n in ("write", "truncate"):
            if i == last:
                toks.append("W" + b)
            elif n == "truncate":
                toks.append("l" + b)
            else:
                toks.append(("w%s:0" % b) if src_size > 0 else ("m" + b))
        else:
            toks.append("?" + n)
    return toks


def abstract_prefix(seq, src_size):
    """a PREFIX of one file's calls -> Crash.cstep tokens: a data call is the completing one only if the rename / utimensat
    that follows it is in the prefix too; otherwise it is a torn write"""
    toks = []
    closers = [i for i, (n, t) in enumerate(seq) if n in ("rename", "utime")]
    limit = closers[0] if closers else None
    data_before = [i for i, (n, t) in enumerate(seq) if n in ("write", "truncate") and limit is not None and i < limit]
    last = data_before[-1] if data_before else None
    for i, (n, t) in enumerate(seq):
        b = "1" if t else "0"
        if n == "open-trunc":
            toks.append("o" + b)
        elif n in ("open-write", "chmod", "xattr"):
            toks.append("m" + b)
        elif n == "unlink":
            toks.append("r" + b)
        elif n == "rename":
            toks.append("R")
        elif n == "utime":
            toks.append("T" if t else "U")          # on the working file (before the rename) or on the destination
        elif n in ("write", "truncate"):
            if i == last:
                toks.append("W" + b)
            elif src_size == 0 and limit is None and n == "write":
                toks.append("m" + b)
            elif n == "truncate":
                toks.append("l" + b)
            else:
                toks.append(("w%s:0" % b) if src_size > 0 else ("m" + b))
    return toks


def cls(e, before, srce, run_start):
    """observed class of a path: 'a' | 'old' | ('new'|'torn', mtime_class)"""
    if e is None:
        return "a"
    if e["kind"] != "f":
        return "other"
    if before is not None and before.get("kind") == "f" and e["sha"] == before["sha"] and e["mtime_ns"] == before["mtime_ns"]:
        return "old"
    mt = "src" if (srce is not None and e["mtime_ns"] == srce["mtime_ns"]) else ("now" if e["mtime_ns"] >= run_start else "other")
    if srce is not None and e["sha"] == srce["sha"] and e["size"] == srce["size"]:
        return "new:" + mt
    return "torn:" + mt


def pred_cls(tok, src_mt):
    if tok == "a":
        return "a"
    ct, k, sz, mt = tok.split(":")
    if ct == "3":
        return "old"
    return ("new:" if k == "1" else "torn:") + ("src" if int(mt) == src_mt else "now")


def compatible(pred, obs):
    if pred == obs:
        return True
    if pred.startswith("torn:") and obs.startswith("new:") and pred[5:] == obs[4:]:
        return True       # a write labelled 'not yet complete' may in fact have completed the data
    if pred.startswith("torn:") and obs.startswith("torn:"):
        return True
    return False


def analyse(sc, r, variant, tier, stats, only_k=None):
    viol, diffs = [], []
    base = os.path.join(sc.dir, "c%d" % variant)
    src, tpl, fl = make_world(base, r, variant)
    dst = base + "/dst"
    log = base + "/shim.log"
    ssnap = world.snapshot(src)
    before = world.snapshot(tpl)
    files = [rel for rel, e in ssnap.items() if e["kind"] == "f"]
    names = sorted(set(os.path.basename(rel).encode() for rel in files))
    import c05
    tmap = dict(zip(names, c05.model_temp_name(names)))
    temp_of = {rel: os.path.normpath(os.path.join(os.path.dirname(rel), tmap[os.path.basename(rel).encode()].decode())) for rel in files}
    # reference: uninterrupted run under the shim in log mode
    fresh(tpl, dst)
    rc, ref_calls, _k, out, err = run_shim(sc, src, dst, fl, 0, log)
    ref_after = world.snapshot(dst)
    M = len(ref_calls)
    tag = {"variant": variant, "flags": fl, "calls": M}
    if rc != 0:
        viol.append(dict(tag, why="the uninterrupted reference run failed: rc=%s %s" % (rc, err[-300:])))
        return viol, diffs
    if variant == 0:
        # validate the shim's call list against strace on the same world
        fresh(tpl, dst)
        env = dict(os.environ); env.update(sc.env); env["SY_VERIF_DELTA_THRESHOLD"] = str(ew.BIG)
        slog = base + "/strace.log"
        strace_fs.run_traced([world.SY, src, dst] + ew.cli_of(fl), env, sc.dir, slog)
        sev = [e for e in strace_fs.parse(slog) if any(strace_fs.under(p, base) for p in e["paths"])]
        skinds = sorted((e["kind"].replace("open-trunc", "open").replace("open-write", "open"), e["paths"][0] if e["kind"] != "rename" else e["paths"][0]) for e in sev)
        norm = {"open-trunc": "open", "open-write": "open", "rmdir": "unlink", "chmod": "chmod"}
        ckinds = sorted((norm.get(n, n), p) for n, p, q, _t, _k in ref_calls)
        stats["strace_calls"] = len(skinds); stats["shim_calls_same_world"] = len(ckinds)
        if skinds != ckinds:
            only_s = [x for x in skinds if x not in ckinds][:5]; only_c = [x for x in ckinds if x not in skinds][:5]
            diffs.append(dict(tag, what="the shim's list of mutating calls differs from strace's", only_strace=only_s, only_shim=only_c))
        os.remove(slog)
    ref_own = owners_of(ref_calls, dst, temp_of)
    per_owner = {}
    for o, n, t, p in ref_own:
        per_owner.setdefault(o, []).append((n, t))
    # model programs per transferred file
    progs, cp_cases = {}, []
    flags = "so=%d,it=%d,ck=%d,big=%d" % (fl.get("so", 0), fl.get("it", 0), fl.get("ck", 0), ew.BIG)
    now_tok = 1
    for rel in files:
        seq = [(n, t) for (n, t) in per_owner.get(rel, []) if n != "mkdir"]
        if not seq:
            continue
        s = ssnap[rel]
        toks = abstract(seq, s["size"])
        b = before.get(rel)
        d0 = "a" if (b is None or b["kind"] != "f") else "3:1:%d:%d" % (b["size"], b["mtime_ns"])
        progs[rel] = {"toks": toks, "d0": d0, "seq": seq}
        cp_cases.append((rel, "CP %s %d:%d:7 %s %d %s" % (flags, s["size"], s["mtime_ns"], d0, now_tok, ",".join(toks))))
    outs = vlib.run_model([c for _, c in cp_cases], shards=1)
    for (rel, case), o in zip(cp_cases, outs):
        kv = dict(x.split("=", 1) for x in o.split(" ")) if "=" in o else {}
        progs[rel]["ok"] = kv.get("ok") == "1"
        progs[rel]["states"] = kv.get("states", "").split("|")
        progs[rel]["case"] = case
        stats["programs"] += 1
        stats["temp_programs"] += 1 if kv.get("temp") == "1" else 0
        if kv.get("ok") != "1":
            diffs.append(dict(tag, what="the call sequence observed for %s is not in the modelled class" % rel, seq=progs[rel]["seq"], case=case, model=o[:200]))
    pending = []
    # crash points
    ks = list(range(1, M + 1)) if only_k is None else [only_k]
    if tier == "quick" and only_k is None and M > 45:
        keep = set(r.sample(ks, 45))
        # always keep the boundaries around renames and the first/last calls of each big file
        for i, (o, n, t, p) in enumerate(ref_own):
            if n in ("rename",) or (t and n == "open-trunc"):
                keep.update({i + 1, i + 2})
        ks = [k for k in ks if k in keep]
    for k in ks:
        fresh(tpl, dst)
        run_start = time.time_ns() - 50_000_000
        rc, calls, killed, out, err = run_shim(sc, src, dst, fl, k, log)
        stats["crash_runs"] += 1
        ctag = dict(tag, k=k, at=(ref_calls[k - 1] if fl["j"] == 1 else None))
        if not killed:
            if rc != 0:
                viol.append(dict(ctag, why="run neither killed nor successful: rc=%s" % rc))
            continue
        # the call numbered k was NOT executed; other threads may have logged (and perhaps executed) later numbers before the process was gone
        killer_call = [cl for cl in calls if cl[4] == k]
        executed = [cl for cl in calls if cl[4] != k]
        late = [cl for cl in calls if cl[4] > k]
        done = owners_of(executed, dst, temp_of)
        ndone = {}
        for o, n, t, p in done:
            if n != "mkdir":
                ndone[o] = ndone.get(o, 0) + 1
        ntotal = {o: len([1 for (n, t) in v if n != "mkdir"]) for o, v in per_owner.items()}
        crash = world.snapshot(dst)
        s_now = world.snapshot(src)
        if world.diff_snap(ssnap, s_now):
            viol.append(dict(ctag, why="the SOURCE changed: %s" % world.diff_snap(ssnap, s_now)[:4]))
        inprog = {o for o in ndone if 0 < ndone[o] < ntotal.get(o, 0)}
        # with several workers a call that another thread has logged may not have been executed when the process died:
        # the owner of each other thread's latest logged call counts as in progress, and its prefix is ki or ki-1
        killer = killer_call[0][3] if killer_call else None
        last_of = {}
        for idx, cl in enumerate(executed):
            last_of[cl[3]] = idx
        inflight = {}
        for tid, idx in last_of.items():
            if tid != killer or executed[idx][4] > k:
                o = done[idx][0]
                inflight[o] = inflight.get(o, 0) + 1
        for idx, cl in enumerate(executed):
            if cl[4] > k:
                inflight[done[idx][0]] = inflight.get(done[idx][0], 0) + 1
        inprog |= set(inflight)
        if killer_call:
            stats["boundaries"].add((killer_call[0][0], "temp" if killer_call[0][1].endswith(".sy.tmp") else "dest"))
        # O2/O3 statement-level checks on the crash state
        for rel in sorted(set(crash) | set(before) | set(ref_after)):
            c_e, b_e, f_e = crash.get(rel), before.get(rel), ref_after.get(rel)
            if (c_e or {}).get("kind") == "d" or (b_e or {}).get("kind") == "d" or (f_e or {}).get("kind") == "d":
                continue
            owner = rel
            is_temp = rel in temp_of.values()
            if is_temp:
                continue        # working files are judged after the recovery run
            def same(x, y, mt=True):
                if x is None or y is None:
                    return x is y
                return x.get("sha") == y.get("sha") and x.get("kind") == y.get("kind") and (not mt or x["mtime_ns"] == y["mtime_ns"])
            if owner not in inprog and not (same(c_e, b_e) or same(c_e, f_e)):
                # a file outside any in-progress transfer: parent directory removal may take it with it (delete tasks)
                par_inprog = any(rel.startswith(o + "/") for o in inprog if o)
                if not par_inprog:
                    viol.append(dict(ctag, path=rel, why="a destination file that was not being written at the kill is neither as before nor as after an uninterrupted run",
                                     crash=c_e, before=b_e))
            if b_e is not None and b_e.get("kind") == "f" and b_e["size"] >= ew.BIG and rel in ssnap:
                s_e = ssnap[rel]
                if not (c_e is not None and (c_e["sha"] == b_e["sha"] or (c_e["sha"] == s_e["sha"] and c_e["size"] == s_e["size"]))):
                    viol.append(dict(ctag, path=rel, why="an existing destination at or above the gate holds neither its old nor its new content after the kill",
                                     crash=c_e))
        # recovery
        ids = ew.Ids()
        rfl = dict(fl)
        case, obs, raw = ew.run_once(sc, src, dst, rfl, ids)
        stats["recovery_runs"] += 1
        after = raw["after"]
        evs = {}
        for ev in raw["events"]:
            t, pth = ev.split(":", 1)
            evs[pth] = t
        if raw["rc"] != 0:
            viol.append(dict(ctag, why="the recovery run failed: rc=%s %s" % (raw["rc"], raw["stderr"][-300:])))
        cmp_mt = not (fl.get("so") or fl.get("ck"))
        for rel in sorted(set(after) | set(ref_after)):
            a_e, f_e = after.get(rel), ref_after.get(rel)
            if a_e is None or f_e is None:
                viol.append(dict(ctag, path=rel, why=("a path remains after the recovery run that an uninterrupted run does not leave (working file?)" if f_e is None
                                                      else "a path is missing after the recovery run")))
                continue
            if a_e["kind"] == "f" and (a_e["sha"] != f_e["sha"] or (cmp_mt and a_e["mtime_ns"] != f_e["mtime_ns"])):
                viol.append(dict(ctag, path=rel, why="after the recovery run the file differs from what an uninterrupted run produces", after=a_e, reference=f_e))
        # model comparison per transferred file: the calls this owner EXECUTED in this very run are abstracted to Crash.cstep
        # (their number may differ from the reference run: extent layout, chunking) and Crash.crash_state is asked for the state
        # after them; with several workers the last calls of other threads may not have been executed (candidates drop them)
        for rel, pg in progs.items():
            if not pg["ok"]:
                continue
            own = [(n, t) for (o, n, t, p) in done if o == rel and n != "mkdir"]
            s_e = ssnap[rel]
            o_d = cls(crash.get(rel), before.get(rel), s_e, run_start)
            o_t = "a" if crash.get(temp_of[rel]) is None else "file"
            cands = []
            for drop in range(0, min(len(own), inflight.get(rel, 0)) + 1):
                seq = own[:len(own) - drop]
                toks = abstract_prefix(seq, s_e["size"])
                b0 = before.get(rel)
                d0 = "a" if (b0 is None or b0["kind"] != "f") else "3:1:%d:%d" % (b0["size"], b0["mtime_ns"])
                cands.append("CP %s %d:%d:7 %s %d %s" % (flags, s_e["size"], s_e["mtime_ns"], d0, now_tok, ",".join(toks) or "-"))
            pending.append({"ctag": ctag, "rel": rel, "cands": cands, "o_d": o_d, "o_t": o_t, "ev": evs.get(ids.path(rel)), "src_mt": s_e["mtime_ns"]})
    # evaluate all candidate prefixes in one batch
    allc = [c for pnd in pending for c in pnd["cands"]]
    outs = vlib.run_model(allc) if allc else []
    it = iter(outs)
    for pnd in pending:
        res = [next(it) for _ in pnd["cands"]]
        stats["state_comparisons"] += 1
        okk, last = None, None
        for o in res:
            kv = dict(x.split("=", 1) for x in o.split(" ")) if "=" in o else {}
            st = kv.get("states", "").split("|")[-1]
            if not st:
                continue
            d_tok, t_tok, rp = st.split(";")
            p_d = pred_cls(d_tok, pnd["src_mt"])
            p_t = "a" if t_tok == "a" else "file"
            last = (p_d, p_t)
            if compatible(p_d, pnd["o_d"]) and p_t == pnd["o_t"]:
                okk = (p_d, rp)
                break
        if okk is None:
            diffs.append(dict(pnd["ctag"], path=pnd["rel"], what="crash state differs from Crash.crash_state", model=last, impl=[pnd["o_d"], pnd["o_t"]], case=pnd["cands"][0][:400]))
            continue
        p_d, rp = okk
        ev = pnd["ev"]
        if ev in ("create", "update", "skip") and not p_d.startswith("torn") and len(pnd["cands"]) == 1:
            want = "skip" if rp == "0" else "transfer"
            got = "skip" if ev == "skip" else "transfer"
            stats["replan_comparisons"] += 1
            if want != got:
                diffs.append(dict(pnd["ctag"], path=pnd["rel"], what="the recovery run's decision differs from Crash.replans", model=want, impl=got, case=pnd["cands"][0][:400]))
    shutil.rmtree(base, ignore_errors=True)
    return viol, diffs


def leftover_worlds(sc, seed, tier, stats):
    """working files left by an interrupted run of an OLDER source version (larger, every byte non-zero) next to their
    destinations: one uninterrupted run must end with every source file byte-identical in the destination and no working
    file left -- for each transfer path that goes through a working file (block delta, change-ratio fallback, sparse source)"""
    viol = []
    n = 2 if tier == "quick" else 10
    for i in range(n):
        r = vlib.rng_for(seed, "C09-left%d" % i)
        base = os.path.join(sc.dir, "left%d" % i)
        src, tpl, fl = make_world(base, r, i)
        fl = dict(fl); fl.pop("delete", None); fl.pop("force", None); fl.pop("thr", None)
        fl.pop("so", None)       # under --size-only a same-size file with other bytes is rightly left alone: the oracle below asks for the source's bytes everywhere
        if i % 2 == 1:
            # with --delete and several workers: the leftover working files are extra destination entries, yet the updates that reuse
            # them must not lose them to a concurrent delete task
            fl.update({"delete": 1, "force": 1, "thr": 100, "j": r.choice([2, 4])})
        ssnap = world.snapshot(src)
        import c05
        planted = []
        for rel in ("big_sparse.img", "big_delta.bin", "big_fb.bin", "shrunk.log"):
            tn = c05.model_temp_name([os.path.basename(rel).encode()])[0].decode()
            tp = os.path.join(tpl, os.path.dirname(rel), tn)
            with open(tp, "wb") as f:
                f.write(b"\xee" * (ssnap[rel]["size"] + 50000 + r.randrange(0, 5000)))
            planted.append(os.path.relpath(tp, tpl))
        dst = base + "/dst"
        env = dict(os.environ); env.update(sc.env); env["SY_VERIF_DELTA_THRESHOLD"] = str(ew.BIG)
        for rep in range(4 if fl.get("j", 1) > 1 else 1):          # several workers: the interleaving varies from run to run
            fresh(tpl, dst)
            p = subprocess.run([world.SY, src, dst] + ew.cli_of(fl), env=env, cwd=sc.dir, stdout=subprocess.PIPE, stderr=subprocess.PIPE, timeout=120)
            after = world.snapshot(dst)
            stats["leftover_worlds"] = stats.get("leftover_worlds", 0) + 1
            tag = {"variant": "leftover-%d" % i, "flags": fl, "seed": seed, "planted": planted, "repetition": rep}
            nv = len(viol)
            if p.returncode != 0:
                viol.append(dict(tag, why="the run over leftover working files failed: rc=%s %s" % (p.returncode, p.stderr.decode("utf-8", "replace")[-200:])))
            for rel, e in ssnap.items():
                if e["kind"] == "f" and (rel not in after or after[rel].get("sha") != e["sha"]):
                    viol.append(dict(tag, path=rel, why="after an uninterrupted run over a leftover working file of an older version the destination file is not the source's (stale bytes of the leftover?)"))
            for rel in planted:
                if rel in after:
                    viol.append(dict(tag, path=rel, why="a working file is left behind after an uninterrupted run"))
            if len(viol) > nv:
                break
        shutil.rmtree(base, ignore_errors=True)
    # the smallest world in which a delete task for a leftover working file can run WHILE the update that reuses it is under way:
    # one file that shrank across the gate (large destination, tiny source) with its leftover, one new file, --delete, two workers
    reps = 8 if tier == "quick" else 40
    for rep in range(reps):
        r = vlib.rng_for(seed, "C09-race%d" % rep)
        base = os.path.join(sc.dir, "race%d" % rep)
        src, dst = base + "/src", base + "/dst"
        os.makedirs(src); os.makedirs(dst)
        old = r.randbytes(7_000_000)
        newv = bytearray(old[:6_000_000])                     # the file shrank; a few blocks changed: a block-delta update that takes a while
        for off in (200_000, 2_500_000, 5_100_000):
            newv[off:off + 4096] = r.randbytes(4096)
        with open(src + "/shrunk.log", "wb") as f:
            f.write(bytes(newv))
        with open(src + "/new.dat", "wb") as f:
            f.write(r.randbytes([0, 16_000, 64_000, 256_000, 1_000_000, 2_000_000, 4_000_000, 100][rep % 8]))
        with open(dst + "/shrunk.log", "wb") as f:
            f.write(old)
        with open(dst + "/shrunk.log.sy.tmp", "wb") as f:
            f.write(b"\xee" * 3_000_000)
        os.utime(dst + "/shrunk.log", ns=(ew.T0NS, ew.T0NS))
        env = dict(os.environ); env.update(sc.env); env["SY_VERIF_DELTA_THRESHOLD"] = str(ew.BIG)
        ssnap = world.snapshot(src)
        p = subprocess.run([world.SY, src, dst, "--delete", "--force-delete", "-j2", "-q"], env=env, cwd=sc.dir, stdout=subprocess.PIPE, stderr=subprocess.PIPE, timeout=60)
        after = world.snapshot(dst)
        stats["leftover_race_runs"] = stats.get("leftover_race_runs", 0) + 1
        bad = [rel for rel, e in ssnap.items() if e["kind"] == "f" and (rel not in after or after[rel].get("sha") != e["sha"])]
        if p.returncode != 0 or bad or "shrunk.log.sy.tmp" in after:
            viol.append({"variant": "leftover-race-%d" % rep, "flags": {"delete": 1, "force": 1, "j": 2}, "seed": seed,
                         "why": "--delete -j2 over a leftover working file next to a file that shrank across the gate: rc=%s, wrong files %r, working file left: %s; %s" % (
                             p.returncode, bad, "shrunk.log.sy.tmp" in after, p.stderr.decode("utf-8", "replace")[-200:])})
            shutil.rmtree(base, ignore_errors=True)
            break
        shutil.rmtree(base, ignore_errors=True)
    return viol


def crash_sweep(sc, seed, stats, variant, base, src, tpl, opts, names, sha_old, sha_new, one_inode, may_fail=False):
    """kill the run `sy src dst <opts>` before EVERY mutating call: every name of `names` exists and holds its old or its new content,
    keep.txt is intact, the source is untouched; the recovery run ends with the new content under every name, no working file
    (and, if asked, all names on one inode)"""
    viol = []
    dst, log = base + "/dst", base + "/shim.log"
    sha_keep = world.sha(tpl + "/keep.txt")
    ssnap = world.snapshot(src)
    env0 = dict(os.environ); env0.update(sc.env); env0.pop("RUST_LOG", None); env0["SY_VERIF_DELTA_THRESHOLD"] = str(ew.BIG)
    cmd = [world.SY, src, dst] + opts + ["-q"]

    def shim_run(at):
        env = dict(env0); env.update({"LD_PRELOAD": SHIM, "SY_CRASH_ROOT": base, "SY_CRASH_LOG": log, "SY_CRASH_AT": str(at)})
        if os.path.exists(log):
            os.remove(log)
        p = subprocess.run(cmd, env=env, cwd=sc.dir, stdout=subprocess.PIPE, stderr=subprocess.PIPE, timeout=120)
        lines = [l for l in open(log, errors="replace")] if os.path.exists(log) else []
        return p, sum(1 for l in lines if l[:1].isdigit()), any(l.startswith("KILLED") for l in lines), lines
    fresh(tpl, dst)
    p, M, _k, _l = shim_run(0)
    ref_failed = p.returncode != 0
    if ref_failed and may_fail:
        # the update itself cannot be made here (reported, exit status 1, on every run): what is left to check is that no kill point
        # of the attempt leaves the file torn -- convergence is not expected
        if any(not os.path.isfile(dst + "/" + nme) or world.sha(dst + "/" + nme) != sha_old for nme in names):
            return [{"variant": variant, "why": "the run failed (rc=%s) and the destination file is not what it was" % p.returncode}]
    elif ref_failed or M == 0:
        return [{"variant": variant, "why": "the uninterrupted reference run failed or made no call: rc=%s calls=%d %s" % (p.returncode, M, p.stderr.decode("utf-8", "replace")[-200:])}]
    for k in range(1, M + 1):
        fresh(tpl, dst)
        p, _n, killed, lines = shim_run(k)
        stats[variant.split("-")[0] + "_crash_points"] = stats.get(variant.split("-")[0] + "_crash_points", 0) + 1
        if not killed:
            continue
        tag = {"variant": variant, "kill_before_call": k, "of": M, "seed": seed, "call": (lines[k - 1].strip() if len(lines) >= k else None), "cmd": cmd[3:]}
        bad = []
        if world.snapshot(src) != ssnap:
            bad.append("the source changed")
        for nme in names:
            fp = dst + "/" + nme
            if not os.path.isfile(fp) or os.path.islink(fp):
                bad.append("%s does not exist as a regular file (it did before the run)" % nme)
            elif world.sha(fp) not in (sha_old, sha_new):
                bad.append("%s holds neither its old nor its new content" % nme)
        if not os.path.isfile(dst + "/keep.txt") or world.sha(dst + "/keep.txt") != sha_keep:
            bad.append("the bystander keep.txt is not intact")
        if not bad and not ref_failed:
            q = subprocess.run(cmd, env=env0, cwd=sc.dir, stdout=subprocess.PIPE, stderr=subprocess.PIPE, timeout=120)
            if q.returncode != 0:
                bad.append("the recovery run failed: rc=%s %s" % (q.returncode, q.stderr.decode("utf-8", "replace")[-200:]))
            else:
                if any(not os.path.isfile(dst + "/" + nme) or world.sha(dst + "/" + nme) != sha_new for nme in names):
                    bad.append("after the recovery run a name does not hold the source's bytes")
                elif one_inode and len({os.stat(dst + "/" + nme).st_ino for nme in names}) != 1:
                    bad.append("after the recovery run the names of the group are on %d inodes" % len({os.stat(dst + "/" + nme).st_ino for nme in names}))
                left = [os.path.join(dp, x) for dp, _d, fs in os.walk(dst) for x in fs if x.endswith(".sy.tmp")]
                if left:
                    bad.append("working files left after the recovery run: %r" % left)
        for b in bad:
            viol.append(dict(tag, why=b))
        if bad:
            break
    return viol


def hardlink_crash_family(sc, seed, tier, stats):
    """(seed C09-4) -H over a hard-linked group at or above the gate whose content changed: each name is rebuilt through its own working
    file and the pass after the transfers moves the names back onto one inode (link under the working name + rename)."""
    viol = []
    for wi in range(1 if tier == "quick" else 4):
        r = vlib.rng_for(seed, "C09-hl%d" % wi)
        base = os.path.join(sc.dir, "hl%d" % wi)
        src, tpl = base + "/src", base + "/tpl"
        os.makedirs(src); os.makedirs(tpl)
        new = r.randbytes(ew.BIG + 20000 + r.randrange(0, 5000))
        old = similar(new, r)
        names = ["a.bin", "b.bin"] + (["c.bin"] if wi % 2 else [])
        for root, data, mt in ((src, new, 1005), (tpl, old, 800)):
            with open(root + "/a.bin", "wb") as f:
                f.write(data); f.flush(); os.fsync(f.fileno())
            os.utime(root + "/a.bin", ns=(ew.T0NS + mt * NS,) * 2)
            for other in names[1:]:
                os.link(root + "/a.bin", root + "/" + other)
            with open(root + "/keep.txt", "wb") as f:
                f.write(b"bystander")
            os.utime(root + "/keep.txt", ns=(ew.T0NS + 700 * NS,) * 2)
        world.sync_fs()
        viol += crash_sweep(sc, seed, stats, "hardlink-crash-%d" % wi, base, src, tpl, ["-H", "-j%d" % (1 if wi % 2 == 0 else 2)], names,
                            world.sha(tpl + "/a.bin"), world.sha(src + "/a.bin"), True)
        shutil.rmtree(base, ignore_errors=True)
    return viol


def bigtwin_crash_family(sc, seed, tier, stats):
    """(seed C09-1, out of reach of the hook since 6520fd3: below 10 MiB a multiply-linked destination is replaced by Transferrer::update
    before the delta path is entered) a REAL 11 MB destination with a second name (a cp -al snapshot) updated through the delta path:
    old or new at every kill point"""
    viol = []
    for wi in range(1 if tier == "quick" else 2):
        r = vlib.rng_for(seed, "C09-bigtwin%d" % wi)
        base = os.path.join(sc.dir, "bt%d" % wi)
        src, tpl = base + "/src", base + "/tpl"
        os.makedirs(src); os.makedirs(tpl)
        new = r.randbytes(11 * 1024 * 1024 + 4096 * wi)
        old = bytearray(new)
        for off in (100_000, 5_000_000, 10_500_000):
            old[off:off + 4096] = r.randbytes(4096)
        for root, data, mt in ((src, new, 1005), (tpl, bytes(old), 800)):
            with open(root + "/big.bin", "wb") as f:
                f.write(data); f.flush(); os.fsync(f.fileno())
            os.utime(root + "/big.bin", ns=(ew.T0NS + mt * NS,) * 2)
            with open(root + "/keep.txt", "wb") as f:
                f.write(b"bystander")
            os.utime(root + "/keep.txt", ns=(ew.T0NS + 700 * NS,) * 2)
        os.link(tpl + "/big.bin", tpl + "/snap.keep")
        world.sync_fs()
        viol += crash_sweep(sc, seed, stats, "bigtwin-crash-%d" % wi, base, src, tpl, ["-j1"], ["big.bin"], world.sha(tpl + "/big.bin"), world.sha(src + "/big.bin"), False)
        shutil.rmtree(base, ignore_errors=True)
    return viol


def longname_crash_family(sc, seed, tier, stats):
    """(seed C09-5) a destination at the gate whose NAME is 249..255 bytes long: its working file <name>.sy.tmp cannot be created
    (ENAMETOOLONG).  The code reports that and leaves the file alone on every run; whatever it does instead must not tear the file."""
    viol = []
    for wi in range(1 if tier == "quick" else 3):
        r = vlib.rng_for(seed, "C09-longname%d" % wi)
        base = os.path.join(sc.dir, "ln%d" % wi)
        src, tpl = base + "/src", base + "/tpl"
        os.makedirs(src); os.makedirs(tpl)
        name = "n" * (249 + 3 * wi)
        new = r.randbytes(2 * ew.BIG + 40000)
        old = bytearray(new); old[500:504] = b"XXXX"; old[150000:150004] = b"YYYY"; old = bytes(old)      # few blocks differ: the block-delta branch
        for root, data, mt in ((src, new, 1005), (tpl, old, 800)):
            with open(root + "/" + name, "wb") as f:
                f.write(data); f.flush(); os.fsync(f.fileno())
            os.utime(root + "/" + name, ns=(ew.T0NS + mt * NS,) * 2)
            with open(root + "/keep.txt", "wb") as f:
                f.write(b"bystander")
            os.utime(root + "/keep.txt", ns=(ew.T0NS + 700 * NS,) * 2)
        world.sync_fs()
        viol += crash_sweep(sc, seed, stats, "longname-crash-%d" % wi, base, src, tpl, ["-j1"], [name], world.sha(tpl + "/" + name), world.sha(src + "/" + name), False, may_fail=True)
        shutil.rmtree(base, ignore_errors=True)
    return viol


def follow_crash_family(sc, seed, tier, stats):
    """(66e379c) --links follow over a regular file at or above the gate that sits in the link's place: it is an existing large
    destination being updated -- old or new at every kill point (it used to be truncated and rewritten where it was)"""
    viol = []
    for wi in range(1 if tier == "quick" else 3):
        r = vlib.rng_for(seed, "C09-follow%d" % wi)
        base = os.path.join(sc.dir, "fw%d" % wi)
        src, tpl = base + "/src", base + "/tpl"
        os.makedirs(src + "/real"); os.makedirs(tpl + "/real")
        new = r.randbytes(ew.BIG + 30000 + r.randrange(0, 5000))
        old = similar(new, r) if wi % 2 == 0 else r.randbytes(ew.BIG + 100)
        for root in (src, tpl):
            with open(root + "/real/big.bin", "wb") as f:
                f.write(new); f.flush(); os.fsync(f.fileno())
            os.utime(root + "/real/big.bin", ns=(ew.T0NS + 1005 * NS,) * 2)
            with open(root + "/keep.txt", "wb") as f:
                f.write(b"bystander")
            os.utime(root + "/keep.txt", ns=(ew.T0NS + 700 * NS,) * 2)
        os.symlink("real/big.bin", src + "/link.bin")
        with open(tpl + "/link.bin", "wb") as f:
            f.write(old); f.flush(); os.fsync(f.fileno())
        os.utime(tpl + "/link.bin", ns=(ew.T0NS + 800 * NS,) * 2)
        world.sync_fs()
        viol += crash_sweep(sc, seed, stats, "follow-crash-%d" % wi, base, src, tpl, ["--links", "follow", "-j1"], ["link.bin"],
                            world.sha(tpl + "/link.bin"), world.sha(src + "/real/big.bin"), False)
        shutil.rmtree(base, ignore_errors=True)
    return viol


def run(tier, seed):
    res = vlib.Result(PID, tier, seed)
    pr = proof_phase(res, PID)
    okm, outm = vlib.build_model()
    oki, outi, _ = vlib.build_impl()
    oks, outs = build_shim()
    if not (okm and oki and oks):
        res.violation("build", "build failed:\n" + (outi if not oki else (outm if not okm else outs))[-3000:], no_input=True)
        return res.finish()
    known = {f["class"]: f for f in vlib.load_known()["findings"] if f["property"] == PID}
    nvar = 3 if tier == "quick" else 12
    stats = {"programs": 0, "temp_programs": 0, "crash_runs": 0, "recovery_runs": 0, "state_comparisons": 0, "replan_comparisons": 0, "boundaries": set()}
    viol, diffs = [], []
    with vlib.Scratch() as sc:
        for v in range(nvar):
            r = vlib.rng_for(seed, "C09-v%d" % v)
            vv, dd = analyse(sc, r, v, tier, stats)
            for x in vv:
                x["seed"] = seed
            viol += vv; diffs += dd
        left_viol = leftover_worlds(sc, seed, tier, stats) + hardlink_crash_family(sc, seed, tier, stats) + follow_crash_family(sc, seed, tier, stats) + bigtwin_crash_family(sc, seed, tier, stats) + longname_crash_family(sc, seed, tier, stats)
        # with several workers the attribution of logged calls to executed prefixes is a heuristic (a thread may have logged a
        # call it never got to execute): a difference seen there counts only if it shows up again at the same kill point
        softv = [x for x in viol if x.get("flags", {}).get("j", 1) > 1 and "k" in x and "not being written" in x.get("why", "")]
        if softv:
            keepv = [x for x in viol if x not in softv]
            for key in sorted({(x["variant"], x["k"]) for x in softv}):
                again = 0
                for _ in range(2):
                    r2 = vlib.rng_for(seed, "C09-v%d" % key[0])
                    v2, _d2 = analyse(sc, r2, key[0], "thorough", {"programs": 0, "temp_programs": 0, "crash_runs": 0, "recovery_runs": 0, "state_comparisons": 0, "replan_comparisons": 0, "boundaries": set()}, only_k=key[1])
                    again += 1 if v2 else 0
                if again == 2:
                    keepv += [x for x in softv if (x["variant"], x["k"]) == key]
            stats["rechecked_multiworker_failures"] = len(softv)
            viol = keepv
        soft = [d for d in diffs if d.get("flags", {}).get("j", 1) > 1 and "k" in d]
        if soft:
            hard = [d for d in diffs if d not in soft]
            stats["rechecked_multiworker_differences"] = len(soft)
            seen = set()
            for d in soft:
                key = (d["variant"], d["k"])
                if key in seen:
                    continue
                seen.add(key)
                again = 0
                for _ in range(2):
                    r2 = vlib.rng_for(seed, "C09-v%d" % d["variant"])
                    v2, d2 = analyse(sc, r2, d["variant"], "thorough", {"programs": 0, "temp_programs": 0, "crash_runs": 0, "recovery_runs": 0, "state_comparisons": 0, "replan_comparisons": 0, "boundaries": set()}, only_k=d["k"])
                    if d2 or v2:
                        again += 1
                    viol += [dict(x, seed=seed) for x in v2]
                if again == 2:
                    hard.append(d)
            diffs = hard
    stats["boundaries"] = sorted("%s/%s" % b for b in stats["boundaries"])
    res.cov["evaluations"] = stats["crash_runs"] + stats["recovery_runs"]
    res.cov["distinct_nontrivial"] = stats["crash_runs"]
    res.cov["model_impl_disagreements"] = len(diffs)
    res.cov["stats"] = stats
    res.cov["rule"] = ("worlds with one file per transfer path (small/empty/large create; small update with other and with equal size; update of a destination above the hook-scaled gate through "
                       "block delta, through the full-copy fallback and from a sparse source; nested new directories; identical file; stale extras) under flag sets {default, --delete --force-delete, "
                       "--checksum, --size-only, --ignore-times, --delete} with -j1 or -j4; the process is killed just before its k-th mutating call below the test root for %s k of the run "
                       "(quick: 45 sampled k per world plus every boundary next to a rename / working-file creation); after each kill: snapshots, then the same command again" % ("every" if tier != "quick" else "sampled"))
    res.cov["trusted_base"] = TRUSTED_COMMON + ["shim/crashshim.c (LD_PRELOAD interposer; its call list is compared with strace's on the first world of every run)",
                                                 "_exit at a call boundary as the model of SIGKILL: file-system state at the boundary is what the kernel has applied; no power-loss / page-cache semantics",
                                                 "the abstraction of observed calls to Crash.cstep (py/props/c09.py abstract): which data call completes the file is taken to be the last one before the rename / utimensat",
                                                 "hook H1 (SY_VERIF_DELTA_THRESHOLD) scales the 10 MiB gate to 96 KiB"]
    res.notes.append("Partial: crash = process death (kill -9); durability across power loss (no fsync in sy) is outside the model. Directory creation/deletion boundaries are checked on the runs only (old-or-final and convergence), not modelled in Crash.v.")
    viol = left_viol + viol
    for v in viol[:3]:
        res.violation("crash", v)
    if not viol and (diffs or pr["broken"]):
        what = list(pr["broken"])
        if diffs:
            what.append("%d correspondence differences; first: %s" % (len(diffs), json.dumps(diffs[0], default=str)[:1500]))
        res.violation("unproved", {"no_failing_input_found": True, "what_no_longer_checks": what, "first": diffs[0] if diffs else None}, no_input=True)
    return res.finish()


def replay(path):
    d = json.load(open(path))
    print(json.dumps(d, indent=1, default=str)[:4000])
    if "variant" not in d or "k" not in d:
        return 0
    vlib.build_model(); vlib.build_impl(); build_shim()
    stats = {"programs": 0, "temp_programs": 0, "crash_runs": 0, "recovery_runs": 0, "state_comparisons": 0, "replan_comparisons": 0, "boundaries": set()}
    with vlib.Scratch() as sc:
        r = vlib.rng_for(d.get("seed", 20260930), "C09-v%d" % d["variant"])
        vv, dd = analyse(sc, r, d["variant"], "thorough", stats, only_k=d["k"])
    print("replay: %d failures now; first: %s" % (len(vv), json.dumps(vv[0], default=str)[:800] if vv else None))
    return 1 if vv else 0
