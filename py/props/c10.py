"""C10 -- I/O faults are contained and truthfully reported.
Theorems: coq/Properties/C10.v over Model/Engine.v.  Tie: worlds with natural faults (type-conflicting
paths: a directory where the source has a file, a file where the source has a directory with children)
through the real binary vs Engine.run; fault injection at the k-th file-system call through the
LD_PRELOAD shim (shim/fsfault.c) when it is built."""
import json, os, subprocess, shutil
import vlib, world, engine_world as ew
import c01
from common import proof_phase, TRUSTED_COMMON

PID = "C10"


def add_conflicts(r, sspec, dspec):
    """turn some paths into type conflicts; returns the set of affected source rel paths"""
    affected = set()
    dpaths = {e["p"]: e for e in dspec}
    files = [e for e in sspec if e["k"] == "f"]
    dirs = [e for e in sspec if e["k"] == "d"]
    if files and r.random() < 0.8:
        f = r.choice(files)
        # destination has a directory where the source has a file
        dspec[:] = [e for e in dspec if e["p"] != f["p"] and not e["p"].startswith(f["p"] + "/")]
        dspec.append({"p": f["p"], "k": "d"})
        affected.add(f["p"])
    if dirs and r.random() < 0.6:
        d = r.choice(dirs)
        dspec[:] = [e for e in dspec if e["p"] != d["p"] and not e["p"].startswith(d["p"] + "/")]
        dspec.append({"p": d["p"], "k": "f", "data": b"a file in the way", "mt_ns": 10**9})
        for e in sspec:
            if e["p"] == d["p"] or e["p"].startswith(d["p"] + "/"):
                affected.add(e["p"])
    # parents of the conflicting entries must exist in the destination spec
    have = set(e["p"] for e in dspec)
    for e in list(dspec):
        parts = e["p"].split("/")[:-1]
        for i in range(1, len(parts) + 1):
            p = "/".join(parts[:i])
            if p not in have:
                dspec.append({"p": p, "k": "d"}); have.add(p)
    return affected


def linked_destination_fault_worlds(sc, tier):
    """(seed C10-5) the destination file being updated has a second name inside the destination whose own source did not change; the
    working file through which such a file is replaced cannot be made (its name is taken by a non-empty directory, or is too long):
    the failure is reported, the exit status is not 0, and the other name -- a file the fault did not affect -- keeps its bytes"""
    import world
    viol, n = [], 0
    for wi in range(3 if tier == "quick" else 9):
        base = os.path.join(sc.dir, "lf%d" % wi)
        src, dst = base + "/src", base + "/dst"
        os.makedirs(src); os.makedirs(dst)
        fname = "f.dat" if wi % 3 != 2 else "f" * 250
        old = world.pbytes(8100 + wi, [30, 9000, 300000][wi % 3])
        with open(dst + "/" + fname, "wb") as fh:
            fh.write(old)
        os.utime(dst + "/" + fname, ns=((world.T0 + 100) * 10**9,) * 2)
        os.link(dst + "/" + fname, dst + "/keep.txt")
        with open(src + "/keep.txt", "wb") as fh:
            fh.write(old)
        os.utime(src + "/keep.txt", ns=((world.T0 + 100) * 10**9,) * 2)
        with open(src + "/" + fname, "wb") as fh:
            fh.write(world.pbytes(8200 + wi, len(old) + 7))
        os.utime(src + "/" + fname, ns=((world.T0 + 900) * 10**9,) * 2)
        if wi % 3 != 2:
            os.makedirs(dst + "/" + fname + ".sy.tmp/blocker")
        keep_sha = world.sha(dst + "/keep.txt")
        rr = world.run_sy([src, dst, "-q", "-j%d" % [1, 4][wi % 2]], sc)
        n += 1
        why = []
        if world.sha(dst + "/keep.txt") != keep_sha:
            why.append("keep.txt, whose source did not change and which the fault did not touch, holds other bytes (written through the inode it shares with %s)" % fname[:12])
        if rr["rc"] == 0 and world.sha(dst + "/" + fname) != world.sha(src + "/" + fname):
            why.append("exit status 0 although %s was not updated" % fname[:12])
        if why:
            viol.append({"world": "linked-destination-fault-%d" % wi, "why": "; ".join(why), "exit": rr["rc"]})
        shutil.rmtree(base, ignore_errors=True)
    return viol, n


def injected_faults(sc, seed, tier, only=None):
    """the property's own quantifier: one fault (and pairs) at the k-th mutating system call, errno in {EIO, ENOSPC, EACCES, ENOENT}:
    the run under an LD_PRELOAD shim that numbers the mutating libc calls below the scratch root and makes call k fail.
    Judged against the statement: the run ends; exit 0 implies the C01 postcondition; a non-zero exit comes with an error object;
    every file the failing call did not touch ends up correct (error budget not exhausted)."""
    import errno as E, subprocess, c09
    ef_cases, ef_obs = [], []
    viol, stats = [], {"worlds": 0, "runs": 0, "pairs": 0, "by_call": {}, "by_errno": {}, "exit_nonzero": 0}
    ok, out = c09.build_shim()
    if not ok:
        return [{"world": "inject", "why": "shim did not build: " + out[-300:]}], stats
    nworlds = 5 if tier == "quick" else 40
    cap = 24 if tier == "quick" else 200
    errnos = [E.EIO, E.ENOSPC, E.EACCES, E.ENOENT]
    ndel = 2 if tier == "quick" else 10                      # further worlds in which the DELETIONS are what fails
    for i in (range(nworlds + ndel) if only is None else [only["index"]]):
        r = vlib.rng_for(seed, "C10-inject-%d" % i)          # one generator per world: a world can be rebuilt for a replay
        sspec, dspec = ew.gen_world(r, with_big=(i % 2 == 0))
        fl = ew.gen_flags(r, allow_delete=(i % 3 == 2))
        fl["maxerr"] = 100
        fl["j"] = 1 if i % 4 != 3 else 4
        deletion_world = i >= nworlds
        if deletion_world:
            fl.update({"delete": 1, "force": 1, "thr": 100, "j": 1}); fl.pop("dry", None)
            have = {e["p"] for e in sspec} | {e["p"] for e in dspec}
            for q in range(r.randrange(1, 3)):
                d_ = "zz_stale%d" % q
                if d_ not in have:
                    dspec += [{"p": d_, "k": "d"}] + [{"p": "%s/f%d" % (d_, z), "k": "f", "data": b"stale %d" % z, "mt_ns": 10**9} for z in range(r.randrange(2, 5))]
                    dspec += [{"p": d_ + "/sub", "k": "d"}, {"p": d_ + "/sub/deep", "k": "f", "data": b"deep", "mt_ns": 10**9}]
            dspec.append({"p": "zz_stale_file", "k": "f", "data": b"x", "mt_ns": 10**9})
        # (seed C10-4) every other world runs with the checksum database: what a faulted run stores there must not make the NEXT run
        # accept the file the fault left behind
        xargs = []
        if i % 2 == 1 and i < nworlds:
            fl.pop("so", None); fl.pop("it", None); fl["ck"] = 1
            xargs = ["--checksum-db=true"]
        tpl = os.path.join(sc.dir, "itpl%d" % i)
        ew.mk(tpl + "/src", sspec); ew.mk(tpl + "/dst", sorted(dspec, key=lambda e: (e["p"].count("/"), e["k"] != "d")))
        os.makedirs(tpl + "/src", exist_ok=True); os.makedirs(tpl + "/dst", exist_ok=True)
        base = os.path.join(sc.dir, "iw%d" % i)
        log = base + ".log"
        env = {"LD_PRELOAD": c09.SHIM, "SY_CRASH_ROOT": base, "SY_CRASH_LOG": log}

        def one(extra):
            shutil.rmtree(base, ignore_errors=True)
            subprocess.run(["cp", "-a", tpl, base], check=True)
            if os.path.exists(log):
                os.remove(log)
            e2 = dict(env); e2.update(extra)
            ids = ew.Ids()
            case, obs, raw = ew.run_once(sc, base + "/src", base + "/dst", fl, ids, extra_env=e2, extra_args=xargs)
            raw["case"], raw["obs"], raw["ids"] = case, obs, ids
            lines = {}
            if os.path.exists(log):
                for l in open(log, errors="replace"):
                    if l[:1].isdigit():
                        t = l.rstrip("\n").split("\t")
                        lines[int(t[0])] = t                 # by call number: with several workers the lines are not in order
            kv = dict(x.split("=", 1) for x in obs.split(" "))
            raw["nerr"] = int(kv["nerr"]); raw["refused"] = kv["refused"] == "1"
            return raw, lines
        raw0, calls = one({})
        if raw0["rc"] != 0 or not calls or raw0["refused"]:
            continue
        stats["worlds"] += 1
        ncalls = max(calls) if calls else 0
        ks = list(range(1, ncalls + 1))
        if deletion_world:
            ks = [k for k in ks if k in calls and calls[k][1] in ("unlink", "rmdir")]
            xargs = []
        if xargs:
            # SQLite's own writes dominate the numbering: fail the calls on the mirrored files, and a few of the database's
            own = [k for k in ks if k in calls and ".sy-checksums.db" in calls[k][2]]
            ks = [k for k in ks if k not in own]
            extra_db = sorted(r.sample(own, min(3, len(own))))
        else:
            extra_db = []
        if len(ks) > cap:
            ks = sorted(r.sample(ks, cap))
        ks = sorted(ks + extra_db)
        plans = [((k,), errnos[(k + i) % 4]) for k in ks]
        if ncalls >= 2:
            for _ in range(3 if tier == "quick" else 20):
                a, b = sorted(r.sample(range(1, ncalls + 1), 2))
                plans.append(((a, b), r.choice(errnos)))
        if only is not None:
            plans = [(tuple(only["fail_at"]), getattr(E, only["errno"]))] if "fail_at" in only else []
        for kk, en in plans:
            raw, lines = one({"SY_FAIL_AT": ",".join(map(str, kk)), "SY_FAIL_ERRNO": str(en)})
            stats["runs"] += 1; stats["pairs"] += 1 if len(kk) == 2 else 0
            stats["by_errno"][E.errorcode[en]] = stats["by_errno"].get(E.errorcode[en], 0) + 1
            hit = [lines[k] for k in kk if k in lines]
            for h in hit:
                stats["by_call"][h[1]] = stats["by_call"].get(h[1], 0) + 1
            if only is not None:
                print("LOG", sorted(lines.items())[:40])
            ident = {"world": "inject-%d" % i, "index": i, "tier": tier, "flags": fl, "fail_at": list(kk), "errno": E.errorcode[en], "failed_calls": [h[1:4] for h in hit], "seed": seed}
            if raw.get("timeout"):
                viol.append(dict(ident, why="the run did not end after the injected fault")); continue
            if raw["rc"] != 0:
                stats["exit_nonzero"] += 1
                if raw["nerr"] == 0 and not raw["refused"] and not raw.get("fatal"):
                    viol.append(dict(ident, why="non-zero exit status %s but no error object in the --json output" % raw["rc"]))
            else:
                for f in c01.c01_oracle(fl, raw, 0):
                    viol.append(dict(ident, why="exit status 0 although the C01 postcondition fails: %s %s" % (f["path"], f["why"])))
            # "no destination file is left silently wrong": the SAME command once more, without a fault, over what the faulted run left
            # (its files, its database): exit status 0 must mean the C01 postcondition again
            if raw["rc"] != 0 and not raw["refused"] and not raw.get("timeout"):
                case2, obs2, raw2 = ew.run_once(sc, base + "/src", base + "/dst", fl, ew.Ids(), extra_args=xargs)
                kv2 = dict(x.split("=", 1) for x in obs2.split(" "))
                raw2["nerr"] = int(kv2["nerr"]); raw2["refused"] = kv2["refused"] == "1"
                stats["second_runs"] = stats.get("second_runs", 0) + 1
                for f in c01.c01_oracle(fl, raw2, 0):
                    viol.append(dict(ident, why="the run after the faulted one exits 0 although the C01 postcondition fails: %s %s" % (f["path"], f["why"])))
            # correspondence with Model/EngineFaults.v: given WHICH transfers failed (the error objects) and WHAT they left at their own
            # paths (junk), the rest of the run -- every other path, the events, the exit status -- must be run_f's
            errp = set(raw["errpaths"])
            # ... or (EngineFaults.v, second half) the DELETION of stale entries failed: the entry stays, and of what is below a directory
            # whose removal stopped half-way [junk] lists what is still there
            del_fault = {pth for pth in errp if pth not in raw["src"] and pth in raw["before"] and fl.get("delete")}
            # (an injected ENOENT on the unlink / rmdir of an entry that EXISTS is not a fault the kernel can produce; the engine reads
            # ENOENT as "already gone with its parent" -- a completed deletion -- and the model has no such fault: not compared)
            enoent_on_delete = en == E.ENOENT and any(h[1] in ("unlink", "rmdir") for h in hit)
            if enoent_on_delete:
                stats["ef_skipped_enoent_on_delete"] = stats.get("ef_skipped_enoent_on_delete", 0) + 1
            if errp and all((pth in raw["src"] and raw["src"][pth]["kind"] == "f") or pth in del_fault for pth in errp) and not raw["refused"] and not xargs and not enoent_on_delete:
                idp = {raw["ids"].path(pth) for pth in errp}
                didp = {raw["ids"].path(pth) for pth in del_fault}
                dst_items = dict(x.split("=", 1) for x in raw["obs"].split(" ")).get("dst", "-")
                junk = [it for it in dst_items.split(",") if it != "-" and (it.split(":")[1] in idp or any(it.split(":")[1].startswith(d_ + ".") for d_ in didp))]
                if del_fault:
                    stats["ef_deletion_faults"] = stats.get("ef_deletion_faults", 0) + 1
                ef_cases.append("EF" + raw["case"][1:] + " %s %s" % (",".join(sorted(idp)), ",".join(junk) or "-"))
                # the footprint of a transfer is its destination AND its working file (Temp.v): when the clean-up of the working
                # file fails too (a pair of faults) it stays behind -- part of "what the failing task left", not of the comparison
                wid = {raw["ids"].path(pth + ".sy.tmp") for pth in errp if (pth + ".sy.tmp") in raw["after"] and (pth + ".sy.tmp") not in raw["before"]}
                o_clean = " ".join(("dst=" + (",".join(it for it in t[4:].split(",") if it == "-" or it.split(":")[1] not in wid) or "-")) if t.startswith("dst=") else t
                                   for t in raw["obs"].split(" "))
                ef_obs.append((o_clean, dict(ident)))
            elif errp:
                stats["ef_skipped"] = stats.get("ef_skipped", 0) + 1
            # files the failing calls did not touch
            dstroot = base + "/dst/"
            touched = set()
            whole_tree = False
            for h in hit:
                for pth in h[2:4]:
                    if pth + "/" == dstroot:
                        whole_tree = True          # the failing call was on the destination root itself (create_dir_all of a top-level entry's parent)
                    if pth.startswith(dstroot):
                        rel = pth[len(dstroot):]
                        touched.add(rel)
                        if rel.endswith(".sy.tmp"):
                            touched.add(rel[:-len(".sy.tmp")])      # the working file of that destination
            src, before, after = raw["src"], raw["before"], raw["after"]
            for rel, sv in src.items():
                if sv["kind"] != "f" or whole_tree or any(rel == t or rel.startswith(t + "/") for t in touched):
                    continue
                b = before.get(rel); b = b if (b and b["kind"] == "f") else None
                if before.get(rel) is not None and before[rel]["kind"] != "f":
                    continue                       # a type conflict of the world itself (C10's natural-fault family)
                d = c01.differs_under_rule(fl, sv, b)
                a = after.get(rel)
                if d is True and (a is None or a.get("sha") != sv["sha"] or a.get("mtime_ns") != sv["mtime_ns"]):
                    viol.append(dict(ident, why="file %s was not touched by the failing call(s) but did not end up correct" % rel))
                if d is False and b is not None and (a is None or a.get("sha") != b["sha"]):
                    viol.append(dict(ident, why="file %s was up to date, not touched by the failing call(s), and is changed or gone" % rel))
        # (the verification-exit repair) silent corruption: the k-th data call is performed and one byte of what it wrote is flipped
        # afterwards (SY_CORRUPT_AT).  The post-transfer verification is on by default: exit status 0 must still mean the C01 postcondition
        if not xargs and not deletion_world:
            wr = [k for k in sorted(calls) if calls[k][1] == "write" and not calls[k][2].endswith(".sy-checksums.db")]
            for k in ([only["corrupt_at"]] if (only is not None and "corrupt_at" in only) else [] if only is not None else (wr if len(wr) <= 6 else sorted(r.sample(wr, 6)))):
                raw, lines = one({"SY_CORRUPT_AT": str(k)})
                stats["corruption_runs"] = stats.get("corruption_runs", 0) + 1
                stats["corruption_runs_exit_nonzero"] = stats.get("corruption_runs_exit_nonzero", 0) + (1 if raw["rc"] != 0 else 0)
                ident = {"world": "inject-%d" % i, "index": i, "tier": tier, "flags": fl, "corrupt_at": k, "call": calls[k][1:3], "seed": seed}
                if raw["rc"] == 0:
                    for f in c01.c01_oracle(fl, raw, 0):
                        viol.append(dict(ident, why="one byte of the data written by call %d was flipped after the call; exit status 0 although the C01 postcondition fails: %s %s" % (k, f["path"], f["why"])))
        shutil.rmtree(base, ignore_errors=True); shutil.rmtree(tpl, ignore_errors=True)
    strip = lambda x: " ".join(t for t in x.split(" ") if not t.startswith("nerr="))
    efd = []
    for case, (o, ident), m in zip(ef_cases, ef_obs, [ew.model_obs(x) for x in vlib.run_model(ef_cases)] if ef_cases else []):
        canon = lambda x: ew.norm_events(" ".join(("nerr=0" if t.startswith("nerr=") else t) for t in x.split(" ")))
        if strip(o) != strip(m) and canon(o) != canon(m):
            efd.append(dict(ident, case=case, impl=o, model=m))
    stats["ef_compared"] = len(ef_cases)
    stats["ef_disagreements"] = len(efd)
    stats["ef_first"] = efd[:1]
    return viol, stats


def run(tier, seed):
    res = vlib.Result(PID, tier, seed)
    pr = proof_phase(res, PID)
    okm, outm = vlib.build_model()
    oki, outi, _ = vlib.build_impl()
    if not (okm and oki):
        res.violation("build", "build failed:\n" + (outi if not oki else outm)[-3000:], no_input=True)
        return res.finish()
    r = vlib.rng_for(seed, PID)
    n = 70 if tier == "quick" else 800
    cases, obs_l, raws, metas = [], [], [], []
    with vlib.Scratch() as sc:
        for i in range(n):
            sspec, dspec = ew.gen_world(r, with_big=(i % 3 == 0))
            affected = add_conflicts(r, sspec, dspec)
            if i % 4 == 1:
                # a chain of EMPTY directories below a path that is a regular file in the destination:
                # only directory-creation tasks fail (no file descendant reports the fault for them)
                top = "blk%d" % i
                sspec += [{"p": top, "k": "d"}, {"p": top + "/e1", "k": "d"}, {"p": top + "/e1/e2", "k": "d"}]
                dspec.append({"p": top, "k": "f", "data": b"in the way", "mt_ns": 10**9})
                affected |= {top, top + "/e1", top + "/e1/e2"}
            fl = ew.gen_flags(r, allow_delete=False)
            fl["maxerr"] = r.choice([100, 100, 0, 1, 2])
            base = os.path.join(sc.dir, "w%d" % i)
            src, dst = base + "/src", base + "/dst"
            ew.mk(src, sspec)
            ew.mk(dst, sorted(dspec, key=lambda e: (e["p"].count("/"), e["k"] != "d")))
            os.makedirs(src, exist_ok=True); os.makedirs(dst, exist_ok=True)
            ids = ew.Ids()
            case, obs, raw = ew.run_once(sc, src, dst, fl, ids)
            kv = dict(x.split("=", 1) for x in obs.split(" "))
            raw["nerr"] = int(kv["nerr"]); raw["refused"] = kv["refused"] == "1"; raw["affected"] = affected
            cases.append(case); obs_l.append(obs); raws.append(raw); metas.append((i, fl))
        inj_viol, inj_stats = injected_faults(sc, seed, tier)
        lf_viol, lf_n = linked_destination_fault_worlds(sc, tier)
        inj_viol = lf_viol + inj_viol
        inj_stats["linked_destination_fault_worlds"] = lf_n
    model = [ew.model_obs(m) for m in vlib.run_model(cases)]
    known = {f["class"]: f for f in vlib.load_known()["findings"] if f["property"] == PID}
    diffs, viol, nontriv, hits = [], [], set(), {}
    viol += inj_viol
    for case, o, m, raw, (i, fl) in zip(cases, obs_l, model, raws, metas):
        # the error COUNT printed through tracing is not part of the comparison here (C19); compare the rest
        strip = lambda x: " ".join(t for t in x.split(" ") if not t.startswith("nerr="))
        if strip(o) != strip(m):
            diffs.append({"world": i, "flags": fl, "case": case, "impl": o, "model": m, "stderr": raw["stderr"]})
        kvm = dict(x.split("=", 1) for x in m.split(" "))
        planned_failed = int(kvm["nerr"]) > 0
        # (1) failure visible
        if planned_failed and raw["rc"] == 0 and strip(o) == strip(m):
            pass   # unreachable for a faithful implementation (the model exits non-zero); kept for clarity
        if planned_failed and raw["rc"] == 0:
            viol.append({"world": i, "flags": fl, "why": "a planned operation did not complete (model: %s errors) but the exit status is 0" % kvm["nerr"], "case": case, "impl": o})
        # (2) unaffected files correct / (3) exit 0 implies C01
        src, before, after = raw["src"], raw["before"], raw["after"]
        for rel, s in src.items():
            if rel in raw["affected"] or s["kind"] != "f":
                continue
            if any(rel.startswith(a + "/") for a in raw["affected"]):
                continue
            b = before.get(rel); b = b if (b and b["kind"] == "f") else None
            d = c01.differs_under_rule(fl, s, b)
            a = after.get(rel)
            if d is True and (a is None or a.get("sha") != s["sha"] or a.get("mtime_ns") != s["mtime_ns"]):
                viol.append({"world": i, "flags": fl, "why": "file %s is not affected by the fault but did not end up correct" % rel, "case": case, "impl": o})
        if raw["rc"] == 0:
            raw["nerr"] = 0
            for f in c01.c01_oracle(fl, raw, 0):
                v = {"world": i, "flags": fl, "why": "exit status 0 but the C01 postcondition fails: %s %s" % (f["path"], f["why"]), "case": case}
                conflict = f["path"] in raw["affected"] and "kind differs" in f["why"]
                if conflict and "type-conflict-skip" in known and strip(o) == strip(m):
                    hits.setdefault(known["type-conflict-skip"]["id"], []).append(v)
                else:
                    viol.append(v)
        if planned_failed:
            nontriv.add(o)
    res.cov["evaluations"] = len(cases) + inj_stats.get("runs", 0)
    res.cov["distinct_nontrivial"] = len(nontriv)
    res.cov["model_impl_disagreements"] = len(diffs)
    res.cov["rule"] = ("C01 worlds with natural faults: a directory where the source has a file (EISDIR), a regular file where the source has a directory with children (ENOTDIR for every descendant), "
                       "error budgets 0/1/2/100; non-trivial = at least one planned operation fails")
    res.cov["samples"] = [c[:300] for c in cases[:2]] + [obs_l[0][:300]]
    res.cov["trusted_base"] = TRUSTED_COMMON + ["errno kinds are compared as (path, action) failures only", "injected faults: libc-level interposition (a fault inside a direct syscall of the runtime is not reachable)", "injected-fault runs: which transfers failed and what they left at their own paths is taken from the run (error objects, snapshot) and given to EngineFaults.run_f; everything else is compared"]
    res.cov["fault_injection"] = dict(inj_stats, how="LD_PRELOAD shim (shim/crashshim.c): the k-th mutating libc call below the scratch root fails with the chosen errno; every k of each world (sampled above a cap), plus pairs")
    res.cov["known_finding_hits"] = {k: len(v) for k, v in hits.items()}
    for cls, f in known.items():
        h = hits.get(f["id"], [])
        if h:
            res.known.append("%s %s [%d cases this run, e.g. world %s]" % (f["id"], f["what"], len(h), h[0]["world"]))
    for v in viol[:3]:
        res.violation("world", v)
    if inj_stats.get("ef_disagreements"):
        diffs = diffs + [{"injected": True, **inj_stats["ef_first"][0]}]
    if not viol and (diffs or pr["broken"]):
        what = list(pr["broken"]) + (["the binary differs from Engine.run on %d faulted runs; first: %s" % (len(diffs), json.dumps(diffs[0])[:1500])] if diffs else [])
        res.violation("unproved", {"no_failing_input_found": True, "what_no_longer_checks": what, "first_case": diffs[0] if diffs else None}, no_input=True)
    return res.finish()


def replay(path):
    d = json.load(open(path))
    if str(d.get("world", "")).startswith("inject-"):
        vlib.build_impl()
        with vlib.Scratch() as sc:
            viol, stats = injected_faults(sc, d["seed"], d.get("tier", "quick"), only=d)
        print(json.dumps({"replayed": d["world"], "fail_at": d["fail_at"], "errno": d["errno"], "violations": viol, "stats": stats}, indent=1)[:4000])
        return 1 if viol else 0
    return c01.replay(path)
