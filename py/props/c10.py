"""C10 -- I/O faults are contained and truthfully reported.
Theorems: coq/Properties/C10.v over Model/Engine.v.  Tie: worlds with natural faults (type-conflicting
paths: a directory where the source has a file, a file where the source has a directory with children)
through the real binary vs Engine.run; fault injection at the k-th file-system call through the
LD_PRELOAD shim (shim/fsfault.c) when it is built."""
import json, os, subprocess
import vlib, world, engine_world as ew
import c01
from common import proof_phase, TRUSTED_COMMON

PID = "C10"


def add_conflicts(r, sspec, dspec):
    """turn some paths into type conflicts; returns the set of affected source rel paths"""
    affected = set()
    dpaths = {e["p"]: e for e in dspec}
    files = [e for e in sspec if e["k"] == "f"]
    dirs = [e for e in sspec if e["k"] == "d"]
    if files and r.random() < 0.8:
        f = r.choice(files)
        # destination has a directory where the source has a file
        dspec[:] = [e for e in dspec if e["p"] != f["p"] and not e["p"].startswith(f["p"] + "/")]
        dspec.append({"p": f["p"], "k": "d"})
        affected.add(f["p"])
    if dirs and r.random() < 0.6:
        d = r.choice(dirs)
        dspec[:] = [e for e in dspec if e["p"] != d["p"] and not e["p"].startswith(d["p"] + "/")]
        dspec.append({"p": d["p"], "k": "f", "data": b"a file in the way", "mt_ns": 10**9})
        for e in sspec:
            if e["p"] == d["p"] or e["p"].startswith(d["p"] + "/"):
                affected.add(e["p"])
    # parents of the conflicting entries must exist in the destination spec
    have = set(e["p"] for e in dspec)
    for e in list(dspec):
        parts = e["p"].split("/")[:-1]
        for i in range(1, len(parts) + 1):
            p = "/".join(parts[:i])
            if p not in have:
                dspec.append({"p": p, "k": "d"}); have.add(p)
    return affected


def run(tier, seed):
    res = vlib.Result(PID, tier, seed)
    pr = proof_phase(res, PID)
    okm, outm = vlib.build_model()
    oki, outi, _ = vlib.build_impl()
    if not (okm and oki):
        res.violation("build", "build failed:\n" + (outi if not oki else outm)[-3000:], no_input=True)
        return res.finish()
    r = vlib.rng_for(seed, PID)
    n = 70 if tier == "quick" else 800
    cases, obs_l, raws, metas = [], [], [], []
    with vlib.Scratch() as sc:
        for i in range(n):
            sspec, dspec = ew.gen_world(r, with_big=(i % 3 == 0))
            affected = add_conflicts(r, sspec, dspec)
            if i % 4 == 1:
                # a chain of EMPTY directories below a path that is a regular file in the destination:
                # only directory-creation tasks fail (no file descendant reports the fault for them)
                top = "blk%d" % i
                sspec += [{"p": top, "k": "d"}, {"p": top + "/e1", "k": "d"}, {"p": top + "/e1/e2", "k": "d"}]
                dspec.append({"p": top, "k": "f", "data": b"in the way", "mt_ns": 10**9})
                affected |= {top, top + "/e1", top + "/e1/e2"}
            fl = ew.gen_flags(r, allow_delete=False)
            fl["maxerr"] = r.choice([100, 100, 0, 1, 2])
            base = os.path.join(sc.dir, "w%d" % i)
            src, dst = base + "/src", base + "/dst"
            ew.mk(src, sspec)
            ew.mk(dst, sorted(dspec, key=lambda e: (e["p"].count("/"), e["k"] != "d")))
            os.makedirs(src, exist_ok=True); os.makedirs(dst, exist_ok=True)
            ids = ew.Ids()
            case, obs, raw = ew.run_once(sc, src, dst, fl, ids)
            kv = dict(x.split("=", 1) for x in obs.split(" "))
            raw["nerr"] = int(kv["nerr"]); raw["refused"] = kv["refused"] == "1"; raw["affected"] = affected
            cases.append(case); obs_l.append(obs); raws.append(raw); metas.append((i, fl))
    model = [ew.model_obs(m) for m in vlib.run_model(cases)]
    known = {f["class"]: f for f in vlib.load_known()["findings"] if f["property"] == PID}
    diffs, viol, nontriv, hits = [], [], set(), {}
    for case, o, m, raw, (i, fl) in zip(cases, obs_l, model, raws, metas):
        # the error COUNT printed through tracing is not part of the comparison here (C19); compare the rest
        strip = lambda x: " ".join(t for t in x.split(" ") if not t.startswith("nerr="))
        if strip(o) != strip(m):
            diffs.append({"world": i, "flags": fl, "case": case, "impl": o, "model": m, "stderr": raw["stderr"]})
        kvm = dict(x.split("=", 1) for x in m.split(" "))
        planned_failed = int(kvm["nerr"]) > 0
        # (1) failure visible
        if planned_failed and raw["rc"] == 0 and strip(o) == strip(m):
            pass   # unreachable for a faithful implementation (the model exits non-zero); kept for clarity
        if planned_failed and raw["rc"] == 0:
            viol.append({"world": i, "flags": fl, "why": "a planned operation did not complete (model: %s errors) but the exit status is 0" % kvm["nerr"], "case": case, "impl": o})
        # (2) unaffected files correct / (3) exit 0 implies C01
        src, before, after = raw["src"], raw["before"], raw["after"]
        for rel, s in src.items():
            if rel in raw["affected"] or s["kind"] != "f":
                continue
            if any(rel.startswith(a + "/") for a in raw["affected"]):
                continue
            b = before.get(rel); b = b if (b and b["kind"] == "f") else None
            d = c01.differs_under_rule(fl, s, b)
            a = after.get(rel)
            if d is True and (a is None or a.get("sha") != s["sha"] or a.get("mtime_ns") != s["mtime_ns"]):
                viol.append({"world": i, "flags": fl, "why": "file %s is not affected by the fault but did not end up correct" % rel, "case": case, "impl": o})
        if raw["rc"] == 0:
            raw["nerr"] = 0
            for f in c01.c01_oracle(fl, raw, 0):
                v = {"world": i, "flags": fl, "why": "exit status 0 but the C01 postcondition fails: %s %s" % (f["path"], f["why"]), "case": case}
                conflict = f["path"] in raw["affected"] and "kind differs" in f["why"]
                if conflict and "type-conflict-skip" in known and strip(o) == strip(m):
                    hits.setdefault(known["type-conflict-skip"]["id"], []).append(v)
                else:
                    viol.append(v)
        if planned_failed:
            nontriv.add(o)
    res.cov["evaluations"] = len(cases)
    res.cov["distinct_nontrivial"] = len(nontriv)
    res.cov["model_impl_disagreements"] = len(diffs)
    res.cov["rule"] = ("C01 worlds with natural faults: a directory where the source has a file (EISDIR), a regular file where the source has a directory with children (ENOTDIR for every descendant), "
                       "error budgets 0/1/2/100; non-trivial = at least one planned operation fails")
    res.cov["samples"] = [c[:300] for c in cases[:2]] + [obs_l[0][:300]]
    res.cov["trusted_base"] = TRUSTED_COMMON + ["errno kinds are compared as (path, action) failures only", "EACCES cannot arise naturally (root); injected faults need the LD_PRELOAD shim"]
    res.cov["fault_injection"] = "natural faults only in this run"
    res.cov["known_finding_hits"] = {k: len(v) for k, v in hits.items()}
    for cls, f in known.items():
        h = hits.get(f["id"], [])
        if h:
            res.known.append("%s %s [%d cases this run, e.g. world %s]" % (f["id"], f["what"], len(h), h[0]["world"]))
    for v in viol[:3]:
        res.violation("world", v)
    if not viol and (diffs or pr["broken"]):
        what = list(pr["broken"]) + (["the binary differs from Engine.run on %d faulted runs; first: %s" % (len(diffs), json.dumps(diffs[0])[:1500])] if diffs else [])
        res.violation("unproved", {"no_failing_input_found": True, "what_no_longer_checks": what, "first_case": diffs[0] if diffs else None}, no_input=True)
    return res.finish()


def replay(path):
    return c01.replay(path)
