"""C11 -- bidirectional sync converges and never silently loses a version."""
import os, json, shutil
import vlib, bisync_common as bc
from common import proof_phase, TRUSTED_COMMON

PID = "C11"
ORACLE = staticmethod(bc.converge_oracle)


def gen_histories(seed, tier, pid):
    r = vlib.rng_for(seed, pid)
    hs = []
    kf = vlib.load_known()
    for f in kf["findings"]:
        if f["property"] == pid and f.get("witness", "").startswith("H "):
            hs.append(("corpus", f["witness"]))
    # first syncs of two arbitrary trees (empty state): every strategy
    n1 = 150 if tier == "quick" else 2500
    for _ in range(n1):
        steps = []
        for pid_ in bc.IDS + [16, 20]:
            for sd in "SD":
                if r.random() < 0.6:
                    steps.append("e:%s:%d:c:%d:%d" % (sd, pid_, r.choice([1, 2, 3, 5, 8]), r.randrange(1, 250)))
        r.shuffle(steps)
        st = r.choice(bc.STRATS)
        steps += ["s:%s:0" % st, "s:%s:0" % st, "s:%s:0" % st]
        hs.append(("first", ";".join(steps)))
    if pid == "C11":
        # (the quantifier's "equal sizes with different contents and equal mtimes") first syncs of trees whose files carry time
        # stamps of the writer's choosing (cp -p, rsync -t, archives): many equal pairs; then ordinary edits and syncs
        n3 = 150 if tier == "quick" else 2500
        for _ in range(n3):
            ws = []
            for pid_ in bc.IDS + [16]:
                for sd in "SD":
                    if r.random() < 0.7:
                        ws.append((sd, pid_, r.choice([2, 3, 3, 5]), r.randrange(1, 250)))
            k = max(1, len(ws))
            steps = ["w:%s:%d:%d:%d:%d" % (sd, p_, sz, c, r.randrange(1, min(k, 3) + 1)) for sd, p_, sz, c in ws]
            st = r.choice(bc.STRATS)
            steps += ["s:%s:0" % st, "s:%s:0" % st]
            if r.random() < 0.6:
                steps.append(bc.rand_history(r, 5))
            hs.append(("stamped", ";".join(steps)))
        # (the quantifier's "all prior sync states") the database loses the row of one side at some paths -- a database written
        # by an interrupted run or by an earlier version of sy -- before further edits and syncs
        n4 = 150 if tier == "quick" else 2500
        for _ in range(n4):
            steps = []
            for pid_ in bc.IDS:
                for sd in "SD":
                    if r.random() < 0.6:
                        steps.append("e:%s:%d:c:%d:%d" % (sd, pid_, r.choice([1, 2, 3, 5]), r.randrange(1, 250)))
            steps.append("s:%s:0" % r.choice(bc.STRATS))
            for pid_ in bc.IDS:
                if r.random() < 0.7:
                    steps.append("x:%s:%d" % (r.choice("SD"), pid_))
            for _e in range(r.randrange(0, 4)):
                steps.append("e:%s:%d:%s:%d:%d" % (r.choice("SD"), r.choice(bc.IDS), r.choice("cccdt"), r.choice([1, 2, 3, 5]), r.randrange(1, 250)))
            st = r.choice(bc.STRATS)
            steps += ["s:%s:0" % st, "s:%s:0" % st]
            hs.append(("row-loss", ";".join(steps)))
    # a version with an OLDER time stamp put back after a sync (cp -p of a backup, tar x, touch -d): same size, other bytes, a time stamp
    # well before the recorded one -- on one side, or on both
    n7 = 120 if tier == "quick" else 2000
    for _ in range(n7):
        steps = []
        ids = r.sample(bc.IDS, r.randrange(1, 3))
        for _pad in range(3):                            # the logical clock runs ahead first: every file below gets a stamp >= 4,
            steps.append("e:S:20:c:1:%d" % r.randrange(1, 250))   # so the stamps 0 and 1 used later are more than a second older than any row
        for pid_ in ids:
            sz = r.choice([3, 5])
            for sd in r.choice(["S", "D", "SD"]):
                steps.append("e:%s:%d:c:%d:%d" % (sd, pid_, sz, r.randrange(1, 250)))
        st = r.choice(bc.STRATS)
        steps += ["s:%s:0" % st, "s:%s:0" % st]
        for pid_ in ids:
            for sd in r.choice(["S", "D", "SD", "S"]):
                steps.append("w:%s:%d:%d:%d:%d" % (sd, pid_, r.choice([3, 5]), r.randrange(1, 250), r.randrange(0, 2)))
        if r.random() < 0.5:
            steps.append("e:%s:%d:c:%d:%d" % (r.choice("SD"), r.choice(ids), r.choice([3, 5, 8]), r.randrange(1, 250)))
        st = r.choice(bc.STRATS)
        steps += ["s:%s:0" % st, "s:%s:0" % st]
        hs.append(("backdated", ";".join(steps)))
    # two or three rename conflicts on the same path, back to back (the real runs fall into one wall-clock second): every
    # conflict copy must survive and reach the other side
    n6 = 40 if tier == "quick" else 600
    for _ in range(n6):
        steps = []
        pid_ = r.choice(bc.IDS)
        for ph in range(r.randrange(2, 4)):
            steps.append("e:S:%d:c:%d:%d" % (pid_, r.choice([3, 5]), r.randrange(1, 250)))
            steps.append("e:D:%d:c:%d:%d" % (pid_, r.choice([2, 7]), r.randrange(1, 250)))
            steps.append("s:rename:0")
            if r.random() < 0.5:
                steps.append("s:%s:0" % r.choice(bc.STRATS))
        steps += ["s:rename:0", "s:rename:0"]
        hs.append(("repeat-rename", ";".join(steps)))
    # several sync phases on one or two paths, deletions frequent: delete on both sides, re-create on one, ...
    n5 = 300 if tier == "quick" else 5000
    for _ in range(n5):
        steps = []
        ids = [4] if r.random() < 0.6 else [4, 8]
        for ph in range(r.randrange(3, 6)):
            for _e in range(r.randrange(1, 4)):
                kind = r.choice("ccddt")
                steps.append("e:%s:%d:%s:%d:%d" % (r.choice("SD"), r.choice(ids), kind, r.choice([3, 3, 5]), r.choice([7, 9, 11, 13])))
            steps.append("s:%s:0" % r.choice(bc.STRATS))
        hs.append(("phased", ";".join(steps)))
    # longer histories with prior sync states
    n2 = 250 if tier == "quick" else 4000
    for _ in range(n2):
        hs.append(("history", bc.rand_history(r, 9)))
    return hs


def binary_worlds(sc, r, tier):
    """Shapes the id-based model does not express (what else sits at a receiving path, which names are taken), through the binary
    `sy --bidirectional`: every version present before a run must exist afterwards on at least one side (as the path's content or as
    a conflict copy), the runs report no error, and nothing outside the two roots changes."""
    import world
    viol, n = [], 0

    def versions(*roots):
        out = set()
        for root in roots:
            for d, _, fs in os.walk(root):
                for f in fs:
                    fp = os.path.join(d, f)
                    if os.path.isfile(fp) and not os.path.islink(fp):
                        out.add(open(fp, "rb").read())
        return out

    def put(path, data, mt=None):
        os.makedirs(os.path.dirname(path), exist_ok=True)
        with open(path, "wb") as fh:
            fh.write(data)
        if mt is not None:
            os.utime(path, ns=(mt * 10**9, mt * 10**9))

    reps = 2 if tier == "quick" else 10
    for k in range(reps):
        for strat in r.sample(bc.STRATS, 2 if tier == "quick" else 6):
            # (1) the receiving file has a second name (another synchronised path g, or a name outside the roots)
            base = os.path.join(sc.dir, "bw-link-%d-%s" % (k, strat)); A, B, out = base + "/A", base + "/B", base + "/out"
            put(A + "/f", b"same"); put(A + "/g", b"same"); put(B + "/f", b"same"); os.link(B + "/f", B + "/g")
            put(out + "/keep", b"x"); os.link(B + "/f", out + "/snapshot")
            r1 = world.run_sy(["--bidirectional", A, B, "-q", "--conflict-resolve", strat], sc)
            put(A + "/f", b"new-f-content")
            before = versions(A, B) - {b"same"} | {b"same"}
            r2 = world.run_sy(["--bidirectional", A, B, "-q", "--conflict-resolve", strat], sc)
            r3 = world.run_sy(["--bidirectional", A, B, "-q", "--conflict-resolve", strat], sc)
            n += 1
            why = []
            if open(out + "/snapshot", "rb").read() != b"same":
                why.append("a name OUTSIDE both roots (a hard link of the receiving file) changed")
            for g in (A + "/g", B + "/g"):
                if not os.path.isfile(g) or open(g, "rb").read() != b"same":
                    why.append("g, which nobody edited, no longer holds its content on %s" % g[-3:])
            if why and all(x["rc"] == 0 for x in (r1, r2, r3)):
                viol.append({"world": "receiving file has a second name", "strategy": strat, "why": "; ".join(why)})
            # (2) the receiving path is a symbolic link to another synchronised file / to a file outside the roots
            for inside in (True, False):
                base = os.path.join(sc.dir, "bw-sym-%d-%s-%d" % (k, strat, inside)); A, B, out = base + "/A", base + "/B", base + "/out"
                put(A + "/g", b"GGGG", 1000); put(B + "/g", b"GGGG", 1000); put(out + "/target", b"precious", 1000)
                os.makedirs(B, exist_ok=True)
                os.symlink("g" if inside else out + "/target", B + "/f")
                put(A + "/f", b"AAAAAA")
                rr = [world.run_sy(["--bidirectional", A, B, "-q", "--conflict-resolve", strat], sc) for _ in range(2)]
                n += 1
                why = []
                if open(out + "/target", "rb").read() != b"precious":
                    why.append("a file OUTSIDE both roots was written through the link")
                if b"GGGG" not in versions(A, B):
                    why.append("the version GGGG of g, which nobody edited, exists on neither side")
                if why and all(x["rc"] == 0 for x in rr):
                    viol.append({"world": "receiving path is a symbolic link (%s)" % ("inside" if inside else "outside"), "strategy": strat, "why": "; ".join(why)})
        # (4) a directory on one side, a file on the other: the roots cannot converge there, so the run must not report success
        base = os.path.join(sc.dir, "bw-kind-%d" % k); A, B = base + "/A", base + "/B"
        put(A + "/p/x", b"x"); put(B + "/p/x", b"x"); put(A + "/k", b"k"); put(B + "/k", b"k")
        world.run_sy(["--bidirectional", A, B, "-q", "--max-delete", "0"], sc)
        side = A if k % 2 == 0 else B
        os.remove(side + "/p/x"); os.rmdir(side + "/p"); put(side + "/p", b"now a file")
        rr = [world.run_sy(["--bidirectional", A, B, "-q", "--max-delete", "0"], sc) for _ in range(2)]
        n += 1
        if rr[-1]["rc"] == 0 and os.path.isfile(A + "/p") != os.path.isfile(B + "/p"):
            viol.append({"world": "directory replaced by a file on one side", "why": "the second run after the change exits 0 and the roots differ at p (a file on one side, a directory on the other)"})
        # (5) a time stamp before 1970 (a file restored from an old archive): the run must work, and the state it records must be usable
        base = os.path.join(sc.dir, "bw-1965-%d" % k); A, B = base + "/A", base + "/B"
        put(A + "/a_old", b"old", -152668800 - k); put(A + "/k", b"k"); put(A + "/z", b"z"); os.makedirs(B, exist_ok=True)
        r1 = world.run_sy(["--bidirectional", A, B, "-q"], sc)
        if os.path.exists(B + "/z"):
            os.remove(B + "/z")
        r2 = world.run_sy(["--bidirectional", A, B, "-q", "--max-delete", "0"], sc)
        n += 1
        if r1["rc"] != 0 or r2["rc"] != 0 or os.path.exists(A + "/z") or not os.path.exists(B + "/a_old"):
            viol.append({"world": "time stamp before 1970", "why": "exit %s/%s (stderr %r); after the one-sided deletion of z: A has z=%s, B has a_old=%s"
                         % (r1["rc"], r2["rc"], (r1["err"] + r2["err"])[-200:], os.path.exists(A + "/z"), os.path.exists(B + "/a_old"))})
        # (6) an ignore file appears on one side and hides a synchronised file there (and a never-synchronised one): nobody deleted or
        # edited anything else, so every version must still be there afterwards
        for strat in r.sample(bc.STRATS, 2):
            base = os.path.join(sc.dir, "bw-ign-%d-%s" % (k, strat)); A, B = base + "/A", base + "/B"
            put(A + "/f", b"v0"); put(A + "/keep", b"keep"); os.makedirs(B, exist_ok=True)
            world.run_sy(["--bidirectional", A, B, "-q"], sc)
            side, other = (A, B) if k % 2 == 0 else (B, A)
            put(side + "/f", b"edit-on-the-hiding-side"); put(other + "/f", b"edit-on-the-other-side!")
            put(side + "/g", b"g-here"); put(other + "/g", b"g-there-longer")
            put(side + "/.ignore", b"f\ng\n")
            before = versions(A, B)
            rr = [world.run_sy(["--bidirectional", A, B, "-q", "--conflict-resolve", strat, "--max-delete", "0"], sc) for _ in range(2)]
            n += 1
            lost = before - versions(A, B)
            if lost and all(x["rc"] == 0 for x in rr):
                viol.append({"world": "ignore file hides synchronised files on one side", "strategy": strat, "why": "versions on neither side after two error-free runs: %r" % sorted(lost)[:3]})
        # (7) (faa3381) the same relative spelling `a b` in two different directories names two different pairs; and one pair typed in two
        # ways (`a b`, `a/ b/`, `./a ./b`) is one pair
        base = os.path.join(sc.dir, "bw-spell-%d" % k); X, Y = base + "/X", base + "/Y"
        put(X + "/a/f", b"x-f"); put(X + "/b/g", b"x-g"); put(Y + "/a/f", b"y-f-never-synchronised"); put(Y + "/a/h", b"y-h"); put(Y + "/b/k", b"y-k")
        r1 = world.run_sy(["--bidirectional", "a", "b", "-q"], sc, cwd=X)
        before = versions(Y + "/a", Y + "/b")
        r2 = world.run_sy(["--bidirectional", "a", "b", "-q"], sc, cwd=Y)
        n += 1
        lost = before - versions(Y + "/a", Y + "/b")
        if lost and r2["rc"] == 0:
            viol.append({"world": "the same spelling `a b` in two directories", "why": "after `sy -b a b` in one directory, the first `sy -b a b` in ANOTHER directory lost versions %r with exit 0 (it used the first pair's state)" % sorted(lost)[:3]})
        os.remove(X + "/a/g") if os.path.exists(X + "/a/g") else None
        spelled = [["a/", "b/"], ["./a", "./b"], [X + "/a", X + "/b"]][k % 3]
        r3 = world.run_sy(["--bidirectional"] + spelled + ["-q", "--max-delete", "0"], sc, cwd=X)
        n += 1
        if r3["rc"] == 0 and (os.path.exists(X + "/a/g") or os.path.exists(X + "/b/g")):
            viol.append({"world": "one pair typed in two ways", "why": "g was synchronised by `sy -b a b`, deleted on one side, and `sy -b %s` brought it back (a=%s b=%s): the second spelling opened another state database" % (" ".join(spelled), os.path.exists(X + "/a/g"), os.path.exists(X + "/b/g"))})
        # (8) (the symbolic-link repair of round 4) a symbolic link to a file on one side: three runs under each strategy leave the link a
        # link, make no conflict copy, and the listing of both roots is the same after run 1 as after run 3
        for strat in r.sample(bc.STRATS, 2):
            base = os.path.join(sc.dir, "bw-symf-%d-%s" % (k, strat)); A, B = base + "/A", base + "/B"
            put(A + "/t", b"target"); os.makedirs(B, exist_ok=True); os.symlink("t", A + "/l"); put(B + "/m", b"other"); os.symlink("m", B + "/l2")
            lists = []
            for _ in range(3):
                rr_ = world.run_sy(["--bidirectional", A, B, "-q", "--conflict-resolve", strat], sc)
                lists.append((rr_["rc"], sorted(os.listdir(A)), sorted(os.listdir(B))))
            n += 1
            if lists[0] != lists[2] or not os.path.islink(A + "/l") or not os.path.islink(B + "/l2") or any("conflict" in x for x in lists[2][1] + lists[2][2]):
                viol.append({"world": "a symbolic link to a file on one side", "strategy": strat, "why": "three runs: %r; A/l is a link: %s, B/l2 is a link: %s" % (lists, os.path.islink(A + "/l"), os.path.islink(B + "/l2"))})
        # (3) the conflict name the rename strategy is about to take is a file of the user's on the OTHER side
        import time
        base = os.path.join(sc.dir, "bw-cname-%d" % k); A, B = base + "/A", base + "/B"
        put(A + "/f.txt", b"AAAA-version-of-source"); put(B + "/f.txt", b"BBBB-dest")
        now = int(time.time())
        for t in range(now, now + 4):
            put(B + "/f.conflict-%d-source.txt" % t, b"user file %d" % (t - now))
            put(A + "/f.conflict-%d-dest.txt" % t, b"user file' %d" % (t - now))
        before = versions(A, B)
        rr = world.run_sy(["--bidirectional", A, B, "-q", "--conflict-resolve", "rename"], sc)
        n += 1
        lost = before - versions(A, B)
        if lost and rr["rc"] == 0:
            viol.append({"world": "conflict names taken on the other side", "strategy": "rename", "why": "versions that exist on neither side after one error-free run: %r" % sorted(lost)[:3]})
    return viol, n


def error_run_worlds(sc, r, tier):
    """(seed C12-4) histories in which EVERY run reports an error on an unrelated path (a directory on one side whose name is a regular
    file on the other: the copy of what is below it fails each time).  The healthy paths of the pair must be merged as ever: a file
    created, synchronised and then deleted on one side is not resurrected; an edit on one side is propagated, not reverted."""
    import world
    viol, n = [], 0

    def put(path, data, mt=None):
        os.makedirs(os.path.dirname(path), exist_ok=True)
        with open(path, "wb") as fh:
            fh.write(data)
        if mt is not None:
            os.utime(path, ns=(mt * 10**9, mt * 10**9))
    strats = bc.STRATS if tier != "quick" else r.sample(bc.STRATS, 3)
    for k, strat in enumerate(strats):
        base = os.path.join(sc.dir, "bw-err-%d" % k); A, B = base + "/A", base + "/B"
        side, other = (A, B) if k % 2 == 0 else (B, A)
        put(side + "/blocked/inner.txt", b"cannot be copied", 1000); put(other + "/blocked", b"a regular file in the way", 1000)
        put(A + "/base", b"common", 1000); put(B + "/base", b"common", 1000)
        put(side + "/h1", b"created on one side", 2000)
        put(A + "/h2", b"h2 v0", 2000); put(B + "/h2", b"h2 v0", 2000)
        args = ["--bidirectional", A, B, "-q", "--conflict-resolve", strat, "--max-delete", "0"]
        r1 = world.run_sy(args, sc)
        ok1 = os.path.isfile(other + "/h1")
        os.remove(side + "/h1")                                  # deleted on the side that created it
        put(side + "/h2", b"h2 edited on one side, longer", 3000)
        r2 = world.run_sy(args, sc)
        put(other + "/h2", b"h2 then edited on the OTHER side, longer still", 4000)
        r3 = world.run_sy(args, sc)
        n += 1
        why = []
        if not ok1:
            why.append("run 1 did not copy h1 across (exit %s)" % r1["rc"])
        if os.path.exists(A + "/h1") or os.path.exists(B + "/h1"):
            why.append("h1 was deleted on the side that had created it, after a sync: it is back / still there (A=%s B=%s)" % (os.path.exists(A + "/h1"), os.path.exists(B + "/h1")))
        want = b"h2 then edited on the OTHER side, longer still"
        got = [open(x + "/h2", "rb").read() if os.path.isfile(x + "/h2") else None for x in (A, B)]
        if got != [want, want]:
            why.append("h2 was edited on one side, synchronised, then edited on the other side only: the one-sided edit was not propagated (A=%r B=%r)" % tuple(g[:24] if g else g for g in got))
        if why:
            viol.append({"world": "every run reports an error on an unrelated path", "strategy": strat, "exit": [r1["rc"], r2["rc"], r3["rc"]], "why": "; ".join(why)})
        shutil.rmtree(base, ignore_errors=True)
    return viol, n


def run_generic(pid, oracle, tier, seed, exhaustive_depth=None):
    res = vlib.Result(pid, tier, seed)
    pr = proof_phase(res, pid)
    okm, outm = vlib.build_model()
    oki, outi, _ = vlib.build_impl()
    if not (okm and oki):
        res.violation("build", "build failed:\n" + (outi if not oki else outm)[-3000:], no_input=True)
        return res.finish()
    known = [f for f in vlib.load_known()["findings"] if f["property"] == pid]
    kclasses = {f["class"]: f for f in known}
    with vlib.Scratch() as sc:
        # (A) classifier + resolver, exhaustive over the order domain
        kcases = bc.gen_classify_cases()
        ki, km = bc.run_pair(kcases, sc)
        kdiff = [(c, a, b) for c, a, b in zip(kcases, ki, km) if a != b]
        # (B) histories on real directories
        hs = gen_histories(seed, tier, pid)
        if exhaustive_depth:
            hs += [("exhaustive", h) for h in bc.exhaustive_histories(exhaustive_depth)]
        lines = ["H " + h if not h.startswith("H ") else h for _, h in hs]
        hi, hm = bc.run_pair(lines, sc)
        # the model is indifferent to names; the implementation must be too: every third history again on name tables
        # that put a path next to the names a working file, backup or conflict copy derived from it could take
        # (r.txt / r.tmp / r / r.txt.tmp / .r.txt.tmp / r.txt~ / r.bak ...; adv4: names that are not valid UTF-8, pairwise equal in their lossy form), judged against the same model output
        n0 = len(lines)
        for k, mode in enumerate(["adv1", "adv2", "adv3", "adv4"]):
            idx = list(range(k, n0, 12 if tier == "quick" else 4))
            env = dict(sc.env)
            env["H_BISYNC_NAMES"] = mode
            sub = vlib.run_sharded([os.path.join(vlib.BIN, "h_bisync")], [lines[i] for i in idx], env=env)
            for i, a in zip(idx, sub):
                hs.append((hs[i][0] + "+names-" + mode, hs[i][1]))
                lines.append(lines[i])
                hi.append(a)
                hm.append(hm[i])
        bw_viol, bw_n = binary_worlds(sc, vlib.rng_for(seed, pid + "-bw"), tier)       # (both properties: the worlds hold three-way-merge clauses too)
        ev_, en_ = error_run_worlds(sc, vlib.rng_for(seed, pid + "-err"), tier)
        bw_viol += ev_; bw_n += en_
    hdiff, viol, kf_hits = [], [], {}
    viol += bw_viol
    nontrivial = set()
    skipped_clock = 0
    for (fam, h), line, a, b in zip(hs, lines, hi, hm):
        if bc.repeated_rename_conflict(a):
            viol.append({"family": fam, "history": line, "why": "a conflict copy made by an earlier run was replaced by a later rename: that version exists nowhere any more", "implementation": a, "model": b})
            continue
        if a != b:
            hdiff.append((line, a, b))
        snaps = bc.parse_out(a)
        if snaps is None or a in ("PANIC", "BADCASE") or a.startswith("CRASH"):
            viol.append({"family": fam, "history": line, "why": "implementation crashed or printed garbage: %s" % a[:200]})
            continue
        hist = line[2:]
        fails = oracle(hist, snaps)
        if snaps and any(s[0] == "ok" and (s[1] or s[2]) for s in snaps):
            nontrivial.add(a)
        for f in fails:
            k = f["klass"]
            if k in kclasses and a == b:
                kf_hits.setdefault(kclasses[k]["id"], []).append((line, f))
            else:
                viol.append({"family": fam, "history": line, "failure": f, "implementation": a, "model": b,
                             "note": "outside every listed known-finding class" if k not in kclasses else "in class %s but the implementation no longer behaves as the model of the pinned code" % k})
    res.cov["evaluations"] = len(kcases) + len(lines)
    res.cov["classifier_cases"] = len(kcases)
    res.cov["histories"] = len(lines)
    res.cov["binary_worlds_links_symlinks_taken_names"] = bw_n
    res.cov["histories_skipped_repeated_rename_conflict"] = skipped_clock
    res.cov["families"] = {f: sum(1 for x, _ in hs if x == f) for f in set(x for x, _ in hs)}
    res.cov["distinct_nontrivial"] = len(nontrivial) + len(set(ki))
    res.cov["model_impl_disagreements"] = len(kdiff) + len(hdiff)
    res.cov["known_finding_hits"] = {k: len(v) for k, v in kf_hits.items()}
    res.cov["rule"] = ("(A) classify_changes+resolve_changes on fabricated metadata: presence pattern x (size,mtime) from an ordered domain x 6 strategies, exhaustive; "
                       "(B) edit/sync histories on real directories through BisyncEngine::sync (private XDG_CACHE_HOME), snapshots of both roots and the state DB after every sync "
                       "compared with the model; specification oracle evaluated on the implementation's snapshots. non-trivial = at least one successful sync over non-empty trees; "
                       "distinct = distinct observed outcomes")
    res.cov["samples"] = [kcases[100], lines[0], lines[len(lines) // 2]]
    res.cov["trusted_base"] = TRUSTED_COMMON + ["SQLite as a finite map keyed by (path, side)", "std::fs::copy gives the target a fresh mtime; rename keeps it (normalised by the harness to the logical clock)"]
    for f in known:
        hits = kf_hits.get(f["id"], [])
        # the witness itself must still fail, otherwise the entry is stale (reported, not suppressed)
        if hits:
            res.known.append("%s %s [%d cases this run, e.g. %s]" % (f["id"], f["what"], len(hits), hits[0][0]))
        else:
            res.notes.append("listed finding %s was not reproduced by this run (stale entry or repaired)" % f["id"])
    for v in viol[:3]:
        res.violation("history", v)
    if not viol and (kdiff or hdiff or pr["broken"]):
        what = list(pr["broken"])
        if kdiff:
            what.append("classify/resolve differs from the model on %d cases; first: %s impl=%s model=%s" % (len(kdiff), kdiff[0][0], kdiff[0][1], kdiff[0][2]))
        if hdiff:
            what.append("BisyncEngine::sync differs from the model on %d histories; first: %s | impl=%s | model=%s" % (len(hdiff), hdiff[0][0], hdiff[0][1][:300], hdiff[0][2][:300]))
        res.violation("unproved", {"no_failing_input_found": True, "what_no_longer_checks": what}, no_input=True)
    return res.finish()


def run(tier, seed):
    return run_generic(PID, bc.converge_oracle, tier, seed)


def replay(path):
    d = json.load(open(path))
    print(json.dumps(d, indent=1)[:4000])
    h = d.get("history")
    if h:
        vlib.build_model(); vlib.build_impl()
        with vlib.Scratch() as sc:
            fam = d.get("family", "")
            if "+names-" in fam:
                sc.env["H_BISYNC_NAMES"] = fam.split("+names-")[1]
            a, b = bc.run_pair([h], sc)
        print("impl :", a[0]); print("model:", b[0])
        print("oracle failures:", bc.converge_oracle(h[2:], bc.parse_out(a[0]) or []))
    return 0
