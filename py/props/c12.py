"""C12 -- bidirectional sync is a correct three-way merge across any history."""
import json
import vlib, bisync_common as bc
import c11

PID = "C12"


def run(tier, seed):
    return c11.run_generic(PID, bc.merge_oracle, tier, seed, exhaustive_depth=(3 if tier == "quick" else 4))


def replay(path):
    d = json.load(open(path))
    print(json.dumps(d, indent=1)[:4000])
    h = d.get("history")
    if h:
        vlib.build_model(); vlib.build_impl()
        with vlib.Scratch() as sc:
            a, b = bc.run_pair([h], sc)
        print("impl :", a[0]); print("model:", b[0])
        print("oracle failures:", bc.merge_oracle(h[2:], bc.parse_out(a[0]) or []))
    return 0
